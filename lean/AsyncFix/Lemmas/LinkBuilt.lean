import AsyncFix.Lemmas.LinkFrames

/-!
C07: the session-level frames the endpoints build (Logon, Logout, ResendRequest, SequenceReset-GapFill) and
application frames: well-formedness and abstraction.
-/
namespace AsyncFix.Link

open AsyncFix.Session AsyncFix.Generated AsyncFix.Generated.ConnEnum
open AsyncFix.Session.Msg

def resendReqMsg (b : Int) : Msg := Msg.mk' mResendRequest [(tBeginSeqNo, pyStr b), (tEndSeqNo, "0")]
def logonReplyMsg (e h : String) : Msg := Msg.mk' mLogon [(tEncryptMethod, e), (tHeartBtInt, h)]

section
variable (s : Session) (stamp : String) (n : Int)

local macro "other_tac" : tactic =>
  `(tactic| (refine ⟨?_, ?_, ?_, ?_, ?_, ?_, ?_, ?_⟩ <;> decide))

theorem get?_build_43_of_none {m : Msg} (h : m.get? tPossDupFlag = none) :
    (buildFrame s stamp m n).get? tPossDupFlag = none := by
  rw [get?_build_other s stamp m n tPossDupFlag (by other_tac), h]

/-! #### ResendRequest -/

theorem absFrame_build_resend (b : Int) :
    absFrame (buildFrame s stamp (resendReqMsg b) n) = ⟨n, .resend b⟩ := by
  have h7 : (buildFrame s stamp (resendReqMsg b) n).get? tBeginSeqNo = some (pyStr b) := by
    rw [get?_build_other s stamp _ n tBeginSeqNo (by other_tac)]; rfl
  have hk := absFrame_resend (f := buildFrame s stamp (resendReqMsg b) n) rfl h7
  have hs := absFrame_seq (get?_build_34 s stamp (resendReqMsg b) n)
  cases hf : absFrame (buildFrame s stamp (resendReqMsg b) n) with
  | mk sq kd => rw [hf] at hk hs; simp_all

theorem kindOK_build_resend (b : Int) : KindOK (buildFrame s stamp (resendReqMsg b) n) := by
  unfold KindOK
  rw [buildFrame_mtype]
  have e1 : (resendReqMsg b).mtype ≠ mLogon := by show mResendRequest ≠ mLogon; decide
  have e2 : (resendReqMsg b).mtype = mResendRequest := rfl
  rw [if_neg e1, if_pos e2]
  refine ⟨⟨b, ?_⟩, ?_, ?_⟩
  · rw [get?_build_other s stamp _ n tBeginSeqNo (by other_tac)]; rfl
  · rw [get?_build_other s stamp _ n tEndSeqNo (by other_tac)]; rfl
  · exact get?_build_43_of_none s stamp n rfl

theorem latin1_build_resend (b : Int) (h1 : isLatin1 s.sender = true) (h2 : isLatin1 s.target = true)
    (h3 : isLatin1 stamp = true) : frameLatin1 (buildFrame s stamp (resendReqMsg b) n) = true :=
  frameLatin1_build h1 h2 h3 (by show isLatin1 mResendRequest = true; decide) (by simp [resendReqMsg, Msg.mk', isLatin1_pyStr]; decide)

/-! #### Logon -/

theorem absFrame_build_logon (m : Msg) (hm : m.mtype = mLogon) :
    absFrame (buildFrame s stamp m n) = ⟨n, .logon⟩ := by
  have hk := absFrame_logon (f := buildFrame s stamp m n) hm
  have hs := absFrame_seq (get?_build_34 s stamp m n)
  cases hf : absFrame (buildFrame s stamp m n) with
  | mk sq kd => rw [hf] at hk hs; simp_all

theorem kindOK_build_logon (e h : String) : KindOK (buildFrame s stamp (logonReplyMsg e h) n) := by
  unfold KindOK
  rw [buildFrame_mtype, if_pos (by rfl)]
  refine ⟨?_, ?_, get?_build_43_of_none s stamp n rfl⟩
  · rw [Msg.has, get?_build_other s stamp _ n tEncryptMethod (by other_tac)]; rfl
  · rw [Msg.has, get?_build_other s stamp _ n tHeartBtInt (by other_tac)]; rfl

theorem latin1_build_logon (e h : String) (h1 : isLatin1 s.sender = true) (h2 : isLatin1 s.target = true)
    (h3 : isLatin1 stamp = true) (he : isLatin1 e = true) (hh : isLatin1 h = true) :
    frameLatin1 (buildFrame s stamp (logonReplyMsg e h) n) = true :=
  frameLatin1_build h1 h2 h3 (by show isLatin1 mLogon = true; decide) (by simp [logonReplyMsg, Msg.mk', he, hh])

/-! #### Logout -/

theorem absFrame_build_logout (text : String) :
    absFrame (buildFrame s stamp (logoutMsg text) n) = ⟨n, .logout⟩ := by
  have hk := absFrame_logout (f := buildFrame s stamp (logoutMsg text) n) rfl
  have hs := absFrame_seq (get?_build_34 s stamp (logoutMsg text) n)
  cases hf : absFrame (buildFrame s stamp (logoutMsg text) n) with
  | mk sq kd => rw [hf] at hk hs; simp_all

theorem kindOK_build_logout (text : String) : KindOK (buildFrame s stamp (logoutMsg text) n) := by
  unfold KindOK
  rw [buildFrame_mtype]
  have e1 : (logoutMsg text).mtype ≠ mLogon := by show mLogout ≠ mLogon; decide
  have e2 : (logoutMsg text).mtype ≠ mResendRequest := by show mLogout ≠ mResendRequest; decide
  have e3 : (logoutMsg text).mtype ≠ mSequenceReset := by show mLogout ≠ mSequenceReset; decide
  have e4 : (logoutMsg text).mtype = mLogout := rfl
  rw [if_neg e1, if_neg e2, if_neg e3, if_pos e4]
  apply get?_build_43_of_none
  unfold logoutMsg Msg.mk'
  by_cases h : text == "" <;> simp [h, Msg.get?, Msg.lookup, tText, tPossDupFlag]

theorem latin1_build_logout (text : String) (h1 : isLatin1 s.sender = true) (h2 : isLatin1 s.target = true)
    (h3 : isLatin1 stamp = true) (ht : isLatin1 text = true) :
    frameLatin1 (buildFrame s stamp (logoutMsg text) n) = true :=
  frameLatin1_build h1 h2 h3 (by show isLatin1 mLogout = true; decide) (by unfold logoutMsg Msg.mk'; by_cases h : text == "" <;> simp [h, ht])

/-! #### SequenceReset-GapFill -/

theorem absFrame_build_gapFill (nw : Int) :
    absFrame (buildFrame s stamp (gapFillMsg n nw) n) = ⟨n, .gapFill nw⟩ := by
  have h36 : (buildFrame s stamp (gapFillMsg n nw) n).get? tNewSeqNo = some (pyStr nw) := by
    rw [get?_build_other s stamp _ n tNewSeqNo (by other_tac)]; rfl
  have hk := absFrame_gapFill (f := buildFrame s stamp (gapFillMsg n nw) n) rfl h36
  have hs := absFrame_seq (get?_build_34 s stamp (gapFillMsg n nw) n)
  cases hf : absFrame (buildFrame s stamp (gapFillMsg n nw) n) with
  | mk sq kd => rw [hf] at hk hs; simp_all

theorem kindOK_build_gapFill (nw : Int) : KindOK (buildFrame s stamp (gapFillMsg n nw) n) := by
  unfold KindOK
  rw [buildFrame_mtype]
  have e1 : (gapFillMsg n nw).mtype ≠ mLogon := by show mSequenceReset ≠ mLogon; decide
  have e2 : (gapFillMsg n nw).mtype ≠ mResendRequest := by show mSequenceReset ≠ mResendRequest; decide
  have e3 : (gapFillMsg n nw).mtype = mSequenceReset := rfl
  rw [if_neg e1, if_neg e2, if_pos e3]
  refine ⟨?_, ⟨nw, ?_⟩, get?_build_43_of_none s stamp n rfl⟩
  · rw [get?_build_other s stamp _ n tGapFillFlag (by other_tac)]; rfl
  · rw [get?_build_other s stamp _ n tNewSeqNo (by other_tac)]; rfl

theorem latin1_build_gapFill (nw : Int) (h1 : isLatin1 s.sender = true) (h2 : isLatin1 s.target = true)
    (h3 : isLatin1 stamp = true) : frameLatin1 (buildFrame s stamp (gapFillMsg n nw) n) = true :=
  frameLatin1_build h1 h2 h3 (by show isLatin1 mSequenceReset = true; decide) (by simp [gapFillMsg, Msg.mk', isLatin1_pyStr]; decide)

end

/-- a session-level frame's journal row abstracts to `none` -/
theorem absRow_session {n : Int} {f : Msg} (h : f.mtype = mLogon ∨ f.mtype = mResendRequest ∨
    f.mtype = mSequenceReset ∨ f.mtype = mLogout) : absRow (n, f) = (n, none) := by
  unfold absRow
  rcases h with h | h | h | h <;> simp [h, noReplay, mLogon, mResendRequest, mSequenceReset, mLogout]

end AsyncFix.Link
