import AsyncFix.Lemmas.SessionInMsg

/-!
C04 helper: one `recv` at top level, the other events, and the history invariant.
-/
namespace AsyncFix.Session
open AsyncFix.Generated AsyncFix.Generated.ConnEnum

/-- `recv` satisfies the `_process_message` summary -/
theorem recv_msgOk (sr : Msg → Bool) (env : Env) (c : Conn) (m : Msg) :
    MsgOk c m (recv sr env c m).1.sess.nextIn (deliveries (recv sr env c m).2) := by
  have := (processMessage_spec env sr m c).elim
  unfold MsgPost at this
  unfold recv M.run
  rcases h : processMessage env sr m c with ⟨r, c1, e1⟩
  rw [h] at this
  cases r <;> simpa [deliveries] using this

/-- the peer-triggered backward move of the expected number (finding D6): a Reset-mode SequenceReset
whose NewSeqNo is below the expected number -/
def backwardReset (c : Conn) (m : Msg) : Bool :=
  m.mtype == mSequenceReset && !isGapFill m && (newSeqOf m).any (fun nw => decide (nw < c.sess.nextIn))

theorem moves_forward {c : Conn} {m : Msg} {k : Int} (h : Moves c m k) (hb : backwardReset c m = false) :
    c.sess.nextIn ≤ k := by
  rcases h with h | ⟨-, -, h⟩ | ⟨hm, n, hn, hk, hg⟩
  · omega
  · omega
  · cases hgf : isGapFill m
    · simp [backwardReset, hm, hgf, hk] at hb
      omega
    · have := hg hgf
      omega

/-- summary of one step of a history: the expected number does not go back; at most one message is
delivered, its number is the number that was expected, and the expectation has moved past it -/
def StepOk (c c' : Conn) (e : List Effect) : Prop :=
  c.sess.nextIn ≤ c'.sess.nextIn ∧
  (deliveries e = [] ∨
    ∃ m, deliveries e = [m] ∧ seqOf m = some c.sess.nextIn ∧ c'.sess.nextIn = c.sess.nextIn + 1)

/-- events that may appear in the histories of the C04 theorems: everything except a backward reset
from the peer and the application's own `reset_seq_num()` (which restarts the numbering at 1) -/
def okEvent (c : Conn) : Event → Bool
  | .recv _ m => !backwardReset c m
  | .resetSeq => false
  | _ => true

theorem step_ok (sr : Msg → Bool) (c : Conn) (ev : Event) (h : okEvent c ev = true) :
    StepOk c (step sr c ev).1 (step sr c ev).2 := by
  have q : ∀ {α} {x : M α}, Sat Quiet x → StepOk c (x.run c).1 (x.run c).2 := by
    intro α x hx
    have := hx.run_quiet c
    exact ⟨by omega, Or.inl this.2⟩
  cases ev with
  | recv env m =>
    have hb : backwardReset c m = false := by simpa [okEvent] using h
    obtain ⟨hd, hm⟩ := recv_msgOk sr env c m
    refine ⟨moves_forward hm hb, ?_⟩
    rcases hd with hd | ⟨hd, hs, -, -, -, hk⟩
    · exact Or.inl hd
    · exact Or.inr ⟨m, hd, hs, hk⟩
  | appSend env m => exact q (sendMsg_quiet env m)
  | appTestReq env => exact q (sendTestReq_quiet env)
  | appDisconnect env d l => exact q (disconnect_quiet env d l)
  | tick env => exact q (tickBody_quiet env)
  | eof env =>
    show StepOk c (eof env c).1 (eof env c).2
    unfold eof
    split
    · exact q (disconnect_quiet env _ none)
    · exact ⟨by simp, Or.inl rfl⟩
  | connected k => exact q (connectedM_quiet k)
  | resetSeq => simp [okEvent] at h

/-- the hypothesis of the history theorem, evaluated along the run -/
def noBackward (sr : Msg → Bool) : Conn → List Event → Bool
  | _, [] => true
  | c, ev :: rest => okEvent c ev && noBackward sr (step sr c ev).1 rest

/-- MsgSeqNums of the delivered messages -/
def deliveredNums (e : List Effect) : List (Option Int) := (deliveries e).map seqOf

/-- invariant of a run: the expected number never went back; the delivered numbers are proper numbers,
strictly increasing, at least the initial expectation and below the final one -/
def RunOk (c c' : Conn) (e : List Effect) : Prop :=
  c.sess.nextIn ≤ c'.sess.nextIn ∧
  ∃ ns : List Int, deliveredNums e = ns.map some ∧ ns.Pairwise (· < ·) ∧
    ∀ n ∈ ns, c.sess.nextIn ≤ n ∧ n < c'.sess.nextIn

theorem run_ok (sr : Msg → Bool) (hist : List Event) (c : Conn) (h : noBackward sr c hist = true) :
    RunOk c (run sr c hist).1 (run sr c hist).2 := by
  induction hist generalizing c with
  | nil => exact ⟨by simp [run], [], rfl, List.Pairwise.nil, by simp⟩
  | cons ev rest ih =>
    simp only [noBackward, Bool.and_eq_true] at h
    obtain ⟨h1, hrest⟩ := step_ok sr c ev h.1
    obtain ⟨h2, ns, hns, hpw, hbd⟩ := ih _ h.2
    simp only [run]
    refine ⟨by omega, ?_⟩
    rcases hrest with hd | ⟨m, hd, hs, hk⟩
    · refine ⟨ns, by simpa [deliveredNums, hd] using hns, hpw, fun n hn => ?_⟩
      have := hbd n hn
      omega
    · refine ⟨c.sess.nextIn :: ns, by simpa [deliveredNums, hd, hs] using hns, ?_, ?_⟩
      · refine List.Pairwise.cons (fun n hn => ?_) hpw
        have := hbd n hn
        omega
      · intro n hn
        rcases List.mem_cons.1 hn with rfl | hn
        · omega
        · have := hbd n hn
          omega

end AsyncFix.Session
