import AsyncFix.Lemmas.LinkSyncA

/-!
Link family, coverage invariant, part B: what an established endpoint does with a frame (`arecv_est`), and the
preservation of `DirSync` in both directions by a delivery (`dirsync_recv`, `dirsync_serve`) and by a fresh
numbered send (`dirsync_push_fwd`, `dirsync_push_bwd`).
-/
namespace AsyncFix.Link

open AsyncFix.Session

/-- endpoint and frames written by the `ResendRequest` part of `arecv` -/
def served (c : AConn) (f : AFrame) : AConn × List AFrame :=
  match f.kind with
  | .resend b => c.serve b
  | _ => (c, [])

/-- an established endpoint, a frame that is neither Logon nor Logout and is not numbered below `e`
(and, if numbered `e`, is well-formed): a ResendRequest is served; the frame is accepted iff numbered `e` -/
theorem arecv_est (c : AConn) (f : AFrame) (hst : est c.st) (hn : c.e ≤ f.seq) (hcl : clean f)
    (hnext : f.seq = c.e → f.seq < f.next) (hjunk : f.seq = c.e ∨ c.st = .awaiting) :
    (arecv c f).c = (if f.seq = c.e then (served c f).1.advance f.next else (served c f).1) ∧
    (arecv c f).wr = (served c f).2 := by
  obtain ⟨n, k⟩ := f
  obtain ⟨hl1, hl2⟩ := hcl
  simp only at hn hl1 hl2 hnext hjunk
  have hnlt : ¬ n < c.e := by omega
  have hconn : c.st ≠ .conn := by rcases hst with h | h <;> simp [h]
  have hsent : c.st ≠ .sent := by rcases hst with h | h <;> simp [h]
  by_cases he : n = c.e
  · have hnx := hnext he
    cases k with
    | logon => exact absurd rfl hl1
    | logout => exact absurd rfl hl2
    | gapFill nw =>
      simp only [AFrame.next] at hnx
      have : c.e < nw := by omega
      simp [arecv, served, hconn, hsent, he, AFrame.next, this]
    | resend b => simp [arecv, served, hconn, hsent, he, AFrame.next]
    | app p pd => simp [arecv, served, hconn, hsent, he, AFrame.next]
  · have haw : c.st = .awaiting := by rcases hjunk with h | h; exact absurd h he; exact h
    have hgt : c.e < n := by omega
    cases k with
    | logon => exact absurd rfl hl1
    | logout => exact absurd rfl hl2
    | gapFill nw => simp [arecv, served, hnlt, he, haw]
    | resend b => simp [arecv, served, hnlt, he, haw]
    | app p pd => simp [arecv, served, hnlt, he, haw, hgt]

/-! ### the receiving direction -/

/-- head of the queue towards an established `Y`: numbered `e` (then well-formed) or, while awaiting, above -/
theorem dirsync_head {X Y : AConn} {f : AFrame} {rest Q' : List AFrame} (h : DirSync X Y (f :: rest) Q')
    (hst : est Y.st) :
    Y.e ≤ f.seq ∧ (f.seq = Y.e → f.seq < f.next) ∧ (f.seq = Y.e ∨ Y.st = .awaiting) := by
  rcases hst with ha | ha
  · obtain ⟨⟨h1, h2, _⟩, _⟩ := h.1 ha
    exact ⟨by omega, fun _ => h2, Or.inl h1⟩
  · obtain ⟨_, _, h3⟩ := h.2 ha
    by_cases hj : Y.e < f.seq
    · exact ⟨by omega, fun h => by omega, Or.inr ha⟩
    · simp only [List.dropWhile_cons, hj, decide_false] at h3
      rcases h3 with ⟨h3, _⟩ | ⟨_, ⟨h1, h2, _⟩, _⟩
      · simp at h3
      · exact ⟨by omega, fun _ => h2, Or.inl h1⟩

/-- `Y` takes the head frame `f` of `Q`; `Ys` is `Y` after serving (same phase and counters), `Q''` the opposite
queue afterwards (same requests) -/
theorem dirsync_recv {X Y Ys : AConn} {f : AFrame} {rest Q' Q'' : List AFrame} (h : DirSync X Y (f :: rest) Q')
    (hst : est Y.st) (hs : Y.same Ys) (hq : requests Q'' = requests Q') (hw : Y.st = .awaiting → 0 < Y.w)
    (Y' : AConn) (hY' : Y' = if f.seq = Y.e then Ys.advance f.next else Ys) :
    DirSync X Y' rest Q'' ∧ est Y'.st ∧ (Y'.st = .awaiting → 0 < Y'.w) ∧ Y'.o = Y.o ∧ Y'.ini = Y.ini := by
  obtain ⟨hs1, hs2, hs3, hs4, hs5⟩ := hs
  obtain ⟨hh1, hh2, hh3⟩ := dirsync_head h hst
  rcases hst with ha | ha
  · -- active: the head is numbered e
    obtain ⟨⟨h1, h2, h3⟩, h4⟩ := h.1 ha
    have : Y' = { Ys with e := f.next } := by simp [hY', h1, AConn.advance, hs1, ha]
    subst this
    simp only [DirSync, est, hs1, ha, hs3, hs5, hq, h4]
    simp [h3]
  · obtain ⟨g1, g2, g3⟩ := h.2 ha
    by_cases hj : Y.e < f.seq
    · -- junk
      have hne : ¬ f.seq = Y.e := by omega
      have : Y' = Ys := by simp [hY', hne]
      subst this
      simp only [List.dropWhile_cons, hj, decide_true, if_true] at g3
      simp only [DirSync, est, hs1, ha, hs2, hs3, hs4, hs5, hq]
      simp [g1, g2, g3, hw ha]
    · have he : f.seq = Y.e := by omega
      simp only [List.dropWhile_cons, hj, decide_false] at g3
      rcases g3 with ⟨g3, _⟩ | ⟨_, ⟨_, h2, h3⟩, h4⟩
      · simp at g3
      · by_cases hdone : f.next - 1 ≥ Y.w
        · have : Y' = { Ys with e := f.next, st := .active, w := 0 } := by
            simp [hY', he, AConn.advance, hs1, ha, hs4, hdone]
          subst this
          simp only [DirSync, est, hs3, hs5, hq, h4]
          simp [h3]
        · have : Y' = { Ys with e := f.next } := by
            simp [hY', he, AConn.advance, hs1, ha, hs4, hdone]
          subst this
          have hne : rest ≠ [] := by
            rintro rfl
            have := chain_nil.1 h3
            omega
          simp only [DirSync, est, hs1, ha, hs3, hs4, hs5, hq, h4, dropWhile_chain h3]
          simp [hne, h3, g2, hw ha]
          omega

/-! ### the serving direction -/

/-- a ResendRequest of `X` in flight: `X` is awaiting, everything in flight towards it is junk, and it asks
for `X.e` -/
theorem resend_inflight {X Y : AConn} {f : AFrame} {rest Q' : List AFrame} {b : Int}
    (h : DirSync Y X Q' (f :: rest)) (hst : est X.st) (hk : f.kind = .resend b) :
    X.st = .awaiting ∧ b = X.e ∧ X.e ≤ X.w ∧ X.w < Y.o ∧ Q'.dropWhile (fun g => X.e < g.seq) = [] ∧
      requests rest = [] := by
  have hr : requests (f :: rest) = b :: requests rest := by simp [requests_cons, resendB, hk]
  rcases hst with ha | ha
  · have := (h.1 ha).2
    simp [hr] at this
  · obtain ⟨g1, g2, g3⟩ := h.2 ha
    rw [hr] at g3
    rcases g3 with ⟨g3, g4⟩ | ⟨_, _, g4⟩
    · simp at g4
      exact ⟨ha, g4.1, g1, g2, g3, g4.2⟩
    · simp at g4

theorem dirsync_serve {X Y Y' : AConn} {f : AFrame} {rest Q' : List AFrame}
    (h : DirSync Y X Q' (f :: rest)) (hst : est X.st) (ho : Y'.o = Y.o) (he1 : 1 ≤ X.e)
    (hk : keysOK Y.o Y.out) (hmax : Y.o ≤ sysMaxsize + 1) :
    DirSync Y' X (Q' ++ (served Y f).2) rest ∧ (∀ g ∈ (served Y f).2, isData g) ∧ Y.same (served Y f).1 := by
  by_cases hres : ∃ b, f.kind = .resend b
  · obtain ⟨b, hb⟩ := hres
    obtain ⟨ha, rfl, g1, g2, g3, g4⟩ := resend_inflight h hst hb
    obtain ⟨s1, s2, s3⟩ := serve_spec Y X.e he1 (by omega) hk hmax
    have hsv : served Y f = Y.serve X.e := by simp [served, hb]
    rw [hsv]
    refine ⟨?_, s2, s3⟩
    have hne : (Y.serve X.e).2 ≠ [] := by
      intro h0
      rw [h0] at s1
      have := chain_nil.1 s1
      omega
    simp only [DirSync, ha, ho, dropWhile_append_of_nil _ _ _ g3, dropWhile_chain s1, g4]
    simp [g1, g2, hne, s1]
  · have hsv : served Y f = (Y, []) := by
      unfold served
      cases hk' : f.kind <;> simp_all
    have hr : requests (f :: rest) = requests rest := by
      have : resendB f = none := by
        unfold resendB
        cases hk' : f.kind <;> simp_all
      simp [requests_cons, this]
    rw [hsv]
    refine ⟨?_, by simp, AConn.same.rfl' Y⟩
    simpa [DirSync, ho, hr] using h

/-! ### a fresh numbered application frame -/

theorem dirsync_push_fwd {X X' Y : AConn} {Q Q' : List AFrame} {k : AKind} (h : DirSync X Y Q Q')
    (ho : X'.o = X.o + 1) (hk : (⟨X.o, k⟩ : AFrame).next = X.o + 1) :
    DirSync X' Y (Q ++ [⟨X.o, k⟩]) Q' := by
  refine ⟨fun ha => ?_, fun ha => ?_⟩
  · obtain ⟨h1, h2⟩ := h.1 ha
    rw [ho, ← hk]
    exact ⟨chain_snoc _ h1 rfl (by rw [hk]; show X.o < X.o + 1; omega), h2⟩
  · obtain ⟨g1, g2, g3⟩ := h.2 ha
    refine ⟨g1, by omega, ?_⟩
    rcases g3 with ⟨g3, g4⟩ | ⟨g3, g4, g5⟩
    · left
      refine ⟨?_, g4⟩
      rw [dropWhile_append_of_nil _ _ _ g3]
      have : Y.e < X.o := by omega
      simp [this]
    · right
      rw [dropWhile_append_of_ne_nil _ _ _ g3]
      refine ⟨by simp, ?_, g5⟩
      rw [ho, ← hk]
      exact chain_snoc _ g4 rfl (by rw [hk]; show X.o < X.o + 1; omega)

theorem dirsync_push_bwd {X X' Y : AConn} {Q Q' : List AFrame} {f : AFrame} (h : DirSync Y X Q' Q)
    (hst : X'.st = X.st) (he : X'.e = X.e) (hw : X'.w = X.w) (hf : resendB f = none) :
    DirSync Y X' Q' (Q ++ [f]) := by
  have : requests (Q ++ [f]) = requests Q := by simp [hf, requests]
  simpa [DirSync, hst, he, hw, this] using h

end AsyncFix.Link
