import AsyncFix.Model.TesterWire
import AsyncFix.Lemmas.SessionRel

namespace AsyncFix.Tester
open AsyncFix.Session AsyncFix.Generated AsyncFix.Generated.ConnEnum

/-- frame `f` is addressed to connection `c` and numbered `n` (text `v`) -/
structure Addressed (c : Conn) (f : Msg) (v : String) (n : Int) : Prop where
  bs : f.get? tBeginString = some Proto.beginString
  s49 : f.get? tSenderCompID = some c.sess.target
  s56 : f.get? tTargetCompID = some c.sess.sender
  s34 : f.get? tMsgSeqNum = some v
  int : pyInt v = some n

theorem get_of_get? {m : Msg} {t : Nat} {v : String} (h : m.get? t = some v) : m.get t = .ok v := by
  simp [Msg.get, h]

theorem has_of_get? {m : Msg} {t : Nat} {v : String} (h : m.get? t = some v) : m.has t = true := by
  simp [Msg.has, h]

theorem validateIntegrity_good {c : Conn} {f : Msg} {v : String} {n : Int}
    (ha : Addressed c f v n) (hn : c.sess.nextIn ≤ n) :
    validateIntegrity f c = ⟨.ok .good, c, []⟩ := by
  have hlt : ¬ n < c.sess.nextIn := by omega
  simp [validateIntegrity, bind, M.bind', get_of_get? ha.bs, has_of_get? ha.s49, has_of_get? ha.s56,
    get_of_get? ha.s49, get_of_get? ha.s56, has_of_get? ha.s34, get_of_get? ha.s34, ha.int, pure, hlt, M.pure']

end AsyncFix.Tester
