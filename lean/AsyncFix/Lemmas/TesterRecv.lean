import AsyncFix.Model.TesterWire
import AsyncFix.Lemmas.SessionRel

/-!
C20 helper lemmas: closed forms of the session model's `send_msg` / `_process_message` on the states
and frames that occur in clean scripts.  Each lemma says: from a connection with THESE fields and a
frame with THESE header values the handler ends normally with exactly this connection and these effects.
-/
namespace AsyncFix.Tester
open AsyncFix.Session AsyncFix.Generated AsyncFix.Generated.ConnEnum

/-- frame `f` is addressed to connection `c` and numbered `n` (text `v`) -/
structure Addressed (c : Conn) (f : Msg) (v : String) (n : Int) : Prop where
  bs : f.get? tBeginString = some Proto.beginString
  s49 : f.get? tSenderCompID = some c.sess.target
  s56 : f.get? tTargetCompID = some c.sess.sender
  s34 : f.get? tMsgSeqNum = some v
  int : pyInt v = some n

theorem get_of_get? {m : Msg} {t : Nat} {v : String} (h : m.get? t = some v) : m.get t = .ok v := by
  simp [Msg.get, h]

theorem has_of_get? {m : Msg} {t : Nat} {v : String} (h : m.get? t = some v) : m.has t = true := by
  simp [Msg.has, h]

theorem validateIntegrity_good {c : Conn} {f : Msg} {v : String} {n : Int}
    (ha : Addressed c f v n) (hn : c.sess.nextIn ≤ n) :
    validateIntegrity f c = ⟨.ok .good, c, []⟩ := by
  have hlt : ¬ n < c.sess.nextIn := by omega
  simp [validateIntegrity, bind, M.bind', get_of_get? ha.bs, has_of_get? ha.s49, has_of_get? ha.s56,
    get_of_get? ha.s49, get_of_get? ha.s56, has_of_get? ha.s34, get_of_get? ha.s34, ha.int, pure, hlt, M.pure']

/-- the frame `send_msg` writes from connection `c` -/
def sentFrame (c : Conn) (env : Env) (m : Msg) : Msg := buildFrame c.sess env.stamp m c.sess.nextOut

theorem buildFrame_sess (s : Session) (x : Int) (stamp : String) (m : Msg) (seq : Int) :
    buildFrame { s with nextOut := x } stamp m seq = buildFrame s stamp m seq := rfl

/-- `send_msg` of an ordinary message from a connection whose state lets it through -/
theorem sendMsg_closed {env : Env} {c : Conn} {m : Msg} {j : Journal}
    (hst : 6 < c.state) (hgate : ¬(c.role = roleInitiator ∧ c.state = st_LOGON_INITIAL_SENT ∧ m.mtype ≠ mLogout))
    (hsr : m.mtype ≠ mSequenceReset) (htr : m.mtype = mTestRequest → c.testReqId.isSome = true)
    (hpd : (m.get? tPossDupFlag).getD "N" ≠ "Y")
    (hlat : frameLatin1 (sentFrame c env m) = true)
    (hj : c.journal.persist .outbound c.sess.nextOut (sentFrame c env m) = some j) (hsock : c.sock = true) :
    sendMsg env m c =
      ⟨.ok (), { c with sess := { c.sess with nextOut := c.sess.nextOut + 1 }, journal := j },
       [.write (sentFrame c env m)]⟩ := by
  have h1 : ¬ c.state < st_NETWORK_CONN_ESTABLISHED := by simp [st_NETWORK_CONN_ESTABLISHED]; omega
  have h2 : (c.state == st_NETWORK_CONN_ESTABLISHED) = false := by simp [st_NETWORK_CONN_ESTABLISHED]; omega
  have h3 : (c.role == roleInitiator && c.state == st_LOGON_INITIAL_SENT && m.mtype != mLogout) = false := by
    simp only [Bool.and_eq_false_iff, beq_eq_false_iff_ne, bne_eq_false_iff_eq, ne_eq]
    by_cases a : c.role = roleInitiator
    · by_cases b : c.state = st_LOGON_INITIAL_SENT
      · by_cases d : m.mtype = mLogout
        · exact Or.inr d
        · exact absurd ⟨a, b, d⟩ hgate
      · exact Or.inl (Or.inr b)
    · exact Or.inl (Or.inl a)
  have h4 : (m.mtype == mTestRequest && c.testReqId.isNone) = false := by
    by_cases a : m.mtype = mTestRequest
    · have := htr a
      simp [a, this]
    · simp [a]
  have h5 : (m.mtype == mSequenceReset) = false := by simp [hsr]
  have h6 : ((m.get? tPossDupFlag).getD "N" == "Y") = false := by simp [hpd]
  unfold sentFrame at hlat hj
  simp [sendMsg, sendGate, sendCore, encodeSeq, bind, M.bind', pure, M.pure', M.get, M.modify, M.emit, M.throw,
    h1, h2, h3, h4, h5, h6, buildFrame_sess, hlat, hj, hsock, sentFrame]

open Lean.Parser.Tactic in
/-- the simp set that runs a handler: monad operations and the state constants -/
macro "run_simp" "[" ls:simpLemma,* "]" : tactic =>
  `(tactic| simp [bind, M.bind', pure, M.pure', M.get, M.modify, M.emit, M.throw, M.liftE, M.assert, M.int, M.tryCatch,
      st_ACTIVE, st_NETWORK_CONN_ESTABLISHED, st_LOGON_INITIAL_SENT, st_LOGON_INITIAL_RECV, st_RESENDREQ_AWAITING,
      st_DISCONNECTED_BROKEN_CONN, st_DISCONNECTED_WCONN_TODAY, st_RECV_SEQNUM_TOO_HIGH,
      roleInitiator, roleAcceptor, mLogon, mLogout, mSequenceReset, mHeartbeat, mTestRequest, mResendRequest, $ls,*])

/-- `_finalize_message` of an in-sequence frame outside a resend -/
theorem finalize_closed {env : Env} {c : Conn} {f : Msg} {v : String} {j : Journal}
    (hst : c.state ≠ st_RESENDREQ_AWAITING) (hconn : 3 < c.state) (hty : f.mtype ≠ mSequenceReset)
    (h34 : f.get? tMsgSeqNum = some v) (hv : pyInt v = some c.sess.nextIn) (hpos : 0 < c.sess.nextIn)
    (hj : c.journal.persist .inbound c.sess.nextIn f = some j) :
    finalizeMessage env f c =
      ⟨.ok (), { c with sess := { c.sess with nextIn := c.sess.nextIn + 1 }, lastTime := env.now, journal := j }, []⟩ := by
  have h1 : ¬ c.sess.nextIn ≤ 0 := by omega
  have h2 : ¬ c.state = 12 := hst
  have h3 : ¬ f.mtype = "4" := hty
  run_simp [finalizeMessage, setNextNumIn, persistInbound, has_of_get? h34, get_of_get? h34, hv, h1, h2, h3, h34, hj, hconn]

/-- `_process_message` up to the dispatch, ACTIVE connection, in-sequence frame that is neither Logon,
SequenceReset nor Logout -/
theorem processHead_active {env : Env} {c : Conn} {f : Msg} {v : String}
    (hst : c.state = st_ACTIVE) (h1 : f.mtype ≠ mLogon) (h2 : f.mtype ≠ mSequenceReset) (h3 : f.mtype ≠ mLogout)
    (h34 : f.get? tMsgSeqNum = some v) (hv : pyInt v = some c.sess.nextIn) :
    processHead env f c = ⟨.ok (some (true, c.sess.nextIn)), c, []⟩ := by
  have a1 : ¬ f.mtype = "A" := h1
  have a2 : ¬ f.mtype = "4" := h2
  have a3 : ¬ f.mtype = "5" := h3
  have a4 : c.state = 17 := hst
  run_simp [processHead, checkSeqnumGaps, get_of_get? h34, hv, a1, a2, a3, a4]

/-- the whole of `_process_message` for such a frame, given what the dispatch does -/
theorem recv_active {sr : Msg → Bool} {env : Env} {c c' c'' : Conn} {f : Msg} {v : String} {e e2 : List Effect}
    (ha : Addressed c f v c.sess.nextIn) (hst : c.state = st_ACTIVE)
    (h1 : f.mtype ≠ mLogon) (h2 : f.mtype ≠ mSequenceReset) (h3 : f.mtype ≠ mLogout)
    (hd : processDispatch env sr f true c.sess.nextIn c = ⟨.ok (), c', e⟩)
    (hf : finalizeMessage env f c' = ⟨.ok (), c'', e2⟩) :
    recv sr env c f = (c'', e ++ e2) := by
  unfold recv processMessage M.run swallow
  run_simp [validateIntegrity_good ha (Int.le_refl _), processHead_active hst h1 h2 h3 ha.s34 ha.int, hd, hf]

/-- application-level message types: not handled by the session layer's dispatch -/
def isAppType (t : String) : Prop :=
  t ≠ mResendRequest ∧ t ≠ mSequenceReset ∧ t ≠ mLogon ∧ t ≠ mTestRequest ∧ t ≠ mHeartbeat ∧ t ≠ mLogout

/-- R1: an in-sequence application message on an ACTIVE connection is delivered, counted, stamped, journaled -/
theorem recv_app {sr : Msg → Bool} {env : Env} {c : Conn} {f : Msg} {v : String} {j : Journal}
    (ha : Addressed c f v c.sess.nextIn) (hst : c.state = st_ACTIVE) (hty : isAppType f.mtype)
    (hpos : 0 < c.sess.nextIn) (hj : c.journal.persist .inbound c.sess.nextIn f = some j) :
    recv sr env c f =
      ({ c with sess := { c.sess with nextIn := c.sess.nextIn + 1 }, lastTime := env.now, journal := j },
       [.deliver f]) := by
  obtain ⟨t1, t2, t3, t4, t5, t6⟩ := hty
  have hd : processDispatch env sr f true c.sess.nextIn c = ⟨.ok (), c, [.deliver f]⟩ := by
    have a1 : ¬ f.mtype = "2" := t1
    have a2 : ¬ f.mtype = "4" := t2
    have a3 : ¬ f.mtype = "A" := t3
    have a4 : ¬ f.mtype = "1" := t4
    have a5 : ¬ f.mtype = "0" := t5
    run_simp [processDispatch, a1, a2, a3, a4, a5]
  have hf := finalize_closed (env := env) (by rw [hst]; decide) (by rw [hst]; decide) t2 ha.s34 ha.int hpos hj
  simpa using recv_active ha hst t3 t2 t6 hd hf

/-- R2a: a Heartbeat while no TestRequest is outstanding -/
theorem recv_hb_idle {sr : Msg → Bool} {env : Env} {c : Conn} {f : Msg} {v : String} {j : Journal}
    (ha : Addressed c f v c.sess.nextIn) (hst : c.state = st_ACTIVE) (hty : f.mtype = mHeartbeat)
    (hreq : c.testReqId = none)
    (hpos : 0 < c.sess.nextIn) (hj : c.journal.persist .inbound c.sess.nextIn f = some j) :
    recv sr env c f =
      ({ c with sess := { c.sess with nextIn := c.sess.nextIn + 1 }, lastTime := env.now, journal := j }, []) := by
  have hd : processDispatch env sr f true c.sess.nextIn c = ⟨.ok (), c, []⟩ := by
    have a : f.mtype = "0" := hty
    run_simp [processDispatch, processHeartbeat, a, hreq]
  have hf := finalize_closed (env := env) (by rw [hst]; decide) (by rw [hst]; decide) (by rw [hty]; decide) ha.s34 ha.int hpos hj
  simpa using recv_active ha hst (by rw [hty]; decide) (by rw [hty]; decide) (by rw [hty]; decide) hd hf

/-- R2b: the Heartbeat that answers the outstanding TestRequest clears it -/
theorem recv_hb_answer {sr : Msg → Bool} {env : Env} {c : Conn} {f : Msg} {v w : String} {t : Int} {j : Journal}
    (ha : Addressed c f v c.sess.nextIn) (hst : c.state = st_ACTIVE) (hty : f.mtype = mHeartbeat)
    (hreq : c.testReqId = some t) (h112 : f.get? tTestReqID = some w) (hw : pyInt w = some t)
    (hpos : 0 < c.sess.nextIn) (hj : c.journal.persist .inbound c.sess.nextIn f = some j) :
    recv sr env c f =
      ({ c with sess := { c.sess with nextIn := c.sess.nextIn + 1 }, testReqId := none, lastTime := env.now,
                journal := j }, []) := by
  have hd : processDispatch env sr f true c.sess.nextIn c = ⟨.ok (), { c with testReqId := none }, []⟩ := by
    have a : f.mtype = "0" := hty
    run_simp [processDispatch, processHeartbeat, a, hreq, h112, hw]
  have hf := finalize_closed (env := env) (c := { c with testReqId := none }) (by simp [hst]; decide)
    (by simp [hst]; decide) (by rw [hty]; decide) ha.s34 ha.int hpos hj
  simpa using recv_active ha hst (by rw [hty]; decide) (by rw [hty]; decide) (by rw [hty]; decide) hd hf

/-- the Heartbeat `_process_testrequest` answers with -/
def hbReply (f : Msg) : Msg := Msg.mk' mHeartbeat [(tTestReqID, (f.get? tTestReqID).getD "0")]

/-- R3: a TestRequest is answered with a Heartbeat carrying its id (through `send_msg`) -/
theorem recv_testreq {sr : Msg → Bool} {env : Env} {c : Conn} {f : Msg} {v : String} {j1 j2 : Journal}
    (ha : Addressed c f v c.sess.nextIn) (hst : c.state = st_ACTIVE) (hty : f.mtype = mTestRequest)
    (hlat : frameLatin1 (sentFrame c env (hbReply f)) = true)
    (hj1 : c.journal.persist .outbound c.sess.nextOut (sentFrame c env (hbReply f)) = some j1) (hsock : c.sock = true)
    (hpos : 0 < c.sess.nextIn) (hj2 : j1.persist .inbound c.sess.nextIn f = some j2) :
    recv sr env c f =
      ({ c with sess := { c.sess with nextIn := c.sess.nextIn + 1, nextOut := c.sess.nextOut + 1 },
                lastTime := env.now, journal := j2 },
       [.write (sentFrame c env (hbReply f))]) := by
  have hs := sendMsg_closed (env := env) (c := c) (m := hbReply f) (j := j1) (by rw [hst]; decide)
    (by rw [hst]; simp [st_ACTIVE, st_LOGON_INITIAL_SENT]) (by simp [hbReply, Msg.mk', mHeartbeat, mSequenceReset])
    (by simp [hbReply, Msg.mk', mHeartbeat, mTestRequest])
    (by simp [hbReply, Msg.mk', Msg.get?, Msg.lookup, tPossDupFlag, tTestReqID]) hlat hj1 hsock
  have hd : processDispatch env sr f true c.sess.nextIn c =
      ⟨.ok (), { c with sess := { c.sess with nextOut := c.sess.nextOut + 1 }, journal := j1 },
       [.write (sentFrame c env (hbReply f))]⟩ := by
    have a : f.mtype = "1" := hty
    have hs' : sendMsg env (Msg.mk' "0" [(tTestReqID, (f.get? tTestReqID).getD "0")]) c = _ := hs
    run_simp [processDispatch, processTestRequest, a, hs']
  have hf := finalize_closed (env := env)
    (c := { c with sess := { c.sess with nextOut := c.sess.nextOut + 1 }, journal := j1 }) (by simp [hst]; decide)
    (by simp [hst]; decide) (by rw [hty]; decide) ha.s34 ha.int hpos hj2
  simpa using recv_active ha hst (by rw [hty]; decide) (by rw [hty]; decide) (by rw [hty]; decide) hd hf

end AsyncFix.Tester
