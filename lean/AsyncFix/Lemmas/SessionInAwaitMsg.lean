import AsyncFix.Lemmas.SessionInAwait

/-!
C04 helper: RESENDREQ_AWAITING, continued – the ResendRequest servicing loop, the dispatch, the head and
the whole of `_process_message` started in RESENDREQ_AWAITING.
-/
set_option linter.unusedSimpArgs false
namespace AsyncFix.Session
open AsyncFix.Generated AsyncFix.Generated.ConnEnum

theorem Msg.set_mtype {m m' : Msg} {t : Nat} {v : String} {b : Bool} (h : m.set t v b = .ok m') :
    m'.mtype = m.mtype := by
  unfold Msg.set at h
  split at h
  · split at h
    · cases h; rfl
    · cases h
  · cases h; rfl

theorem Msg.del_mtype {m m' : Msg} {t : Nat} (h : m.del t = .ok m') : m'.mtype = m.mtype := by
  unfold Msg.del at h
  split at h
  · cases h; rfl
  · cases h

theorem except_bind_ok {α β} {x : Except Exc α} {f : α → Except Exc β} {b : β}
    (h : (x >>= f) = .ok b) : ∃ a, x = .ok a ∧ f a = .ok b := by
  cases x with
  | ok a => exact ⟨a, rfl, h⟩
  | error e => cases h

theorem prepareReplay_mtype {r rp : Msg} (h : prepareReplay r = .ok rp) : rp.mtype = r.mtype := by
  unfold prepareReplay at h
  obtain ⟨r1, h1, h⟩ := except_bind_ok h
  have e1 := Msg.set_mtype h1
  have key : ∀ r2 : Msg, r2.mtype = r1.mtype →
      (do let r ← r2.del tMsgType
          let r ← r.del tBeginString
          let r ← r.del tBodyLength
          let r ← r.del tSendingTime
          let r ← r.del tSenderCompID
          let r ← r.del tTargetCompID
          r.del tCheckSum) = Except.ok rp → rp.mtype = r.mtype := by
    intro r2 e2 h
    obtain ⟨r3, h3, h⟩ := except_bind_ok h
    obtain ⟨r4, h4, h⟩ := except_bind_ok h
    obtain ⟨r5, h5, h⟩ := except_bind_ok h
    obtain ⟨r6, h6, h⟩ := except_bind_ok h
    obtain ⟨r7, h7, h⟩ := except_bind_ok h
    obtain ⟨r8, h8, h⟩ := except_bind_ok h
    rw [Msg.del_mtype h, Msg.del_mtype h8, Msg.del_mtype h7, Msg.del_mtype h6, Msg.del_mtype h5, Msg.del_mtype h4,
      Msg.del_mtype h3, e2, e1]
  dsimp only at h
  split at h
  · exact key r1 rfl h
  · obtain ⟨st, _, h⟩ := except_bind_ok h
    obtain ⟨r2, h2, h⟩ := except_bind_ok h
    exact key r2 (Msg.set_mtype h2) h

/-- a journal row as the encoder wrote it: the message type is the value of its MsgType(35) field
(true of every frame `buildFrame` makes; rows only enter the journal through `send_msg`) -/
def rowWf (r : Msg) : Prop := r.get? tMsgType = some r.mtype

theorem replay_ne {row rp : Msg} {ty : String} {b : Bool} (hwf : rowWf row)
    (hty : row.get tMsgType = .ok ty) (hc : ¬ (ConnEnum.noReplay.contains ty || b) = true)
    (hrp : prepareReplay row = .ok rp) : rp.mtype ≠ mResendRequest := by
  rw [prepareReplay_mtype hrp]
  unfold rowWf at hwf
  unfold Msg.get at hty
  rw [hwf] at hty
  cases hty
  intro h
  rw [h] at hc
  revert hc
  cases b <;> decide

theorem gapFillMsg_ne (a b : Int) : (gapFillMsg a b).mtype ≠ mResendRequest := by
  simp [gapFillMsg, Msg.mk', mSequenceReset, mResendRequest]

/-- `send_msg` and everything built from it inside `_process_resend`: state and watermark stay (unless
the state was NETWORK_CONN_ESTABLISHED), no ResendRequest is written -/
def KeepState : StepRel where
  R c c' e := noRR e ∧
    (c.state ≠ st_NETWORK_CONN_ESTABLISHED → c'.state = c.state ∧ c'.maxResend = c.maxResend)
  refl c := ⟨noRR_nil, fun _ => ⟨rfl, rfl⟩⟩
  trans := by
    intro a b c e1 e2 h1 h2
    refine ⟨noRR_append h1.1 h2.1, fun ha => ?_⟩
    obtain ⟨hb, hm⟩ := h1.2 ha
    obtain ⟨hc, hm2⟩ := h2.2 (hb ▸ ha)
    exact ⟨hc.trans hb, hm2.trans hm⟩

theorem sendMsg_keep (env : Env) (m : Msg) (hm : m.mtype ≠ mResendRequest) : Sat KeepState (sendMsg env m) := by
  refine Sat.of_holds fun c => ?_
  unfold sendMsg sendGate sendCore encodeSeq stateSet
  wp_simp
  repeat' (first | intro _ | apply And.intro | split)
  all_goals simp_all [KeepState, noRR, buildFrame]

theorem setSeqNum_out_keep (o : Option Int) : Sat KeepState (setSeqNum o none) := by
  cases o <;> (unfold setSeqNum; dsimp only; repeat' sat_step)
  all_goals simp [KeepState, noRR_nil]

theorem resendLoop_keep (env : Env) (sr : Msg → Bool) (rows : List Msg) (hwf : ∀ r ∈ rows, rowWf r)
    (gfb gfe : Int) : Sat KeepState (resendLoop env sr rows gfb gfe) := by
  induction rows generalizing gfb gfe with
  | nil => unfold resendLoop; exact Sat.pure _
  | cons row rest ih =>
    have hrow := hwf row (List.mem_cons_self ..)
    have ih' := ih fun r hr => hwf r (List.mem_cons_of_mem _ hr)
    unfold resendLoop
    repeat' (first
      | with_reducible exact ih' _ _
      | with_reducible exact sendMsg_keep _ _ (gapFillMsg_ne _ _)
      | with_reducible exact sendMsg_keep _ _ (replay_ne hrow (by assumption) (by assumption) (by assumption))
      | with_reducible apply Sat.liftE_bind
      | sat_step | dsimp only)

/-- every outbound journal row is as the encoder wrote it -/
def journalWf (c : Conn) : Prop := ∀ p ∈ c.journal.out, rowWf p.2

theorem recoverOut_wf {c : Conn} (h : journalWf c) (b e : Int) : ∀ r ∈ c.journal.recoverOut b e, rowWf r := by
  intro r hr
  simp only [Journal.recoverOut, Rows.range, List.mem_map, List.mem_filter] at hr
  obtain ⟨p, ⟨hp, -⟩, rfl⟩ := hr
  exact h p hp

/-- `_process_resend` started in RESENDREQ_AWAITING -/
theorem processResend_aw12 (env : Env) (sr : Msg → Bool) (m : Msg) (c : Conn)
    (h12 : c.state = st_RESENDREQ_AWAITING) (hwf : journalWf c) :
    Holds (processResend env sr m) c (fun _ c' e =>
      noRR e ∧ c'.state = st_RESENDREQ_AWAITING ∧ c'.maxResend = c.maxResend) := by
  unfold processResend stateSet
  wp_simp
  repeat' (first
    | apply Holds.of_sat' (setSeqNum_out_keep _)
    | apply Holds.of_sat' (resendLoop_keep env sr _ (recoverOut_wf hwf _ _) _ _)
    | apply Holds.of_sat' (sendMsg_keep env _ (gapFillMsg_ne _ _))
    | intro _ | apply And.intro | wp_simp | split)
  all_goals simp_all [KeepState, noRR, st_RESENDREQ_AWAITING, st_NETWORK_CONN_ESTABLISHED]
  all_goals grind

theorem processLogout_aw (env : Env) (m : Msg) : Sat AW (processLogout env m) := by
  unfold processLogout
  repeat' (first | with_reducible exact disconnect_aw _ _ _ | sat_step)
  all_goals (intros; simp [AW, noRR]; omega)

theorem processTestRequest_aw (env : Env) (m : Msg) : Sat AW (processTestRequest env m) := by
  unfold processTestRequest
  repeat' (first
    | with_reducible exact sendMsg_aw _ _ (by simp [Msg.mk', mHeartbeat, mResendRequest]) | sat_step)

theorem processHeartbeat_aw (env : Env) (m : Msg) : Sat AW (processHeartbeat env m) := by
  unfold processHeartbeat
  repeat' (first | with_reducible exact disconnect_aw _ _ _ | sat_step | split)
  all_goals (intros; simp [AW, noRR]; omega)

/-- the dispatch started in RESENDREQ_AWAITING -/
theorem processDispatch_aw12 (env : Env) (sr : Msg → Bool) (m : Msg) (valid : Bool) (n : Int) (c : Conn)
    (h12 : c.state = st_RESENDREQ_AWAITING) (hwf : m.mtype = mResendRequest → journalWf c) :
    Holds (processDispatch env sr m valid n) c (fun _ c' e => AW.R c c' e) := by
  unfold processDispatch
  wp_simp
  by_cases h2 : m.mtype = mResendRequest
  · repeat' (first
      | apply Holds.of_spec (processResend_aw12 env sr m c h12 (hwf h2))
      | apply Holds.of_sat' (processTestRequest_aw _ _)
      | apply Holds.of_sat' (processHeartbeat_aw _ _)
      | intro _ | apply And.intro)
    all_goals simp_all [AW, noRR, st_RESENDREQ_AWAITING, st_DISCONNECTED_BROKEN_CONN]
  · repeat' (first
      | apply Holds.of_sat' (processTestRequest_aw _ _)
      | apply Holds.of_sat' (processHeartbeat_aw _ _)
      | intro _ | apply And.intro)
    all_goals simp_all [AW, noRR, st_RESENDREQ_AWAITING, st_DISCONNECTED_BROKEN_CONN]

/-- `processHead` started in RESENDREQ_AWAITING on anything but a Logon: no ResendRequest; when the
dispatch is reached the state is still RESENDREQ_AWAITING, and – unless the frame is a SequenceReset –
nothing at all has happened yet -/
@[irreducible] def HeadAw (c : Conn) (m : Msg) : Post (Option (Bool × Int)) := fun r c1 e =>
  AW.R c c1 e ∧
  (∀ p, r = .ok (some p) → c1.state = st_RESENDREQ_AWAITING ∧ c1.maxResend = c.maxResend ∧
    (m.mtype ≠ mSequenceReset → c1 = c))

theorem processHead_aw12 (env : Env) (m : Msg) (c : Conn)
    (h12 : c.state = st_RESENDREQ_AWAITING) (hA : m.mtype ≠ mLogon) :
    Holds (processHead env m) c (HeadAw c m) := by
  unfold processHead stateSet
  wp_simp
  repeat' (first
    | apply Holds.of_sat' (disconnect_aw _ _ _)
    | apply Holds.of_spec (processSeqreset_spec _ _)
    | apply Holds.of_spec ((processLogout_state _ _ _).and (Sat.holds (processLogout_aw _ _) _))
    | apply Holds.of_spec (checkSeqnumGaps_spec _ _ _)
    | intro _ | apply And.intro | wp_simp)
  all_goals simp_all [HeadAw, AW, noRR, mLogon, mLogout, mSequenceReset, st_RESENDREQ_AWAITING,
    st_NETWORK_CONN_ESTABLISHED, st_LOGON_INITIAL_SENT, st_DISCONNECTED_BROKEN_CONN]

/-- result of one frame received in RESENDREQ_AWAITING -/
def AwaitOk (c c' : Conn) (e : List Effect) : Prop :=
  noRR e ∧
  (c'.state = st_RESENDREQ_AWAITING ∨ c'.state ≤ st_DISCONNECTED_BROKEN_CONN ∨
    (c'.state = st_ACTIVE ∧ c'.maxResend = 0 ∧ 0 < c.maxResend ∧ c.maxResend ≤ c'.sess.nextIn - 1))

theorem awaitOk_of_aw {c c' : Conn} {e : List Effect} (h12 : c.state = st_RESENDREQ_AWAITING)
    (h : AW.R c c' e) : AwaitOk c c' e := by
  refine ⟨h.1, ?_⟩
  rcases h.2.1 h12 with ⟨h, -⟩ | h
  · exact Or.inl h
  · exact Or.inr (Or.inl h)

theorem processMessage_aw12 (env : Env) (sr : Msg → Bool) (m : Msg) (c : Conn)
    (h12 : c.state = st_RESENDREQ_AWAITING) (hA : m.mtype ≠ mLogon)
    (hwf : m.mtype = mResendRequest → journalWf c) :
    Holds (processMessage env sr m) c (fun _ c' e => AwaitOk c c' e) := by
  unfold processMessage swallow
  wp_simp
  refine Holds.of_sat' (validateIntegrity_pure _) ?_ ?_
  · rintro integ c0 e0 ⟨rfl, rfl⟩
    cases integ with
    | critical =>
      exact Holds.of_sat (disconnect_aw _ _ _) fun _ _ _ h => by simpa using awaitOk_of_aw h12 h
    | reason text =>
      exact Holds.of_sat (disconnect_aw _ _ _) fun _ _ _ h => by simpa using awaitOk_of_aw h12 h
    | good =>
      wp_simp
      refine Holds.of_spec (processHead_aw12 env m c0 h12 hA) ?_ ?_
      · intro head c1 e1 hh
        unfold HeadAw at hh
        obtain ⟨haw1, hsome⟩ := hh
        cases head with
        | none =>
          wp_simp
          simpa using awaitOk_of_aw h12 haw1
        | some p =>
          obtain ⟨valid, n⟩ := p
          obtain ⟨h1s, h1m, h1c⟩ := hsome _ rfl
          wp_simp
          have hwf1 : m.mtype = mResendRequest → journalWf c1 := by
            intro h2
            have : m.mtype ≠ mSequenceReset := by rw [h2]; decide
            rw [h1c this]
            exact hwf h2
          have key : ∀ (c2 : Conn) (e2 extra : List Effect), AW.R c1 c2 e2 → noRR extra →
              (valid = true → Holds (finalizeMessage env m) c2
                (fun _ c3 e3 => AwaitOk c0 c3 (e1 ++ (e2 ++ extra ++ e3)))) ∧
              (¬valid = true → AwaitOk c0 c2 (e1 ++ (e2 ++ extra))) := by
            intro c2 e2 extra haw2 hex
            have haw := AW.trans haw1 haw2
            constructor
            · intro _
              refine (finalizeMessage_spec env m c2).mono ?_
              rintro r3 c3 e3 ⟨-, hnw, -, -, hst⟩
              have hn3 : noRR e3 := fun f hf => absurd hf (hnw f)
              refine ⟨by simpa [List.append_assoc] using noRR_append haw.1 (noRR_append hex hn3), ?_⟩
              rcases hst with ⟨hs, -⟩ | ⟨hs2, hs3, hm3, hle, hpos⟩
              · rcases haw.2.1 h12 with ⟨h, -⟩ | h
                · exact Or.inl (hs.trans h)
                · exact Or.inr (Or.inl (hs ▸ h))
              · rcases haw.2.1 h12 with ⟨-, hm | hm⟩ | h
                · exact Or.inr (Or.inr ⟨hs3, hm3, hm ▸ hpos, hm ▸ hle⟩)
                · omega
                · simp [st_RESENDREQ_AWAITING, st_DISCONNECTED_BROKEN_CONN] at hs2 h; omega
            · intro _
              have := awaitOk_of_aw h12 haw
              exact ⟨by simpa [List.append_assoc] using noRR_append haw.1 hex, this.2⟩
          refine Holds.of_spec (processDispatch_aw12 env sr m valid n c1 h1s hwf1) ?_ ?_
          · intro a c2 e2 h
            simpa using key c2 e2 [] h noRR_nil
          · intro ex c2 e2 h
            simpa using key c2 e2 [Effect.caught ex] h (by simp [noRR])
      · intro ex c1 e1 hh
        unfold HeadAw at hh
        wp_simp
        have := awaitOk_of_aw h12 hh.1
        exact ⟨by simpa using noRR_append this.1 (show noRR [Effect.caught ex] by simp [noRR]), this.2⟩
  · rintro ex c0 e0 ⟨rfl, rfl⟩
    exact awaitOk_of_aw h12 (AW.refl c0)

end AsyncFix.Session
