import AsyncFix.Lemmas.SessionPlain

/-!
Bridge, part 3: the trace invariant "every `write` effect is a latin-1 `buildFrame`".

`Built f`: `f` is `buildFrame s stamp m seq` for some session, clock text, message and number, and
passed the latin-1 check of `send_msg`.  `RW`: every `Effect.write f` of a trace has `Built f`.
`RW` is compositional, `sendCore` is the only place that emits a `write` (and emits exactly such a
frame), and every handler of the session model – hence every step of every history – satisfies it.
-/
namespace AsyncFix.Session

open AsyncFix.Generated.ConnEnum

/-- `f` is what `send_msg` hands to the transport: an encoder result that passed `.encode("latin-1")` -/
def Built (f : Msg) : Prop :=
  (∃ (s : Session) (stamp : String) (m : Msg) (seq : Int), f = buildFrame s stamp m seq) ∧
    frameLatin1 f = true

/-- the per-effect invariant: a `write` carries a `Built` frame -/
def okWrite : Effect → Prop
  | .write f => Built f
  | _ => True

def RW (_ _ : Conn) (e : List Effect) : Prop := ∀ x ∈ e, okWrite x

instance : Compositional RW where
  refl := fun _ x hx => by cases hx
  trans := by
    intro c c1 c2 e1 e2 h1 h2 x hx
    rcases List.mem_append.mp hx with h | h
    · exact h1 x h
    · exact h2 x h

theorem RW.modify (f : Conn → Conn) : M.Rel RW (M.modify f) := ⟨fun _ x hx => by cases hx⟩

def notWrite : Effect → Bool
  | .write _ => false
  | _ => true

theorem RW.emit_write {f : Msg} (h : Built f) : M.Rel RW (M.emit (.write f)) :=
  ⟨fun _ x hx => by
    have : x = .write f := by simpa using hx
    subst this; exact h⟩

/-- emitting anything but a `write` -/
theorem RW.emit {e : Effect} (h : notWrite e = true := by rfl) : M.Rel RW (M.emit e) :=
  ⟨fun _ x hx => by
    have : x = e := by simpa using hx
    subst this
    cases x <;> first | trivial | cases h⟩

theorem stateSet_W (s : Nat) : M.Rel RW (stateSet s) := by
  constructor
  intro c x hx
  have : x = .onState s := by simpa [stateSet, bind, M.bind'] using hx
  subst this; trivial

theorem M.Rel.ite_dep {α : Type} {R : Conn → Conn → List Effect → Prop} {p : Prop} [Decidable p]
    {a b : M α} (ha : p → M.Rel R a) (hb : ¬ p → M.Rel R b) : M.Rel R (if p then a else b) := by
  split
  · exact ha ‹_›
  · exact hb ‹_›

attribute [local irreducible] M.bind' M.pure' M.throw M.tryCatch M.get M.modify M.emit M.liftE
  M.assert M.int

theorem encodeSeq_W (m : Msg) : M.Rel RW (encodeSeq m) := by
  unfold encodeSeq
  rel_tac [RW.modify]

/-- `sendCore`: the only `write` it can emit is the `buildFrame` that passed the latin-1 check (the
condition of the `if` is needed here, so this one is not a `rel_tac` one-liner). -/
theorem sendCore_W (env : Env) (m : Msg) : M.Rel RW (sendCore env m) := by
  unfold sendCore
  apply M.Rel.bind M.Rel.get; intro c
  apply M.Rel.ite (M.Rel.throw _)
  apply M.Rel.bind (encodeSeq_W m); intro seq
  apply M.Rel.bind M.Rel.get; intro c1
  dsimp only
  apply M.Rel.ite_dep
  · intro _; rel_tac [RW.modify]
  · intro hl
    have hl' : frameLatin1 (buildFrame c1.sess env.stamp m seq) = true := by simpa using hl
    split
    · exact M.Rel.throw _
    · apply M.Rel.bind (RW.modify _); intro _
      apply M.Rel.ite (M.Rel.throw _)
      exact RW.emit_write ⟨⟨_, _, _, _, rfl⟩, hl'⟩

theorem sendGate_W (m : Msg) : M.Rel RW (sendGate m) := by
  unfold sendGate
  rel_tac [RW.modify, stateSet_W]

theorem sendMsg_W (env : Env) (m : Msg) : M.Rel RW (sendMsg env m) := by
  unfold sendMsg
  rel_tac [sendGate_W, sendCore_W]

theorem sendTestReq_W (env : Env) : M.Rel RW (sendTestReq env) := by
  unfold sendTestReq
  rel_tac [RW.modify, sendMsg_W]

theorem disconnect_W (env : Env) (d : Nat) (lo : Option String) : M.Rel RW (disconnect env d lo) := by
  unfold disconnect
  rel_tac [RW.modify, RW.emit, stateSet_W, sendMsg_W]

theorem validateIntegrity_W (m : Msg) : M.Rel RW (validateIntegrity m) := by
  unfold validateIntegrity
  rel_tac []

theorem setSeqNum_W (a b : Option Int) : M.Rel RW (setSeqNum a b) := by
  unfold setSeqNum
  rel_tac [RW.modify]

theorem processLogon_W (env : Env) (m : Msg) : M.Rel RW (processLogon env m) := by
  unfold processLogon
  rel_tac [RW.modify, RW.emit, stateSet_W, disconnect_W, sendMsg_W]

theorem checkSeqnumGaps_W (env : Env) (n : Int) : M.Rel RW (checkSeqnumGaps env n) := by
  unfold checkSeqnumGaps
  rel_tac [RW.modify, sendMsg_W, stateSet_W]

theorem processLogout_W (env : Env) (m : Msg) : M.Rel RW (processLogout env m) := by
  unfold processLogout
  rel_tac [RW.modify, RW.emit, disconnect_W]

theorem processSeqreset_W (m : Msg) : M.Rel RW (processSeqreset m) := by
  unfold processSeqreset
  rel_tac [setSeqNum_W]

theorem setNextNumIn_W (m : Msg) : M.Rel RW (setNextNumIn m) := by
  unfold setNextNumIn
  rel_tac [RW.modify]

theorem persistInbound_W (m : Msg) : M.Rel RW (persistInbound m) := by
  unfold persistInbound
  rel_tac [RW.modify]

theorem finalizeMessage_W (env : Env) (m : Msg) : M.Rel RW (finalizeMessage env m) := by
  unfold finalizeMessage
  rel_tac [RW.modify, setNextNumIn_W, persistInbound_W, stateSet_W]

theorem processTestRequest_W (env : Env) (m : Msg) : M.Rel RW (processTestRequest env m) := by
  unfold processTestRequest
  rel_tac [sendMsg_W]

theorem processHeartbeat_W (env : Env) (m : Msg) : M.Rel RW (processHeartbeat env m) := by
  unfold processHeartbeat
  rel_tac [RW.modify, disconnect_W]

theorem persistOutboundRow_W (n : Int) (row : Msg) : M.Rel RW (persistOutboundRow n row) := by
  unfold persistOutboundRow
  rel_tac [RW.modify]

theorem resendLoop_W (env : Env) (sr : Msg → Bool) (endNo : Int) (rows : List Msg) (a b : Int) :
    M.Rel RW (resendLoop env sr endNo rows a b) := by
  induction rows generalizing a b with
  | nil => unfold resendLoop; rel_tac []
  | cons row rest ih =>
    unfold resendLoop
    rel_tac [sendMsg_W, persistOutboundRow_W, ih]

theorem processResend_W (env : Env) (sr : Msg → Bool) (m : Msg) : M.Rel RW (processResend env sr m) := by
  unfold processResend
  rel_tac [stateSet_W, setSeqNum_W, sendMsg_W, resendLoop_W]

theorem processHead_W (env : Env) (m : Msg) : M.Rel RW (processHead env m) := by
  unfold processHead
  rel_tac [RW.modify, disconnect_W, stateSet_W, processLogon_W, processLogout_W, processSeqreset_W,
    checkSeqnumGaps_W]

theorem processDispatch_W (env : Env) (sr : Msg → Bool) (m : Msg) (v : Bool) (n : Int) :
    M.Rel RW (processDispatch env sr m v n) := by
  unfold processDispatch
  rel_tac [RW.emit, processHeartbeat_W, processResend_W, processTestRequest_W]

theorem swallow_W {α : Type} (d : α) {x : M α} (h : M.Rel RW x) : M.Rel RW (swallow d x) := by
  unfold swallow
  rel_tac [RW.emit, h]

theorem processMessage_W (env : Env) (sr : Msg → Bool) (m : Msg) : M.Rel RW (processMessage env sr m) := by
  unfold processMessage
  rel_tac [disconnect_W, swallow_W, processHead_W, processDispatch_W, validateIntegrity_W,
    finalizeMessage_W]

theorem tickBody_W (env : Env) : M.Rel RW (tickBody env) := by
  unfold tickBody
  rel_tac [RW.modify, disconnect_W, sendTestReq_W]

theorem resetSeqNum_W : M.Rel RW resetSeqNum := by
  unfold resetSeqNum
  rel_tac [setSeqNum_W]

theorem connectedM_W (k : ConnKind) : M.Rel RW (connectedM k) := by
  cases k <;> unfold connectedM <;> rel_tac [RW.modify, RW.emit]

/-! ### entry points, steps, histories -/

theorem run_W {α : Type} {x : M α} (h : M.Rel RW x) (c : Conn) : ∀ e ∈ (x.run c).2, okWrite e := by
  have hx : ∀ e ∈ (x c).eff, okWrite e := h.out c
  unfold M.run
  generalize x c = o at hx ⊢
  rcases o with ⟨r, c1, e1⟩
  cases r with
  | ok a => exact hx
  | error ex =>
    intro e he
    rcases List.mem_append.mp he with h1 | h1
    · exact hx e h1
    · have : e = .raised ex := by simpa using h1
      subst this; trivial

theorem step_W (sr : Msg → Bool) (c : Conn) (ev : Event) : ∀ e ∈ (step sr c ev).2, okWrite e := by
  cases ev with
  | recv env m => exact run_W (processMessage_W env sr m) c
  | appSend env m => exact run_W (sendMsg_W env m) c
  | appTestReq env => exact run_W (sendTestReq_W env) c
  | appDisconnect env d l => exact run_W (disconnect_W env d l) c
  | tick env => exact run_W (tickBody_W env) c
  | eof env =>
    show ∀ e ∈ (eof env c).2, okWrite e
    unfold eof
    split
    · exact run_W (disconnect_W env _ none) c
    · intro e he; cases he
  | connected k => exact run_W (connectedM_W k) c
  | resetSeq => exact run_W resetSeqNum_W c

/-- **trace invariant over histories**: every `write` of every history is a latin-1 `buildFrame` -/
theorem run_hist_W (sr : Msg → Bool) (c : Conn) (evs : List Event) :
    ∀ e ∈ (run sr c evs).2, okWrite e := by
  induction evs generalizing c with
  | nil => intro e he; cases he
  | cons ev rest ih =>
    intro e he
    simp only [run] at he
    rcases List.mem_append.mp he with h | h
    · exact step_W sr c ev e h
    · exact ih _ e h

end AsyncFix.Session
