/-
C08: a process (open, a list of calls, death after any number of execute()/commit() calls)
leaves the file at a boundary between calls.
-/
import AsyncFix.Lemmas.JournalOps2
import AsyncFix.Lemmas.JournalRefine
namespace AsyncFix.Model.Journal

theorem applyOps_cons (j : Journal) (op : Op) (ops : List Op) :
    applyOps j (op :: ops) = applyOps (applyOp j op).1 ops := rfl

/-- running the calls of a list one after the other for `n` statement-level steps -/
theorem runProgs_boundary (c : Conn) (hcl : c.Clean) (ops : List Op) (n : Nat) :
    (∃ m, (runProgs c (ops.map Op.prog) n).2 ≤ m ∧ m ≤ (runProgs c (ops.map Op.prog) n).2 + 1 ∧
        m ≤ ops.length ∧ (runProgs c (ops.map Op.prog) n).1.committed = applyOps c.committed (ops.take m)) ∧
    ((runProgs c (ops.map Op.prog) n).2 = ops.length →
        (runProgs c (ops.map Op.prog) n).1.Clean ∧
        (runProgs c (ops.map Op.prog) n).1.working = applyOps c.committed ops) := by
  induction ops generalizing c n with
  | nil => exact ⟨⟨0, by simp [runProgs], by simp [runProgs], by simp, rfl⟩, fun _ => ⟨hcl, hcl⟩⟩
  | cons op rest ih =>
    have spec := op_runSpec c hcl op n
    simp only [List.map_cons, runProgs]
    rcases hrun : op.prog.run n c with ⟨c', n', _ | a⟩
    · -- died inside this call
      simp only
      have hcm := spec.committed
      rw [hrun] at hcm
      simp only at hcm
      refine ⟨?_, fun h => by simp at h⟩
      rcases hcm with hcm | hcm
      · exact ⟨0, by simp, by simp, by simp, by simpa [applyOps] using hcm⟩
      · refine ⟨1, by simp, by simp, by simp, ?_⟩
        rw [hcm, ← hcl]; rfl
    · -- the call returned
      have hw := spec.working a (by rw [hrun])
      have hc := spec.clean a (by rw [hrun])
      rw [hrun] at hw hc
      simp only at hw hc
      have hcm' : c'.committed = (applyOp c.committed op).1 := by rw [← hc, hw, hcl]
      obtain ⟨⟨m, h1, h2, h3, h4⟩, h5⟩ := ih c' hc n'
      simp only
      constructor
      · refine ⟨m + 1, by omega, by omega, by simp; omega, ?_⟩
        rw [h4, hcm']; rfl
      · intro hlen
        simp only [List.length_cons, Nat.add_right_cancel_iff] at hlen
        obtain ⟨h6, h7⟩ := h5 hlen
        exact ⟨h6, by rw [h7, hcm']; rfl⟩

theorem crash_clean (c : Conn) : c.crash.Clean := rfl

/-- what a new `Journaler` on the file sees: exactly the committed content -/
theorem reopen_spec (c : Conn) : (reopen c).working = c.committed ∧ (reopen c).committed = c.committed := by
  unfold reopen openP
  simp only [Prog.full]
  obtain ⟨hw1, hc1⟩ := exec_readOnly_clean c.crash .createMsgTable rfl (crash_clean c)
  have hcl1 : (c.crash.exec .createMsgTable).1.Clean := by simp only [Conn.Clean, hw1, hc1]; rfl
  obtain ⟨hw2, hc2⟩ := exec_readOnly_clean _ .createSessTable rfl hcl1
  exact ⟨by rw [hw2, hw1]; rfl, by rw [hc2, hc1]; rfl⟩

/-- number of *method calls* that returned before the process died (the open is not counted) -/
def completedOps (file : Journal) (ops : List Op) (fuel : Nat) : Nat := (session file ops fuel).2 - 1

theorem session_boundary (file : Journal) (ops : List Op) (k : Nat) :
    (∃ m, completedOps file ops k ≤ m ∧ m ≤ completedOps file ops k + 1 ∧ m ≤ ops.length ∧
        (session file ops k).1.committed = applyOps file (ops.take m)) ∧
    ((session file ops k).2 = ops.length + 1 →
        (session file ops k).1.working = applyOps file ops ∧ (session file ops k).1.Clean) := by
  unfold completedOps session
  simp only [runProgs]
  have hcl0 : (connect file).Clean := rfl
  have spec := open_runSpec (connect file) hcl0 k
  rcases hrun : openP.run k (connect file) with ⟨c', n', _ | a⟩
  · simp only
    have hcm := spec.committed
    rw [hrun] at hcm
    simp only [connect, or_self] at hcm
    exact ⟨⟨0, by simp, by simp, by simp, by simpa [applyOps] using hcm⟩, fun h => by simp at h⟩
  · have hw := spec.working a (by rw [hrun])
    have hc := spec.clean a (by rw [hrun])
    rw [hrun] at hw hc
    simp only [connect] at hw hc
    have hcm' : c'.committed = file := by rw [← hc, hw]
    obtain ⟨⟨m, h1, h2, h3, h4⟩, h5⟩ := runProgs_boundary c' hc ops n'
    simp only
    constructor
    · exact ⟨m, by omega, by omega, h3, by rw [h4, hcm']⟩
    · intro hlen
      obtain ⟨h6, h7⟩ := h5 (by omega)
      exact ⟨by rw [h7, hcm'], h6⟩

end AsyncFix.Model.Journal
