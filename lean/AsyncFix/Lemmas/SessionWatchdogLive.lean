import AsyncFix.Lemmas.SessionWatchdogHist

/-!
C12 helper lemmas, part 5: benign inbound traffic and histories of ticks interleaved with it.
-/
namespace AsyncFix.Session.Watchdog

open AsyncFix.Generated AsyncFix.Generated.ConnEnum

/-! ### summary of a benign inbound frame -/

/-- valid inbound traffic in the sense of C12: passes the integrity check, carries the expected number,
is no Logon / SequenceReset / Logout, is either no ResendRequest at all or one that is ignored (for
numbers never sent), and – if it is a Heartbeat with a TestReqID while a TestRequest is outstanding –
echoes the right id. -/
structure Benign (c : Conn) (m : Msg) : Prop where
  inseq : InSeq c m
  kind : Routine m ∨ IgnoredResend c m
  rightId : m.mtype = mHeartbeat → ∀ tid v, c.testReqId = some tid → m.get? tTestReqID = some v →
    (pyInt v).getD 0 = tid

/-- the frame answers the outstanding TestRequest -/
def echoes (c : Conn) (m : Msg) : Bool :=
  m.mtype == mHeartbeat && c.testReqId.isSome && (m.get? tTestReqID).isSome

theorem not_promoted_of_ne {c : Conn} (h : c.state ≠ st_RESENDREQ_AWAITING) : promoted c = false := by
  simp [promoted, h]

theorem active_not_promoted {c : Conn} (ha : c.state = st_ACTIVE) : promoted c = false :=
  not_promoted_of_ne (by rw [ha]; decide)

/-- `_finalize_message` when it does not end a resend wait: only the counter, `lastTime` and the journal move -/
theorem finalized_ctl (env : Env) (c : Conn) (m : Msg) (hnp : promoted c = false) :
    (finalized env c m).1.state = c.state ∧ (finalized env c m).1.sock = c.sock ∧
    (finalized env c m).1.hb = c.hb ∧ (finalized env c m).1.testReqId = c.testReqId ∧
    (c.state = st_ACTIVE → (finalized env c m).1.lastTime = env.now) ∧ NoDisc (finalized env c m).2 ∧
    writes (finalized env c m).2 = [] := by
  unfold finalized
  cases c.journal.persist .inbound c.sess.nextIn m <;>
    simp +contextual [hnp, NoDisc, isDisc, writes, st_ACTIVE, st_DISCONNECTED_BROKEN_CONN]

/-- on a connection the dispatch has just disconnected `_finalize_message` leaves `lastTime` alone (fix 5623bd4) -/
theorem finalized_lastTime_down (env : Env) (c : Conn) (m : Msg) (hd : c.state = st_DISCONNECTED_BROKEN_CONN) :
    (finalized env c m).1.lastTime = c.lastTime := by
  have hnp : promoted c = false := not_promoted_of_ne (by rw [hd]; decide)
  unfold finalized
  cases c.journal.persist .inbound c.sess.nextIn m <;> simp [hd, hnp]

/-- logged on in the wide sense: any state from LOGON_INITIAL_RECV upwards – ACTIVE, RESENDREQ_AWAITING,
RESENDREQ_HANDLING, RECV_SEQNUM_TOO_HIGH … –, transport up, interval `h`, resend watermark consistent -/
structure On (h : Int) (c : Conn) : Prop where
  state : 8 ≤ c.state
  sock : c.sock = true
  hb : c.hb = h
  watermark : WatermarkOk c

theorem Up.on {h : Int} {c : Conn} (hu : Up h c) : On h c :=
  ⟨active_ge8 hu.active, hu.sock, hu.hb, active_watermark hu.active⟩

/-- `_finalize_message` on a logged-on connection (wide sense): still logged on – RESENDREQ_AWAITING may
turn into ACTIVE, nothing else changes state –, `lastTime = now`, id untouched, no teardown, no frame -/
theorem finalized_on (env : Env) (h : Int) (c : Conn) (m : Msg) (ho : On h c) :
    On h (finalized env c m).1 ∧ (finalized env c m).1.lastTime = env.now ∧
    (finalized env c m).1.testReqId = c.testReqId ∧ NoDisc (finalized env c m).2 ∧
    writes (finalized env c m).2 = [] ∧
    ((finalized env c m).1.state = c.state ∨ (finalized env c m).1.state = st_ACTIVE) := by
  have h8 := ho.state
  have n3 : ¬ (c.state ≤ 3) := by omega
  unfold finalized
  by_cases hp : promoted c = true
  · cases c.journal.persist .inbound c.sess.nextIn m <;>
      simp [hp, NoDisc, isDisc, writes, st_ACTIVE, st_DISCONNECTED_BROKEN_CONN] <;>
      exact ⟨(by show (8 : Nat) ≤ 17; decide), ho.sock, ho.hb,
        fun hq => absurd (show (17 : Nat) = st_RESENDREQ_AWAITING from hq) (by decide)⟩
  · have hp' : promoted c = false := by simpa using hp
    have hw := ho.watermark
    cases c.journal.persist .inbound c.sess.nextIn m <;>
      simp [hp', NoDisc, isDisc, writes, st_DISCONNECTED_BROKEN_CONN, n3] <;>
      exact ⟨h8, ho.sock, ho.hb, hw⟩

/-- effects `e` of a dispatch followed by `_finalize_message` on what it left behind (`c1`, logged on) -/
theorem finalized_after (env : Env) (h : Int) (c1 : Conn) (m : Msg) (ho1 : On h c1) (e : List Effect)
    (he : NoDisc e) (hw : ∀ f ∈ writes e, f.mtype = mHeartbeat) :
    On h (finalized env c1 m).1 ∧ (finalized env c1 m).1.lastTime = env.now ∧
    (finalized env c1 m).1.testReqId = c1.testReqId ∧ NoDisc (e ++ (finalized env c1 m).2) ∧
    (∀ f ∈ writes (e ++ (finalized env c1 m).2), f.mtype = mHeartbeat) ∧
    ((finalized env c1 m).1.state = c1.state ∨ (finalized env c1 m).1.state = st_ACTIVE) := by
  obtain ⟨g1, g2, g3, g4, g5, g6⟩ := finalized_on env h c1 m ho1
  refine ⟨g1, g2, g3, he.append g4, ?_, g6⟩
  intro f hf
  rw [writes_append, g5, List.append_nil] at hf
  exact hw f hf

/-- a benign frame on a connection logged on in the wide sense (ACTIVE, RESENDREQ_AWAITING,
RESENDREQ_HANDLING, RECV_SEQNUM_TOO_HIGH, …): still logged on (RESENDREQ_AWAITING may become ACTIVE),
`lastTime = now`, the outstanding id is cleared exactly by an echo, nothing is torn down, and the only
frame possibly written is the Heartbeat answering an inbound TestRequest. -/
theorem recv_benign_on (sr : Msg → Bool) (env : Env) (h : Int) (c : Conn) (m : Msg) (ho : On h c)
    (hb : Benign c m) :
    On h (recv sr env c m).1 ∧ (recv sr env c m).1.lastTime = env.now ∧
    (recv sr env c m).1.testReqId = (if echoes c m then none else c.testReqId) ∧
    NoDisc (recv sr env c m).2 ∧ (∀ f ∈ writes (recv sr env c m).2, f.mtype = mHeartbeat) ∧
    ((recv sr env c m).1.state = c.state ∨ (recv sr env c m).1.state = st_ACTIVE) := by
  have h8 := ho.state
  have hwm := ho.watermark
  by_cases hi : IgnoredResend c m
  · -- ignored ResendRequest
    have hech : echoes c m = false := by simp [echoes, hi.1, mResendRequest, mHeartbeat]
    rw [recv_resend_ignored sr env c m h8 hwm hb.inseq hi, hech]
    split
    · have := finalized_after env h c m ho [] NoDisc.nil (by simp [writes])
      simpa using this
    · have ho1 : On h { c with state := st_ACTIVE, wasActive := true } :=
        ⟨(by show 8 ≤ st_ACTIVE; decide), ho.sock, ho.hb,
          fun hq => absurd (show st_ACTIVE = st_RESENDREQ_AWAITING from hq) (by decide)⟩
      obtain ⟨g1, g2, g3, g4, g5, g6⟩ := finalized_after env h _ m ho1
        [.onState st_RESENDREQ_HANDLING, .onState st_ACTIVE] (by simp [NoDisc, isDisc]) (by simp [writes])
      refine ⟨g1, g2, g3, g4, g5, Or.inr ?_⟩
      rcases g6 with g | g <;> exact g
  have hrt : Routine m := hb.kind.resolve_right hi
  by_cases hm : m.mtype = mHeartbeat
  · cases ht : c.testReqId with
    | none =>
      rw [recv_heartbeat_idle sr env c m h8 hwm hb.inseq hm (Or.inl ht)]
      have hech : echoes c m = false := by simp [echoes, ht]
      have := finalized_after env h c m ho [] NoDisc.nil (by simp [writes])
      simpa [hech, ht] using this
    | some tid =>
      cases hv : m.get? tTestReqID with
      | none =>
        rw [recv_heartbeat_idle sr env c m h8 hwm hb.inseq hm (Or.inr hv)]
        have hech : echoes c m = false := by simp [echoes, hv]
        have := finalized_after env h c m ho [] NoDisc.nil (by simp [writes])
        simpa [hech, ht] using this
      | some v =>
        rw [recv_heartbeat_echo sr env c m tid v h8 hwm hb.inseq hm ht hv (hb.rightId hm tid v ht hv)]
        have hech : echoes c m = true := by simp [echoes, hm, hv, ht]
        have ho1 : On h { c with testReqId := none } := ⟨ho.state, ho.sock, ho.hb, ho.watermark⟩
        have := finalized_after env h _ m ho1 [] NoDisc.nil (by simp [writes])
        simpa [hech] using this
  · have hne : (m.mtype == mHeartbeat) = false := by simpa using hm
    have hech : echoes c m = false := by simp [echoes, hne]
    rw [hech]
    by_cases hq : m.mtype = mTestRequest
    · rw [recv_testrequest sr env c m h8 hwm ho.sock hb.inseq hq]
      split
      · exact finalized_after env h c m ho [.caught .encoding] (by simp [NoDisc, isDisc]) (by simp [writes])
      · split
        · exact finalized_after env h (burnt c) m ⟨ho.state, ho.sock, ho.hb, ho.watermark⟩
            [.caught .duplicateSeqNo] (by simp [NoDisc, isDisc]) (by simp [writes])
        · exact finalized_after env h (sent c _) m ⟨ho.state, ho.sock, ho.hb, ho.watermark⟩
            [.write (frameOf env c (echoMsg m))] (by simp [NoDisc, isDisc])
            (by simp [writes, frameOf_mtype, echoMsg, Msg.mk'])
    · have hq' : (m.mtype == mTestRequest) = false := by simpa using hq
      rw [recv_app sr env c m h8 hwm hb.inseq ⟨hrt, hq', hne⟩]
      exact finalized_after env h c m ho [.deliver m] (by simp [NoDisc, isDisc]) (by simp [writes])

/-- the same on ACTIVE: stays ACTIVE -/
theorem recv_benign (sr : Msg → Bool) (env : Env) (h : Int) (c : Conn) (m : Msg) (hu : Up h c)
    (hb : Benign c m) :
    Up h (recv sr env c m).1 ∧ (recv sr env c m).1.lastTime = env.now ∧
    (recv sr env c m).1.testReqId = (if echoes c m then none else c.testReqId) ∧
    NoDisc (recv sr env c m).2 ∧ (∀ f ∈ writes (recv sr env c m).2, f.mtype = mHeartbeat) := by
  obtain ⟨o1, l1, t1, n1, w1, s1⟩ := recv_benign_on sr env h c m hu.on hb
  refine ⟨⟨?_, o1.sock, o1.hb⟩, l1, t1, n1, w1⟩
  rcases s1 with s | s
  · exact s.trans hu.active
  · exact s

end AsyncFix.Session.Watchdog
