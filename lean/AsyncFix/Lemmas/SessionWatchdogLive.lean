import AsyncFix.Lemmas.SessionWatchdogHist

/-!
C12 helper lemmas, part 5: benign inbound traffic and histories of ticks interleaved with it.
-/
namespace AsyncFix.Session.Watchdog

open AsyncFix.Generated AsyncFix.Generated.ConnEnum

/-! ### summary of a benign inbound frame -/

/-- valid inbound traffic in the sense of C12: passes the integrity check, carries the expected number,
is no Logon / SequenceReset / Logout / ResendRequest, and – if it is a Heartbeat with a TestReqID while
a TestRequest is outstanding – echoes the right id. -/
structure Benign (c : Conn) (m : Msg) : Prop where
  inseq : InSeq c m
  routine : Routine m
  rightId : m.mtype = mHeartbeat → ∀ tid v, c.testReqId = some tid → m.get? tTestReqID = some v →
    (pyInt v).getD 0 = tid

/-- the frame answers the outstanding TestRequest -/
def echoes (c : Conn) (m : Msg) : Bool :=
  m.mtype == mHeartbeat && c.testReqId.isSome && (m.get? tTestReqID).isSome

theorem finalized_ctl (env : Env) (c : Conn) (m : Msg) :
    (finalized env c m).1.state = c.state ∧ (finalized env c m).1.sock = c.sock ∧
    (finalized env c m).1.hb = c.hb ∧ (finalized env c m).1.testReqId = c.testReqId ∧
    (c.state = st_ACTIVE → (finalized env c m).1.lastTime = env.now) ∧ NoDisc (finalized env c m).2 ∧
    writes (finalized env c m).2 = [] := by
  unfold finalized
  cases c.journal.persist .inbound c.sess.nextIn m <;>
    simp +contextual [NoDisc, isDisc, writes, st_ACTIVE, st_DISCONNECTED_BROKEN_CONN]

/-- on a connection the dispatch has just disconnected `_finalize_message` leaves `lastTime` alone (fix 5623bd4) -/
theorem finalized_lastTime_down (env : Env) (c : Conn) (m : Msg) (hd : c.state = st_DISCONNECTED_BROKEN_CONN) :
    (finalized env c m).1.lastTime = c.lastTime := by
  unfold finalized
  cases c.journal.persist .inbound c.sess.nextIn m <;> simp [hd]

/-- a benign frame on a logged-on connection: still logged on, `lastTime = now`, the outstanding id is
cleared exactly by an echo, nothing is torn down, and the only frame possibly written is the Heartbeat
answering an inbound TestRequest. -/
theorem recv_benign (sr : Msg → Bool) (env : Env) (h : Int) (c : Conn) (m : Msg) (hu : Up h c)
    (hb : Benign c m) :
    Up h (recv sr env c m).1 ∧ (recv sr env c m).1.lastTime = env.now ∧
    (recv sr env c m).1.testReqId = (if echoes c m then none else c.testReqId) ∧
    NoDisc (recv sr env c m).2 ∧ (∀ f ∈ writes (recv sr env c m).2, f.mtype = mHeartbeat) := by
  by_cases hm : m.mtype = mHeartbeat
  · -- Heartbeat
    cases ht : c.testReqId with
    | none =>
      rw [recv_heartbeat_idle sr env c m hu.active hb.inseq hm (Or.inl ht)]
      obtain ⟨f1, f2, f3, f4, f5, f6, f7⟩ := finalized_ctl env c m
      refine ⟨⟨f1.trans hu.active, f2.trans hu.sock, f3.trans hu.hb⟩, f5 hu.active, ?_, f6, by simp [f7]⟩
      simp [f4, ht, echoes]
    | some tid =>
      cases hv : m.get? tTestReqID with
      | none =>
        rw [recv_heartbeat_idle sr env c m hu.active hb.inseq hm (Or.inr hv)]
        obtain ⟨f1, f2, f3, f4, f5, f6, f7⟩ := finalized_ctl env c m
        refine ⟨⟨f1.trans hu.active, f2.trans hu.sock, f3.trans hu.hb⟩, f5 hu.active, ?_, f6, by simp [f7]⟩
        simp [f4, ht, echoes, hv]
      | some v =>
        rw [recv_heartbeat_echo sr env c m tid v hu.active hb.inseq hm ht hv (hb.rightId hm tid v ht hv)]
        obtain ⟨f1, f2, f3, f4, f5, f6, f7⟩ := finalized_ctl env { c with testReqId := none } m
        refine ⟨⟨f1.trans hu.active, f2.trans hu.sock, f3.trans hu.hb⟩, f5 hu.active, ?_, f6, by simp [f7]⟩
        simp [f4, echoes, hm, hv, ht]
  · have hne : (m.mtype == mHeartbeat) = false := by simpa using hm
    have hech : echoes c m = false := by simp [echoes, hne]
    by_cases hq : m.mtype = mTestRequest
    · -- TestRequest
      rw [recv_testrequest sr env c m hu.active hu.sock hb.inseq hq, hech]
      have key : ∀ c1 : Conn, c1.state = c.state → c1.sock = c.sock → c1.hb = c.hb →
          c1.testReqId = c.testReqId → ∀ e : Effect, isDisc e = false →
          (∀ f ∈ writes [e], f.mtype = mHeartbeat) →
          Up h (finalized env c1 m).1 ∧ (finalized env c1 m).1.lastTime = env.now ∧
          (finalized env c1 m).1.testReqId = (if false = true then none else c.testReqId) ∧
          NoDisc (e :: (finalized env c1 m).2) ∧
          (∀ f ∈ writes (e :: (finalized env c1 m).2), f.mtype = mHeartbeat) := by
        intro c1 g1 g2 g3 g4 e he hw
        obtain ⟨f1, f2, f3, f4, f5, f6, f7⟩ := finalized_ctl env c1 m
        refine ⟨⟨(f1.trans g1).trans hu.active, (f2.trans g2).trans hu.sock, (f3.trans g3).trans hu.hb⟩,
          f5 (g1.trans hu.active),
          by simp [f4, g4], ?_, ?_⟩
        · intro x hx
          rcases List.mem_cons.mp hx with rfl | hx
          · exact he
          · exact f6 x hx
        · have : writes (e :: (finalized env c1 m).2) = writes [e] := by
            have := writes_append [e] (finalized env c1 m).2
            simpa [f7] using this
          rw [this]; exact hw
      split
      · exact key c rfl rfl rfl rfl _ rfl (by simp [writes])
      · split
        · exact key (burnt c) rfl rfl rfl rfl _ rfl (by simp [writes])
        · exact key (sent c _) rfl rfl rfl rfl _ rfl (by simp [writes, frameOf_mtype, echoMsg, Msg.mk'])
    · -- application message
      have hq' : (m.mtype == mTestRequest) = false := by simpa using hq
      rw [recv_app sr env c m hu.active hb.inseq ⟨hb.routine, hq', hne⟩, hech]
      obtain ⟨f1, f2, f3, f4, f5, f6, f7⟩ := finalized_ctl env c m
      refine ⟨⟨f1.trans hu.active, f2.trans hu.sock, f3.trans hu.hb⟩, f5 hu.active, by simp [f4], ?_, ?_⟩
      · intro x hx
        rcases List.mem_cons.mp hx with rfl | hx
        · rfl
        · exact f6 x hx
      · simp [writes, f7]

end AsyncFix.Session.Watchdog
