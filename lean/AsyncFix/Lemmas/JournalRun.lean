/-
C08: every method program, run for any number of execute()/commit() calls from any connection
state, (1) touches the file only by one commit that publishes the method's complete effect,
(2) when it returns, the connection sees exactly what the pure method (`applyOp`) computes, and
returns the same result provided the bound integers fit 64 bits.
-/
import AsyncFix.Lemmas.JournalExec
namespace AsyncFix.Model.Journal

/-- all integers the call binds fit 64 bits (then the kind of exception does not depend on the
connection's stale error code) -/
def Op.ParamsFit : Op → Bool
  | .persist msg h _ => (match findSeqNo msg with | some n => fits n && fits h.key | none => true)
  | .setSeqNum h out inn =>
    out.any (· ≤ 0) || inn.any (· ≤ 0) ||
      (fits (effIn h inn - 1) && fits (effOut h out - 1) && fits h.key && fits (effIn h inn) && fits (effOut h out))
  | .recover h _ lo hi => fits h.key && fits lo.param && fits hi.param
  | .recoverMsg h _ b => fits h.key && fits b.param
  | .getAll keys _ => ((normKeys keys).getD []).all fits
  | _ => true

/-- what is claimed about running a program for `n` calls from `c`: `base` = what the file held
when the method was entered, `j'`/`res` = what the pure method computes -/
structure RunSpec (p : Prog Res) (c : Conn) (base j' : Journal) (res : Res) (fit : Bool) (n : Nat) : Prop where
  committed : (p.run n c).1.committed = base ∨ (p.run n c).1.committed = j'
  working : ∀ a, (p.run n c).2.2 = some a → (p.run n c).1.working = j'
  result : ∀ a, (p.run n c).2.2 = some a → fit = true → a = res
  clean : ∀ a, (p.run n c).2.2 = some a → (p.run n c).1.Clean

theorem fits_dirVal (d : Dir) : fits d.val = true := by cases d <;> decide

/-- a method (or the rest of one) that makes no further call -/
theorem runSpec_ret (a res : Res) (c : Conn) (fit : Bool) (n : Nat)
    (hres : fit = true → a = res) (hcl : c.Clean) :
    RunSpec (.ret a) c c.committed c.working res fit n := by
  constructor
  · left; rfl
  · intro _ _; rfl
  · intro b hb hfit; simp only [Prog.run, Option.some.injEq] at hb; rw [← hb]; exact hres hfit
  · intro _ _; exact hcl

/-- the rest of a method: `commit()` inside a transaction, then return -/
theorem runSpec_commit_ret (a res : Res) (c : Conn) (fit : Bool) (n : Nat) (hin : c.inTx = true)
    (hres : fit = true → a = res) :
    RunSpec (.commit (.ret a)) c c.committed c.working res fit n := by
  obtain ⟨hw, hc, -⟩ := commit_spec c
  rw [hin] at hc
  cases n with
  | zero => constructor <;> simp [Prog.run]
  | succ n =>
    constructor
    · right; simp only [Prog.run, hc, if_true]
    · intro _ _; simp only [Prog.run, hw]
    · intro b hb hfit; simp only [Prog.run, Option.some.injEq] at hb; rw [← hb]; exact hres hfit
    · intro _ _; simp only [Prog.run, Conn.Clean, hw, hc, if_true]

/-- the rest of a method that failed inside a transaction: `rollback()`, then re-raise -/
theorem runSpec_rollback_ret (a res : Res) (c : Conn) (fit : Bool) (n : Nat) (hin : c.inTx = true)
    (hres : fit = true → a = res) :
    RunSpec (.rollback (.ret a)) c c.committed c.committed res fit n := by
  obtain ⟨hw, hc, -⟩ := rollback_spec c hin
  cases n with
  | zero => constructor <;> simp [Prog.run]
  | succ n =>
    constructor
    · left; simp only [Prog.run, hc]
    · intro _ _; simp only [Prog.run, hw]
    · intro b hb hfit; simp only [Prog.run, Option.some.injEq] at hb; rw [← hb]; exact hres hfit
    · intro _ _; simp only [Prog.run, Conn.Clean, hw, hc]

/-- one `execute()` that does not publish anything, followed by the rest -/
theorem runSpec_exec (s : Stmt) (k : SRes → Prog Res) (c : Conn) (base j' : Journal) (res : Res)
    (fit : Bool) (n : Nat) (hbase : c.committed = base)
    (hk : ∀ m, RunSpec (k (c.exec s).2) (c.exec s).1 base j' res fit m) :
    RunSpec (.exec s k) c base j' res fit n := by
  cases n with
  | zero => constructor <;> simp [Prog.run, hbase]
  | succ n => obtain ⟨h1, h2, h3, h4⟩ := hk n; exact ⟨h1, h2, h3, h4⟩

/-- a method that is one SELECT, entered with nothing uncommitted -/
theorem runSpec_select (s : Stmt) (f : SRes → Res) (c : Conn) (hro : s.readOnly = true) (hcl : c.Clean)
    (res : Res) (fit : Bool) (hres : fit = true → s.bindOk = true ∧ f (s.run c.working).2 = res) (n : Nat) :
    RunSpec (.exec s fun r => .ret (f r)) c c.committed c.working res fit n := by
  have hdml := readOnly_not_dml hro
  have hrun := run_readOnly hro c.working
  apply runSpec_exec _ _ _ _ _ _ _ _ rfl
  intro m
  by_cases hb : s.bindOk = true
  · obtain ⟨hr, hw, hc⟩ := exec_ok c s hb
    rw [hrun] at hw hc
    have hc' : (c.exec s).1.committed = c.committed := by
      rw [hc]; split
      · rfl
      · exact hcl
    have := runSpec_ret (f (c.exec s).2) res (c.exec s).1 fit m
      (fun hfit => by rw [hr]; exact (hres hfit).2) (by simp only [Conn.Clean, hw, hc']; exact hcl)
    rwa [hw, hc'] at this
  · have hb' : s.bindOk = false := by simpa using hb
    obtain ⟨-, hw, hc⟩ := exec_fail c s hb'
    have := runSpec_ret (f (c.exec s).2) res (c.exec s).1 fit m
      (fun hfit => by rw [(hres hfit).1] at hb'; cases hb') (by simp only [Conn.Clean, hw, hc]; exact hcl)
    rwa [hw, hc] at this

end AsyncFix.Model.Journal
