import AsyncFix.Lemmas.TesterLatin

/-!
C20 helper lemmas: the closed forms restated as FUNCTIONS of the connection (`afterSend`, `afterIn`)
under the invariant `Est` of an established clean session, their preservation of `Est`, and the relation
`AccEq` between the tester's acceptor and a real one (equal except for the outbound half of the journal).
-/
namespace AsyncFix.Tester
open AsyncFix.Session AsyncFix.Generated AsyncFix.Generated.ConnEnum

/-- the journal after persisting inbound frame `f` under the expected number (unchanged when the row
exists – never the case under `JFresh`) -/
def jIn (c : Conn) (f : Msg) : Journal := (c.journal.persist .inbound c.sess.nextIn f).getD c.journal

def jOut (c : Conn) (env : Env) (m : Msg) : Journal :=
  (c.journal.persist .outbound c.sess.nextOut (sentFrame c env m)).getD c.journal

/-- connection after `send_msg(m)` went through -/
def afterSend (c : Conn) (env : Env) (m : Msg) : Conn :=
  { c with sess := { c.sess with nextOut := c.sess.nextOut + 1 }, journal := jOut c env m }

/-- connection after an in-sequence frame was finalized -/
def afterIn (c : Conn) (env : Env) (f : Msg) : Conn :=
  { c with sess := { c.sess with nextIn := c.sess.nextIn + 1 }, lastTime := env.now, journal := jIn c f }

theorem jIn_spec {c : Conn} (f : Msg) (h : JFresh c) :
    c.journal.persist .inbound c.sess.nextIn f = some (jIn c f) := by
  obtain ⟨j, hj, _, _⟩ := persist_in_fresh f h
  simp [jIn, hj]

theorem jOut_spec {c : Conn} (env : Env) (m : Msg) (h : JFresh c) :
    c.journal.persist .outbound c.sess.nextOut (sentFrame c env m) = some (jOut c env m) := by
  obtain ⟨j, hj, _, _⟩ := persist_out_fresh (sentFrame c env m) h
  simp [jOut, hj]

theorem jfresh_afterSend {c : Conn} (env : Env) (m : Msg) (h : JFresh c) : JFresh (afterSend c env m) := by
  obtain ⟨j, hj, hi, hb⟩ := persist_out_fresh (sentFrame c env m) h
  have e : jOut c env m = j := by simp [jOut, hj]
  exact ⟨by simpa [afterSend, e] using hb, by simpa [afterSend, e, hi] using h.inb⟩

theorem jfresh_afterIn {c : Conn} (env : Env) (f : Msg) (h : JFresh c) : JFresh (afterIn c env f) := by
  obtain ⟨j, hj, ho, hb⟩ := persist_in_fresh f h
  have e : jIn c f = j := by simp [jIn, hj]
  exact ⟨by simpa [afterIn, e, ho] using h.out, by simpa [afterIn, e] using hb⟩

/-- a connection in the middle of a clean session -/
structure Est (c : Conn) : Prop where
  st : c.state = st_ACTIVE
  was : c.wasActive = true
  sock : c.sock = true
  noreq : c.testReqId = none
  posIn : 0 < c.sess.nextIn
  fresh : JFresh c
  latinS : isLatin1 c.sess.sender = true
  latinT : isLatin1 c.sess.target = true

theorem est_afterSend {c : Conn} (env : Env) (m : Msg) (h : Est c) : Est (afterSend c env m) :=
  ⟨h.st, h.was, h.sock, h.noreq, h.posIn, jfresh_afterSend env m h.fresh, h.latinS, h.latinT⟩

theorem est_afterIn {c : Conn} (env : Env) (f : Msg) (h : Est c) : Est (afterIn c env f) :=
  ⟨h.st, h.was, h.sock, h.noreq, by show 0 < c.sess.nextIn + 1; have := h.posIn; omega,
   jfresh_afterIn env f h.fresh, h.latinS, h.latinT⟩

/-- a message the application (or the session layer) sends in a clean script: not a SequenceReset, no
PossDupFlag=Y, ASCII -/
structure PlainMsg (m : Msg) : Prop where
  notReset : m.mtype ≠ mSequenceReset
  noPossDup : (m.get? tPossDupFlag).getD "N" ≠ "Y"
  latin1 : latin1Msg m = true

theorem sentFrame_latin1 {c : Conn} {env : Env} {m : Msg} (hS : isLatin1 c.sess.sender = true)
    (hT : isLatin1 c.sess.target = true) (henv : isLatin1 env.stamp = true) (hm : latin1Msg m = true) :
    frameLatin1 (sentFrame c env m) = true := frameLatin1_buildFrame _ _ _ _ hS hT henv hm

/-- `send_msg` on an established connection (a TestRequest only with its id registered) -/
theorem send_est {env : Env} {c : Conn} {m : Msg} (h : Est c) (hm : PlainMsg m) (henv : isLatin1 env.stamp = true)
    (htr : m.mtype ≠ mTestRequest) :
    sendMsg env m c = ⟨.ok (), afterSend c env m, [.write (sentFrame c env m)]⟩ :=
  sendMsg_closed (by rw [h.st]; decide) (by rw [h.st]; simp [st_ACTIVE, st_LOGON_INITIAL_SENT]) hm.notReset
    (fun e => absurd e htr) hm.noPossDup
    ((sentFrame_latin1 h.latinS h.latinT henv hm.latin1)) (jOut_spec env m h.fresh) h.sock

theorem appSend_est {env : Env} {c : Conn} {m : Msg} (h : Est c) (hm : PlainMsg m) (henv : isLatin1 env.stamp = true)
    (htr : m.mtype ≠ mTestRequest) :
    appSend env c m = (afterSend c env m, [.write (sentFrame c env m)]) := by
  simp [appSend, M.run, send_est h hm henv htr]

theorem recv_app_est {sr : Msg → Bool} {env : Env} {c : Conn} {f : Msg} {v : String} (h : Est c)
    (ha : Addressed c f v c.sess.nextIn) (hty : isAppType f.mtype) :
    recv sr env c f = (afterIn c env f, [.deliver f]) :=
  recv_app ha h.st hty h.posIn (jIn_spec f h.fresh)

theorem recv_hb_est {sr : Msg → Bool} {env : Env} {c : Conn} {f : Msg} {v : String} (h : Est c)
    (ha : Addressed c f v c.sess.nextIn) (hty : f.mtype = mHeartbeat) :
    recv sr env c f = (afterIn c env f, []) :=
  recv_hb_idle ha h.st hty h.noreq h.posIn (jIn_spec f h.fresh)

theorem recv_logout_est {sr : Msg → Bool} {env : Env} {c : Conn} {f : Msg} {v : String} (h : Est c)
    (ha : Addressed c f v c.sess.nextIn) (hty : f.mtype = mLogout) :
    recv sr env c f =
      ({ c with state := st_DISCONNECTED_WCONN_TODAY, testReqId := none, lastTime := 0, maxResend := 0, sock := false },
       [.onLogout f, .closeSocket, .onState st_DISCONNECTED_WCONN_TODAY, .onDisconnect]) :=
  recv_logout ha h.st h.was hty h.sock

theorem hbReply_plain (f : Msg) (h : isLatin1 ((f.get? tTestReqID).getD "0") = true) : PlainMsg (hbReply f) :=
  ⟨by simp [hbReply, Msg.mk', mHeartbeat, mSequenceReset],
   by simp [hbReply, Msg.mk', Msg.get?, Msg.lookup, tPossDupFlag, tTestReqID],
   by simp [latin1Msg, hbReply, Msg.mk', h]; decide⟩

theorem recv_testreq_est {sr : Msg → Bool} {env : Env} {c : Conn} {f : Msg} {v : String} (h : Est c)
    (ha : Addressed c f v c.sess.nextIn) (hty : f.mtype = mTestRequest) (henv : isLatin1 env.stamp = true)
    (hid : isLatin1 ((f.get? tTestReqID).getD "0") = true) :
    recv sr env c f =
      (afterIn (afterSend c env (hbReply f)) env f, [.write (sentFrame c env (hbReply f))]) := by
  have hp := hbReply_plain f hid
  have hj1 := jOut_spec env (hbReply f) h.fresh
  have hj2 := jIn_spec f (jfresh_afterSend env (hbReply f) h.fresh)
  have := recv_testreq (sr := sr) ha h.st hty
    ((sentFrame_latin1 h.latinS h.latinT henv hp.latin1)) hj1 h.sock h.posIn hj2
  rw [this]
  rfl

end AsyncFix.Tester
