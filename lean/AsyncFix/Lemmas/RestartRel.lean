import AsyncFix.Lemmas.RestartMonad

/-!
Proof infrastructure of the Restart family: specifications of handlers that only speak about runs that
RETURN (and, for `excFree`, in which no exception was swallowed either).

`OkSpec g x Q`: whenever `x c` returns `a` leaving `c'` with effects `e` and `g e = true`, then
`Q c a c' e`.  `g` is an effect guard (`excFree` or `fun _ => true`).  `OkRel g R x` is the relational
special case; relations are `Compositional` (Lemmas/SessionRel.lean), so `OkRel` lifts through `bind`,
`if`, `match` and through `swallow` (a swallowed exception leaves a `caught` effect, which `excFree`
rules out).  `ok_tac [lemmas]` walks a handler body like `rel_tac` does for `M.Rel`.
-/
set_option linter.unusedSectionVars false

namespace AsyncFix.Restart

open AsyncFix.Session AsyncFix.Generated AsyncFix.Generated.ConnEnum

/-- no exception was swallowed (`caught`) and none escaped (`raised`) -/
def excFree (e : List Effect) : Bool :=
  e.all fun x => match x with
    | .caught _ => false
    | .raised _ => false
    | _ => true

class EffGuard (g : List Effect → Bool) : Prop where
  nil : g [] = true
  app : ∀ a b, g (a ++ b) = (g a && g b)

instance : EffGuard excFree where
  nil := rfl
  app := fun a b => by simp [excFree, List.all_append]

def noGuard (_ : List Effect) : Bool := true

instance : EffGuard noGuard where
  nil := rfl
  app := fun _ _ => rfl

theorem excFree_append (a b : List Effect) : excFree (a ++ b) = (excFree a && excFree b) := EffGuard.app a b

structure OkSpec {α : Type} (g : List Effect → Bool) (x : M α)
    (Q : Conn → α → Conn → List Effect → Prop) : Prop where
  out : ∀ c a c' e, x c = ⟨.ok a, c', e⟩ → g e = true → Q c a c' e

abbrev OkRel {α : Type} (g : List Effect → Bool) (R : Conn → Conn → List Effect → Prop) (x : M α) : Prop :=
  OkSpec g x (fun c _ c' e => R c c' e)

namespace OkSpec
variable {α β : Type} {g : List Effect → Bool} [EffGuard g]

theorem conseq {x : M α} {Q Q' : Conn → α → Conn → List Effect → Prop}
    (h : OkSpec g x Q) (hq : ∀ c a c' e, Q c a c' e → Q' c a c' e) : OkSpec g x Q' :=
  ⟨fun c a c' e hx hg => hq _ _ _ _ (h.out c a c' e hx hg)⟩

theorem and {x : M α} {Q Q' : Conn → α → Conn → List Effect → Prop}
    (h : OkSpec g x Q) (h' : OkSpec g x Q') : OkSpec g x (fun c a c' e => Q c a c' e ∧ Q' c a c' e) :=
  ⟨fun c a c' e hx hg => ⟨h.out c a c' e hx hg, h'.out c a c' e hx hg⟩⟩

/-- general sequencing rule -/
theorem bind {x : M α} {f : α → M β} {Q1 : Conn → α → Conn → List Effect → Prop}
    {Q2 : α → Conn → β → Conn → List Effect → Prop} {Q : Conn → β → Conn → List Effect → Prop}
    (hx : OkSpec g x Q1) (hf : ∀ a, OkSpec g (f a) (Q2 a))
    (comb : ∀ c a c1 e1 b c2 e2, Q1 c a c1 e1 → Q2 a c1 b c2 e2 → Q c b c2 (e1 ++ e2)) :
    OkSpec g (x >>= f) Q := by
  constructor
  intro c b c2 e hxc hg
  rcases hx1 : x c with ⟨r, c1, e1⟩
  cases r with
  | error ex => rw [M.bind_err hx1] at hxc; cases hxc
  | ok a =>
    rw [M.bind_ok hx1] at hxc
    rcases hf1 : f a c1 with ⟨r2, c2', e2⟩
    rw [hf1] at hxc
    simp only [Out.mk.injEq] at hxc
    obtain ⟨hr, hc, he⟩ := hxc
    subst hr hc he
    rw [EffGuard.app (g := g), Bool.and_eq_true] at hg
    exact comb _ _ _ _ _ _ _ (hx.out _ _ _ _ hx1 hg.1) ((hf a).out _ _ _ _ hf1 hg.2)

/-- from the all-outcomes relation of Lemmas/SessionRel.lean -/
theorem ofRel {R : Conn → Conn → List Effect → Prop} {x : M α} (h : M.Rel R x) : OkRel g R x :=
  ⟨fun c a c' e hx _ => by have := h.out c; rw [hx] at this; exact this⟩

end OkSpec

namespace OkRel
variable {α β : Type} {g : List Effect → Bool} [EffGuard g]
  {R : Conn → Conn → List Effect → Prop} [Compositional R]

theorem pure (a : α) : OkRel g R (Pure.pure a : M α) :=
  ⟨fun c _ _ _ h _ => by cases h; exact Compositional.refl c⟩
theorem throw (ex : Exc) : OkRel g R (M.throw ex : M α) := ⟨fun _ _ _ _ h _ => by cases h⟩
theorem get : OkRel g R M.get := ⟨fun c _ _ _ h _ => by cases h; exact Compositional.refl c⟩
theorem liftE (x : Except Exc α) : OkRel g R (M.liftE x) :=
  ⟨fun c _ _ _ h _ => by cases x <;> cases h; exact Compositional.refl c⟩
theorem assert (b : Bool) : OkRel g R (M.assert b) :=
  ⟨fun c _ _ _ h _ => by rw [M.assert_apply] at h; split at h <;> cases h; exact Compositional.refl c⟩
theorem int (s : String) : OkRel g R (M.int s) :=
  ⟨fun c _ _ _ h _ => by rw [M.int_apply] at h; split at h <;> cases h; exact Compositional.refl c⟩

theorem bind {x : M α} {f : α → M β} (hx : OkRel g R x) (hf : ∀ a, OkRel g R (f a)) :
    OkRel g R (x >>= f) :=
  OkSpec.bind hx hf (fun _ _ _ _ _ _ _ h1 h2 => Compositional.trans h1 h2)

omit [EffGuard g] [Compositional R] in
theorem ite {p : Prop} [Decidable p] {a b : M α} (ha : OkRel g R a) (hb : OkRel g R b) :
    OkRel g R (if p then a else b) := by
  split <;> assumption

omit [EffGuard g] [Compositional R] in
theorem modify {f : Conn → Conn} (h : ∀ c, R c (f c) []) : OkRel g R (M.modify f) :=
  ⟨fun c _ _ _ hx _ => by cases hx; exact h c⟩

omit [EffGuard g] [Compositional R] in
theorem emit {e : Effect} (h : ∀ c, R c c [e]) : OkRel g R (M.emit e) :=
  ⟨fun c _ _ _ hx _ => by cases hx; exact h c⟩

end OkRel

/-- `swallow`: either `x` returned, or a `caught` effect was emitted -/
theorem OkSpec.swallow {α : Type} {x : M α} {d : α} {Q : Conn → α → Conn → List Effect → Prop}
    (hx : OkSpec excFree x Q) : OkSpec excFree (swallow d x) Q := by
  constructor
  intro c a c' e h hg
  unfold Session.swallow at h
  rcases hx1 : x c with ⟨r, c1, e1⟩
  cases r with
  | ok a1 =>
    rw [M.tryCatch_ok hx1] at h
    cases h
    exact hx.out _ _ _ _ hx1 hg
  | error ex =>
    rw [M.tryCatch_err hx1] at h
    have : e = e1 ++ [Effect.caught ex] := by
      have := congrArg Out.eff h
      simpa [M.bind_ok (M.emit_apply (Effect.caught ex) c1)] using this.symm
    subst this
    simp [excFree, List.all_append] at hg

/-- `try: x except Exception as ex: y; raise`: on runs without exceptions it is `x` -/
theorem OkSpec.tryCatch_rethrow {α β : Type} {g : List Effect → Bool} {x : M α} {y : M β}
    {Q : Conn → α → Conn → List Effect → Prop} (hx : OkSpec g x Q) :
    OkSpec g (M.tryCatch x fun ex => y >>= fun _ => (M.throw ex : M α)) Q :=
  ⟨fun c a c' e h hg => hx.out c a c' e (M.tryCatch_rethrow_ok h) hg⟩

/-- the walking tactic: structural rules, then the callee lemmas given -/
syntax "ok_tac" "[" term,* "]" : tactic
open Lean in
macro_rules
  | `(tactic| ok_tac [$ls,*]) => do
    let user ← ls.getElems.mapM fun l => `(tactic| apply $l)
    let builtin ← #[``OkRel.pure, ``OkRel.throw, ``OkRel.get, ``OkRel.liftE, ``OkRel.assert, ``OkRel.int].mapM
      fun n => `(tactic| apply $(mkIdent n))
    let tail ← #[``OkRel.bind, ``OkRel.ite, ``OkSpec.swallow, ``OkSpec.tryCatch_rethrow].mapM fun n => `(tactic| apply $(mkIdent n))
    let all := #[← `(tactic| intro _)] ++ builtin ++ user ++ tail ++ #[← `(tactic| split), ← `(tactic| rfl), ← `(tactic| exact ⟨rfl, rfl, rfl⟩), ← `(tactic| contradiction)]
    `(tactic| repeat' (first $[| $all:tactic]*))

end AsyncFix.Restart
