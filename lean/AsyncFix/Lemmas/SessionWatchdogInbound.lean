import AsyncFix.Lemmas.SessionWatchdogRecv

/-!
C12 helper lemmas, part 3: `recv` of a valid in-sequence frame on a logged-on connection, per message
class, as closed equations; and their summary `recv_benign` used by the history theorems.
-/
namespace AsyncFix.Session.Watchdog

open AsyncFix.Generated AsyncFix.Generated.ConnEnum

/-- consistency of the resend watermark: it is positive while a resend is awaited (the code asserts it) -/
def WatermarkOk (c : Conn) : Prop := c.state = st_RESENDREQ_AWAITING → 0 < c.maxResend

theorem active_watermark {c : Conn} (ha : c.state = st_ACTIVE) : WatermarkOk c := by
  intro h; rw [ha] at h; exact absurd h (by decide)

theorem heartbeat_not_reset {m : Msg} (hm : m.mtype = mHeartbeat) : (m.mtype == mSequenceReset) = false := by
  rw [hm]; decide

/-- what `recv` amounts to once the (swallowed) dispatch is known to end normally in `c1` with effects
`e1`, and `c1` still expects the same number and is not awaiting a resend -/
theorem recv_via (sr : Msg → Bool) (env : Env) (c c1 : Conn) (m : Msg) (e1 : List Effect)
    (h8 : 8 ≤ c.state) (h : InSeq c m) (hr : Headable m)
    (hd : swallow () (processDispatch env sr m true c.sess.nextIn) c = ⟨.ok (), c1, e1⟩)
    (h1 : InSeq c1 m) (hw : WatermarkOk c1) :
    recv sr env c m = ((finalized env c1 m).1, e1 ++ (finalized env c1 m).2) := by
  rw [recv_on sr env c c1 m e1 h8 h hr hd, finalizeMessage_inseq env c1 m h1 hr.2.1 hw]

/-- interval Heartbeat (or any Heartbeat while nothing is outstanding): only `_finalize_message` -/
theorem recv_heartbeat_idle (sr : Msg → Bool) (env : Env) (c : Conn) (m : Msg) (h8 : 8 ≤ c.state)
    (hw : WatermarkOk c) (h : InSeq c m) (hm : m.mtype = mHeartbeat) (hi : c.testReqId = none ∨ m.get? tTestReqID = none) :
    recv sr env c m = finalized env c m := by
  have hd : swallow () (processDispatch env sr m true c.sess.nextIn) c = ⟨.ok (), c, []⟩ := by
    apply swallow_ok
    rw [dispatch_heartbeat env sr c m _ hm]
    rcases hi with hi | hi
    · rw [hi]
    · rw [hi]; cases c.testReqId <;> rfl
  rw [recv_via sr env c c m [] h8 h (heartbeat_routine hm).headable hd h hw]
  simp

/-- Heartbeat echoing the outstanding TestReqID: the id is cleared -/
theorem recv_heartbeat_echo (sr : Msg → Bool) (env : Env) (c : Conn) (m : Msg) (tid : Int) (v : String)
    (h8 : 8 ≤ c.state) (hw : WatermarkOk c) (h : InSeq c m) (hm : m.mtype = mHeartbeat)
    (ht : c.testReqId = some tid) (hv : m.get? tTestReqID = some v) (he : (pyInt v).getD 0 = tid) :
    recv sr env c m = finalized env { c with testReqId := none } m := by
  have hd : swallow () (processDispatch env sr m true c.sess.nextIn) c =
      ⟨.ok (), { c with testReqId := none }, []⟩ := by
    apply swallow_ok
    rw [dispatch_heartbeat env sr c m _ hm, ht, hv]
    simp [he]
  rw [recv_via sr env c _ m [] h8 h (heartbeat_routine hm).headable hd (h.congr rfl rfl rfl) hw]
  simp

/-- the reason text of the Logout sent for a wrong TestReqID -/
def wrongIdText : String := "Invalid TestRequest(TestReqID) received"

/-- Heartbeat with a different (or non-numeric, counted as 0) TestReqID while one is outstanding, Logout
sendable: Logout with the reason text written, socket closed, DISCONNECTED_BROKEN_CONN, `on_disconnect`
– and then `_finalize_message` still runs on the disconnected connection. -/
theorem recv_heartbeat_wrong (sr : Msg → Bool) (env : Env) (c : Conn) (m : Msg) (tid : Int) (v : String)
    (j : Journal) (ha : c.state = st_ACTIVE) (hs : c.sock = true) (h : InSeq c m) (hm : m.mtype = mHeartbeat)
    (ht : c.testReqId = some tid) (hv : m.get? tTestReqID = some v) (he : (pyInt v).getD 0 ≠ tid)
    (hl : frameLatin1 (frameOf env (cleared c) (logoutMsg wrongIdText)) = true)
    (hj : c.journal.persist .outbound c.sess.nextOut (frameOf env (cleared c) (logoutMsg wrongIdText)) = some j) :
    recv sr env c m =
      ((finalized env (dropped (sent c j)) m).1,
       (.write (frameOf env (cleared c) (logoutMsg wrongIdText)) :: dropEff)
         ++ (finalized env (dropped (sent c j)) m).2) := by
  have hd : swallow () (processDispatch env sr m true c.sess.nextIn) c =
      ⟨.ok (), dropped (sent c j), .write (frameOf env (cleared c) (logoutMsg wrongIdText)) :: dropEff⟩ := by
    apply swallow_ok
    rw [dispatch_heartbeat env sr c m _ hm, ht, hv]
    have he' : ¬ tid = (pyInt v).getD 0 := fun e => he e.symm
    simp only [he', if_false]
    have := disconnect_logout_active env c wrongIdText ha hs
    rw [hl, hj] at this
    simp only [Bool.true_eq_false, if_false] at this
    exact this
  exact recv_via sr env c _ m _ (active_ge8 ha) h (heartbeat_routine hm).headable hd (h.congr rfl rfl rfl)
    (fun hq => absurd (show st_DISCONNECTED_BROKEN_CONN = st_RESENDREQ_AWAITING from hq) (by decide))

/-- inbound TestRequest: exactly one Heartbeat carrying the request's TestReqID (`0` when absent) is
written – unless `send_msg` raises (frame not latin-1 / journal row exists), which `_process_message`
swallows; `_finalize_message` runs in every case. -/
theorem recv_testrequest (sr : Msg → Bool) (env : Env) (c : Conn) (m : Msg) (h8 : 8 ≤ c.state)
    (hw : WatermarkOk c) (hs : c.sock = true) (h : InSeq c m) (hm : m.mtype = mTestRequest) :
    recv sr env c m =
      if frameLatin1 (frameOf env c (echoMsg m)) = false then
        ((finalized env c m).1, .caught .encoding :: (finalized env c m).2)
      else match c.journal.persist .outbound c.sess.nextOut (frameOf env c (echoMsg m)) with
        | none => ((finalized env (burnt c) m).1, .caught .duplicateSeqNo :: (finalized env (burnt c) m).2)
        | some j => ((finalized env (sent c j) m).1,
                     .write (frameOf env c (echoMsg m)) :: (finalized env (sent c j) m).2) := by
  have hsend := sendMsg_on env c (echoMsg m) h8 hs (echoMsg_plain m)
    (by simp [echoMsg, Msg.mk', mHeartbeat, mTestRequest])
  rw [← dispatch_testrequest env sr c m c.sess.nextIn hm] at hsend
  have hr := (testrequest_routine hm).headable
  cases hl : frameLatin1 (frameOf env c (echoMsg m))
  · rw [hl] at hsend
    simp only [if_true] at hsend
    rw [recv_via sr env c c m _ h8 h hr (swallow_err hsend) h hw]
    simp
  · rw [hl] at hsend
    simp only [Bool.true_eq_false, if_false] at hsend
    cases hj : c.journal.persist Dir.outbound c.sess.nextOut (frameOf env c (echoMsg m))
    · rw [hj] at hsend
      rw [recv_via sr env c (burnt c) m _ h8 h hr (swallow_err hsend) (h.congr rfl rfl rfl) hw]
      simp
    · rw [hj] at hsend
      rw [recv_via sr env c (sent c _) m _ h8 h hr (swallow_ok hsend) (h.congr rfl rfl rfl) hw]
      simp

/-- application message (any type the session layer does not handle itself): delivered, finalised -/
theorem recv_app (sr : Msg → Bool) (env : Env) (c : Conn) (m : Msg) (h8 : 8 ≤ c.state) (hw : WatermarkOk c)
    (h : InSeq c m) (ht : AppType m) :
    recv sr env c m = ((finalized env c m).1, .deliver m :: (finalized env c m).2) := by
  rw [recv_via sr env c c m _ h8 h ht.1.headable (swallow_ok (dispatch_app env sr c m ht)) h hw]
  simp

/-! ### a ResendRequest that is ignored -/

/-- an inbound ResendRequest for numbers never sent: BeginSeqNo and EndSeqNo numeric, BeginSeqNo below 1 or at /
beyond `next_num_out` -/
def IgnoredResend (c : Conn) (m : Msg) : Prop :=
  m.mtype = mResendRequest ∧ ∃ b e : Int, (m.get? tBeginSeqNo).bind pyInt = some b ∧
    (m.get? tEndSeqNo).bind pyInt = some e ∧ (b < 1 ∨ c.sess.nextOut ≤ b)

theorem resend_headable {m : Msg} (hm : m.mtype = mResendRequest) : Headable m := by
  simp [Headable, hm, mResendRequest, mLogon, mSequenceReset, mLogout]

theorem bind_pyInt {o : Option String} {n : Int} (h : o.bind pyInt = some n) : ∃ v, o = some v ∧ pyInt v = some n := by
  cases o with
  | none => simp at h
  | some v => exact ⟨v, rfl, by simpa using h⟩

/-- `_process_resend` for an ignored request: RESENDREQ_HANDLING and straight back to ACTIVE (two
`on_state_change` calls) – unless a resend is awaited, then nothing at all; nothing is written. -/
theorem dispatch_resend_ignored (env : Env) (sr : Msg → Bool) (c : Conn) (m : Msg) (n : Int)
    (hi : IgnoredResend c m) :
    processDispatch env sr m true n c =
      if c.state = st_RESENDREQ_AWAITING then ⟨.ok (), c, []⟩
      else ⟨.ok (), { c with state := st_ACTIVE, wasActive := true },
            [.onState st_RESENDREQ_HANDLING, .onState st_ACTIVE]⟩ := by
  obtain ⟨hm, b, e, hb, he, hr⟩ := hi
  obtain ⟨vb, hvb, hpb⟩ := bind_pyInt hb
  obtain ⟨ve, hve, hpe⟩ := bind_pyInt he
  unfold processDispatch
  simp only [hm, mResendRequest, beq_self_eq_true, if_true]
  by_cases hw : c.state = st_RESENDREQ_AWAITING
  · simp [processResend, hw, hm, mResendRequest, get_of_get? hvb, get_of_get? hve, int_of hpb, int_of hpe, hr,
      M.assert, st_RESENDREQ_HANDLING, st_RESENDREQ_AWAITING]
  · have hw' : ¬ c.state = 12 := hw
    simp [processResend, hw', hm, mResendRequest, get_of_get? hvb, get_of_get? hve, int_of hpb, int_of hpe, hr,
      M.assert, stateSet, pre, st_RESENDREQ_HANDLING, st_RESENDREQ_AWAITING, st_ACTIVE]

/-- … so the whole frame: the state is ACTIVE afterwards (RESENDREQ_AWAITING stays), and it is finalised like
any accepted frame -/
theorem recv_resend_ignored (sr : Msg → Bool) (env : Env) (c : Conn) (m : Msg) (h8 : 8 ≤ c.state)
    (hw : WatermarkOk c) (h : InSeq c m) (hi : IgnoredResend c m) :
    recv sr env c m =
      if c.state = st_RESENDREQ_AWAITING then finalized env c m
      else ((finalized env { c with state := st_ACTIVE, wasActive := true } m).1,
            [.onState st_RESENDREQ_HANDLING, .onState st_ACTIVE] ++
              (finalized env { c with state := st_ACTIVE, wasActive := true } m).2) := by
  have hd := dispatch_resend_ignored env sr c m c.sess.nextIn hi
  by_cases hst : c.state = st_RESENDREQ_AWAITING
  · rw [if_pos hst] at hd ⊢
    rw [recv_via sr env c c m [] h8 h (resend_headable hi.1) (swallow_ok hd) h hw]
    simp
  · rw [if_neg hst] at hd ⊢
    exact recv_via sr env c _ m _ h8 h (resend_headable hi.1) (swallow_ok hd) (h.congr rfl rfl rfl)
      (fun hq => absurd (show st_ACTIVE = st_RESENDREQ_AWAITING from hq) (by decide))

end AsyncFix.Session.Watchdog
