import AsyncFix.Lemmas.SessionWatchdogRecv

/-!
C12 helper lemmas, part 3: `recv` of a valid in-sequence frame on a logged-on connection, per message
class, as closed equations; and their summary `recv_benign` used by the history theorems.
-/
namespace AsyncFix.Session.Watchdog

open AsyncFix.Generated AsyncFix.Generated.ConnEnum

theorem active_not_awaiting {c : Conn} (ha : c.state = st_ACTIVE) : (c.state == st_RESENDREQ_AWAITING) = false := by
  rw [ha]; decide

theorem heartbeat_not_reset {m : Msg} (hm : m.mtype = mHeartbeat) : (m.mtype == mSequenceReset) = false := by
  rw [hm]; decide

/-- what `recv` amounts to once the (swallowed) dispatch is known to end normally in `c1` with effects
`e1`, and `c1` still expects the same number and is not awaiting a resend -/
theorem recv_via (sr : Msg → Bool) (env : Env) (c c1 : Conn) (m : Msg) (e1 : List Effect)
    (ha : c.state = st_ACTIVE) (h : InSeq c m) (hr : Routine m)
    (hd : swallow () (processDispatch env sr m true c.sess.nextIn) c = ⟨.ok (), c1, e1⟩)
    (h1 : InSeq c1 m) (hst : (c1.state == st_RESENDREQ_AWAITING) = false) :
    recv sr env c m = ((finalized env c1 m).1, e1 ++ (finalized env c1 m).2) := by
  rw [recv_active sr env c c1 m e1 ha h hr hd, finalizeMessage_inseq env c1 m h1 hr.2.1 hst]

/-- interval Heartbeat (or any Heartbeat while nothing is outstanding): only `_finalize_message` -/
theorem recv_heartbeat_idle (sr : Msg → Bool) (env : Env) (c : Conn) (m : Msg) (ha : c.state = st_ACTIVE)
    (h : InSeq c m) (hm : m.mtype = mHeartbeat) (hi : c.testReqId = none ∨ m.get? tTestReqID = none) :
    recv sr env c m = finalized env c m := by
  have hd : swallow () (processDispatch env sr m true c.sess.nextIn) c = ⟨.ok (), c, []⟩ := by
    apply swallow_ok
    rw [dispatch_heartbeat env sr c m _ hm]
    rcases hi with hi | hi
    · rw [hi]
    · rw [hi]; cases c.testReqId <;> rfl
  rw [recv_via sr env c c m [] ha h (heartbeat_routine hm) hd h (active_not_awaiting ha)]
  simp

/-- Heartbeat echoing the outstanding TestReqID: the id is cleared -/
theorem recv_heartbeat_echo (sr : Msg → Bool) (env : Env) (c : Conn) (m : Msg) (tid : Int) (v : String)
    (ha : c.state = st_ACTIVE) (h : InSeq c m) (hm : m.mtype = mHeartbeat) (ht : c.testReqId = some tid)
    (hv : m.get? tTestReqID = some v) (he : (pyInt v).getD 0 = tid) :
    recv sr env c m = finalized env { c with testReqId := none } m := by
  have hd : swallow () (processDispatch env sr m true c.sess.nextIn) c =
      ⟨.ok (), { c with testReqId := none }, []⟩ := by
    apply swallow_ok
    rw [dispatch_heartbeat env sr c m _ hm, ht, hv]
    simp [he]
  rw [recv_via sr env c _ m [] ha h (heartbeat_routine hm) hd (h.congr rfl rfl rfl) (active_not_awaiting ha)]
  simp

/-- the reason text of the Logout sent for a wrong TestReqID -/
def wrongIdText : String := "Invalid TestRequest(TestReqID) received"

/-- Heartbeat with a different (or non-numeric, counted as 0) TestReqID while one is outstanding, Logout
sendable: Logout with the reason text written, socket closed, DISCONNECTED_BROKEN_CONN, `on_disconnect`
– and then `_finalize_message` still runs on the disconnected connection. -/
theorem recv_heartbeat_wrong (sr : Msg → Bool) (env : Env) (c : Conn) (m : Msg) (tid : Int) (v : String)
    (j : Journal) (ha : c.state = st_ACTIVE) (hs : c.sock = true) (h : InSeq c m) (hm : m.mtype = mHeartbeat)
    (ht : c.testReqId = some tid) (hv : m.get? tTestReqID = some v) (he : (pyInt v).getD 0 ≠ tid)
    (hl : frameLatin1 (frameOf env (cleared c) (logoutMsg wrongIdText)) = true)
    (hj : c.journal.persist .outbound c.sess.nextOut (frameOf env (cleared c) (logoutMsg wrongIdText)) = some j) :
    recv sr env c m =
      ((finalized env (dropped (sent c j)) m).1,
       (.write (frameOf env (cleared c) (logoutMsg wrongIdText)) :: dropEff)
         ++ (finalized env (dropped (sent c j)) m).2) := by
  have hd : swallow () (processDispatch env sr m true c.sess.nextIn) c =
      ⟨.ok (), dropped (sent c j), .write (frameOf env (cleared c) (logoutMsg wrongIdText)) :: dropEff⟩ := by
    apply swallow_ok
    rw [dispatch_heartbeat env sr c m _ hm, ht, hv]
    have he' : ¬ tid = (pyInt v).getD 0 := fun e => he e.symm
    simp only [he', if_false]
    have := disconnect_logout_active env c wrongIdText ha hs
    rw [hl, hj] at this
    simp only [Bool.true_eq_false, if_false] at this
    exact this
  exact recv_via sr env c _ m _ ha h (heartbeat_routine hm) hd (h.congr rfl rfl rfl) rfl

/-- inbound TestRequest: exactly one Heartbeat carrying the request's TestReqID (`0` when absent) is
written – unless `send_msg` raises (frame not latin-1 / journal row exists), which `_process_message`
swallows; `_finalize_message` runs in every case. -/
theorem recv_testrequest (sr : Msg → Bool) (env : Env) (c : Conn) (m : Msg) (ha : c.state = st_ACTIVE)
    (hs : c.sock = true) (h : InSeq c m) (hm : m.mtype = mTestRequest) :
    recv sr env c m =
      if frameLatin1 (frameOf env c (echoMsg m)) = false then
        ((finalized env c m).1, .caught .encoding :: (finalized env c m).2)
      else match c.journal.persist .outbound c.sess.nextOut (frameOf env c (echoMsg m)) with
        | none => ((finalized env (burnt c) m).1, .caught .duplicateSeqNo :: (finalized env (burnt c) m).2)
        | some j => ((finalized env (sent c j) m).1,
                     .write (frameOf env c (echoMsg m)) :: (finalized env (sent c j) m).2) := by
  have hsend := sendMsg_active env c (echoMsg m) ha hs (echoMsg_plain m)
    (by simp [echoMsg, Msg.mk', mHeartbeat, mTestRequest])
  rw [← dispatch_testrequest env sr c m c.sess.nextIn hm] at hsend
  have hr := testrequest_routine hm
  cases hl : frameLatin1 (frameOf env c (echoMsg m))
  · rw [hl] at hsend
    simp only [if_true] at hsend
    rw [recv_via sr env c c m _ ha h hr (swallow_err hsend) h (active_not_awaiting ha)]
    simp
  · rw [hl] at hsend
    simp only [Bool.true_eq_false, if_false] at hsend
    cases hj : c.journal.persist Dir.outbound c.sess.nextOut (frameOf env c (echoMsg m))
    · rw [hj] at hsend
      rw [recv_via sr env c (burnt c) m _ ha h hr (swallow_err hsend) (h.congr rfl rfl rfl)
        (active_not_awaiting ha)]
      simp
    · rw [hj] at hsend
      rw [recv_via sr env c (sent c _) m _ ha h hr (swallow_ok hsend) (h.congr rfl rfl rfl)
        (active_not_awaiting ha)]
      simp

/-- application message (any type the session layer does not handle itself): delivered, finalised -/
theorem recv_app (sr : Msg → Bool) (env : Env) (c : Conn) (m : Msg) (ha : c.state = st_ACTIVE)
    (h : InSeq c m) (ht : AppType m) :
    recv sr env c m = ((finalized env c m).1, .deliver m :: (finalized env c m).2) := by
  rw [recv_via sr env c c m _ ha h ht.1 (swallow_ok (dispatch_app env sr c m ht)) h (active_not_awaiting ha)]
  simp

end AsyncFix.Session.Watchdog
