import AsyncFix.Lemmas.JournalRefine

/-!
C06, journal shared by several sessions.

The session model (`Model/SessionTypes.lean`) keeps the journal of ONE session: `Rows` per direction and
the two stored counters.  That the SQLite journaler restricted to one session behaves like this store,
and that a call made with one session's handle cannot touch another session, is the Journal family's
business (property C13, multi-session model `Model/Journal.lean`, specification `JSpec`).  This file
makes the frame statement that C06 relies on explicit: every journal call `_process_resend` makes
(`recover_messages`, `set_seq_num`, `persist_msg` directly and through `send_msg`) is made with the
connection's own session object, and any sequence of such calls leaves the rows and the stored counters
of every OTHER session, and the CompID ↦ session table, exactly as they were.
-/
namespace AsyncFix.Session.C06
open AsyncFix.Model.Journal

/-- a journal call made with the session object whose key is `k` -/
def OnSession (k : Int) : Op → Prop
  | .persist _ h _ => h.key = k
  | .setSeqNum h _ _ => h.key = k
  | .recover h _ _ _ => h.key = k
  | .recoverMsg h _ _ => h.key = k
  | _ => False

/-- what another session owns in the abstract journal -/
def SameElsewhere (k : Int) (S T : JSpec) : Prop :=
  (∀ k' d n, k' ≠ k → T.store k' d n = S.store k' d n) ∧
  (∀ id : Nat, (id : Int) ≠ k → T.counters id = S.counters id) ∧
  T.ident = S.ident

theorem SameElsewhere.refl (k : Int) (S : JSpec) : SameElsewhere k S S :=
  ⟨fun _ _ _ _ => rfl, fun _ _ => rfl, rfl⟩

theorem SameElsewhere.trans {k : Int} {S T U : JSpec} (h1 : SameElsewhere k S T)
    (h2 : SameElsewhere k T U) : SameElsewhere k S U :=
  ⟨fun k' d n hk => (h2.1 k' d n hk).trans (h1.1 k' d n hk),
   fun id hid => (h2.2.1 id hid).trans (h1.2.1 id hid), h2.2.2.trans h1.2.2⟩

theorem setNext_elsewhere (S : JSpec) (k o i : Int) : SameElsewhere k S (S.setNext k o i) := by
  refine ⟨?_, ?_, rfl⟩
  · intro k' d n hk
    simp [JSpec.setNext, hk]
  · intro id hid
    simp [JSpec.setNext, hid]

theorem applyOp_elsewhere (S : JSpec) (op : Op) (k : Int) (h : OnSession k op) :
    SameElsewhere k S (S.applyOp op) := by
  cases op with
  | createOrLoad t s => exact absurd h (by simp [OnSession])
  | sessions => exact absurd h (by simp [OnSession])
  | getAll ks d => exact absurd h (by simp [OnSession])
  | recover h' d lo hi => exact SameElsewhere.refl k S
  | recoverMsg h' d s => exact SameElsewhere.refl k S
  | setSeqNum h' out inn =>
    have hk : h'.key = k := h
    simp only [JSpec.applyOp, JSpec.setSeqNum]
    split
    · exact SameElsewhere.refl k S
    · split
      · exact SameElsewhere.refl k S
      · rw [hk]; exact setNext_elsewhere S k _ _
  | persist msg h' d =>
    have hk : h'.key = k := h
    simp only [JSpec.applyOp, JSpec.persist]
    split
    · exact SameElsewhere.refl k S
    · split
      · exact SameElsewhere.refl k S
      · split
        · exact SameElsewhere.refl k S
        · refine ⟨?_, ?_, rfl⟩
          · intro k' d' n hk'
            have : ¬ k' = h'.key := by rw [hk]; exact hk'
            simp [this]
          · intro id hid
            have : ¬ (id : Int) = h'.key := by rw [hk]; exact hid
            simp [this]

theorem applyOps_elsewhere (S : JSpec) (ops : List Op) (k : Int) (h : ∀ op ∈ ops, OnSession k op) :
    SameElsewhere k S (S.applyOps ops) := by
  induction ops generalizing S with
  | nil => exact SameElsewhere.refl k S
  | cons op rest ih =>
    have h1 := applyOp_elsewhere S op k (h op (by simp))
    have h2 := ih (S.applyOp op) (fun o ho => h o (by simp [ho]))
    simpa [JSpec.applyOps] using h1.trans h2

/-- **Frame of the journaler w.r.t. other sessions.**  After any history that produced the journal `j`
(`JInv`), any sequence of calls made with session `k`'s object leaves every other session's rows (both
directions, every number), stored counters and identity exactly as they were. -/
theorem other_sessions_untouched (j : Journal) (hinv : JInv j) (ops : List Op) (k : Int)
    (h : ∀ op ∈ ops, OnSession k op) : SameElsewhere k (abs j) (abs (applyOps j ops)) := by
  rw [applyOps_refines hinv ops]
  exact applyOps_elsewhere (abs j) ops k h

end AsyncFix.Session.C06
