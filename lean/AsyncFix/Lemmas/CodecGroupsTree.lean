/-
Repeating-group reconstruction, part 3: the tree induction.
Mutual induction over entries / items / containers: feeding the wire order of a well-formed
entry (container, item list) to the decoder appends exactly that entry to the current
container, up to the chain of frames that the entry leaves open (`ClosesTo`).
-/
import AsyncFix.Lemmas.CodecGroupsLocal
import AsyncFix.Lemmas.CodecGroupsWf
namespace AsyncFix.Model.Codec

/-- the enclosing group's member list (`none` at message level) agrees with the decoder state -/
def fits (ms? : Option (List Tag)) (s : DS) : Prop :=
  ∀ t, inMs ms? t = true → accepts s t = true

theorem flatNode_head (n : Node) : ∃ x tl, flatNode n = ⟨n.tag, x⟩ :: tl := by
  cases n with
  | leaf t v => exact ⟨v, [], rfl⟩
  | err t => exact ⟨[], [], rfl⟩
  | group g items => exact ⟨natToDec items.length, flatItems items, rfl⟩

theorem flatCont_head (n : Node) (rest : List Node) :
    ∃ x tl, flatCont (n :: rest) = ⟨n.tag, x⟩ :: tl := by
  obtain ⟨x, tl, h⟩ := flatNode_head n
  exact ⟨x, tl ++ flatCont rest, by simp only [flatCont, h, List.cons_append]⟩

theorem coreAll_closesTo {tbl : Tbl} {oms : List (List Tag)} {s s'' : DS} {t : Tag} {x : Bytes}
    {tl : List Fld} (h : ClosesTo oms s s'') (hn : notOpen t oms = true) :
    coreAll tbl s (⟨t, x⟩ :: tl) = coreAll tbl s'' (⟨t, x⟩ :: tl) := by
  simp only [coreAll, stepCore_closesTo x h hn]

mutual
theorem node_ok (tbl : Tbl) : (n : Node) → (s : DS) → wfNode tbl n = true →
    accepts s n.tag = true → (cur s).has n.tag = false →
    ∃ s', coreAll tbl s (flatNode n) = .ok s' ∧
      ClosesTo (openMembersNode tbl n) s' (setCur s (cur s ++ [n]))
  | .leaf t v, s, hw, ha, hh => by
    simp only [wfNode, Bool.and_eq_true, Option.isNone_iff_eq_none] at hw
    simp only [Node.tag] at ha hh
    refine ⟨setCur s (cur s ++ [.leaf t v]), ?_, ?_⟩
    · simp only [flatNode, coreAll, stepCore_leaf v ha hw.2 hh]
    · simp only [openMembersNode, ClosesTo]
  | .err t, s, hw, _, _ => by simp [wfNode] at hw
  | .group g items, s, hw, ha, hh => by
    simp only [wfNode, Bool.and_eq_true] at hw
    cases hm : tbl.members? g with
    | none => simp [hm] at hw
    | some ms =>
      simp only [hm, Bool.and_eq_true, Bool.not_eq_true', List.isEmpty_eq_false_iff] at hw
      simp only [Node.tag] at ha hh
      obtain ⟨s', h1, h2⟩ := items_ok tbl items s g ms (cur s) [] hw.2.2 hw.2.1 hh rfl
      refine ⟨s', ?_, ?_⟩
      · simp only [flatNode, coreAll, stepCore_open _ ha hm, h1]
      · simp only [List.nil_append, addItemsTo_ne _ _ hw.2.1] at h2
        simpa only [openMembersNode, hm, Option.getD_some] using h2
theorem items_ok (tbl : Tbl) : (items : List (List Node)) → (s0 : DS) → (g : Tag) →
    (ms : List Tag) → (P : Cont) → (done : List (List Node)) →
    wfItems tbl ms items = true → items ≠ [] → P.has g = false → cur s0 = addItemsTo P g done →
    ∃ s', coreAll tbl (push ⟨g, ms, []⟩ s0) (flatItems items) = .ok s' ∧
      ClosesTo (ms :: openMembersItems tbl items) s' (setCur s0 (addItemsTo P g (done ++ items)))
  | [], _, _, _, _, _, _, hne, _, _ => absurd rfl hne
  | [it], s0, g, ms, P, done, hw, _, hg, hc => by
    obtain ⟨s', h1, h2⟩ := cont_ok tbl it (push ⟨g, ms, []⟩ s0) (some ms) []
      (wfItem_wfNodes (wfItems_head hw))
      (fun t ht => ht) (fun t ht => by simp [Cont.has] at ht)
    refine ⟨s', ?_, ?_⟩
    · simp only [flatItems, List.append_nil, h1]
    · refine ⟨⟨g, ms, it⟩, s0, ?_, rfl, ?_⟩
      · simpa only [cur_push, List.nil_append, setCur_push, openMembersItems] using h2
      · rw [closeTop_push, hc, addGroup_addItemsTo done it hg]
  | it :: (nxt :: rest), s0, g, ms, P, done, hw, _, hg, hc => by
    obtain ⟨hw3, t, v, nrest, hnx, hw2a, hw2b⟩ := wfItems_cons2 hw
    obtain ⟨s', h1, h2⟩ := cont_ok tbl it (push ⟨g, ms, []⟩ s0) (some ms) []
      (wfItem_wfNodes (wfItems_head hw)) (fun t ht => ht) (fun t ht => by simp [Cont.has] at ht)
    simp only [cur_push, List.nil_append, setCur_push] at h2
    -- the next item starts with a plain field that the previous item already has
    have hitem : wfItem tbl ms (.leaf t v :: nrest) = true := hnx ▸ wfItems_head hw3
    obtain ⟨hmem, hnone⟩ := wfItem_leaf_head hitem
    have hadd := addGroup_addItemsTo done it hg
    rw [← hc] at hadd
    have hstep : ∀ tl, coreAll tbl s' (⟨t, v⟩ :: tl) =
        coreAll tbl (push ⟨g, ms, []⟩ (setCur s0 (addItemsTo P g (done ++ [it])))) (⟨t, v⟩ :: tl) := by
      intro tl
      rw [coreAll_closesTo h2 hw2b]
      have e1 := stepCore_next (tbl := tbl) (s0 := s0) (f := ⟨g, ms, it⟩) v hmem hnone
        (has_of_contTags hw2a) hadd
      have e2 := stepCore_leaf (tbl := tbl)
        (s := push ⟨g, ms, []⟩ (setCur s0 (addItemsTo P g (done ++ [it])))) v
        (by simpa using hmem) hnone (by simp [Cont.has])
      simp only [coreAll, e1, e2, cur_push, List.nil_append, setCur_push]
    obtain ⟨s'', h3, h4⟩ := items_ok tbl (nxt :: rest)
      (setCur s0 (addItemsTo P g (done ++ [it]))) g ms P (done ++ [it]) hw3 (by simp) hg (by simp)
    refine ⟨s'', ?_, ?_⟩
    · have hfl : flatItems (nxt :: rest) = ⟨t, v⟩ :: (flatCont nrest ++ flatItems rest) := by
        rw [hnx]
        simp only [flatItems, flatCont, flatNode, List.cons_append, List.nil_append]
      rw [flatItems, coreAll_append, h1]
      simp only
      rw [hfl, hstep, ← hfl, h3]
    · simpa only [openMembersItems, setCur_setCur, List.append_assoc, List.cons_append,
        List.nil_append] using h4
theorem cont_ok (tbl : Tbl) : (ns : List Node) → (s : DS) → (ms? : Option (List Tag)) →
    (seen : List Tag) → wfNodes tbl ms? seen ns = true → fits ms? s →
    (∀ t, (cur s).has t = true → seen.contains t = true) →
    ∃ s', coreAll tbl s (flatCont ns) = .ok s' ∧
      ClosesTo (openMembersCont tbl ns) s' (setCur s (cur s ++ ns))
  | [], s, _, _, _, _, _ => ⟨s, rfl, by simp [openMembersCont, ClosesTo]⟩
  | [n], s, ms?, seen, hw, hf, hs => by
    obtain ⟨hn, hseen, hmem⟩ := wfNodes_head hw
    have hh : (cur s).has n.tag = false := by
      cases h : (cur s).has n.tag with
      | false => rfl
      | true => rw [hs _ h] at hseen; cases hseen
    obtain ⟨s', h1, h2⟩ := node_ok tbl n s hn (hf _ hmem) hh
    exact ⟨s', by simpa only [flatCont, List.append_nil] using h1,
      by simpa only [openMembersCont] using h2⟩
  | n :: (m :: rest), s, ms?, seen, hw, hf, hs => by
    obtain ⟨hn, hseen, hmem⟩ := wfNodes_head hw
    obtain ⟨hopen, hrest⟩ := wfNodes_cons2 hw
    have hh : (cur s).has n.tag = false := by
      cases h : (cur s).has n.tag with
      | false => rfl
      | true => rw [hs _ h] at hseen; cases hseen
    obtain ⟨s1, h1, h2⟩ := node_ok tbl n s hn (hf _ hmem) hh
    obtain ⟨s', h3, h4⟩ := cont_ok tbl (m :: rest) (setCur s (cur s ++ [n])) ms? (n.tag :: seen)
      hrest (fun t ht => by simpa using hf t ht) (by
        intro t ht
        simp only [cur_setCur, Cont.has, List.any_append, List.any_cons, List.any_nil,
          Bool.or_false, Bool.or_eq_true] at ht
        simp only [List.contains_cons, Bool.or_eq_true]
        rcases ht with ht | ht
        · exact Or.inr (hs t (by simpa [Cont.has] using ht))
        · exact Or.inl (by have := eq_of_beq ht; simp [this]))
    refine ⟨s', ?_, ?_⟩
    · obtain ⟨x, tl, hhd⟩ := flatCont_head m rest
      rw [flatCont, coreAll_append, h1]
      simp only
      rw [hhd, coreAll_closesTo h2 hopen, ← hhd, h3]
    · simpa only [openMembersCont, cur_setCur, setCur_setCur, List.append_assoc, List.cons_append,
        List.nil_append] using h4
end

end AsyncFix.Model.Codec
