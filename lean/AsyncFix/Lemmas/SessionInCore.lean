import AsyncFix.Lemmas.SessionInFrame

/-!
C04 helper: specifications of the handlers that touch the expected inbound number:
`_process_seqreset`, `_check_seqnum_gaps`, `_finalize_message` (+ `set_next_num_in`).
-/
namespace AsyncFix.Session
open AsyncFix.Generated AsyncFix.Generated.ConnEnum

/-- MsgSeqNum(34) of a frame as `int()` reads it -/
def seqOf (m : Msg) : Option Int := (m.get? tMsgSeqNum).bind pyInt
/-- NewSeqNo(36) -/
def newSeqOf (m : Msg) : Option Int := (m.get? tNewSeqNo).bind pyInt
/-- `GapFillFlag(123) == "Y"` -/
def isGapFill (m : Msg) : Bool := m.get? tGapFillFlag == some "Y"

/-- message types the dispatch of `_process_message` handles itself; everything else goes to the
`else:` branch, whose only action is the gated `on_message` call -/
def sessionTypes : List String := [mResendRequest, mSequenceReset, mLogon, mTestRequest, mHeartbeat]

/-- "application message" in the model: not one of the session dispatch types -/
def isApp (m : Msg) : Bool := !sessionTypes.contains m.mtype

/-- finishing tactic for the formulas `simp only [wp]` produces -/
macro "wp_finish" : tactic =>
  `(tactic| ((repeat' (first | intro _ | apply And.intro)); all_goals (try simp_all); all_goals (try omega)))

/-- the wp simp set -/
macro "wp_simp" : tactic =>
  `(tactic| simp only [holds_bind, holds_assert, holds_get, holds_getTag, holds_ite, holds_int, holds_pure,
      holds_modify, holds_emit, holds_throw, holds_tryCatch, List.append_nil, List.nil_append])

/-! ### `_process_seqreset` -/

theorem processSeqreset_spec (m : Msg) (c : Conn) :
    Holds (processSeqreset m) c (fun r c' e =>
      e = [] ∧ c'.state = c.state ∧ c'.maxResend = c.maxResend ∧
      (r = .ok true → ∃ n nw, seqOf m = some n ∧ newSeqOf m = some nw ∧
          (isGapFill m = true → n = c.sess.nextIn ∧ n < nw) ∧ c'.sess.nextIn = nw) ∧
      (r = .ok false → c' = c ∧ isGapFill m = true ∧
          ∃ n, seqOf m = some n ∧ (n = c.sess.nextIn → ∃ nw, newSeqOf m = some nw ∧ nw ≤ n)) ∧
      (∀ ex, r = .error ex → c'.sess.nextIn = c.sess.nextIn)) := by
  unfold processSeqreset setSeqNum
  wp_simp
  simp [seqOf, newSeqOf, isGapFill, mSequenceReset]
  wp_finish

/-! ### `_check_seqnum_gaps` -/

theorem checkSeqnumGaps_spec (env : Env) (n : Int) (c : Conn) :
    Holds (checkSeqnumGaps env n) c (fun r c' e =>
      (∀ b, r = .ok b → (b = true ↔ n ≤ c.sess.nextIn)) ∧
      ((n ≤ c.sess.nextIn ∨ c.state = st_RESENDREQ_AWAITING) → c' = c ∧ e = [])) := by
  unfold checkSeqnumGaps
  wp_simp
  refine ⟨fun h => ⟨fun h2 => ?_, fun h2 => ?_⟩, fun h => ?_⟩
  · have h3 : ¬ c.state = st_RESENDREQ_AWAITING := by simpa using h2
    have h4 : ¬ n ≤ c.sess.nextIn := by omega
    refine Holds.any fun r c' e => ?_
    cases r
    · simp [h3, h4]
    · refine Holds.any fun r c' e => ?_
      cases r <;> simp [h3, h4]
  · have h4 : ¬ n ≤ c.sess.nextIn := by omega
    simp_all
  · have h4 : n ≤ c.sess.nextIn := by omega
    simp [h4]

/-! ### `_finalize_message` -/

/-- only the journal changes, no effects -/
def JournalOnly : StepRel where
  R c c' e := e = [] ∧ c'.sess = c.sess ∧ c'.state = c.state ∧ c'.maxResend = c.maxResend
  refl c := by simp
  trans := by
    intro a b c e1 e2 h1 h2
    simp [h1.1, h2.1, h2.2.1, h1.2.1, h2.2.2.1, h1.2.2.1, h2.2.2.2, h1.2.2.2]

theorem persistInbound_journalOnly (m : Msg) : Sat JournalOnly (persistInbound m) := by
  unfold persistInbound
  repeat' (first | sat_step | split)
  all_goals simp [JournalOnly]

theorem finalizeMessage_spec (env : Env) (m : Msg) (c : Conn) :
    Holds (finalizeMessage env m) c (fun _ c' e =>
      deliveries e = [] ∧ (∀ f, Effect.write f ∉ e) ∧
      (m.mtype ≠ mSequenceReset →
        (c'.sess.nextIn = c.sess.nextIn ∨ (seqOf m = some c.sess.nextIn ∧ c'.sess.nextIn = c.sess.nextIn + 1)) ∧
        (seqOf m = some c.sess.nextIn → c'.sess.nextIn = c.sess.nextIn + 1)) ∧
      (m.mtype = mSequenceReset → c'.sess.nextIn = c.sess.nextIn ∨ newSeqOf m = some c'.sess.nextIn) ∧
      ((c'.state = c.state ∧ c'.maxResend = c.maxResend) ∨
       (c.state = st_RESENDREQ_AWAITING ∧ c'.state = st_ACTIVE ∧ c'.maxResend = 0 ∧
        c.maxResend ≤ c'.sess.nextIn - 1 ∧ 0 < c.maxResend))) := by
  unfold finalizeMessage setNextNumIn stateSet
  wp_simp
  repeat' (first | apply Holds.of_sat (persistInbound_journalOnly _) | intro _ | apply And.intro)
  all_goals simp_all [JournalOnly, deliveries, seqOf, newSeqOf, Msg.has]

/-! ### `disconnect` / `_process_logout`: the state afterwards -/

theorem disconnect_state (env : Env) (d : Nat) (c : Conn) :
    Holds (disconnect env d none) c (fun r c' _ =>
      st_DISCONNECTED_BROKEN_CONN < c.state → d ≤ st_DISCONNECTED_BROKEN_CONN → r = .ok () ∧ c'.state = d) := by
  unfold disconnect stateSet
  wp_simp
  wp_finish

theorem processLogout_state (env : Env) (m : Msg) (c : Conn) :
    Holds (processLogout env m) c (fun r c' _ =>
      st_DISCONNECTED_BROKEN_CONN < c.state → r = .ok () → c'.state ≤ st_DISCONNECTED_BROKEN_CONN) := by
  unfold processLogout
  wp_simp
  repeat' (first | apply Holds.of_spec (disconnect_state _ _ _) | intro _ | apply And.intro)
  all_goals (cases hw : c.wasActive <;> simp_all [st_DISCONNECTED_BROKEN_CONN, st_DISCONNECTED_WCONN_TODAY])

end AsyncFix.Session
