import AsyncFix.Lemmas.SessionOutResendC

/-!
C05, resend servicing, part D: `_process_resend` restated in pieces (`processResend_eq`) and the
servicing proper (`resendCore`) computed: rewind, loop, trailing gap fill, counter restored.
-/
namespace AsyncFix.Session

open AsyncFix.Generated AsyncFix.Generated.ConnEnum

/-- `set_seq_num(next_num_out = n)` -/
def rewind (c : Conn) (n : Int) : Conn :=
  { c with sess := { c.sess with nextOut := n }, journal := c.journal.setSeq n c.sess.nextIn }

theorem setSeqNum_out_eq (n : Int) (c : Conn) (hn : 0 < n) :
    setSeqNum (some n) none c = ⟨.ok (), rewind c n, []⟩ := by
  unfold setSeqNum
  dsimp only
  have : decide (n > 0) = true := by simpa using hn
  rw [this, run_bind_of_ok (run_assert_true c), Out.pre_nil, run_bind_modify, run_modify]
  rfl

/-- `_process_resend` after the range check (`e` = EndSeqNo, `0` already replaced by `sys.maxsize`) -/
def resendCore (env : Env) (sr : Msg → Bool) (b e : Int) (rows : List Msg) (cur : Int) : M Unit := do
  setSeqNum (some b) none
  let (gfb, gfe) ← resendLoop env sr e rows b b
  M.assert (decide (gfe ≤ cur))
  let gfe2 := min (e + 1) cur
  if gfb < gfe2 then sendMsg env (gapFillMsg gfb gfe2) else pure ()
  setSeqNum (some cur) none
  let c2 ← M.get
  if c2.state != st_RESENDREQ_AWAITING then stateSet st_ACTIVE else pure ()

def processResend' (env : Env) (sr : Msg → Bool) (m : Msg) : M Unit := do
  let c0 ← M.get
  if c0.state != st_RESENDREQ_AWAITING then stateSet st_RESENDREQ_HANDLING else pure ()
  M.assert (m.mtype == mResendRequest)
  let c ← M.get
  M.assert (c.state == st_RESENDREQ_HANDLING || c.state == st_RESENDREQ_AWAITING)
  let vb ← M.liftE (m.get tBeginSeqNo)
  let b ← M.int vb
  let ve ← M.liftE (m.get tEndSeqNo)
  let e0 ← M.int ve
  if b < 1 || b ≥ c.sess.nextOut then
    if c.state != st_RESENDREQ_AWAITING then stateSet st_ACTIVE else pure ()
  else
    resendCore env sr b (if e0 == 0 then sysMaxsize else e0) (c.journal.recoverOut b sysMaxsize)
      c.sess.nextOut

theorem processResend_eq (env : Env) (sr : Msg → Bool) (m : Msg) :
    processResend env sr m = processResend' env sr m := rfl

namespace Rows

theorem insert_mid (k : Int) (m : Msg) (A B : Rows) (hA : AllLt k A) (hB : ∀ p ∈ B, k < p.1) :
    insert k m (A ++ B) = some (A ++ (k, m) :: B) := by
  induction A with
  | nil =>
    cases B with
    | nil => rfl
    | cons p r =>
      obtain ⟨k', m'⟩ := p
      have : k < k' := hB (k', m') (by simp)
      simp [insert, this]
  | cons p r ih =>
    obtain ⟨k', m'⟩ := p
    have hk : k' < k := hA (k', m') (by simp)
    have hr : AllLt k r := fun q hq => hA q (by simp [hq])
    simp only [List.cons_append, insert]
    rw [if_neg (by omega), if_neg (by omega), ih hr]
    rfl

/-- an ascending list splits at any bound -/
theorem split_le (e : Int) (rs : Rows) (hs : Sorted rs) :
    rs = (rs.filter fun p => decide (p.1 ≤ e)) ++ (rs.filter fun p => decide (e < p.1)) := by
  induction rs with
  | nil => rfl
  | cons p r ih =>
    have hs' := List.pairwise_cons.mp hs
    by_cases hp : p.1 ≤ e
    · have h1 : decide (p.1 ≤ e) = true := by simpa using hp
      have h2 : decide (e < p.1) = false := by simp only [decide_eq_false_iff_not]; omega
      simp only [List.filter, h1, h2, List.cons_append]
      rw [← ih hs'.2]
    · have h1 : decide (p.1 ≤ e) = false := by simpa using hp
      have h2 : decide (e < p.1) = true := by simp only [decide_eq_true_eq]; omega
      have hnil : (r.filter fun q => decide (q.1 ≤ e)) = [] := by
        rw [List.filter_eq_nil_iff]
        intro q hq
        have := hs'.1 q hq
        simp only [decide_eq_true_eq]; omega
      have hall : (r.filter fun q => decide (e < q.1)) = r := by
        rw [List.filter_eq_self]
        intro q hq
        have := hs'.1 q hq
        simp only [decide_eq_true_eq]; omega
      simp only [List.filter, h1, h2, hnil, hall, List.nil_append]

theorem mem_iff_find {k : Int} {g : Msg} {rs : Rows} (hs : Sorted rs) :
    (k, g) ∈ rs ↔ find k rs = some g := ⟨find_of_mem hs, find_mem⟩

end Rows

/-- what the servicing leaves behind (`c` before, `c'` after, request `[b, e]`) -/
structure ResendOut (env : Env) (sr : Msg → Bool) (c c' : Conn) (b e : Int) (es : List Effect) : Prop where
  nextOut : c'.sess.nextOut = c.sess.nextOut
  sender : c'.sess.sender = c.sess.sender
  target : c'.sess.target = c.sess.target
  outSeq : c'.journal.outSeq = c.sess.nextOut - 1
  sock : c'.sock = c.sock
  live : st_DISCONNECTED_BROKEN_CONN < c'.state
  noNew : newWrites es = []
  sorted : Rows.Sorted c'.journal.out
  rows : ∀ p ∈ c'.journal.out, RowOk p.2 p.1 ∧ p.1 < c.sess.nextOut
  below : ∀ k g, k < b → ((k, g) ∈ c'.journal.out ↔ (k, g) ∈ c.journal.out)
  above : ∀ k g', b ≤ k → (k, g') ∈ c'.journal.out →
    (k ≤ e ∧ (g'.mtype = mSequenceReset ∨ ∃ g rp, (k, g) ∈ c.journal.out ∧ Replayable sr g ∧
      prepareReplay g = .ok rp ∧ g' = buildFrame c.sess env.stamp rp k)) ∨
    (e < k ∧ (k, g') ∈ c.journal.out)
  copies : ∀ p ∈ c.journal.out, b ≤ p.1 → p.1 ≤ e → p.1 ≤ sysMaxsize → Replayable sr p.2 →
    ∃ rp, prepareReplay p.2 = .ok rp ∧ (p.1, buildFrame c.sess env.stamp rp p.1) ∈ c'.journal.out
  kept : ∀ p ∈ c.journal.out, b ≤ p.1 → e < p.1 → p.1 ≤ sysMaxsize → p ∈ c'.journal.out

/-- the last three statements of `_process_resend`: counter restored, state ACTIVE unless awaiting -/
theorem resend_finish (cur : Int) (c3 : Conn) (hcur : 0 < cur)
    (hlt : Rows.AllLt cur c3.journal.out) (hl : st_DISCONNECTED_BROKEN_CONN < c3.state) :
    ∃ c' es2, (do
        setSeqNum (some cur) none
        let c2 ← M.get
        if c2.state != st_RESENDREQ_AWAITING then stateSet st_ACTIVE else pure ()) c3
          = ⟨.ok (), c', es2⟩ ∧
      newWrites es2 = [] ∧ c'.sess.nextOut = cur ∧ c'.sess.sender = c3.sess.sender ∧
      c'.sess.target = c3.sess.target ∧ c'.journal.out = c3.journal.out ∧
      c'.journal.outSeq = cur - 1 ∧ c'.sock = c3.sock ∧ st_DISCONNECTED_BROKEN_CONN < c'.state := by
  rw [run_bind_of_ok (setSeqNum_out_eq cur c3 hcur), Out.pre_nil, run_bind_get]
  have hout : (rewind c3 cur).journal.out = c3.journal.out := Rows.below_of_allLt _ _ hlt
  by_cases h12 : ((rewind c3 cur).state != st_RESENDREQ_AWAITING) = true
  · rw [if_pos h12]
    unfold stateSet
    rw [run_bind_modify, run_emit]
    exact ⟨_, _, rfl, rfl, rfl, rfl, rfl, hout, rfl, rfl,
      (by decide : st_DISCONNECTED_BROKEN_CONN < st_ACTIVE)⟩
  · rw [if_neg h12, run_pure]
    exact ⟨_, _, rfl, rfl, rfl, rfl, rfl, hout, rfl, rfl, hl⟩

end AsyncFix.Session
