import AsyncFix.Lemmas.SessionOutResendC

/-!
C05, resend servicing, part D: `_process_resend` restated in pieces (`processResend_eq`) and the
servicing proper (`resendCore`) computed: rewind, loop, trailing gap fill, counter restored.
-/
namespace AsyncFix.Session

open AsyncFix.Generated AsyncFix.Generated.ConnEnum

/-- `set_seq_num(next_num_out = n)` -/
def rewind (c : Conn) (n : Int) : Conn :=
  { c with sess := { c.sess with nextOut := n }, journal := c.journal.setSeq n c.sess.nextIn }

theorem setSeqNum_out_eq (n : Int) (c : Conn) (hn : 0 < n) :
    setSeqNum (some n) none c = ⟨.ok (), rewind c n, []⟩ := by
  unfold setSeqNum
  dsimp only
  have : decide (n > 0) = true := by simpa using hn
  rw [this, run_bind_of_ok (run_assert_true c), Out.pre_nil, run_bind_modify, run_modify]
  rfl

/-- `_process_resend` after the range check -/
def resendCore (env : Env) (sr : Msg → Bool) (b : Int) (rows : List Msg) (cur : Int) : M Unit := do
  setSeqNum (some b) none
  let (gfb, gfe) ← resendLoop env sr rows b b
  M.assert (decide (gfe ≤ cur))
  if gfb < cur then sendMsg env (gapFillMsg gfb cur) else pure ()
  setSeqNum (some cur) none
  let c2 ← M.get
  if c2.state != st_RESENDREQ_AWAITING then stateSet st_ACTIVE else pure ()

def processResend' (env : Env) (sr : Msg → Bool) (m : Msg) : M Unit := do
  let c0 ← M.get
  if c0.state != st_RESENDREQ_AWAITING then stateSet st_RESENDREQ_HANDLING else pure ()
  M.assert (m.mtype == mResendRequest)
  let c ← M.get
  M.assert (c.state == st_RESENDREQ_HANDLING || c.state == st_RESENDREQ_AWAITING)
  let vb ← M.liftE (m.get tBeginSeqNo)
  let b ← M.int vb
  let ve ← M.liftE (m.get tEndSeqNo)
  let e0 ← M.int ve
  if b < 1 || b ≥ c.sess.nextOut then
    if c.state != st_RESENDREQ_AWAITING then stateSet st_ACTIVE else pure ()
  else
    resendCore env sr b (c.journal.recoverOut b (if e0 == 0 then sysMaxsize else e0)) c.sess.nextOut

theorem processResend_eq (env : Env) (sr : Msg → Bool) (m : Msg) :
    processResend env sr m = processResend' env sr m := rfl

/-- what the servicing leaves behind -/
structure ResendOut (env : Env) (sr : Msg → Bool) (c c' : Conn) (b e : Int) (es : List Effect) : Prop where
  nextOut : c'.sess.nextOut = c.sess.nextOut
  sender : c'.sess.sender = c.sess.sender
  target : c'.sess.target = c.sess.target
  outSeq : c'.journal.outSeq = c.sess.nextOut - 1
  sock : c'.sock = c.sock
  live : st_DISCONNECTED_BROKEN_CONN < c'.state
  noNew : newWrites es = []
  sorted : Rows.Sorted c'.journal.out
  rows : ∀ p ∈ c'.journal.out, RowOk p.2 p.1 ∧ p.1 < c.sess.nextOut
  below : ∀ k, k < b → Rows.find k c'.journal.out = Rows.find k c.journal.out
  above : ∀ k g', b ≤ k → Rows.find k c'.journal.out = some g' →
    g'.mtype = mSequenceReset ∨ ∃ g rp, (k, g) ∈ Rows.range b e c.journal.out ∧ Replayable sr g ∧
      prepareReplay g = .ok rp ∧ g' = buildFrame c.sess env.stamp rp k
  copies : ∀ p ∈ Rows.range b e c.journal.out, Replayable sr p.2 →
    ∃ rp, prepareReplay p.2 = .ok rp ∧
      Rows.find p.1 c'.journal.out = some (buildFrame c.sess env.stamp rp p.1)

/-- the last three statements of `_process_resend`: counter restored, state ACTIVE unless awaiting -/
theorem resend_finish (cur : Int) (c3 : Conn) (hcur : 0 < cur)
    (hlt : Rows.AllLt cur c3.journal.out) (hl : st_DISCONNECTED_BROKEN_CONN < c3.state) :
    ∃ c' es2, (do
        setSeqNum (some cur) none
        let c2 ← M.get
        if c2.state != st_RESENDREQ_AWAITING then stateSet st_ACTIVE else pure ()) c3
          = ⟨.ok (), c', es2⟩ ∧
      newWrites es2 = [] ∧ c'.sess.nextOut = cur ∧ c'.sess.sender = c3.sess.sender ∧
      c'.sess.target = c3.sess.target ∧ c'.journal.out = c3.journal.out ∧
      c'.journal.outSeq = cur - 1 ∧ c'.sock = c3.sock ∧ st_DISCONNECTED_BROKEN_CONN < c'.state := by
  rw [run_bind_of_ok (setSeqNum_out_eq cur c3 hcur), Out.pre_nil, run_bind_get]
  have hout : (rewind c3 cur).journal.out = c3.journal.out := Rows.below_of_allLt _ _ hlt
  by_cases h12 : ((rewind c3 cur).state != st_RESENDREQ_AWAITING) = true
  · rw [if_pos h12]
    unfold stateSet
    rw [run_bind_modify, run_emit]
    exact ⟨_, _, rfl, rfl, rfl, rfl, rfl, hout, rfl, rfl, (by decide : st_DISCONNECTED_BROKEN_CONN < st_ACTIVE)⟩
  · rw [if_neg h12, run_pure]
    exact ⟨_, _, rfl, rfl, rfl, rfl, rfl, hout, rfl, rfl, hl⟩

theorem resendCore_run (env : Env) (sr : Msg → Bool) (c : Conn) (b e : Int) (hI : OutInv c)
    (hst : st_LOGON_INITIAL_SENT < c.state) (hstamp : isLatin1 env.stamp = true)
    (hb : 1 ≤ b) (hbc : b < c.sess.nextOut) :
    ∃ c' es, resendCore env sr b (c.journal.recoverOut b e) c.sess.nextOut c = ⟨.ok (), c', es⟩ ∧
      ResendOut env sr c c' b e es := by
  have hlive : st_DISCONNECTED_BROKEN_CONN < c.state :=
    Nat.lt_trans (by decide : st_DISCONNECTED_BROKEN_CONN < st_LOGON_INITIAL_SENT) hst
  have hsock := hI.sock hlive
  -- 1. rewind
  have hc1 : ResendCtx env (rewind c b) := ⟨hst, hsock, hI.latin.1, hI.latin.2, hstamp⟩
  have hout1 : (rewind c b).journal.out = Rows.below b c.journal.out := rfl
  -- 2. loop
  have hrs : ∀ p ∈ Rows.range b e c.journal.out, RowOk p.2 p.1 ∧ b ≤ p.1 ∧ p.1 < c.sess.nextOut := by
    intro p hp
    obtain ⟨hm, h1, _⟩ := Rows.mem_range.mp hp
    exact ⟨(hI.rows p hm).1, h1, (hI.rows p hm).2⟩
  obtain ⟨J', o', gfb', gfe', es1, heq, hout⟩ :=
    resendLoop_spec env sr c.sess.nextOut (Rows.range b e c.journal.out) (rewind c b) b b hc1
      (Rows.sorted_below b _ hI.sorted) (Rows.allLt_below b _)
      (fun p hp => (hI.rows p (Rows.mem_below.mp hp).1).1)
      (Rows.sorted_range b e _ hI.sorted) hrs (by omega) (by omega)
  have hc2 : ResendCtx env (setOut (rewind c b) J' o') := hc1.setOut _ _
  have hbelowJ : ∀ k, k < b → Rows.find k J' = Rows.find k c.journal.out := by
    intro k hk
    rw [hout.below k hk, hout1, Rows.find_below _ _ _ hI.sorted, if_pos hk]
  -- 3./4. assertion, trailing gap fill
  have hge : decide (gfe' ≤ c.sess.nextOut) = true := by simpa using hout.gfeCur
  have hcur : (0 : Int) < c.sess.nextOut := by omega
  unfold resendCore Journal.recoverOut
  rw [run_bind_of_ok (setSeqNum_out_eq b c (by omega)), Out.pre_nil, run_bind_of_ok heq]
  dsimp only
  rw [hge, run_bind_of_ok (run_assert_true _), Out.pre_nil]
  by_cases hg : gfb' < c.sess.nextOut
  · rw [if_pos hg,
      run_bind_of_ok (sendMsg_gapFill env _ gfb' c.sess.nextOut hc2 hout.allLt)]
    have hJ3 : Rows.AllLt c.sess.nextOut (J' ++
        [(gfb', buildFrame c.sess env.stamp (gapFillMsg gfb' c.sess.nextOut) gfb')]) := by
      intro p hp
      rcases List.mem_append.mp hp with hp | hp
      · have := hout.allLt p hp; omega
      · simp only [List.mem_singleton] at hp; subst hp; exact hg
    obtain ⟨c', es2, hfin, hn2, f1, f2, f3, f4, f5, f6, f7⟩ :=
      resend_finish c.sess.nextOut (setOut (setOut (rewind c b) J' o')
        (J' ++ [(gfb', buildFrame c.sess env.stamp (gapFillMsg gfb' c.sess.nextOut) gfb')]) gfb')
        hcur hJ3 hlive
    refine ⟨c', es1 ++ ([Effect.write (buildFrame c.sess env.stamp (gapFillMsg gfb' c.sess.nextOut) gfb')] ++ es2), ?_, ?_⟩
    · exact congrArg (fun o => Out.pre es1 (Out.pre
        [Effect.write (buildFrame c.sess env.stamp (gapFillMsg gfb' c.sess.nextOut) gfb')] o)) hfin
    · have hfind : ∀ k, Rows.find k c'.journal.out =
          if k = gfb' then some (buildFrame c.sess env.stamp (gapFillMsg gfb' c.sess.nextOut) gfb')
          else Rows.find k J' := by
        intro k; rw [f4]; exact Rows.find_append_last _ _ _ _ hout.allLt
      refine ⟨f1, f2, f3, f5, f6, f7, ?_, ?_, ?_, ?_, ?_, ?_⟩
      · have : isNew (buildFrame c.sess env.stamp (gapFillMsg gfb' c.sess.nextOut) gfb') = false := by
          rw [buildFrame_isNew]; rfl
        simp [newWrites_append, hout.noNew, hn2, newWrites, this]
      · rw [f4]; exact Rows.sorted_append_last _ _ _ hout.sorted hout.allLt
      · intro p hp
        rw [f4] at hp
        rcases List.mem_append.mp hp with hp | hp
        · exact ⟨hout.rowOk p hp, by have := hout.allLt p hp; omega⟩
        · simp only [List.mem_singleton] at hp; subst hp
          exact ⟨rowOk_gapFill hc2 _ _, hg⟩
      · intro k hk
        rw [hfind, if_neg (by have := hout.le; omega)]; exact hbelowJ k hk
      · intro k g' hk hf
        rw [hfind] at hf
        split at hf
        · cases hf; exact Or.inl rfl
        · exact hout.above k g' hk hf
      · intro p hp hpr
        obtain ⟨rp, h1, h2⟩ := hout.copies p hp hpr
        refine ⟨rp, h1, ?_⟩
        have : p.1 < gfb' := by
          have := hout.allLt _ (Rows.find_mem h2); simpa using this
        rw [hfind, if_neg (by omega)]; exact h2
  · rw [if_neg hg]
    have hJ3 : Rows.AllLt c.sess.nextOut J' := fun p hp => by
      have := hout.allLt p hp; have := hout.leCur; omega
    obtain ⟨c', es2, hfin, hn2, f1, f2, f3, f4, f5, f6, f7⟩ :=
      resend_finish c.sess.nextOut (setOut (rewind c b) J' o') hcur hJ3 hlive
    refine ⟨c', es1 ++ es2, ?_, ?_⟩
    · exact congrArg (fun o => Out.pre es1 o) hfin
    · refine ⟨f1, f2, f3, f5, f6, f7, ?_, ?_, ?_, ?_, ?_, ?_⟩
      · simp [newWrites_append, hout.noNew, hn2]
      · rw [f4]; exact hout.sorted
      · intro p hp
        rw [f4] at hp
        exact ⟨hout.rowOk p hp, hJ3 p hp⟩
      · intro k hk; rw [f4]; exact hbelowJ k hk
      · intro k g' hk hf; rw [f4] at hf; exact hout.above k g' hk hf
      · intro p hp hpr; rw [f4]; exact hout.copies p hp hpr

end AsyncFix.Session
