import AsyncFix.Lemmas.SessionOutResendC

/-!
C05, resend servicing, part D: `_process_resend` restated in pieces (`processResend_eq`) and the
servicing proper (`resendCore`) computed: rewind, loop, trailing gap fill, counter restored.
-/
namespace AsyncFix.Session

open AsyncFix.Generated AsyncFix.Generated.ConnEnum

/-- `set_seq_num(next_num_out = n)` -/
def rewind (c : Conn) (n : Int) : Conn :=
  { c with sess := { c.sess with nextOut := n }, journal := c.journal.setSeq n c.sess.nextIn }

theorem setSeqNum_out_eq (n : Int) (c : Conn) (hn : 0 < n) :
    setSeqNum (some n) none c = ⟨.ok (), rewind c n, []⟩ := by
  unfold setSeqNum
  dsimp only
  have : decide (n > 0) = true := by simpa using hn
  rw [this, run_bind_of_ok (run_assert_true c), Out.pre_nil, run_bind_modify, run_modify]
  rfl

/-- `_process_resend` after the range check -/
def resendCore (env : Env) (sr : Msg → Bool) (b : Int) (rows : List Msg) (cur : Int) : M Unit := do
  setSeqNum (some b) none
  let (gfb, gfe) ← resendLoop env sr rows b b
  M.assert (decide (gfe ≤ cur))
  if gfb < cur then sendMsg env (gapFillMsg gfb cur) else pure ()
  setSeqNum (some cur) none
  let c2 ← M.get
  if c2.state != st_RESENDREQ_AWAITING then stateSet st_ACTIVE else pure ()

def processResend' (env : Env) (sr : Msg → Bool) (m : Msg) : M Unit := do
  let c0 ← M.get
  if c0.state != st_RESENDREQ_AWAITING then stateSet st_RESENDREQ_HANDLING else pure ()
  M.assert (m.mtype == mResendRequest)
  let c ← M.get
  M.assert (c.state == st_RESENDREQ_HANDLING || c.state == st_RESENDREQ_AWAITING)
  let vb ← M.liftE (m.get tBeginSeqNo)
  let b ← M.int vb
  let ve ← M.liftE (m.get tEndSeqNo)
  let e0 ← M.int ve
  if b < 1 || b ≥ c.sess.nextOut then
    if c.state != st_RESENDREQ_AWAITING then stateSet st_ACTIVE else pure ()
  else
    resendCore env sr b (c.journal.recoverOut b (if e0 == 0 then sysMaxsize else e0)) c.sess.nextOut

theorem processResend_eq (env : Env) (sr : Msg → Bool) (m : Msg) :
    processResend env sr m = processResend' env sr m := rfl

/-- what the servicing leaves behind -/
structure ResendOut (env : Env) (sr : Msg → Bool) (c c' : Conn) (b e : Int) (es : List Effect) : Prop where
  nextOut : c'.sess.nextOut = c.sess.nextOut
  sender : c'.sess.sender = c.sess.sender
  target : c'.sess.target = c.sess.target
  outSeq : c'.journal.outSeq = c.sess.nextOut - 1
  sock : c'.sock = c.sock
  live : st_DISCONNECTED_BROKEN_CONN < c'.state
  noNew : newWrites es = []
  sorted : Rows.Sorted c'.journal.out
  rows : ∀ p ∈ c'.journal.out, RowOk p.2 p.1 ∧ p.1 < c.sess.nextOut
  below : ∀ k, k < b → Rows.find k c'.journal.out = Rows.find k c.journal.out
  above : ∀ k g', b ≤ k → Rows.find k c'.journal.out = some g' →
    g'.mtype = mSequenceReset ∨ ∃ g rp, (k, g) ∈ Rows.range b e c.journal.out ∧ Replayable sr g ∧
      prepareReplay g = .ok rp ∧ g' = buildFrame c.sess env.stamp rp k
  copies : ∀ p ∈ Rows.range b e c.journal.out, Replayable sr p.2 →
    ∃ rp, prepareReplay p.2 = .ok rp ∧
      Rows.find p.1 c'.journal.out = some (buildFrame c.sess env.stamp rp p.1)

theorem resendCore_run (env : Env) (sr : Msg → Bool) (c : Conn) (b e : Int) (hI : OutInv c)
    (hst : st_LOGON_INITIAL_SENT < c.state) (hstamp : isLatin1 env.stamp = true)
    (hb : 1 ≤ b) (hbc : b < c.sess.nextOut) :
    ∃ c' es, resendCore env sr b (c.journal.recoverOut b e) c.sess.nextOut c = ⟨.ok (), c', es⟩ ∧
      ResendOut env sr c c' b e es := by
  have hlive : st_DISCONNECTED_BROKEN_CONN < c.state :=
    Nat.lt_trans (by decide : st_DISCONNECTED_BROKEN_CONN < st_LOGON_INITIAL_SENT) hst
  have hsock := hI.sock hlive
  -- 1. rewind
  let c1 := rewind c b
  have hc1 : ResendCtx env c1 := ⟨hst, hsock, hI.latin.1, hI.latin.2, hstamp⟩
  have hout1 : c1.journal.out = Rows.below b c.journal.out := rfl
  -- 2. loop
  have hrs : ∀ p ∈ Rows.range b e c.journal.out, RowOk p.2 p.1 ∧ b ≤ p.1 ∧ p.1 < c.sess.nextOut := by
    intro p hp
    obtain ⟨hm, h1, _⟩ := Rows.mem_range.mp hp
    exact ⟨(hI.rows p hm).1, h1, (hI.rows p hm).2⟩
  obtain ⟨J', o', gfb', gfe', es1, heq, hout⟩ :=
    resendLoop_spec env sr c.sess.nextOut (Rows.range b e c.journal.out) c1 b b hc1
      (Rows.sorted_below b _ hI.sorted) (Rows.allLt_below b _)
      (fun p hp => (hI.rows p (Rows.mem_below.mp hp).1).1)
      (Rows.sorted_range b e _ hI.sorted) hrs (by omega) (by omega)
  let c2 := setOut c1 J' o'
  have hc2 : ResendCtx env c2 := hc1.setOut _ _
  -- 3./4. assertion, trailing gap fill
  have hge : decide (gfe' ≤ c.sess.nextOut) = true := by simpa using hout.gfeCur
  have hcur : (0 : Int) < c.sess.nextOut := by omega
  unfold resendCore Journal.recoverOut
  rw [run_bind_of_ok (setSeqNum_out_eq b c (by omega)), Out.pre_nil, run_bind_of_ok heq]
  dsimp only
  rw [hge, run_bind_of_ok (run_assert_true _), Out.pre_nil]
  by_cases hg : gfb' < c.sess.nextOut
  · rw [if_pos hg, run_bind_of_ok (sendMsg_gapFill env c2 gfb' c.sess.nextOut hc2 hout.allLt)]
    let gf := buildFrame c2.sess env.stamp (gapFillMsg gfb' c.sess.nextOut) gfb'
    let c3 := setOut c2 (J' ++ [(gfb', gf)]) gfb'
    show Out.pre es1 (Out.pre [Effect.write gf] (((setSeqNum (some c.sess.nextOut) none) >>= _) c3)) = _ ∧ _
    rw [run_bind_of_ok (setSeqNum_out_eq c.sess.nextOut c3 hcur), Out.pre_nil, run_bind_get]
    have hJ3 : Rows.AllLt c.sess.nextOut (J' ++ [(gfb', gf)]) := by
      intro p hp
      rcases List.mem_append.mp hp with hp | hp
      · have := hout.allLt p hp; omega
      · simp only [List.mem_singleton] at hp; subst hp; exact hg
    have hfind : ∀ k, Rows.find k (Rows.below c.sess.nextOut (J' ++ [(gfb', gf)])) =
        if k = gfb' then some gf else Rows.find k J' := by
      intro k
      rw [Rows.below_of_allLt _ _ hJ3]; exact Rows.find_append_last _ _ _ _ hout.allLt
    have hgfmt : gf.mtype = mSequenceReset := rfl
    have main : ∀ c' : Conn, c'.sess = (rewind c3 c.sess.nextOut).sess →
        c'.journal = (rewind c3 c.sess.nextOut).journal → c'.sock = c.sock →
        st_DISCONNECTED_BROKEN_CONN < c'.state →
        ResendOut env sr c c' b e (es1 ++ [Effect.write gf]) := by
      intro c' hs hj hsk hlv
      have hjo : c'.journal.out = Rows.below c.sess.nextOut (J' ++ [(gfb', gf)]) := by rw [hj]; rfl
      refine ⟨by rw [hs]; rfl, by rw [hs]; rfl, by rw [hs]; rfl, by rw [hj]; rfl, hsk, hlv, ?_,
        ?_, ?_, ?_, ?_, ?_⟩
      · rw [newWrites_append, hout.noNew]
        have : isNew gf = false := by rw [buildFrame_isNew]; rfl
        simp [newWrites, this]
      · rw [hjo, Rows.below_of_allLt _ _ hJ3]
        exact Rows.sorted_append_last _ _ _ hout.sorted hout.allLt
      · intro p hp
        rw [hjo, Rows.below_of_allLt _ _ hJ3] at hp
        rcases List.mem_append.mp hp with hp | hp
        · exact ⟨hout.rowOk p hp, by have := hout.allLt p hp; omega⟩
        · simp only [List.mem_singleton] at hp; subst hp
          exact ⟨rowOk_gapFill hc2 _ _, hg⟩
      · intro k hk
        rw [hjo, hfind, if_neg (by have := hout.le; omega), hout.below k hk, hout1,
          Rows.find_below _ _ _ hI.sorted, if_pos hk]
      · intro k g' hk hf
        rw [hjo, hfind] at hf
        split at hf
        · cases hf; exact Or.inl hgfmt
        · exact hout.above k g' hk hf
      · intro p hp hpr
        obtain ⟨rp, h1, h2⟩ := hout.copies p hp hpr
        refine ⟨rp, h1, ?_⟩
        rw [hjo, hfind]
        have : p.1 < gfb' := by
          have := hout.allLt _ (Rows.find_mem h2); simpa using this
        rw [if_neg (by omega)]; exact h2
    by_cases h12 : ((rewind c3 c.sess.nextOut).state != st_RESENDREQ_AWAITING) = true
    · rw [if_pos h12]
      unfold stateSet
      rw [run_bind_modify, run_emit]
      refine ⟨_, _, rfl, ?_⟩
      have := main { rewind c3 c.sess.nextOut with state := st_ACTIVE,
        wasActive := (rewind c3 c.sess.nextOut).wasActive || st_ACTIVE == st_ACTIVE } rfl rfl rfl
        (by decide)
      refine { this with noNew := ?_ }
      have h0 := this.noNew
      simp only [List.append_assoc, newWrites_append] at h0 ⊢
      simp only [newWrites, List.append_nil] at h0 ⊢
      exact h0
    · rw [if_neg h12, run_pure]
      refine ⟨_, _, rfl, ?_⟩
      have := main (rewind c3 c.sess.nextOut) rfl rfl rfl hlive
      refine { this with noNew := ?_ }
      have h0 := this.noNew
      simp only [List.append_assoc, newWrites_append] at h0 ⊢
      simp only [newWrites, List.append_nil] at h0 ⊢
      exact h0
  · sorry

end AsyncFix.Session
