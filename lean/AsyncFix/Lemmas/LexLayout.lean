/-
The fixed-width layout regex (`layoutMatch`) as explicit shapes, `%f` on three / six digits, and
`validateDatetime` in terms of `headFull` and the calendar checks.
-/
import AsyncFix.Lemmas.LexSeq
import AsyncFix.Py.PyRe
import AsyncFix.Model.Lexical
namespace AsyncFix.Lemmas.LexLayout
open AsyncFix.Py AsyncFix.Lemmas.LexTok AsyncFix.Lemmas.LexSeq AsyncFix.Model.Lexical

theorem digitsN_two {s r : Str} :
    digitsN 2 s = some r ↔ ∃ a b, s = a :: b :: r ∧ isAsciiDigit a = true ∧ isAsciiDigit b = true := by
  constructor
  · intro h
    rcases s with _ | ⟨a, _ | ⟨b, t⟩⟩ <;> simp [digitsN] at h
    obtain ⟨⟨h1, h2⟩, rfl⟩ := h
    exact ⟨a, b, rfl, h1, h2⟩
  · rintro ⟨a, b, rfl, h1, h2⟩
    simp [digitsN, h1, h2]

theorem digitsN_three {s r : Str} :
    digitsN 3 s = some r ↔ ∃ a b c, s = a :: b :: c :: r ∧
      isAsciiDigit a = true ∧ isAsciiDigit b = true ∧ isAsciiDigit c = true := by
  constructor
  · intro h
    rcases s with _ | ⟨a, _ | ⟨b, _ | ⟨c, t⟩⟩⟩ <;> simp [digitsN] at h
    obtain ⟨⟨h1, h2, h3⟩, rfl⟩ := h
    exact ⟨a, b, c, rfl, h1, h2, h3⟩
  · rintro ⟨a, b, c, rfl, h1, h2, h3⟩
    simp [digitsN, h1, h2, h3]

theorem digitsN_four {s r : Str} :
    digitsN 4 s = some r ↔ ∃ a b c d, s = a :: b :: c :: d :: r ∧
      isAsciiDigit a = true ∧ isAsciiDigit b = true ∧ isAsciiDigit c = true ∧ isAsciiDigit d = true := by
  constructor
  · intro h
    rcases s with _ | ⟨a, _ | ⟨b, _ | ⟨c, _ | ⟨d, t⟩⟩⟩⟩ <;> simp [digitsN] at h
    obtain ⟨⟨h1, h2, h3, h4⟩, rfl⟩ := h
    exact ⟨a, b, c, d, rfl, h1, h2, h3, h4⟩
  · rintro ⟨a, b, c, d, rfl, h1, h2, h3, h4⟩
    simp [digitsN, h1, h2, h3, h4]

theorem digitsN_six {s r : Str} :
    digitsN 6 s = some r ↔ ∃ a b c d e f, s = a :: b :: c :: d :: e :: f :: r ∧
      isAsciiDigit a = true ∧ isAsciiDigit b = true ∧ isAsciiDigit c = true ∧ isAsciiDigit d = true ∧
      isAsciiDigit e = true ∧ isAsciiDigit f = true := by
  constructor
  · intro h
    rcases s with _ | ⟨a, _ | ⟨b, _ | ⟨c, _ | ⟨d, _ | ⟨e, _ | ⟨f, t⟩⟩⟩⟩⟩⟩ <;> simp [digitsN] at h
    obtain ⟨⟨h1, h2, h3, h4, h5, h6⟩, rfl⟩ := h
    exact ⟨a, b, c, d, e, f, rfl, h1, h2, h3, h4, h5, h6⟩
  · rintro ⟨a, b, c, d, e, f, rfl, h1, h2, h3, h4, h5, h6⟩
    simp [digitsN, h1, h2, h3, h4, h5, h6]

theorem layout_nil {s : Str} : layoutMatch [] s = true ↔ s = [] := by
  cases s <;> simp [layoutMatch]

theorem layoutMatch_Y_eq (ds : List Dir) (s : Str) : layoutMatch (.Y :: ds) s =
    match digitsN 4 s with
    | some r => layoutMatch ds r
    | none => false := by simp only [layoutMatch]; rfl

theorem layoutMatch_f_eq (s : Str) : layoutMatch [.f] s =
    ((match digitsN 3 s with
      | some r => layoutMatch [] r
      | none => false) ||
    (match digitsN 6 s with
      | some r => layoutMatch [] r
      | none => false)) := by simp only [layoutMatch]; rfl

theorem layout_Y {ds : List Dir} {s : Str} :
    layoutMatch (.Y :: ds) s = true ↔ ∃ a b c d r, s = a :: b :: c :: d :: r ∧
      isAsciiDigit a = true ∧ isAsciiDigit b = true ∧ isAsciiDigit c = true ∧ isAsciiDigit d = true ∧
      layoutMatch ds r = true := by
  rw [layoutMatch_Y_eq]
  constructor
  · intro h
    split at h
    · rename_i r hr
      obtain ⟨a, b, c, d, rfl, h1, h2, h3, h4⟩ := digitsN_four.1 hr
      exact ⟨a, b, c, d, r, rfl, h1, h2, h3, h4, h⟩
    · cases h
  · rintro ⟨a, b, c, d, r, rfl, h1, h2, h3, h4, h⟩
    rw [digitsN_four.2 ⟨a, b, c, d, rfl, h1, h2, h3, h4⟩]
    exact h

theorem layout_num {D : Dir} (hD : isNum D = true) {ds : List Dir} {s : Str} :
    layoutMatch (D :: ds) s = true ↔ ∃ a b r, s = a :: b :: r ∧
      isAsciiDigit a = true ∧ isAsciiDigit b = true ∧ layoutMatch ds r = true := by
  have key : layoutMatch (D :: ds) s = match digitsN 2 s with
      | some r => layoutMatch ds r
      | none => false := by
    cases D <;> simp [isNum] at hD <;> rfl
  rw [key]
  constructor
  · intro h
    split at h
    · rename_i r hr
      obtain ⟨a, b, rfl, h1, h2⟩ := digitsN_two.1 hr
      exact ⟨a, b, r, rfl, h1, h2, h⟩
    · cases h
  · rintro ⟨a, b, r, rfl, h1, h2, h⟩
    rw [digitsN_two.2 ⟨a, b, rfl, h1, h2⟩]
    exact h

theorem layout_lit {c : Nat} {ds : List Dir} {s : Str} :
    layoutMatch (.lit c :: ds) s = true ↔ ∃ r, s = c :: r ∧ layoutMatch ds r = true := by
  cases s with
  | nil => simp [layoutMatch]
  | cons a r =>
    simp only [layoutMatch, Bool.and_eq_true, beq_iff_eq]
    constructor
    · rintro ⟨rfl, h⟩; exact ⟨r, rfl, h⟩
    · rintro ⟨r', h, h'⟩
      injection h with h1 h2
      subst h1; subst h2
      exact ⟨rfl, h'⟩

/-- `%f` last: exactly three or exactly six digits -/
theorem layout_f_end {s : Str} :
    layoutMatch [.f] s = true ↔
      (∃ a b c, s = [a, b, c] ∧ isAsciiDigit a = true ∧ isAsciiDigit b = true ∧ isAsciiDigit c = true) ∨
      (∃ a b c d e f, s = [a, b, c, d, e, f] ∧ isAsciiDigit a = true ∧ isAsciiDigit b = true ∧
        isAsciiDigit c = true ∧ isAsciiDigit d = true ∧ isAsciiDigit e = true ∧ isAsciiDigit f = true) := by
  rw [layoutMatch_f_eq, Bool.or_eq_true]
  constructor
  · rintro (h | h)
    · split at h
      · rename_i r hr
        obtain ⟨a, b, c, rfl, h1, h2, h3⟩ := digitsN_three.1 hr
        rw [layout_nil] at h; subst h
        exact Or.inl ⟨a, b, c, rfl, h1, h2, h3⟩
      · cases h
    · split at h
      · rename_i r hr
        obtain ⟨a, b, c, d, e, f, rfl, h1, h2, h3, h4, h5, h6⟩ := digitsN_six.1 hr
        rw [layout_nil] at h; subst h
        exact Or.inr ⟨a, b, c, d, e, f, rfl, h1, h2, h3, h4, h5, h6⟩
      · cases h
  · rintro (⟨a, b, c, rfl, h1, h2, h3⟩ | ⟨a, b, c, d, e, f, rfl, h1, h2, h3, h4, h5, h6⟩)
    · left
      rw [digitsN_three.2 ⟨a, b, c, rfl, h1, h2, h3⟩]
      exact layout_nil.2 rfl
    · right
      rw [digitsN_six.2 ⟨a, b, c, d, e, f, rfl, h1, h2, h3, h4, h5, h6⟩]
      exact layout_nil.2 rfl

/-! `%f` at the end of the format on three / six digits -/
theorem headFull_f3 {a b c : Nat} (h1 : isAsciiDigit a = true) (h2 : isAsciiDigit b = true)
    (h3 : isAsciiDigit c = true) :
    headFull (matchSeq [.f] [a, b, c]) = some [fracVal [a, b, c]] := by
  simp [matchSeq_cons, Dir.alts, fracAlt, h1, h2, h3, headFull]

theorem headFull_f6 {a b c d e f : Nat} (h1 : isAsciiDigit a = true) (h2 : isAsciiDigit b = true)
    (h3 : isAsciiDigit c = true) (h4 : isAsciiDigit d = true) (h5 : isAsciiDigit e = true)
    (h6 : isAsciiDigit f = true) :
    headFull (matchSeq [.f] [a, b, c, d, e, f]) = some [fracVal [a, b, c, d, e, f]] := by
  simp [matchSeq_cons, Dir.alts, fracAlt, h1, h2, h3, h4, h5, h6, headFull]

theorem fracVal3_le {a b c : Nat} (h1 : isAsciiDigit a = true) (h2 : isAsciiDigit b = true)
    (h3 : isAsciiDigit c = true) : fracVal [a, b, c] ≤ 999999 := by
  have := digit_iff.1 h1; have := digit_iff.1 h2; have := digit_iff.1 h3
  simp [fracVal, decVal]
  omega

theorem fracVal6_le {a b c d e f : Nat} (h1 : isAsciiDigit a = true) (h2 : isAsciiDigit b = true)
    (h3 : isAsciiDigit c = true) (h4 : isAsciiDigit d = true) (h5 : isAsciiDigit e = true)
    (h6 : isAsciiDigit f = true) : fracVal [a, b, c, d, e, f] ≤ 999999 := by
  have := digit_iff.1 h1; have := digit_iff.1 h2; have := digit_iff.1 h3
  have := digit_iff.1 h4; have := digit_iff.1 h5; have := digit_iff.1 h6
  simp [fracVal, decVal]
  omega

/-! ### strptime and validateDatetime through `headFull` -/

/-- the checks of `datetime_date(...)` and `datetime(...)` -/
def dtOk (t : DateTime) : Bool := !t.dateBad && !t.timeBad

theorem dtOk_iff (t : DateTime) : dtOk t = true ↔
    (1 ≤ t.effYear ∧ t.effYear ≤ 9999 ∧ 1 ≤ t.month ∧ t.month ≤ 12 ∧ 1 ≤ t.day ∧
      t.day ≤ daysInMonth t.effYear t.month) ∧
    (t.hour ≤ 23 ∧ t.minute ≤ 59 ∧ t.second ≤ 59 ∧ t.micro ≤ 999999) := by
  simp [dtOk, DateTime.dateBad, DateTime.timeBad]
  omega

theorem strptime_ok_iff (fmt : List Dir) (s : Str) :
    (∃ t, strptime fmt s = .ok t) ↔
      ∃ vals, headFull (matchSeq fmt s) = some vals ∧ dtOk (assign fmt vals {}) = true := by
  unfold strptime reMatch headFull dtOk
  cases h : (matchSeq fmt s).head? with
  | none => simp
  | some x =>
    obtain ⟨vals, rest⟩ := x
    cases rest with
    | cons c r => simp
    | nil =>
      cases h1 : (assign fmt vals {}).dateBad <;> cases h2 : (assign fmt vals {}).timeBad <;> simp [h1, h2]

/-- the format `_validate_value_datetime` really uses -/
def effFmt (s : Str) (fmt : List Dir) : List Dir :=
  if s.contains 46 && fmt.contains .S && !fmt.contains .f then fmt ++ [.lit 46, .f] else fmt

theorem validateDatetime_pass_iff (s : Str) (fmt : List Dir) :
    validateDatetime s fmt = .pass ↔
      (∃ vals, headFull (matchSeq (effFmt s fmt) s) = some vals ∧
          dtOk (assign (effFmt s fmt) vals {}) = true) ∧
        layoutMatch (effFmt s fmt) s = true := by
  rw [← strptime_ok_iff]
  show (match strptime (effFmt s fmt) s with
    | .ok _ => if layoutMatch (effFmt s fmt) s then VRes.pass else VRes.err
    | _ => VRes.err) = .pass ↔ _
  generalize effFmt s fmt = f
  cases hs : strptime f s <;> simp

end AsyncFix.Lemmas.LexLayout
