/-
float(): the FIX float lexical space `-?(digits[.digits*] | .digits)` as an explicit form, its
equality with the regex guard of schema.py, and what CPython's float() (model `pyFloat`) does on it.
-/
import AsyncFix.Lemmas.LexInt
namespace AsyncFix.Lemmas.LexFloat
open AsyncFix.Py AsyncFix.Model AsyncFix.Model.Lexical AsyncFix.Model.LexClass AsyncFix.Lemmas.LexInt

/-- `ip` or `ip . fp` with ASCII digit strings ip, fp, at least one digit -/
def FloatForm (b : Str) : Prop :=
  ∃ ip fp : Str, ip.all isAsciiDigit = true ∧ fp.all isAsciiDigit = true ∧
    ((b = ip ∧ ip ≠ []) ∨ (b = ip ++ 46 :: fp ∧ (ip ≠ [] ∨ fp ≠ [])))

theorem takeWhile_digits {ip : Str} (h : ip.all isAsciiDigit = true) (r : Str)
    (hr : ∀ c r', r = c :: r' → isAsciiDigit c = false) :
    (ip ++ r).takeWhile isAsciiDigit = ip ∧ (ip ++ r).dropWhile isAsciiDigit = r := by
  induction ip with
  | nil =>
    cases r with
    | nil => simp
    | cons c r' => simp [hr c r' rfl]
  | cons c cs ih =>
    simp only [List.all_cons, Bool.and_eq_true] at h
    simp [h.1, ih h.2]

theorem not_digit_dot : isAsciiDigit 46 = false := by decide

theorem tw_dot {ip : Str} (h : ip.all isAsciiDigit = true) (fp : Str) :
    (ip ++ 46 :: fp).takeWhile isAsciiDigit = ip ∧ (ip ++ 46 :: fp).dropWhile isAsciiDigit = 46 :: fp := by
  apply takeWhile_digits h
  intro c r' he; injection he with h1 _; subst h1; exact not_digit_dot

theorem tw_all {ip : Str} (h : ip.all isAsciiDigit = true) :
    ip.takeWhile isAsciiDigit = ip ∧ ip.dropWhile isAsciiDigit = [] := by
  have := takeWhile_digits h [] (by intro c r' he; cases he)
  simpa using this

theorem dropWhile_head_not {p : Nat → Bool} {s : Str} {c : Nat} {r : Str}
    (h : s.dropWhile p = c :: r) : p c = false := by
  induction s with
  | nil => cases h
  | cons a t ih =>
    by_cases ha : p a = true
    · simp [List.dropWhile, ha] at h; exact ih h
    · simp [List.dropWhile, ha] at h
      obtain ⟨rfl, -⟩ := h
      simpa using ha

theorem takeWhile_all_true (p : Nat → Bool) (s : Str) : (s.takeWhile p).all p = true := by
  induction s with
  | nil => rfl
  | cons a t ih =>
    by_cases ha : p a = true <;> simp [List.takeWhile, ha, ih]

/-- the regex guard `[0-9]+\.?[0-9]*|\.[0-9]+` recognises exactly this form -/
theorem reUnsigned_iff (b : Str) : reUnsignedFloat b = true ↔ FloatForm b := by
  unfold reUnsignedFloat
  constructor
  · intro h
    have hsplit := List.takeWhile_append_dropWhile (p := isAsciiDigit) (l := b)
    have hip := takeWhile_all_true isAsciiDigit b
    split at h
    · rename_i hd
      rw [hd, List.append_nil] at hsplit
      refine ⟨b.takeWhile isAsciiDigit, [], hip, rfl, Or.inl ⟨hsplit.symm, ?_⟩⟩
      intro he; simp [he] at h
    · rename_i fp hd
      rw [hd] at hsplit
      simp only [Bool.and_eq_true, Bool.or_eq_true, Bool.not_eq_true', List.isEmpty_eq_false_iff] at h
      exact ⟨b.takeWhile isAsciiDigit, fp, hip, h.1, Or.inr ⟨hsplit.symm, h.2⟩⟩
    · cases h
  · rintro ⟨ip, fp, hip, hfp, (⟨rfl, hne⟩ | ⟨rfl, hne⟩)⟩
    · rw [(tw_all hip).1, (tw_all hip).2]
      simpa using hne
    · rw [(tw_dot hip fp).1, (tw_dot hip fp).2]
      simp only [hfp, Bool.true_and, Bool.or_eq_true, Bool.not_eq_true', List.isEmpty_eq_false_iff]
      exact hne

theorem all_digit_or_dot {ds : Str} (h : ds.all isAsciiDigit = true) :
    ds.all (fun c => LexSpec.digit c || c == 46) = true ∧ ds.filter (· == 46) = [] := by
  induction ds with
  | nil => simp
  | cons c cs ih =>
    simp only [List.all_cons, Bool.and_eq_true] at h
    have hc := digit_iff.1 h.1
    have : (c == 46) = false := by simp; omega
    have hd : LexSpec.digit c = true := h.1
    simp [ih h.2, this, hd]

theorem any_digit_of_ne {ds : Str} (hne : ds ≠ []) (h : ds.all isAsciiDigit = true) :
    ds.any LexSpec.digit = true := by
  obtain ⟨c, cs, rfl⟩ := List.exists_cons_of_ne_nil hne
  simp only [List.all_cons, Bool.and_eq_true] at h
  have hd : LexSpec.digit c = true := h.1
  simp [hd]

theorem all_of_dd_nodot {s : Str} (h : s.all (fun c => LexSpec.digit c || c == 46) = true)
    (hf : s.filter (· == 46) = []) : s.all isAsciiDigit = true := by
  induction s with
  | nil => rfl
  | cons c cs ih =>
    simp only [List.all_cons, Bool.and_eq_true, Bool.or_eq_true] at h
    by_cases hc : (c == 46) = true
    · simp [List.filter, hc] at hf
    · have hc' : (c == 46) = false := by simpa using hc
      simp only [List.filter, hc'] at hf
      have hd : isAsciiDigit c = true := by
        rcases h.1 with h1 | h1
        · exact h1
        · rw [hc'] at h1; cases h1
      simp [hd, ih h.2 hf]

/-- the SPEC's unsigned float (digits and at most one '.', at least one digit) is the same form -/
theorem isUnsigned_iff (b : Str) : LexSpec.isUnsignedFloat b = true ↔ FloatForm b := by
  unfold LexSpec.isUnsignedFloat
  simp only [Bool.and_eq_true, decide_eq_true_eq]
  constructor
  · rintro ⟨⟨hall, hany⟩, hcnt⟩
    have hsplit := List.takeWhile_append_dropWhile (p := isAsciiDigit) (l := b)
    have hip := takeWhile_all_true isAsciiDigit b
    cases hd : b.dropWhile isAsciiDigit with
    | nil =>
      rw [hd, List.append_nil] at hsplit
      refine ⟨b.takeWhile isAsciiDigit, [], hip, rfl, Or.inl ⟨hsplit.symm, ?_⟩⟩
      intro he
      rw [he] at hsplit
      rw [← hsplit] at hany; simp at hany
    | cons c fp =>
      rw [hd] at hsplit
      have hc := dropWhile_head_not hd
      rw [← hsplit] at hall hcnt hany
      simp only [List.all_append, List.all_cons, Bool.and_eq_true, Bool.or_eq_true] at hall
      have hc46 : c = 46 := by
        rcases hall.2.1 with h1 | h1
        · have : isAsciiDigit c = true := h1
          rw [hc] at this; cases this
        · simpa using h1
      subst hc46
      have hf0 := (all_digit_or_dot hip).2
      simp only [List.filter_append, hf0, List.nil_append, List.filter_cons, beq_self_eq_true,
        ↓reduceIte, List.length_cons] at hcnt
      have hfp0 : fp.filter (· == 46) = [] := by
        cases hff : fp.filter (· == 46) with
        | nil => rfl
        | cons x y => rw [hff] at hcnt; simp at hcnt
      have hfp := all_of_dd_nodot hall.2.2 hfp0
      refine ⟨b.takeWhile isAsciiDigit, fp, hip, hfp, Or.inr ⟨hsplit.symm, ?_⟩⟩
      by_cases h1 : b.takeWhile isAsciiDigit = []
      · right
        intro h2
        rw [h1, h2] at hany
        simp [LexSpec.digit] at hany
      · exact Or.inl h1
  · rintro ⟨ip, fp, hip, hfp, (⟨rfl, hne⟩ | ⟨rfl, hne⟩)⟩
    · exact ⟨⟨(all_digit_or_dot hip).1, any_digit_of_ne hne hip⟩, by simp [(all_digit_or_dot hip).2]⟩
    · refine ⟨⟨?_, ?_⟩, ?_⟩
      · simp [(all_digit_or_dot hip).1, (all_digit_or_dot hfp).1]
      · rcases hne with h | h
        · simp [any_digit_of_ne h hip]
        · simp [any_digit_of_ne h hfp]
      · simp [List.filter_append, (all_digit_or_dot hip).2, (all_digit_or_dot hfp).2]

/-- schema.py's regex guard for floats is the SPEC's float recogniser -/
theorem reFloat_eq (s : Str) : reFloatLexical s = LexSpec.isFloat s := by
  unfold reFloatLexical LexSpec.isFloat
  have key : ∀ b, reUnsignedFloat b = LexSpec.isUnsignedFloat b := by
    intro b
    rw [Bool.eq_iff_iff, reUnsigned_iff, isUnsigned_iff]
  split
  · exact key _
  · rename_i hne
    split
    · rename_i r; exact absurd rfl (hne r)
    · exact key _

end AsyncFix.Lemmas.LexFloat
