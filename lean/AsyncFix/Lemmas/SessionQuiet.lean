import AsyncFix.Lemmas.SessionDisc

/-!
Session family: silence after a disconnect.

`quiet d e`: walking the trace `e` with the flag `d` = "a disconnect has been reported and no new
transport has come up since" (`onDisconnect` sets it, `onConnect` clears it), no *busy* effect occurs
while the flag is set: nothing loud (frame written, `on_message`, `on_logon`, `on_logout`), no state
change, no second `on_disconnect`.

`QSpec G c o` is the specification of a handler outcome `o` started from a CONNECTED state: the trace is
quiet, the final state is a disconnected one exactly when the trace ends with the flag set, and a
result returned in a disconnected state satisfies `G`.  `Calm o` is the specification of a
continuation that runs from a DISCONNECTED state: only `caught` effects, stays disconnected.
-/
namespace AsyncFix.Session

open AsyncFix.Generated.ConnEnum

def Effect.loud : Effect → Bool
  | .write _ => true
  | .deliver _ => true
  | .onLogon _ => true
  | .onLogout _ => true
  | _ => false

/-- effects that show activity of a live session: the loud ones, state changes and the disconnect report -/
def Effect.busy : Effect → Bool
  | .onState _ => true
  | .onDisconnect => true
  | e => e.loud

def quiet : Bool → List Effect → Bool
  | _, [] => true
  | d, .onDisconnect :: r => !d && quiet true r
  | _, .onConnect :: r => quiet false r
  | d, e :: r => !(d && e.busy) && quiet d r

def flagAfter : Bool → List Effect → Bool
  | d, [] => d
  | _, .onDisconnect :: r => flagAfter true r
  | _, .onConnect :: r => flagAfter false r
  | d, _ :: r => flagAfter d r

/-- effects a handler may still emit once the connection is in a disconnected state -/
def Effect.calm : Effect → Bool
  | .caught _ => true
  | .raised _ => true
  | _ => false

theorem quiet_append (d : Bool) (a b : List Effect) :
    quiet d (a ++ b) = (quiet d a && quiet (flagAfter d a) b) := by
  induction a generalizing d with
  | nil => simp [quiet, flagAfter]
  | cons x xs ih => cases x <;> simp [quiet, flagAfter, ih, Bool.and_assoc]

theorem flagAfter_append (d : Bool) (a b : List Effect) :
    flagAfter d (a ++ b) = flagAfter (flagAfter d a) b := by
  induction a generalizing d with
  | nil => rfl
  | cons x xs ih => cases x <;> simp [flagAfter, ih]

theorem calm_quiet {e : List Effect} (h : e.all Effect.calm = true) (d : Bool) :
    quiet d e = true ∧ flagAfter d e = d := by
  induction e generalizing d with
  | nil => exact ⟨rfl, rfl⟩
  | cons x xs ih =>
    simp only [List.all_cons, Bool.and_eq_true] at h
    obtain ⟨hx, hxs⟩ := h
    have := ih hxs d
    cases x <;> simp [Effect.calm] at hx <;> simp [quiet, flagAfter, Effect.loud, Effect.busy, this]

theorem plain_quiet {e : List Effect} (h : e.all plainUp = true) :
    quiet false e = true ∧ flagAfter false e = false := by
  induction e with
  | nil => exact ⟨rfl, rfl⟩
  | cons x xs ih =>
    simp only [List.all_cons, Bool.and_eq_true] at h
    cases x <;> simp_all [quiet, flagAfter, plainUp, Effect.busy, Effect.loud]

/-- `quiet false` is the weakest requirement -/
theorem quiet_mono {e : List Effect} {d : Bool} (h : quiet d e = true) : quiet false e = true := by
  induction e generalizing d with
  | nil => rfl
  | cons x xs ih =>
    cases x <;> simp only [quiet, Bool.false_and, Bool.not_false, Bool.true_and, Bool.and_eq_true] at h ⊢ <;>
      first | exact h | exact h.2 | exact ih h.2

/-- outcome specification from a connected start state -/
def QSpec {α : Type} (G : α → Prop) (o : Out α) : Prop :=
  quiet false o.eff = true ∧ isDisc o.conn.state = flagAfter false o.eff ∧
    (∀ a, o.res = .ok a → isDisc o.conn.state = true → G a)

/-- outcome specification from a disconnected start state -/
def Calm {α : Type} (o : Out α) : Prop :=
  o.eff.all Effect.calm = true ∧ isDisc o.conn.state = true

/-- a handler that keeps the plain invariant satisfies `QSpec` (it never leaves the connected states) -/
theorem QSpec.of_plain {α : Type} {G : α → Prop} {x : M α} (h : M.Rel RPlain x) (c : Conn)
    (hc : isDisc c.state = false) : QSpec G (x c) := by
  have hp := h.out c
  have hup := plain_track_up hp.2 hc
  rw [← hp.1] at hup
  refine ⟨(plain_quiet hp.2).1, ?_, ?_⟩
  · rw [(plain_quiet hp.2).2, hup]
  · intro a _ hd; rw [hup] at hd; cases hd

/-- sequencing after a plain step -/
theorem QSpec.bind_plain {α β : Type} {G : β → Prop} {x : M α} {f : α → M β} (hx : M.Rel RPlain x)
    (hf : ∀ a c1, isDisc c1.state = false → QSpec G (f a c1)) (c : Conn)
    (hc : isDisc c.state = false) : QSpec G ((x >>= f) c) := by
  have hp := hx.out c
  have hup := plain_track_up hp.2 hc
  rw [← hp.1] at hup
  rcases hxc : x c with ⟨r, c1, e1⟩
  rw [hxc] at hp hup
  cases r with
  | error ex =>
    rw [M.bind_err hxc]
    refine ⟨(plain_quiet hp.2).1, ?_, ?_⟩
    · show isDisc c1.state = flagAfter false e1
      rw [(plain_quiet hp.2).2]; exact hup
    · intro a h; cases h
  | ok a =>
    rw [M.bind_ok hxc]
    have h2 := hf a c1 hup
    refine ⟨?_, ?_, ?_⟩
    · show quiet false (e1 ++ (f a c1).eff) = true
      rw [quiet_append, (plain_quiet hp.2).1, (plain_quiet hp.2).2, h2.1]; rfl
    · show isDisc (f a c1).conn.state = flagAfter false (e1 ++ (f a c1).eff)
      rw [flagAfter_append, (plain_quiet hp.2).2]; exact h2.2.1
    · exact h2.2.2

/-- `try: x except Exception as ex: h ex` with a plain `x` -/
theorem QSpec.tryCatch_plain {α : Type} {G : α → Prop} {x : M α} {h : Exc → M α} (hx : M.Rel RPlain x)
    (hh : ∀ ex c1, isDisc c1.state = false → QSpec G (h ex c1)) (c : Conn)
    (hc : isDisc c.state = false) : QSpec G (M.tryCatch x h c) := by
  have hp := hx.out c
  have hup := plain_track_up hp.2 hc
  rw [← hp.1] at hup
  rcases hxc : x c with ⟨r, c1, e1⟩
  rw [hxc] at hp hup
  cases r with
  | ok a =>
    rw [M.tryCatch_ok hxc]
    refine ⟨(plain_quiet hp.2).1, ?_, ?_⟩
    · show isDisc c1.state = flagAfter false e1
      rw [(plain_quiet hp.2).2]; exact hup
    · intro b _ hd
      have hd' : isDisc c1.state = true := hd
      rw [hup] at hd'; cases hd'
  | error ex =>
    rw [M.tryCatch_err hxc]
    have h2 := hh ex c1 hup
    refine ⟨?_, ?_, h2.2.2⟩
    · show quiet false (e1 ++ (h ex c1).eff) = true
      rw [quiet_append, (plain_quiet hp.2).1, (plain_quiet hp.2).2, h2.1]; rfl
    · show isDisc (h ex c1).conn.state = flagAfter false (e1 ++ (h ex c1).eff)
      rw [flagAfter_append, (plain_quiet hp.2).2]; exact h2.2.1

/-- sequencing after a step that may disconnect: the continuation must be calm from a disconnected
state for every result `a` that the first step can return there (`G a`) -/
theorem QSpec.bind {α β : Type} {G : α → Prop} {H : β → Prop} {x : M α} {f : α → M β} (c : Conn)
    (hx : QSpec G (x c))
    (hf : ∀ a c1, isDisc c1.state = false → QSpec H (f a c1))
    (hcalm : ∀ a c1, G a → isDisc c1.state = true → Calm (f a c1))
    (hH : ∀ a c1, G a → isDisc c1.state = true → ∀ b, (f a c1).res = .ok b → H b) :
    QSpec H ((x >>= f) c) := by
  rcases hxc : x c with ⟨r, c1, e1⟩
  rw [hxc] at hx
  obtain ⟨hq, hst, hg⟩ := hx
  cases r with
  | error ex =>
    rw [M.bind_err hxc]
    exact ⟨hq, hst, by intro a h; cases h⟩
  | ok a =>
    rw [M.bind_ok hxc]
    cases hd : isDisc c1.state with
    | false =>
      have h2 := hf a c1 hd
      have hfl : flagAfter false e1 = false := by rw [← hst]; exact hd
      refine ⟨?_, ?_, h2.2.2⟩
      · show quiet false (e1 ++ (f a c1).eff) = true
        rw [quiet_append, hq, hfl, h2.1]; rfl
      · show isDisc (f a c1).conn.state = flagAfter false (e1 ++ (f a c1).eff)
        rw [flagAfter_append, hfl]; exact h2.2.1
    | true =>
      have hG := hg a rfl hd
      have h2 := hcalm a c1 hG hd
      have hfl : flagAfter false e1 = true := by rw [← hst]; exact hd
      refine ⟨?_, ?_, ?_⟩
      · show quiet false (e1 ++ (f a c1).eff) = true
        rw [quiet_append, hq, hfl, (calm_quiet h2.1 true).1]; rfl
      · show isDisc (f a c1).conn.state = flagAfter false (e1 ++ (f a c1).eff)
        rw [flagAfter_append, hfl, (calm_quiet h2.1 true).2]; exact h2.2
      · intro b hb _; exact hH a c1 hG hd b hb

end AsyncFix.Session
