import AsyncFix.Lemmas.LinkBase

/-!
C07 helper lemmas, part 2: ordered tag lists (`FIXMessage.tags`) under `set` / `del` / `filter`
(tag-list lemmas as proved by agent c06 for C06, copied under the `Link` namespace), journal rows.
-/
namespace AsyncFix.Link

open AsyncFix.Session
open AsyncFix.Session.Msg


theorem lookup_append (t : Nat) (l1 l2 : List (Nat × String)) :
    lookup t (l1 ++ l2) = match lookup t l1 with
      | some v => some v
      | none => lookup t l2 := by
  induction l1 with
  | nil => rfl
  | cons p r ih =>
    obtain ⟨k, w⟩ := p
    by_cases h : k = t <;> simp [lookup, h, ih]

theorem lookup_filter_pos (q : Nat × String → Bool) (t : Nat) (l : List (Nat × String))
    (h : ∀ v, q (t, v) = true) : lookup t (l.filter q) = lookup t l := by
  induction l with
  | nil => rfl
  | cons p r ih =>
    obtain ⟨k, w⟩ := p
    by_cases hq : q (k, w) = true
    · rw [List.filter_cons_of_pos hq]
      by_cases hk : k = t <;> simp [lookup, hk, ih]
    · have hk : k ≠ t := by
        rintro rfl; exact hq (h w)
      rw [List.filter_cons_of_neg hq]
      simp [lookup, hk, ih]

theorem lookup_filter_neg (q : Nat × String → Bool) (t : Nat) (l : List (Nat × String))
    (h : ∀ v, q (t, v) = false) : lookup t (l.filter q) = none := by
  induction l with
  | nil => rfl
  | cons p r ih =>
    obtain ⟨k, w⟩ := p
    by_cases hq : q (k, w) = true
    · have hk : k ≠ t := by
        rintro rfl; rw [h w] at hq; exact absurd hq (by simp)
      rw [List.filter_cons_of_pos hq]
      simp [lookup, hk, ih]
    · rw [List.filter_cons_of_neg hq]; exact ih

theorem lookup_replaceVal (t t' : Nat) (v : String) (l : List (Nat × String)) :
    lookup t (replaceVal t' v l) =
      if t = t' then (lookup t l).map (fun _ => v) else lookup t l := by
  induction l with
  | nil => simp [replaceVal, lookup]
  | cons p r ih =>
    obtain ⟨k, w⟩ := p
    by_cases hk : k = t'
    · subst hk
      by_cases ht : t = k
      · subst ht; simp [replaceVal, lookup]
      · have : ¬ k = t := fun h => ht h.symm
        simp [replaceVal, lookup, ht, this]
    · by_cases ht : t = t'
      · subst ht
        simp only [replaceVal, hk, if_false, lookup, if_true] at ih ⊢
        exact ih
      · by_cases hkt : k = t
        · simp [replaceVal, lookup, ht, hkt]
        · simp only [replaceVal, hk, if_false, lookup, hkt, ht] at ih ⊢
          exact ih

theorem filter_replaceVal (q : Nat × String → Bool) (t : Nat) (v : String) (l : List (Nat × String))
    (h : ∀ w, q (t, w) = false) : (replaceVal t v l).filter q = l.filter q := by
  induction l with
  | nil => rfl
  | cons p r ih =>
    obtain ⟨k, w⟩ := p
    by_cases hk : k = t
    · subst hk; simp [replaceVal, List.filter_cons, h]
    · simp [replaceVal, hk, List.filter_cons, ih]

theorem all_replaceVal (f : Nat × String → Bool) (t : Nat) (v : String) (l : List (Nat × String))
    (hl : l.all f = true) (hv : f (t, v) = true) : (replaceVal t v l).all f = true := by
  induction l with
  | nil => rfl
  | cons p r ih =>
    obtain ⟨k, w⟩ := p
    simp only [List.all_cons, Bool.and_eq_true] at hl
    by_cases hk : k = t
    · subst hk; simp [replaceVal, hv, hl.2]
    · simp [replaceVal, hk, hl.1, ih hl.2]

theorem filter_filter_of_imp (q q' : Nat × String → Bool) (l : List (Nat × String))
    (h : ∀ p, q p = true → q' p = true) : (l.filter q').filter q = l.filter q := by
  rw [List.filter_filter]
  congr 1
  funext p
  by_cases hq : q p = true
  · simp [hq, h p hq]
  · simp [hq]

/-- `msg.set(t, v, replace=True)` as a total function -/
def _root_.AsyncFix.Session.Msg.setTag (m : Msg) (t : Nat) (v : String) : Msg :=
  { m with tags := if m.has t then replaceVal t v m.tags else m.tags ++ [(t, v)] }

/-- `del msg[t]` when the tag is there -/
def _root_.AsyncFix.Session.Msg.delTag (m : Msg) (t : Nat) : Msg := { m with tags := m.tags.filter fun p => p.1 ≠ t }

theorem set_replace (m : Msg) (t : Nat) (v : String) : m.set t v true = .ok (m.setTag t v) := by
  unfold Msg.set Msg.setTag
  by_cases h : m.has t = true <;> simp [h]

theorem set_new (m : Msg) (t : Nat) (v : String) (h : m.has t = false) :
    m.set t v = .ok (m.setTag t v) := by
  unfold Msg.set Msg.setTag
  simp [h]

theorem del_of_has (m : Msg) (t : Nat) (h : m.has t = true) : m.del t = .ok (m.delTag t) := by
  unfold Msg.del Msg.delTag
  simp [h]

theorem get?_setTag (m : Msg) (t t' : Nat) (v : String) :
    (m.setTag t v).get? t' = if t' = t then some v else m.get? t' := by
  unfold Msg.setTag Msg.get?
  by_cases hh : m.has t = true
  · simp only [hh, if_true, lookup_replaceVal]
    by_cases ht : t' = t
    · subst ht
      simp only [has, get?, Option.isSome_iff_exists] at hh
      obtain ⟨w, hw⟩ := hh
      simp [hw]
    · simp [ht]
  · simp only [hh]
    simp only [has, get?, Bool.not_eq_true, Option.isSome_eq_false_iff, Option.isNone_iff_eq_none] at hh
    rw [if_neg (by simp), lookup_append]
    by_cases ht : t' = t
    · subst ht; simp [hh, lookup]
    · have : ¬ t = t' := fun h => ht h.symm
      simp only [ht, if_false, lookup, this]
      cases lookup t' m.tags <;> rfl

theorem get?_delTag (m : Msg) (t t' : Nat) :
    (m.delTag t).get? t' = if t' = t then none else m.get? t' := by
  unfold Msg.delTag Msg.get?
  by_cases ht : t' = t
  · subst ht
    simp only [if_true]
    exact lookup_filter_neg _ _ _ (by intro v; simp)
  · simp only [ht, if_false]
    exact lookup_filter_pos _ _ _ (by intro v; simpa using ht)

theorem has_eq (m : Msg) (t : Nat) : m.has t = (m.get? t).isSome := rfl

@[simp] theorem mtype_setTag (m : Msg) (t : Nat) (v : String) : (m.setTag t v).mtype = m.mtype := rfl
@[simp] theorem mtype_delTag (m : Msg) (t : Nat) : (m.delTag t).mtype = m.mtype := rfl

theorem filter_setTag (q : Nat × String → Bool) (m : Msg) (t : Nat) (v : String)
    (h : ∀ w, q (t, w) = false) : (m.setTag t v).tags.filter q = m.tags.filter q := by
  unfold Msg.setTag
  by_cases hh : m.has t = true
  · simp only [hh, if_true]; exact filter_replaceVal q t v _ h
  · simp [hh, List.filter_append, List.filter_cons, h]

theorem filter_delTag (q : Nat × String → Bool) (m : Msg) (t : Nat)
    (h : ∀ w, q (t, w) = false) : (m.delTag t).tags.filter q = m.tags.filter q := by
  unfold Msg.delTag
  apply filter_filter_of_imp
  intro p hp
  obtain ⟨k, w⟩ := p
  have : k ≠ t := by rintro rfl; rw [h w] at hp; exact absurd hp (by simp)
  simpa using this

theorem all_setTag (f : Nat × String → Bool) (m : Msg) (t : Nat) (v : String)
    (hl : m.tags.all f = true) (hv : f (t, v) = true) : (m.setTag t v).tags.all f = true := by
  unfold Msg.setTag
  by_cases hh : m.has t = true
  · simp only [hh, if_true]; exact all_replaceVal f t v _ hl hv
  · simp [hh, List.all_append, hl, hv]

theorem all_delTag (f : Nat × String → Bool) (m : Msg) (t : Nat)
    (hl : m.tags.all f = true) : (m.delTag t).tags.all f = true := by
  unfold Msg.delTag
  rw [List.all_eq_true] at hl ⊢
  intro p hp
  exact hl p (List.mem_filter.mp hp).1

theorem all_of_lookup (f : Nat × String → Bool) (l : List (Nat × String)) (t : Nat) (v : String)
    (hl : l.all f = true) (h : lookup t l = some v) : f (t, v) = true := by
  induction l with
  | nil => simp [lookup] at h
  | cons p r ih =>
    obtain ⟨k, w⟩ := p
    simp only [List.all_cons, Bool.and_eq_true] at hl
    by_cases hk : k = t
    · subst hk
      simp only [lookup, if_true, Option.some.injEq] at h
      subst h; exact hl.1
    · simp only [lookup, hk, if_false] at h
      exact ih hl.2 h


/-! ### journal rows -/



/-- every key of `rs` is Rows.below `k` -/
def AllLt (k : Int) (rs : Rows) : Prop := ∀ p ∈ rs, p.1 < k

theorem insert_append (k : Int) (m : Msg) (rs : Rows) (h : AllLt k rs) :
    Rows.insert k m rs = some (rs ++ [(k, m)]) := by
  induction rs with
  | nil => rfl
  | cons p r ih =>
    obtain ⟨k', m'⟩ := p
    have hk : k' < k := h (k', m') (by simp)
    have hr : AllLt k r := fun q hq => h q (by simp [hq])
    have h1 : ¬ k < k' := by omega
    have h2 : ¬ k = k' := by omega
    simp [Rows.insert, h1, h2, ih hr]

theorem below_append_singleton (n k : Int) (m : Msg) (rs : Rows) :
    Rows.below n (rs ++ [(k, m)]) = if k < n then Rows.below n rs ++ [(k, m)] else Rows.below n rs := by
  unfold Rows.below
  rw [List.filter_append]
  by_cases h : k < n <;> simp [List.filter, h]

theorem below_of_allLt (n : Int) (rs : Rows) (h : AllLt n rs) : Rows.below n rs = rs := by
  unfold Rows.below
  exact List.filter_eq_self.mpr (fun p hp => by simpa using h p hp)

theorem allLt_below (n : Int) (rs : Rows) : AllLt n (Rows.below n rs) := by
  intro p hp
  simp only [Rows.below, List.mem_filter, decide_eq_true_eq] at hp
  exact hp.2

theorem allLt_mono {a b : Int} (h : a ≤ b) {rs : Rows} (hl : AllLt a rs) : AllLt b rs :=
  fun p hp => by have := hl p hp; omega

theorem allLt_append_singleton {k n : Int} {m : Msg} {rs : Rows}
    (h : AllLt n rs) (hk : k < n) : AllLt n (rs ++ [(k, m)]) := by
  intro p hp
  simp only [List.mem_append, List.mem_singleton] at hp
  cases hp with
  | inl h1 => exact h p h1
  | inr h1 => subst h1; exact hk

/-- strictly ascending keys (SQLite primary key + ORDER BY) -/
def Sorted (rs : Rows) : Prop := rs.Pairwise fun p q => p.1 < q.1

theorem find_eq_some_iff {rs : Rows} (hs : Sorted rs) (k : Int) (m : Msg) :
    Rows.find k rs = some m ↔ (k, m) ∈ rs := by
  induction rs with
  | nil => simp [Rows.find]
  | cons p r ih =>
    obtain ⟨k', m'⟩ := p
    have hs' := List.pairwise_cons.mp hs
    rw [Rows.find]
    by_cases hk : k = k'
    · subst hk
      simp only [if_true, Option.some.injEq, List.mem_cons, Prod.mk.injEq, true_and]
      constructor
      · intro h; exact Or.inl h.symm
      · intro h
        cases h with
        | inl h => exact h.symm
        | inr h => have := hs'.1 _ h; simp at this
    · simp only [List.mem_cons, Prod.mk.injEq, hk, false_and, false_or]
      exact ih hs'.2

theorem sorted_below {rs : Rows} (hs : Sorted rs) (n : Int) : Sorted (Rows.below n rs) :=
  List.Pairwise.filter _ hs

theorem sorted_range {rs : Rows} (hs : Sorted rs) (b e : Int) : Sorted (Rows.range b e rs) :=
  List.Pairwise.filter _ hs

theorem sorted_append_singleton {rs : Rows} (hs : Sorted rs) {k : Int} {m : Msg}
    (h : AllLt k rs) : Sorted (rs ++ [(k, m)]) := by
  unfold Sorted
  rw [List.pairwise_append]
  refine ⟨hs, by simp, ?_⟩
  intro p hp q hq
  simp only [List.mem_singleton] at hq
  subst hq
  exact h p hp

theorem mem_range {rs : Rows} {b e : Int} {p : Int × Msg} :
    p ∈ Rows.range b e rs ↔ p ∈ rs ∧ b ≤ p.1 ∧ p.1 ≤ e := by
  simp [Rows.range, List.mem_filter]

theorem mem_below {rs : Rows} {n : Int} {p : Int × Msg} :
    p ∈ Rows.below n rs ↔ p ∈ rs ∧ p.1 < n := by
  simp [Rows.below, List.mem_filter]


end AsyncFix.Link
