import AsyncFix.Lemmas.LinkStepSim
import AsyncFix.Lemmas.LinkSafe
import AsyncFix.Lemmas.LinkSync

/-!
C07: from single steps to runs – the abstraction of a run of the Link model is a run of the abstract model, and
the abstract invariants hold along it (as long as the sequence numbers stay within `sys.maxsize`).
-/
namespace AsyncFix.Link

open AsyncFix.Session AsyncFix.Generated AsyncFix.Generated.ConnEnum

/-- every event of the list is well-formed (`Ev.wf`) -/
def Wf (evs : List Ev) : Prop := ∀ e ∈ evs, e.wf = true

instance (evs : List Ev) : Decidable (Wf evs) := by unfold Wf; infer_instance

/-- the initial abstract link -/
def ainit : ALink := { i := ⟨.disc, true, 1, 1, 0, []⟩, a := ⟨.disc, false, 1, 1, 0, []⟩ }

theorem absLink_init (hb : Int) : absLink (Link.init hb) = ainit := by
  simp [absLink, Link.init, Conn.create, absConn, absSt, ainit, roleInitiator, roleAcceptor,
    st_DISCONNECTED_NOCONN_TODAY, st_DISCONNECTED_BROKEN_CONN]

theorem linkGood_init (hb : Int) : LinkGood (Link.init hb) := by
  have hrows : ∀ (a b : String), RowsGood a b 1 [] :=
    fun a b => ⟨List.Pairwise.nil, by simp, by simp⟩
  refine ⟨⟨rfl, rfl, Or.inl rfl, rfl, Or.inl rfl, ?_, ?_, hrows _ _, ?_, ?_⟩,
    ⟨rfl, rfl, Or.inl rfl, rfl, Or.inr rfl, ?_, ?_, hrows _ _, ?_, ?_⟩, by simp [Link.init], by simp [Link.init]⟩ <;>
    simp [Link.init, Conn.create, AllLt, st_DISCONNECTED_NOCONN_TODAY, st_RESENDREQ_AWAITING]

theorem run_sim (evs : List Ev) : ∀ (l : Link), LinkGood l → Wf evs →
    absLink (run l evs) = arun (absLink l) (evs.map absEv) ∧ LinkGood (run l evs) := by
  induction evs with
  | nil => intro l hg _; exact ⟨rfl, hg⟩
  | cons ev rest ih =>
    intro l hg hwf
    obtain ⟨h1, h2⟩ := step_sim l ev hg (hwf ev (by simp))
    obtain ⟨h3, h4⟩ := ih (step l ev) h2 (fun e he => hwf e (by simp [he]))
    exact ⟨by rw [run, h3, h1]; rfl, by rw [run]; exact h4⟩

theorem arun_o_mono (evs : List AEv) : ∀ (l : ALink), l.i.o ≤ (arun l evs).i.o ∧ l.a.o ≤ (arun l evs).a.o := by
  induction evs with
  | nil => intro l; exact ⟨Int.le_refl _, Int.le_refl _⟩
  | cons ev rest ih =>
    intro l
    have h1 := astep_o_mono l ev
    have h2 := ih (astep l ev)
    simp only [arun]
    exact ⟨by omega, by omega⟩

/-- the abstract invariants hold along every run whose counters stay within `sys.maxsize` -/
theorem arun_inv (evs : List AEv) : ∀ (l : ALink), SafeInv l → SyncInv' l → Bounded (arun l evs) →
    SafeInv (arun l evs) ∧ SyncInv' (arun l evs) := by
  induction evs with
  | nil => intro l h1 h2 _; exact ⟨h1, h2⟩
  | cons ev rest ih =>
    intro l h1 h2 hb
    simp only [arun] at hb ⊢
    have hm := arun_o_mono rest (astep l ev)
    have hb1 : Bounded (astep l ev) := ⟨by have := hb.1; omega, by have := hb.2; omega⟩
    have hm0 := astep_o_mono l ev
    have hb0 : Bounded l := ⟨by have := hb1.1; omega, by have := hb1.2; omega⟩
    exact ih (astep l ev) (safeInv_step l ev h1 hb1) (syncInv'_step l ev h1 h2 hb0) hb

/-- the counters of the executable model stay within `sys.maxsize` (SQLite's INTEGER range: the journal could
not store larger numbers, and `ResendRequest(n, 0)` is served up to `sys.maxsize`) -/
def InRange (l : Link) : Prop := l.i.sess.nextOut ≤ sysMaxsize + 1 ∧ l.a.sess.nextOut ≤ sysMaxsize + 1

instance (l : Link) : Decidable (InRange l) := by unfold InRange; infer_instance

/-- everything the property statements need about a reachable state of the Link model -/
theorem reach_inv (hb : Int) (evs : List Ev) (hwf : Wf evs) (hr : InRange (run (Link.init hb) evs)) :
    LinkGood (run (Link.init hb) evs) ∧ SafeInv (absLink (run (Link.init hb) evs)) ∧
      SyncInv' (absLink (run (Link.init hb) evs)) := by
  obtain ⟨h1, h2⟩ := run_sim evs (Link.init hb) (linkGood_init hb) hwf
  rw [absLink_init] at h1
  have hbd : Bounded (arun ainit (evs.map absEv)) := by
    rw [← h1]; exact hr
  obtain ⟨h3, h4⟩ := arun_inv (evs.map absEv) ainit safeInv_init syncInv'_init hbd
  rw [h1]
  exact ⟨h2, h3, h4⟩

end AsyncFix.Link
