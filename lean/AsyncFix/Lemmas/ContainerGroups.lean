/-
Group accessors: `add_group` index handling (Python `list.insert`, `-1` = append), `get_group_list`,
`get_group_by_index`, `get_group_by_tag`, and the error kinds for missing / plain / group tags.
Core Lean only.
-/
import AsyncFix.Lemmas.ContainerOps
namespace AsyncFix.Model.Container
open AsyncFix.Py

/-- where Python's `list.insert(i, x)` puts `x` in a list of length `n` -/
def insertPos (n : Nat) (i : Int) : Nat :=
  if 0 ≤ i then min i.toNat n
  else if 0 ≤ i + n then (i + n).toNat
  else 0

theorem insertPos_le (n : Nat) (i : Int) : insertPos n i ≤ n := by
  unfold insertPos
  split
  · exact Nat.min_le_right _ _
  · split
    · omega
    · omega

theorem pyListInsert_eq {α : Type} (l : List α) (i : Int) (x : α) :
    pyListInsert l i x = l.take (insertPos l.length i) ++ x :: l.drop (insertPos l.length i) := by
  have key : (let n : Int := l.length
      let w := if i < 0 then i + n else i
      let w := if w < 0 then 0 else w
      let w := if w > n then n else w
      w.toNat) = insertPos l.length i := by
    simp only [insertPos]
    by_cases h0 : 0 ≤ i
    · have h1 : ¬ i < 0 := by omega
      simp only [h0, h1, if_true, if_false]
      by_cases h2 : i > (l.length : Int)
      · simp only [h2, if_true]; omega
      · simp only [h2, if_false]; omega
    · have h1 : i < 0 := by omega
      simp only [h0, h1, if_true, if_false]
      by_cases h2 : 0 ≤ i + (l.length : Int)
      · have h3 : ¬ i + (l.length : Int) < 0 := by omega
        have h4 : ¬ i + (l.length : Int) > l.length := by omega
        simp only [h2, h3, h4, if_true, if_false]
      · have h3 : i + (l.length : Int) < 0 := by omega
        have h4 : ¬ (0 : Int) > l.length := by omega
        simp only [h2, h3, h4, if_true, if_false]
        rfl
  unfold pyListInsert
  simp only at key ⊢
  rw [key]

/-- the position `add_group(tag, group, index)` gives the new item -/
def addPos (n : Nat) (i : Int) : Nat := if i = -1 then n else insertPos n i

theorem addPos_le (n : Nat) (i : Int) : addPos n i ≤ n := by
  unfold addPos; split
  · exact Nat.le_refl _
  · exact insertPos_le n i

theorem groupAdd_eq (items : List Cont) (g : Cont) (i : Int) :
    groupAdd items g i = items.take (addPos items.length i) ++ g :: items.drop (addPos items.length i) := by
  unfold groupAdd addPos
  split
  · simp
  · exact pyListInsert_eq items i g

theorem groupAdd_length (items : List Cont) (g : Cont) (i : Int) :
    (groupAdd items g i).length = items.length + 1 := by
  rw [groupAdd_eq]
  have := addPos_le items.length i
  simp only [List.length_append, List.length_take, List.length_cons, List.length_drop]
  omega

/-- the new item sits at `addPos`, the items before it are the old ones in order … -/
theorem groupAdd_getElem_new (items : List Cont) (g : Cont) (i : Int) :
    (groupAdd items g i)[addPos items.length i]? = some g := by
  rw [groupAdd_eq]
  have h := addPos_le items.length i
  rw [List.getElem?_append_right (by simp [List.length_take]; omega)]
  simp [List.length_take, Nat.min_eq_left h]

theorem groupAdd_getElem_before (items : List Cont) (g : Cont) (i : Int) (j : Nat)
    (hj : j < addPos items.length i) : (groupAdd items g i)[j]? = items[j]? := by
  rw [groupAdd_eq]
  have h := addPos_le items.length i
  rw [List.getElem?_append_left (by simp [List.length_take]; omega)]
  simp [hj]

/-- … and the items after it are the old ones, shifted by one -/
theorem groupAdd_getElem_after (items : List Cont) (g : Cont) (i : Int) (j : Nat)
    (hj : addPos items.length i ≤ j) : (groupAdd items g i)[j + 1]? = items[j]? := by
  rw [groupAdd_eq]
  have h := addPos_le items.length i
  rw [List.getElem?_append_right (by simp [List.length_take]; omega)]
  simp only [List.length_take, Nat.min_eq_left h]
  have : j + 1 - addPos items.length i = (j - addPos items.length i) + 1 := by omega
  rw [this, List.getElem?_cons_succ, List.getElem?_drop]
  congr 1; omega

theorem groupAdd_append (items : List Cont) (g : Cont) (i : Int) (h : i = -1 ∨ (items.length : Int) ≤ i) :
    groupAdd items g i = items ++ [g] := by
  rw [groupAdd_eq]
  have hp : addPos items.length i = items.length := by
    unfold addPos insertPos
    rcases h with h | h
    · simp [h]
    · have : ¬ i = -1 := by omega
      have h0 : 0 ≤ i := by omega
      simp only [this, h0, if_true, if_false]
      omega
  simp [hp]

theorem groupAdd_front (items : List Cont) (g : Cont) (i : Int)
    (h : i = 0 ∨ (i < -1 ∧ i + (items.length : Int) ≤ 0)) : groupAdd items g i = g :: items := by
  rw [groupAdd_eq]
  have hp : addPos items.length i = 0 := by
    unfold addPos insertPos
    rcases h with h | ⟨h1, h2⟩
    · simp [h]
    · have : ¬ i = -1 := by omega
      have h0 : ¬ 0 ≤ i := by omega
      simp only [this, h0, if_false]
      split <;> omega
  simp [hp]

/-! ### add_group / set_group followed by get_group_list -/

theorem getGroupList_dictSet (c : Cont) (k : Str) (items : List Cont) (t : PyObj) (h : t.pyStr = k) :
    getGroupList (dictSet k (.group items) c) t = .ok items := by
  simp [getGroupList, h, lookup_dictSet_self]

theorem addGroup_ok (c c' : Cont) (t : PyObj) (g : DItem) (i : Int) (h : addGroup c t g i = .ok c') :
    ∃ old gc, intLike t.pyStr = true ∧ g.toCont = .ok gc ∧
      ((lookup t.pyStr c = some (.group old)) ∨ (lookup t.pyStr c = none ∧ old = [])) ∧
      c' = dictSet t.pyStr (.group (groupAdd old gc i)) c := by
  simp only [addGroup] at h
  split at h
  · simp at h
  · next hi =>
    have hi' : intLike t.pyStr = true := by simpa using hi
    split at h
    · simp at h
    · next gc hg =>
      split at h
      · next items hl =>
        simp only [Except.ok.injEq] at h
        exact ⟨items, gc, hi', hg, Or.inl hl, h.symm⟩
      · simp at h
      · next hl =>
        simp only [Except.ok.injEq] at h
        exact ⟨[], gc, hi', hg, Or.inr ⟨hl, rfl⟩, h.symm⟩

theorem setGroup_ok (c c' : Cont) (t : PyObj) (gs : List DItem) (h : setGroup c t gs = .ok c') :
    ∃ items, intLike t.pyStr = true ∧ buildItems gs = .ok items ∧ hasKey t.pyStr c = false ∧
      c' = dictSet t.pyStr (.group items) c := by
  simp only [setGroup] at h
  split at h
  · simp at h
  · next hi =>
    split at h
    · simp at h
    · next hk =>
      split at h
      · simp at h
      · next items hb =>
        simp only [Except.ok.injEq] at h
        exact ⟨items, by simpa using hi, hb, by simpa using hk, h.symm⟩

/-! ### get_group_by_index -/

theorem byIndex_error (c : Cont) (t : PyObj) (i : Int) (k : Kind) (h : getGroupList c t = .error k) :
    getGroupByIndex c t i = .error k := by
  simp [getGroupByIndex, h]

theorem byIndex_nonneg (c : Cont) (t : PyObj) (items : List Cont) (h : getGroupList c t = .ok items)
    (i : Nat) (hi : i < items.length) : getGroupByIndex c t (i : Int) = .ok items[i] := by
  simp only [getGroupByIndex, h]
  have h1 : ¬ ((i : Int) ≥ (items.length : Int) ∨ (i : Int) < -(items.length : Int)) := by omega
  have h2 : ¬ ((i : Int) < 0) := by omega
  simp only [h1, h2, if_false]
  simp [List.getElem?_eq_getElem hi]

theorem byIndex_negative (c : Cont) (t : PyObj) (items : List Cont) (h : getGroupList c t = .ok items)
    (j : Nat) (hj : 0 < j) (hj' : j ≤ items.length) :
    getGroupByIndex c t (-(j : Int)) = .ok (items[items.length - j]'(by omega)) := by
  simp only [getGroupByIndex, h]
  have h1 : ¬ (-(j : Int) ≥ (items.length : Int) ∨ -(j : Int) < -(items.length : Int)) := by omega
  have h2 : -(j : Int) < 0 := by omega
  have h3 : ¬ (-(j : Int) + (items.length : Int) < 0) := by omega
  simp only [h1, h2, h3, if_true, if_false]
  have h4 : (-(j : Int) + (items.length : Int)).toNat = items.length - j := by omega
  rw [h4, List.getElem?_eq_getElem (by omega)]

theorem byIndex_high (c : Cont) (t : PyObj) (items : List Cont) (h : getGroupList c t = .ok items)
    (i : Int) (hi : (items.length : Int) ≤ i) : getGroupByIndex c t i = .error .tagNotFound := by
  simp only [getGroupByIndex, h]
  have : i ≥ (items.length : Int) ∨ i < -(items.length : Int) := Or.inl hi
  simp [this]

theorem byIndex_low (c : Cont) (t : PyObj) (items : List Cont) (h : getGroupList c t = .ok items)
    (i : Int) (hi : i < -(items.length : Int)) : getGroupByIndex c t i = .error .tagNotFound := by
  simp only [getGroupByIndex, h]
  have : i ≥ (items.length : Int) ∨ i < -(items.length : Int) := Or.inr hi
  simp [this]

/-- `get_group_by_index` never lets an IndexError escape -/
theorem byIndex_no_indexError (c : Cont) (t : PyObj) (i : Int) : getGroupByIndex c t i ≠ .error .indexError := by
  cases h : getGroupList c t with
  | error k =>
    rw [byIndex_error c t i k h]
    intro e
    simp only [Except.error.injEq] at e
    subst e
    simp only [getGroupList] at h
    split at h <;> simp at h
  | ok items =>
    by_cases h1 : (items.length : Int) ≤ i
    · rw [byIndex_high c t items h i h1]; simp
    · by_cases h2 : i < -(items.length : Int)
      · rw [byIndex_low c t items h i h2]; simp
      · by_cases h3 : 0 ≤ i
        · have := byIndex_nonneg c t items h i.toNat (by omega)
          rw [show ((i.toNat : Nat) : Int) = i by omega] at this
          rw [this]; simp
        · have := byIndex_negative c t items h (-i).toNat (by omega) (by omega)
          rw [show (-(((-i).toNat : Nat) : Int)) = i by omega] at this
          rw [this]; simp

/-! ### error kinds for missing / plain / group tags -/

theorem accessors_missing (c : Cont) (t : PyObj) (h : lookup t.pyStr c = none) :
    isGroup c t = none ∧ contains c t = false ∧ getItem c t = .error .tagNotFound ∧
    getGroupList c t = .error .tagNotFound ∧
    (∀ i, getGroupByIndex c t i = .error .tagNotFound) ∧
    (∀ gt gv, getGroupByTag c t gt gv = .error .tagNotFound) ∧
    delItem c t = .error .keyError := by
  simp [isGroup, contains, hasKey, getItem, get, getCls, getGroupList, getGroupByIndex, getGroupByTag,
    delItem, h]

theorem accessors_plain (c : Cont) (t : PyObj) (s : Str) (h : lookup t.pyStr c = some (.str s)) :
    isGroup c t = some false ∧ contains c t = true ∧ (∀ d, get c t d = .ok (.str s)) ∧
    getGroupList c t = .error .unmapped ∧
    (∀ i, getGroupByIndex c t i = .error .unmapped) ∧
    (∀ gt gv, getGroupByTag c t gt gv = .error .unmapped) := by
  simp [isGroup, contains, hasKey, get, getGroupList, getGroupByIndex, getGroupByTag, h]

theorem accessors_group (c : Cont) (t : PyObj) (items : List Cont) (h : lookup t.pyStr c = some (.group items)) :
    isGroup c t = some true ∧ contains c t = true ∧ (∀ d, get c t d = .error .fixMessageError) ∧
    getGroupList c t = .ok items := by
  simp [isGroup, contains, hasKey, get, getGroupList, h]

/-! ### get_group_by_tag -/

/-- the item holds the plain value `gvalue` under `gtag` -/
def Matches (gtag gvalue : PyObj) (g : Cont) : Prop :=
  ∃ s, lookup gtag.pyStr g = some (.str s) ∧ gvalue.eqStr s = true

theorem findByTag_ok (gtag gvalue : PyObj) (items : List Cont) (g : Cont)
    (h : findByTag gtag gvalue items = .ok g) :
    ∃ pre post, items = pre ++ g :: post ∧ Matches gtag gvalue g ∧ ∀ x ∈ pre, ¬ Matches gtag gvalue x := by
  induction items with
  | nil => simp [findByTag] at h
  | cons x rest ih =>
    simp only [findByTag, contains, hasKey] at h
    have skip : findByTag gtag gvalue rest = .ok g → ¬ Matches gtag gvalue x →
        ∃ pre post, x :: rest = pre ++ g :: post ∧ Matches gtag gvalue g ∧ ∀ y ∈ pre, ¬ Matches gtag gvalue y := by
      intro hr hx
      obtain ⟨pre, post, e, hm, hn⟩ := ih hr
      refine ⟨x :: pre, post, by simp [e], hm, ?_⟩
      intro y hy
      simp only [List.mem_cons] at hy
      rcases hy with hy | hy
      · subst hy; exact hx
      · exact hn y hy
    cases hl : lookup gtag.pyStr x with
    | none =>
      simp only [hl, Option.isSome_none, Bool.false_eq_true, if_false] at h
      exact skip h (by rintro ⟨s, hs, _⟩; rw [hl] at hs; simp at hs)
    | some v =>
      simp only [hl, Option.isSome_some, if_true, getItem, get] at h
      cases v with
      | str s =>
        simp only at h
        by_cases he : gvalue.eqStr s = true
        · simp only [he, if_true, Except.ok.injEq] at h
          subst h
          exact ⟨[], rest, rfl, ⟨s, hl, he⟩, by simp⟩
        · simp only [he] at h
          exact skip h (by
            rintro ⟨s', hs', he'⟩
            rw [hl] at hs'
            simp only [Option.some.injEq, Val.str.injEq] at hs'
            subst hs'; exact he he')
      | group gs => simp at h
      | cls k =>
        cases k with
        | tagNotFound => simp [getCls] at h
        | repeating => simp [getCls] at h
        | exc r =>
          simp only [getCls] at h
          exact skip h (by rintro ⟨s, hs, _⟩; rw [hl] at hs; simp at hs)
        | other r =>
          simp only [getCls] at h
          exact skip h (by rintro ⟨s, hs, _⟩; rw [hl] at hs; simp at hs)

/-- when the items hold only plain strings (or nothing) under `gtag`, a miss is TagNotFound -/
theorem findByTag_none (gtag gvalue : PyObj) (items : List Cont)
    (hplain : ∀ x ∈ items, lookup gtag.pyStr x = none ∨ ∃ s, lookup gtag.pyStr x = some (.str s))
    (hno : ∀ x ∈ items, ¬ Matches gtag gvalue x) :
    findByTag gtag gvalue items = .error .tagNotFound := by
  induction items with
  | nil => rfl
  | cons x rest ih =>
    have ihr := ih (fun y hy => hplain y (by simp [hy])) (fun y hy => hno y (by simp [hy]))
    simp only [findByTag, contains, hasKey]
    rcases hplain x (by simp) with hl | ⟨s, hl⟩
    · simp [hl, ihr]
    · have : gvalue.eqStr s = false := by
        cases he : gvalue.eqStr s with
        | false => rfl
        | true => exact absurd ⟨s, hl, he⟩ (hno x (by simp))
      simp [hl, getItem, get, this, ihr]

end AsyncFix.Model.Container
