import AsyncFix.Lemmas.SessionInMsg

/-!
C04 helper: RESENDREQ_AWAITING – when the state is left, and that no inbound frame makes the
receiver write another ResendRequest while it lasts.
-/
set_option linter.unusedSimpArgs false
namespace AsyncFix.Session
open AsyncFix.Generated AsyncFix.Generated.ConnEnum

/-- the number `_finalize_message` "sees" (return value of `set_next_num_in` when it accepts the frame):
the frame's own MsgSeqNum if that is the expected one; NewSeqNo − 1 for a SequenceReset -/
def acceptedNum (c : Conn) (m : Msg) : Option Int :=
  if m.mtype = mSequenceReset then (newSeqOf m).map (· - 1)
  else (seqOf m).bind fun n => if n = c.sess.nextIn then some n else none

/-- `_finalize_message` in RESENDREQ_AWAITING: the state becomes ACTIVE exactly when the accepted
number is positive and at least the (positive) watermark; otherwise it stays RESENDREQ_AWAITING. -/
theorem finalizeMessage_awaiting (env : Env) (m : Msg) (c : Conn) (h12 : c.state = st_RESENDREQ_AWAITING) :
    Holds (finalizeMessage env m) c (fun _ c' _ =>
      (c'.state = st_ACTIVE ↔
        ∃ k, acceptedNum c m = some k ∧ 0 < k ∧ c.maxResend ≤ k ∧ 0 < c.maxResend) ∧
      (c'.state = st_ACTIVE ∨ c'.state = st_RESENDREQ_AWAITING)) := by
  unfold finalizeMessage setNextNumIn stateSet
  wp_simp
  repeat' (first | apply Holds.of_sat (persistInbound_journalOnly _) | intro _ | apply And.intro)
  all_goals simp_all [JournalOnly, acceptedNum, seqOf, newSeqOf, Msg.has, st_ACTIVE, st_RESENDREQ_AWAITING]
  all_goals omega

/-! ### no ResendRequest, and the state, while RESENDREQ_AWAITING -/

/-- no ResendRequest among the frames written -/
def noRR (e : List Effect) : Prop := ∀ f, Effect.write f ∈ e → f.mtype ≠ mResendRequest

theorem noRR_nil : noRR [] := by simp [noRR]
theorem noRR_append {a b : List Effect} (ha : noRR a) (hb : noRR b) : noRR (a ++ b) := by
  intro f hf
  rcases List.mem_append.1 hf with h | h
  · exact ha f h
  · exact hb f h

/-- a computation started in RESENDREQ_AWAITING stays there (watermark kept, or cleared by a
`disconnect` whose Logout could not be sent) or ends disconnected; started disconnected it stays
disconnected; it never writes a ResendRequest -/
def AW : StepRel where
  R c c' e := noRR e ∧
    (c.state = st_RESENDREQ_AWAITING →
      (c'.state = st_RESENDREQ_AWAITING ∧ (c'.maxResend = c.maxResend ∨ c'.maxResend = 0)) ∨
      c'.state ≤ st_DISCONNECTED_BROKEN_CONN) ∧
    (c.state ≤ st_DISCONNECTED_BROKEN_CONN → c'.state ≤ st_DISCONNECTED_BROKEN_CONN)
  refl c := ⟨noRR_nil, fun h => Or.inl ⟨h, Or.inl rfl⟩, fun h => h⟩
  trans := by
    intro a b c e1 e2 h1 h2
    refine ⟨noRR_append h1.1 h2.1, fun ha => ?_, fun ha => h2.2.2 (h1.2.2 ha)⟩
    rcases h1.2.1 ha with ⟨hb, hm⟩ | hb
    · rcases h2.2.1 hb with ⟨hc, hm2⟩ | hc
      · refine Or.inl ⟨hc, ?_⟩
        rcases hm2 with h | h
        · rcases hm with h' | h'
          · exact Or.inl (h.trans h')
          · exact Or.inr (h.trans h')
        · exact Or.inr h
      · exact Or.inr hc
    · exact Or.inr (h2.2.2 hb)

theorem sendMsg_aw (env : Env) (m : Msg) (hm : m.mtype ≠ mResendRequest) : Sat AW (sendMsg env m) := by
  refine Sat.of_holds fun c => ?_
  unfold sendMsg sendGate sendCore encodeSeq stateSet
  wp_simp
  repeat' (first | intro _ | apply And.intro | split)
  all_goals simp_all [AW, noRR, buildFrame, st_RESENDREQ_AWAITING, st_DISCONNECTED_BROKEN_CONN, st_NETWORK_CONN_ESTABLISHED, st_LOGON_INITIAL_SENT]

theorem logoutMsg_mtype (t : String) : (logoutMsg t).mtype ≠ mResendRequest := by
  simp [logoutMsg, Msg.mk', mLogout, mResendRequest]

/-- `except Exception: log` around a call keeps a step relation that `caught` effects respect -/
theorem swallow_sat {α} {S : StepRel} {x : M α} (d : α) (hx : Sat S x)
    (he : ∀ ex c, S.R c c [Effect.caught ex]) : Sat S (swallow d x) := by
  unfold swallow
  exact Sat.tryCatch hx fun ex => Sat.bind (Sat.emit (he ex)) fun _ => Sat.pure d

theorem aw_caught (ex : Exc) (c : Conn) : AW.R c c [Effect.caught ex] := by
  refine ⟨?_, fun h => Or.inl ⟨h, Or.inl rfl⟩, fun h => h⟩
  intro f hf; simp at hf

theorem disconnect_aw (env : Env) (d : Nat) (l : Option String) : Sat AW (disconnect env d l) := by
  refine Sat.of_holds fun c => ?_
  unfold disconnect stateSet
  wp_simp
  cases l with
  | none =>
    wp_simp
    repeat' (first | intro _ | apply And.intro)
    all_goals simp_all [AW, noRR, st_RESENDREQ_AWAITING, st_DISCONNECTED_BROKEN_CONN]
    all_goals (have hd := of_decide_eq_true ‹decide (d ≤ 3) = true›; omega)
  | some t =>
    wp_simp
    repeat' (first | apply Holds.of_sat' (swallow_sat () (sendMsg_aw env _ (logoutMsg_mtype t)) aw_caught) | intro _ | apply And.intro | wp_simp)
    all_goals simp_all [AW, noRR, st_RESENDREQ_AWAITING, st_DISCONNECTED_BROKEN_CONN]
    all_goals (have hd := of_decide_eq_true ‹decide (d ≤ 3) = true›; first | omega | grind)

end AsyncFix.Session
