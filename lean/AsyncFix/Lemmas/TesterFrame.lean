import AsyncFix.Lemmas.TesterRecv2

/-!
C20 helper lemmas: what the receiver finds in a frame `send_msg` built (`Addressed`), `int(str(n)) = n`,
and that a journal whose rows are all below the counters accepts the next row.

`pyInt_pyStr'` and its auxiliaries follow the proof in the C05 family's `SessionOutBase.lean` (kept
under this namespace so that the families stay independent).
-/
namespace AsyncFix.Tester
open AsyncFix.Session AsyncFix.Generated

/-! ### decimal strings -/

theorem isAsciiDigit_of_isDigit {c : Char} (h : c.isDigit = true) : isAsciiDigit c = true := by
  simp only [Char.isDigit, Bool.and_eq_true, decide_eq_true_eq] at h
  have h1 : 48 ≤ c.toNat := by
    have := h.1; simp only [UInt32.le_iff_toNat_le] at this; simpa using this
  have h2 : c.toNat ≤ 57 := by
    have := h.2; simp only [UInt32.le_iff_toNat_le] at this; simpa using this
  simp [isAsciiDigit, h1, h2]

theorem digits_all (n : Nat) : ∀ c ∈ Nat.toDigits 10 n, isAsciiDigit c = true := fun _ hc =>
  isAsciiDigit_of_isDigit (Nat.isDigit_of_mem_toDigits (by decide) (by decide) hc)

theorem pyDigits_digits (cs : List Char) (h : ∀ c ∈ cs, isAsciiDigit c = true) (acc : Nat) (prev : Bool)
    (hne : cs ≠ [] ∨ prev = true) : pyDigits acc prev cs = some (Nat.ofDigitChars 10 cs acc) := by
  induction cs generalizing acc prev with
  | nil =>
    cases hne with
    | inl h => exact absurd rfl h
    | inr h => simp [pyDigits, h]
  | cons c r ih =>
    have hc := h c (by simp)
    rw [pyDigits, if_pos hc, ih (fun d hd => h d (by simp [hd])) _ true (Or.inr rfl),
      Nat.ofDigitChars_cons]
    simp [Nat.mul_comm]

theorem isPyWs_of_digit {c : Char} (h : isAsciiDigit c = true) : isPyWs c = false := by
  simp only [isAsciiDigit, Bool.and_eq_true, decide_eq_true_eq] at h
  have hne : c ≠ ' ' := by
    intro e; subst e; revert h; decide
  simp only [isPyWs, Bool.or_eq_false_iff, decide_eq_false_iff_not, Bool.and_eq_false_iff]
  refine ⟨hne, Or.inr ?_⟩
  omega

theorem dropWhile_ws_digits (cs : List Char) (h : ∀ c ∈ cs, isAsciiDigit c = true) :
    cs.dropWhile isPyWs = cs := by
  cases cs with
  | nil => rfl
  | cons c r => simp [List.dropWhile, isPyWs_of_digit (h c (by simp))]

theorem stripWs_digits (cs : List Char) (h : ∀ c ∈ cs, isAsciiDigit c = true) : stripWs cs = cs := by
  unfold stripWs
  rw [dropWhile_ws_digits cs h, dropWhile_ws_digits cs.reverse (fun c hc => h c (by simpa using hc))]
  simp

theorem stripWs_minus_digits (cs : List Char) (h : ∀ c ∈ cs, isAsciiDigit c = true) (hne : cs ≠ []) :
    stripWs ('-' :: cs) = '-' :: cs := by
  unfold stripWs
  have h1 : ('-' :: cs).dropWhile isPyWs = '-' :: cs := by
    simp [List.dropWhile, isPyWs]
  rw [h1]
  have h2 : ('-' :: cs).reverse = cs.reverse ++ ['-'] := by simp
  rw [h2]
  obtain ⟨d, r, hr⟩ : ∃ d r, cs.reverse = d :: r := by
    cases hcs : cs.reverse with
    | nil => simp at hcs; exact absurd hcs hne
    | cons d r => exact ⟨d, r, rfl⟩
  have hd : isAsciiDigit d = true := h d (by
    have : d ∈ cs.reverse := by rw [hr]; simp
    simpa using this)
  rw [hr]
  simp only [List.cons_append, List.dropWhile, isPyWs_of_digit hd]
  rw [← List.cons_append, ← hr]
  simp

theorem pyIntChars_digits (cs : List Char) (h : ∀ c ∈ cs, isAsciiDigit c = true) (hne : cs ≠ []) :
    pyIntChars cs = some ((Nat.ofDigitChars 10 cs 0 : Nat) : Int) := by
  unfold pyIntChars
  rw [stripWs_digits cs h]
  have key := pyDigits_digits cs h 0 false (Or.inl hne)
  split
  · have hc := h '-' (by simp)
    exact absurd hc (by decide)
  · have hc := h '+' (by simp)
    exact absurd hc (by decide)
  · rw [key]; rfl

theorem pyIntChars_minus_digits (cs : List Char) (h : ∀ c ∈ cs, isAsciiDigit c = true) (hne : cs ≠ []) :
    pyIntChars ('-' :: cs) = some (- ((Nat.ofDigitChars 10 cs 0 : Nat) : Int)) := by
  unfold pyIntChars
  rw [stripWs_minus_digits cs h hne]
  simp only
  rw [pyDigits_digits cs h 0 false (Or.inl hne)]
  rfl

/-- `int(str(n)) == n` for every Python int -/
theorem pyInt_pyStr' (n : Int) : pyInt (pyStr n) = some n := by
  unfold pyInt pyStr
  rw [Int.toString_eq_repr, Int.repr_eq_if]
  by_cases h0 : 0 ≤ n
  · rw [if_pos h0, Nat.toList_repr, pyIntChars_digits _ (digits_all _) Nat.toDigits_ne_nil,
      Nat.ofDigitChars_ten_toDigits]
    simp [Int.toNat_of_nonneg h0]
  · rw [if_neg h0]
    have hl : ("-" ++ (-n).toNat.repr).toList = '-' :: Nat.toDigits 10 (-n).toNat := by
      simp [String.toList_append]
    rw [hl, pyIntChars_minus_digits _ (digits_all _) Nat.toDigits_ne_nil,
      Nat.ofDigitChars_ten_toDigits]
    congr 1
    have : ((-n).toNat : Int) = -n := Int.toNat_of_nonneg (by omega)
    omega

/-! ### fields of a built frame -/

theorem lookup_append (t : Nat) (a b : List (Nat × String)) :
    Msg.lookup t (a ++ b) = match Msg.lookup t a with | some v => some v | none => Msg.lookup t b := by
  induction a with
  | nil => rfl
  | cons p r ih =>
    obtain ⟨k, v⟩ := p
    by_cases h : k = t <;> simp [Msg.lookup, h, ih]

theorem lookup_filter_keep (t : Nat) (p : Nat × String → Bool) (hp : ∀ v, p (t, v) = true)
    (tags : List (Nat × String)) : Msg.lookup t (tags.filter p) = Msg.lookup t tags := by
  induction tags with
  | nil => rfl
  | cons q r ih =>
    obtain ⟨k, v⟩ := q
    by_cases h : k = t
    · subst h; simp [List.filter, hp, Msg.lookup]
    · by_cases hq : p (k, v) = true
      · simp [List.filter, hq, Msg.lookup, h, ih]
      · simp [List.filter, hq, Msg.lookup, h, ih]

/-- a tag that is neither framing nor one of the four header tags the encoder writes itself is found in
the frame exactly as in the message -/
theorem buildFrame_get?_body (s : Session) (stamp : String) (m : Msg) (seq : Int) (t : Nat)
    (ht : t ≠ 8 ∧ t ≠ 9 ∧ t ≠ 35 ∧ t ≠ 49 ∧ t ≠ 56 ∧ t ≠ 34 ∧ t ≠ 52 ∧ t ≠ 10) :
    (buildFrame s stamp m seq).get? t = m.get? t := by
  obtain ⟨h8, h9, h35, h49, h56, h34, h52, h10⟩ := ht
  simp only [buildFrame, bodyFields, Msg.get?, lookup_append, Msg.lookup, tBeginString, tBodyLength, tMsgType, tSenderCompID,
    tTargetCompID, tMsgSeqNum, tSendingTime, tCheckSum]
  have e1 : ¬ (8 = t) := fun e => h8 e.symm
  have e2 : ¬ (9 = t) := fun e => h9 e.symm
  have e3 : ¬ (35 = t) := fun e => h35 e.symm
  have e4 : ¬ (49 = t) := fun e => h49 e.symm
  have e5 : ¬ (56 = t) := fun e => h56 e.symm
  have e6 : ¬ (34 = t) := fun e => h34 e.symm
  have e7 : ¬ (52 = t) := fun e => h52 e.symm
  have e8 : ¬ (10 = t) := fun e => h10 e.symm
  simp only [e1, e2, e3, e4, e5, e6, e7, e8, if_false]
  rw [lookup_filter_keep t]
  · cases Msg.lookup t m.tags <;> rfl
  · intro v; simp [h34, h52, h49, h56]

theorem buildFrame_mtype (s : Session) (stamp : String) (m : Msg) (seq : Int) :
    (buildFrame s stamp m seq).mtype = m.mtype := rfl

/-- the frame connection `snd` writes is addressed to its counterparty `rcv` and carries `snd`'s number -/
theorem addressed_sentFrame {snd rcv : Conn} (env : Env) (m : Msg)
    (h1 : rcv.sess.target = snd.sess.sender) (h2 : rcv.sess.sender = snd.sess.target)
    (h3 : rcv.sess.nextIn = snd.sess.nextOut) :
    Addressed rcv (sentFrame snd env m) (pyStr snd.sess.nextOut) rcv.sess.nextIn := by
  refine ⟨?_, ?_, ?_, ?_, ?_⟩
  · simp [sentFrame, buildFrame, Msg.get?, Msg.lookup, tBeginString]
  · simp [sentFrame, buildFrame, bodyFields, Msg.get?, Msg.lookup, tBeginString, tBodyLength, tMsgType, tSenderCompID, h1]
  · simp [sentFrame, buildFrame, bodyFields, Msg.get?, Msg.lookup, tBeginString, tBodyLength, tMsgType, tSenderCompID,
      tTargetCompID, h2]
  · simp [sentFrame, buildFrame, bodyFields, Msg.get?, Msg.lookup, tBeginString, tBodyLength, tMsgType, tSenderCompID,
      tTargetCompID, tMsgSeqNum]
  · rw [h3]; exact pyInt_pyStr' _

/-! ### journals -/

/-- every stored row is numbered below `k` -/
def Rows.below' (rs : Rows) (k : Int) : Prop := ∀ p ∈ rs, p.1 < k

theorem insert_fresh {rs : Rows} {k : Int} (m : Msg) (h : Rows.below' rs k) :
    ∃ rs', Rows.insert k m rs = some rs' ∧ Rows.below' rs' (k + 1) := by
  induction rs with
  | nil => exact ⟨[(k, m)], rfl, by intro p hp; simp at hp; subst hp; show k < k + 1; omega⟩
  | cons q r ih =>
    obtain ⟨k', m'⟩ := q
    have hk : k' < k := h (k', m') (by simp)
    obtain ⟨r', hr, hb⟩ := ih (fun p hp => h p (by simp [hp]))
    refine ⟨(k', m') :: r', ?_, ?_⟩
    · have a : ¬ k < k' := by omega
      have b : ¬ k = k' := by omega
      simp [Rows.insert, a, b, hr]
    · intro p hp
      rcases List.mem_cons.mp hp with rfl | hp
      · show k' < k + 1; omega
      · exact hb p hp

/-- the journal's rows are below the session's counters (what a journal that was only ever written by
this connection looks like) -/
structure JFresh (c : Conn) : Prop where
  out : Rows.below' c.journal.out c.sess.nextOut
  inb : Rows.below' c.journal.inb c.sess.nextIn

theorem persist_out_fresh {c : Conn} (f : Msg) (h : JFresh c) :
    ∃ j, c.journal.persist .outbound c.sess.nextOut f = some j ∧ j.inb = c.journal.inb ∧
      Rows.below' j.out (c.sess.nextOut + 1) := by
  obtain ⟨r, hr, hb⟩ := insert_fresh f h.out
  exact ⟨{ c.journal with out := r, outSeq := c.sess.nextOut }, by simp [Journal.persist, hr], rfl, hb⟩

theorem persist_in_fresh {c : Conn} (f : Msg) (h : JFresh c) :
    ∃ j, c.journal.persist .inbound c.sess.nextIn f = some j ∧ j.out = c.journal.out ∧
      Rows.below' j.inb (c.sess.nextIn + 1) := by
  obtain ⟨r, hr, hb⟩ := insert_fresh f h.inb
  exact ⟨{ c.journal with inb := r, inSeq := c.sess.nextIn }, by simp [Journal.persist, hr], rfl, hb⟩

end AsyncFix.Tester
