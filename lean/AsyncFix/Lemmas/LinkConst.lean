import AsyncFix.Model.LinkInv

/-! C07: the message-type constants are pairwise different (simp lemmas, generated). -/
namespace AsyncFix.Link
open AsyncFix.Session

@[simp] theorem mHeartbeat_ne_mTestRequest : (mHeartbeat = mTestRequest) = False := by decide
@[simp] theorem mHeartbeat_ne_mResendRequest : (mHeartbeat = mResendRequest) = False := by decide
@[simp] theorem mHeartbeat_ne_mReject : (mHeartbeat = mReject) = False := by decide
@[simp] theorem mHeartbeat_ne_mSequenceReset : (mHeartbeat = mSequenceReset) = False := by decide
@[simp] theorem mHeartbeat_ne_mLogout : (mHeartbeat = mLogout) = False := by decide
@[simp] theorem mHeartbeat_ne_mLogon : (mHeartbeat = mLogon) = False := by decide
@[simp] theorem mTestRequest_ne_mHeartbeat : (mTestRequest = mHeartbeat) = False := by decide
@[simp] theorem mTestRequest_ne_mResendRequest : (mTestRequest = mResendRequest) = False := by decide
@[simp] theorem mTestRequest_ne_mReject : (mTestRequest = mReject) = False := by decide
@[simp] theorem mTestRequest_ne_mSequenceReset : (mTestRequest = mSequenceReset) = False := by decide
@[simp] theorem mTestRequest_ne_mLogout : (mTestRequest = mLogout) = False := by decide
@[simp] theorem mTestRequest_ne_mLogon : (mTestRequest = mLogon) = False := by decide
@[simp] theorem mResendRequest_ne_mHeartbeat : (mResendRequest = mHeartbeat) = False := by decide
@[simp] theorem mResendRequest_ne_mTestRequest : (mResendRequest = mTestRequest) = False := by decide
@[simp] theorem mResendRequest_ne_mReject : (mResendRequest = mReject) = False := by decide
@[simp] theorem mResendRequest_ne_mSequenceReset : (mResendRequest = mSequenceReset) = False := by decide
@[simp] theorem mResendRequest_ne_mLogout : (mResendRequest = mLogout) = False := by decide
@[simp] theorem mResendRequest_ne_mLogon : (mResendRequest = mLogon) = False := by decide
@[simp] theorem mReject_ne_mHeartbeat : (mReject = mHeartbeat) = False := by decide
@[simp] theorem mReject_ne_mTestRequest : (mReject = mTestRequest) = False := by decide
@[simp] theorem mReject_ne_mResendRequest : (mReject = mResendRequest) = False := by decide
@[simp] theorem mReject_ne_mSequenceReset : (mReject = mSequenceReset) = False := by decide
@[simp] theorem mReject_ne_mLogout : (mReject = mLogout) = False := by decide
@[simp] theorem mReject_ne_mLogon : (mReject = mLogon) = False := by decide
@[simp] theorem mSequenceReset_ne_mHeartbeat : (mSequenceReset = mHeartbeat) = False := by decide
@[simp] theorem mSequenceReset_ne_mTestRequest : (mSequenceReset = mTestRequest) = False := by decide
@[simp] theorem mSequenceReset_ne_mResendRequest : (mSequenceReset = mResendRequest) = False := by decide
@[simp] theorem mSequenceReset_ne_mReject : (mSequenceReset = mReject) = False := by decide
@[simp] theorem mSequenceReset_ne_mLogout : (mSequenceReset = mLogout) = False := by decide
@[simp] theorem mSequenceReset_ne_mLogon : (mSequenceReset = mLogon) = False := by decide
@[simp] theorem mLogout_ne_mHeartbeat : (mLogout = mHeartbeat) = False := by decide
@[simp] theorem mLogout_ne_mTestRequest : (mLogout = mTestRequest) = False := by decide
@[simp] theorem mLogout_ne_mResendRequest : (mLogout = mResendRequest) = False := by decide
@[simp] theorem mLogout_ne_mReject : (mLogout = mReject) = False := by decide
@[simp] theorem mLogout_ne_mSequenceReset : (mLogout = mSequenceReset) = False := by decide
@[simp] theorem mLogout_ne_mLogon : (mLogout = mLogon) = False := by decide
@[simp] theorem mLogon_ne_mHeartbeat : (mLogon = mHeartbeat) = False := by decide
@[simp] theorem mLogon_ne_mTestRequest : (mLogon = mTestRequest) = False := by decide
@[simp] theorem mLogon_ne_mResendRequest : (mLogon = mResendRequest) = False := by decide
@[simp] theorem mLogon_ne_mReject : (mLogon = mReject) = False := by decide
@[simp] theorem mLogon_ne_mSequenceReset : (mLogon = mSequenceReset) = False := by decide
@[simp] theorem mLogon_ne_mLogout : (mLogon = mLogout) = False := by decide

end AsyncFix.Link
