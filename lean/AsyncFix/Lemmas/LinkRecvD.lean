import AsyncFix.Lemmas.LinkRecvC

/-!
C07: `Session.recv` vs `arecv` – part D: Logon.
-/
namespace AsyncFix.Link

open AsyncFix.Session AsyncFix.Generated AsyncFix.Generated.ConnEnum
open AsyncFix.Session.Msg

/-- facts of a Logon frame -/
structure LogonFrame (f : Msg) (ev hv : String) : Prop where
  hA : f.mtype = mLogon
  h98 : f.get? tEncryptMethod = some ev
  h108 : f.get? tHeartBtInt = some hv
  lev : isLatin1 ev = true
  lhv : isLatin1 hv = true

/-- acceptor, Logon numbered as expected on a fresh transport: Logon reply, ACTIVE -/
theorem recv_logon_conn_eq {s : Side} {env : Env} {c : Conn} {f : Msg} {n : Int} {ev hv : String}
    (hc : ConnGood s c) (hi : InFrame c f n) (hf : LogonFrame f ev hv) (hl3 : isLatin1 env.stamp = true)
    (hst : c.state = st_NETWORK_CONN_ESTABLISHED) (hn : n = c.sess.nextIn) :
    StepOK s { c := { ({ absConn c with ini := false }.push .logon).1 with st := .active, e := c.sess.nextIn + 1 },
               wr := [({ absConn c with ini := false }.push .logon).2] }
      (recv srAll env c f).1 (recv srAll env c f).2 := by
  obtain ⟨h8, h49, h56, h34⟩ := hi
  obtain ⟨hA, h98, h108, lev, lhv⟩ := hf
  subst hn
  obtain ⟨g1, g2, g5, g6, g7, g8, he, hinb, hrows, l1, l2⟩ := connFacts hc
  have hsock := sock_of_state hc (by rw [hst]; decide)
  have hinb' : AllLt (c.sess.nextIn + 1) (c.journal.inb ++ [(c.sess.nextIn, f)]) := allLt_push hinb
  rw [stepOK_iff, connGood_iff]
  simp only [← g1, ← g2] at g8 ⊢
  ev_simp [h8, h49, h56, h34, hst, hA, h98, h108, lev, lhv, hsock, g5, g6, g7, g8, hinb, hrows, l1, l2, hl3, he,
    roleAcceptor, roleInitiator, insert_append _ _ _ hinb, hinb']
  omega

/-- acceptor, Logon numbered above the expectation on a fresh transport: Logon reply, ResendRequest, awaiting -/
theorem recv_logon_conn_gt {s : Side} {env : Env} {c : Conn} {f : Msg} {n : Int} {ev hv : String}
    (hc : ConnGood s c) (hi : InFrame c f n) (hf : LogonFrame f ev hv) (hl3 : isLatin1 env.stamp = true)
    (hst : c.state = st_NETWORK_CONN_ESTABLISHED) (hn : c.sess.nextIn < n) :
    StepOK s { c := ((({ absConn c with ini := false }.push .logon).1).askResend n).1,
               wr := [({ absConn c with ini := false }.push .logon).2,
                      ((({ absConn c with ini := false }.push .logon).1).askResend n).2] }
      (recv srAll env c f).1 (recv srAll env c f).2 := by
  obtain ⟨h8, h49, h56, h34⟩ := hi
  obtain ⟨hA, h98, h108, lev, lhv⟩ := hf
  obtain ⟨g1, g2, g5, g6, g7, g8, he, hinb, hrows, l1, l2⟩ := connFacts hc
  have hsock := sock_of_state hc (by rw [hst]; decide)
  have hlow : ¬ n < c.sess.nextIn := by omega
  have hle : c.sess.nextIn ≤ n := by omega
  have hne : ¬ n = c.sess.nextIn := by omega
  have hpos : 0 < n := by omega
  have ho1 : 1 ≤ c.sess.nextOut + 1 := by omega
  rw [stepOK_iff, connGood_iff]
  simp only [← g1, ← g2] at g8 ⊢
  ev_simp [h8, h49, h56, h34, hst, hA, h98, h108, lev, lhv, hsock, g5, g6, g7, g8, hinb, hrows, l1, l2, hl3, he,
    roleAcceptor, roleInitiator, hlow, hle, hne, hn, hpos, allLt_push, ho1]
  have fg2 := frameGood_build_resend { c.sess with nextOut := c.sess.nextOut + 1 } env.stamp (c.sess.nextOut + 1)
    c.sess.nextIn l1 l2 hl3
  have fg1 := frameGood_build_logon c.sess env.stamp c.sess.nextOut ev hv l1 l2 hl3 lev lhv
  refine ⟨⟨by omega, ?_⟩, fg2⟩
  have r1 := rowsGood_append g8 g7 fg1 (get?_build_34 ..)
  have r2 := rowsGood_append r1 ho1 fg2 (get?_build_34 ..)
  simpa using r2

/-- a Logon reaching an endpoint in the acceptor role that is not in LOGON_INITIAL_RECV: the assertion of
`_process_logon` fails and is swallowed – nothing happens -/
theorem recv_logon_acceptor_ignored {s : Side} {env : Env} {c : Conn} {f : Msg} {n : Int} {ev hv : String}
    (hc : ConnGood s c) (hi : InFrame c f n) (hf : LogonFrame f ev hv)
    (hst : c.state = st_LOGON_INITIAL_SENT ∨ c.state = st_RESENDREQ_AWAITING ∨ c.state = st_ACTIVE)
    (hr : c.role = roleAcceptor) (hn : c.sess.nextIn ≤ n) :
    StepOK s { c := absConn c } (recv srAll env c f).1 (recv srAll env c f).2 := by
  obtain ⟨h8, h49, h56, h34⟩ := hi
  obtain ⟨hA, h98, h108, lev, lhv⟩ := hf
  have hlow : ¬ n < c.sess.nextIn := by omega
  rcases hst with hst | hst | hst <;>
  · refine stepOK_same hc _ _ ?_ ?_ ?_ <;>
      ev_simp [h8, h49, h56, h34, hst, hA, h98, h108, hr, hlow, roleAcceptor, roleInitiator]

/-- initiator role, Logon numbered as expected: ACTIVE -/
theorem recv_logon_ini_eq {s : Side} {env : Env} {c : Conn} {f : Msg} {n : Int} {ev hv : String}
    (hc : ConnGood s c) (hi : InFrame c f n) (hf : LogonFrame f ev hv)
    (hst : c.state = st_LOGON_INITIAL_SENT ∨ c.state = st_RESENDREQ_AWAITING ∨ c.state = st_ACTIVE)
    (hr : c.role = roleInitiator) (hn : n = c.sess.nextIn) :
    StepOK s { c := { absConn c with st := .active, e := c.sess.nextIn + 1 } }
      (recv srAll env c f).1 (recv srAll env c f).2 := by
  obtain ⟨h8, h49, h56, h34⟩ := hi
  obtain ⟨hA, h98, h108, lev, lhv⟩ := hf
  subst hn
  obtain ⟨g1, g2, g5, g6, g7, g8, he, hinb, hrows, l1, l2⟩ := connFacts hc
  have hinb' : AllLt (c.sess.nextIn + 1) (c.journal.inb ++ [(c.sess.nextIn, f)]) := allLt_push hinb
  rw [stepOK_iff, connGood_iff]
  rcases hst with hst | hst | hst <;>
  · have hsock := sock_of_state hc (by rw [hst]; decide)
    ev_simp [h8, h49, h56, h34, hst, hA, h98, h108, hsock, g1, g2, g6, g7, g8, hinb, he, hr,
      roleAcceptor, roleInitiator, insert_append _ _ _ hinb, hinb']
    omega

/-- initiator role, Logon numbered above the expectation: ResendRequest, awaiting -/
theorem recv_logon_ini_gt {s : Side} {env : Env} {c : Conn} {f : Msg} {n : Int} {ev hv : String}
    (hc : ConnGood s c) (hi : InFrame c f n) (hf : LogonFrame f ev hv) (hl3 : isLatin1 env.stamp = true)
    (hst : c.state = st_LOGON_INITIAL_SENT ∨ c.state = st_RESENDREQ_AWAITING ∨ c.state = st_ACTIVE)
    (hr : c.role = roleInitiator) (hn : c.sess.nextIn < n) :
    StepOK s { c := ((absConn c).askResend n).1, wr := [((absConn c).askResend n).2] }
      (recv srAll env c f).1 (recv srAll env c f).2 := by
  obtain ⟨h8, h49, h56, h34⟩ := hi
  obtain ⟨hA, h98, h108, lev, lhv⟩ := hf
  obtain ⟨g1, g2, g5, g6, g7, g8, he, hinb, hrows, l1, l2⟩ := connFacts hc
  have hlow : ¬ n < c.sess.nextIn := by omega
  have hne : ¬ n = c.sess.nextIn := by omega
  have hpos : 0 < n := by omega
  rw [stepOK_iff, connGood_iff]
  simp only [← g1, ← g2] at g8 ⊢
  rcases hst with hst | hst | hst <;>
  · have hsock := sock_of_state hc (by rw [hst]; decide)
    ev_simp [h8, h49, h56, h34, hst, hA, h98, h108, hsock, g6, g7, g8, hinb, hrows, l1, l2, hl3, he, hr,
      roleAcceptor, roleInitiator, hlow, hne, hn, hpos]
    omega

end AsyncFix.Link
