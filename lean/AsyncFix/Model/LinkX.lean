import AsyncFix.Model.Link
import AsyncFix.Model.Restart

/-!
Link family, EXTENDED event alphabet (executable; used by the lock-step correspondence and the oracle walks).

On top of the four events of `Model/Link.lean` (for which the C07 theorems are proved):

* `logout s env text` – the application of side `s` ends the session gracefully:
  `disconnect(DISCONNECTED_WCONN_TODAY, logout_message=text)` (`Session.appDisconnect`): the Logout is numbered,
  journaled and written, the transport is closed.  The peer learns it from the Logout frame (`_process_logout`
  disconnects it, without a reply) or from a later `breakConn`;
* `restart s` – the endpoint process of side `s` is restarted while it has no transport: a new connection object
  is built over the SAME journal (`Restart.restart`: counters = stored counters + 1).  A no-op while the endpoint
  still has a transport (a crash with an open transport is `breakConn` first).

`stepX (.base ev) = step ev` by definition, so every theorem about `run` is a theorem about runs of `stepX`
that use base events only; histories with the two new events are covered by correspondence and oracle only.
Delivery in chunks (the transport handing the reader arbitrary pieces of a frame) is not an event of the model:
by C03 the reader loop reassembles the same frames, the harness varies the chunking on the implementation side.
-/
namespace AsyncFix.Link

open AsyncFix.Session AsyncFix.Generated AsyncFix.Generated.ConnEnum

inductive EvX
  | base (ev : Ev)
  | logout (s : Side) (env : Env) (text : String)
  | restart (s : Side)
  deriving Repr

def Side.role : Side → Nat
  | .I => roleInitiator
  | .A => roleAcceptor

def Link.setConn (l : Link) (s : Side) (c : Conn) : Link :=
  match s with
  | .I => { l with i := c }
  | .A => { l with a := c }

def stepX (l : Link) : EvX → Link
  | .base ev => step l ev
  | .logout s env text =>
    let l0 := { l with eff := [] }
    let (c, eff) := Session.appDisconnect env (l0.conn s) st_DISCONNECTED_WCONN_TODAY (some text)
    l0.absorb s c eff
  | .restart s =>
    let l0 := { l with eff := [] }
    if (l0.conn s).sock then l0 else l0.setConn s (Restart.restart (l0.conn s) s.role)

def runX (l : Link) : List EvX → Link
  | [] => l
  | ev :: rest => runX (stepX l ev) rest

theorem stepX_base (l : Link) (ev : Ev) : stepX l (.base ev) = step l ev := rfl

theorem runX_base (l : Link) (evs : List Ev) : runX l (evs.map .base) = run l evs := by
  induction evs generalizing l with
  | nil => rfl
  | cons e r ih => simp only [List.map_cons, runX, run, stepX_base]; exact ih _

end AsyncFix.Link
