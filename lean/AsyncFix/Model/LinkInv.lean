import AsyncFix.Model.LinkAbs

/-!
Link family: the invariants of the abstract protocol model (DESIGN Appendix A.2), as decidable predicates
(the driver evaluates them on every explored state; `Lemmas/LinkInv*.lean` prove them inductive).

Per direction X → Y (`X` sends, `Y` receives; `Q` = frames in flight X → Y, `Q'` = frames in flight Y → X):

* `keysOK`   – X's outbound journal has strictly ascending numbers in `[1, o)`;
* `frameOK`  – a frame X wrote agrees with X's journal: an application frame carries the payload journaled under
               its number, a gap fill `[n, m)` covers no application row, a session frame's number holds none (S3);
* `Safe`     – S1 `delivered_Y = application rows of J_X below e_Y`, S2 `e_Y ≤ o_X`, accepted = application rows,
               every frame on X's wire log is `frameOK`, frames in flight are on the wire log;
* `chain a Q b` – `Q` is numbered contiguously from `a` to `b` (a gap fill counts up to its NewSeqNo);
* `DirSync`  – G1: `Y` active ⇒ `chain e Q o` and no ResendRequest of `Y` in flight;
               G2/G3: `Y` awaiting ⇒ `e ≤ w < o` and `Q` = frames numbered above `e` (ignored while awaiting) followed
               by either nothing – then exactly one `ResendRequest(e, 0)` of `Y` is in flight – or a chain `e … o`;
* `Phase`    – the handshake: both down with nothing in flight | Logon in flight | Logon reply in flight | both
               logged on.
-/
namespace AsyncFix.Link

open AsyncFix.Session

abbrev AJournal := List (Int × Option Payload)

def AFrame.next (f : AFrame) : Int :=
  match f.kind with
  | .gapFill nw => nw
  | _ => f.seq + 1

def chain : Int → List AFrame → Int → Prop
  | a, [], b => a = b
  | a, f :: r, b => f.seq = a ∧ f.seq < f.next ∧ chain f.next r b

instance : (a : Int) → (q : List AFrame) → (b : Int) → Decidable (chain a q b)
  | a, [], b => inferInstanceAs (Decidable (a = b))
  | a, f :: r, b =>
    have := instDecidableChain f.next r b
    inferInstanceAs (Decidable (f.seq = a ∧ f.seq < f.next ∧ chain f.next r b))

def keysOK (o : Int) (J : AJournal) : Prop :=
  J.Pairwise (fun a b => a.1 < b.1) ∧ ∀ r ∈ J, 1 ≤ r.1 ∧ r.1 < o

instance (o : Int) (J : AJournal) : Decidable (keysOK o J) := by unfold keysOK; infer_instance

/-- application rows of a journal: `(number, payload)` in journal order -/
def appView (J : AJournal) : List (Int × Payload) := J.filterMap fun r => r.2.map fun p => (r.1, p)

def frameOK (J : AJournal) (o : Int) (f : AFrame) : Prop :=
  1 ≤ f.seq ∧ f.seq < o ∧
  match f.kind with
  | .app p _ => (f.seq, some p) ∈ J
  | .gapFill nw => f.seq < nw ∧ nw ≤ o ∧ ∀ r ∈ J, f.seq ≤ r.1 → r.1 < nw → r.2 = none
  | _ => ∀ r ∈ J, r.1 = f.seq → r.2 = none

instance (J : AJournal) (o : Int) (f : AFrame) : Decidable (frameOK J o f) := by
  unfold frameOK; cases f.kind <;> infer_instance

structure Safe (X Y : AConn) (Q : List AFrame) (delY : List (Int × Payload)) (accX : List Payload)
    (wireX : List AFrame) : Prop where
  keys : keysOK X.o X.out
  e1 : 1 ≤ Y.e
  s2 : Y.e ≤ X.o
  s1 : delY = (appView X.out).filter fun r => r.1 < Y.e
  acc : (appView X.out).map (·.2) = accX
  wire : ∀ f ∈ wireX, frameOK X.out X.o f
  sub : ∀ f ∈ Q, f ∈ wireX

instance (X Y : AConn) (Q delY accX wireX) : Decidable (Safe X Y Q delY accX wireX) :=
  decidable_of_iff (keysOK X.o X.out ∧ 1 ≤ Y.e ∧ Y.e ≤ X.o ∧ delY = ((appView X.out).filter fun r => r.1 < Y.e) ∧
      (appView X.out).map (·.2) = accX ∧ (∀ f ∈ wireX, frameOK X.out X.o f) ∧ (∀ f ∈ Q, f ∈ wireX))
    ⟨fun ⟨a, b, c, d, e, f, g⟩ => ⟨a, b, c, d, e, f, g⟩, fun ⟨a, b, c, d, e, f, g⟩ => ⟨a, b, c, d, e, f, g⟩⟩

def SafeInv (l : ALink) : Prop :=
  Safe l.i l.a l.toA l.delA l.accI l.wireI ∧ Safe l.a l.i l.toI l.delI l.accA l.wireA

instance (l : ALink) : Decidable (SafeInv l) := by unfold SafeInv; infer_instance

/-! ### coverage invariant -/

def resendB (f : AFrame) : Option Int :=
  match f.kind with
  | .resend b => some b
  | _ => none

/-- BeginSeqNo of the ResendRequests in a queue -/
def requests (q : List AFrame) : List Int := q.filterMap resendB

def isLogon (f : AFrame) : Bool := f.kind = .logon
def isLogout (f : AFrame) : Bool := f.kind = .logout

def est (s : ASt) : Prop := s = .active ∨ s = .awaiting

instance (s : ASt) : Decidable (est s) := by unfold est; infer_instance

def DirSync (X Y : AConn) (Q Q' : List AFrame) : Prop :=
  (Y.st = .active → chain Y.e Q X.o ∧ requests Q' = []) ∧
  (Y.st = .awaiting → Y.e ≤ Y.w ∧ Y.w < X.o ∧
    ((Q.dropWhile (fun f => Y.e < f.seq) = [] ∧ requests Q' = [Y.e]) ∨
     (Q.dropWhile (fun f => Y.e < f.seq) ≠ [] ∧ chain Y.e (Q.dropWhile fun f => Y.e < f.seq) X.o ∧ requests Q' = [])))

instance (X Y : AConn) (Q Q' : List AFrame) : Decidable (DirSync X Y Q Q') := by unfold DirSync; infer_instance

def Phase (l : ALink) : Prop :=
  (l.i.st = .disc ∧ l.a.st = .disc ∧ l.toA = [] ∧ l.toI = []) ∨
  (l.i.st = .sent ∧ l.a.st = .conn ∧ l.i.ini = true ∧ l.toI = [] ∧ l.toA = [⟨l.i.o - 1, .logon⟩]) ∨
  (l.i.st = .sent ∧ est l.a.st ∧ l.i.ini = true ∧ l.a.ini = false ∧ l.toA = [] ∧
    (match l.toI with
     | [] => False
     | f :: rest => f.kind = .logon ∧ l.i.e ≤ f.seq ∧ rest.all (fun g => !isLogon g) = true) ∧
    chain ((l.toI.head?.map (·.seq)).getD 0) l.toI l.a.o ∧ DirSync l.i l.a l.toA l.toI) ∨
  (est l.i.st ∧ est l.a.st ∧ l.i.ini = true ∧ l.a.ini = false ∧
    (l.toA ++ l.toI).all (fun g => !isLogon g) = true ∧ DirSync l.i l.a l.toA l.toI ∧ DirSync l.a l.i l.toI l.toA)

instance (l : ALink) : Decidable (Phase l) := by
  unfold Phase
  cases l.toI <;> infer_instance

def SyncInv (l : ALink) : Prop :=
  Phase l ∧ (l.toA ++ l.toI).all (fun g => !isLogout g) = true ∧
  (l.i.st = .awaiting → 0 < l.i.w) ∧ (l.a.st = .awaiting → 0 < l.a.w)

instance (l : ALink) : Decidable (SyncInv l) := by unfold SyncInv; infer_instance

def Bounded (l : ALink) : Prop := l.i.o ≤ sysMaxsize + 1 ∧ l.a.o ≤ sysMaxsize + 1

instance (l : ALink) : Decidable (Bounded l) := by unfold Bounded; infer_instance

end AsyncFix.Link
