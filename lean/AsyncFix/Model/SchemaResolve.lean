/-
Model of component resolution in `FIXSchema._parse` / `_parse_component` / `_parse_msg_set`
(asyncfix/protocol/schema.py) on abstract declarations.

`<components>` is a list of named declarations; a declaration body is a list of
`<field name req>`, `<component name>` (reference; its `required` attribute is ignored by the
code) and `<group name req> body`.  `_parse` sweeps the list of still unresolved declarations
again and again: a declaration whose body refers (directly or inside a group) to a component
that is not resolved yet is skipped and retried in the next sweep; a sweep that resolves
nothing raises `RuntimeError`.  `SchemaSet.add` asserts that a FIELD is not added twice
(by name, against fields and groups); groups are appended unconditionally.

Members are identified by NAME here (as in the code); the translation name ↦ tag
(`_field2tag[...]`, `KeyError` for an undeclared name) is not part of this model.
-/
namespace AsyncFix.Model.SchemaResolve

inductive Decl where
  | field (name : String) (req : Bool)
  | comp (name : String)
  | group (name : String) (req : Bool) (body : List Decl)
  deriving Repr

/-- resolved member -/
inductive RMem where
  | field (name : String) (req : Bool)
  | group (name : String) (req : Bool) (ms : List RMem)
  deriving Repr

def RMem.name : RMem → String
  | .field n _ => n
  | .group n _ _ => n

/-- `self._components` in insertion order -/
abbrev Env := List (String × List RMem)

def Env.get : Env → String → Option (List RMem)
  | [], _ => none
  | (k, v) :: rest, n => if k = n then some v else Env.get rest n

/-- `SchemaSet.add` : `none` = AssertionError -/
def addMem (acc : List RMem) : RMem → Option (List RMem)
  | .field n r => if acc.any (fun m => m.name = n) then none else some (acc ++ [.field n r])
  | .group n r ms => some (acc ++ [.group n r ms])

/-- `SchemaSet.merge` -/
def mergeAll (acc : List RMem) : List RMem → Option (List RMem)
  | [] => some acc
  | m :: rest => match addMem acc m with
    | none => none
    | some acc' => mergeAll acc' rest

inductive Res
  | assertion
  | done (ms : List RMem) (deferred : Bool)
  deriving Repr

/-- `_parse_msg_set(component, element)`: ALL children are processed even after one had to be
    deferred (`continue`), so an assertion can fire in an attempt that is deferred anyway -/
def expandBody (env : Env) : List Decl → List RMem → Bool → Res
  | [], acc, d => .done acc d
  | .field n r :: rest, acc, d =>
    match addMem acc (.field n r) with
    | none => .assertion
    | some acc' => expandBody env rest acc' d
  | .comp n :: rest, acc, d =>
    match env.get n with
    | none => expandBody env rest acc true
    | some ms =>
      match mergeAll acc ms with
      | none => .assertion
      | some acc' => expandBody env rest acc' d
  | .group n r body :: rest, acc, d =>
    match expandBody env body [] false with
    | .assertion => .assertion
    | .done _ true => expandBody env rest acc true
    | .done gms false => expandBody env rest (acc ++ [.group n r gms]) d

abbrev CDecl := String × List Decl

/-- one sweep `while i < len(all_components)`; `none` = AssertionError
    (`assert el_name not in self._components`, or an assertion inside a body) -/
def sweep (env : Env) : List CDecl → Option (Env × List CDecl)
  | [] => some (env, [])
  | (n, body) :: rest =>
    if (env.get n).isSome then none
    else match expandBody env body [] false with
      | .assertion => none
      | .done ms false => sweep (env ++ [(n, ms)]) rest
      | .done _ true =>
        match sweep env rest with
        | none => none
        | some (e, p) => some (e, (n, body) :: p)

inductive Resolved
  | ok (env : Env)
  | runtimeError (failed : List String)
  | assertion
  deriving Repr

/-- the `while all_components:` loop of `_parse` -/
def resolveLoop (env : Env) (pending : List CDecl) : Resolved :=
  if pending.isEmpty then .ok env
  else match sweep env pending with
    | none => .assertion
    | some (env', rest) =>
      if _h : rest.length < pending.length then resolveLoop env' rest
      else .runtimeError (rest.map (·.1))
termination_by pending.length

def resolve (decls : List CDecl) : Resolved := resolveLoop [] decls

/-- `_parse_message` / `_parse_header` after the components: `none` = AssertionError
    ("Message probably refers to circular refs", or a duplicate field) -/
def expandTop (env : Env) (body : List Decl) : Option (List RMem) :=
  match expandBody env body [] false with
  | .done ms false => some ms
  | _ => none

end AsyncFix.Model.SchemaResolve
