import AsyncFix.Generated.OrderTable
import AsyncFix.Model.SessionTypes
import AsyncFix.Model.OrderObj

/-!
Tester family (C20): the fabrication functions of `FIXTester` (asyncfix/fix_tester.py) and the few
lines of the order object they are fed to (asyncfix/protocol/order_single.py).

The order OBJECT model proper belongs to another family; this file carries its own minimal view.

## Numbers
Python numbers are modelled on the 1/8 grid (`Num.e` eighths; every such float is exact, sums and
differences are exact, `round(x, 3) == 0 ↔ x = 0`), together with the Python *type* (`float` renders
`10.0`, `int` renders `10`; the helper writes `str(value)` of whatever it was given).  `nan` arguments
(`isnan(x)`) are `none`.  Restriction: magnitudes below 10¹⁶ (above, `str(float)` switches to exponent
form) and the order's own fields are never `nan`/`inf`.

## Typed messages
A fabricated message keeps its values typed (`Val`): a string, a number, or a counter.  `RMsg.render`
gives the `FIXMessage` text (`str(value)`).  The order object's `float(m[tag])` is modelled on the typed
value: a number converts, a string value in a numeric position is treated as not convertible
(over-approximates raising; fabricated reports only carry numbers there).  That `float(str(x)) = x`
for a Python float is CPython's repr round-trip guarantee (assumption, sampled by the harness).
-/
namespace AsyncFix.Tester

open AsyncFix.Model.OrderTable

/-! ### numbers and values -/

structure Num where
  e : Int
  isFloat : Bool := true
  deriving DecidableEq, Repr, Inhabited

def fracDigits : Nat → String
  | 0 => "0" | 1 => "125" | 2 => "25" | 3 => "375" | 4 => "5" | 5 => "625" | 6 => "75" | _ => "875"

/-- `str(x)`: `repr` of a float on the 1/8 grid, decimal of an int (ints are multiples of 8 eighths) -/
def Num.render (n : Num) : String :=
  if n.isFloat then
    (if n.e < 0 then "-" else "") ++ toString (n.e.natAbs / 8) ++ "." ++ fracDigits (n.e.natAbs % 8)
  else toString (n.e / 8)

/-- `float(x)` of a number -/
def Num.toFloat (n : Num) : Num := { n with isFloat := true }

inductive Val
  | s (v : String)   -- a `str` (enum members are their values)
  | q (n : Num)      -- a Python number
  | c (k : Nat)      -- an `int` counter of the tester
  deriving DecidableEq, Repr, Inhabited

def Val.render : Val → String
  | .s v => v
  | .q n => n.render
  | .c k => toString k

/-- a `FIXMessage` whose values are still typed; `tags` in insertion order -/
structure RMsg where
  mtype : String
  tags : List (Nat × Val) := []
  deriving DecidableEq, Repr, Inhabited

namespace RMsg

def lookup (t : Nat) : List (Nat × Val) → Option Val
  | [] => none
  | (k, v) :: r => if k = t then some v else lookup t r

def get? (m : RMsg) (t : Nat) : Option Val := lookup t m.tags

/-- number carried at a tag, in eighths -/
def qty? (m : RMsg) (t : Nat) : Option Int :=
  match m.get? t with
  | some (.q n) => some n.e
  | _ => none

/-- counter carried at a tag -/
def nat? (m : RMsg) (t : Nat) : Option Nat :=
  match m.get? t with
  | some (.c k) => some k
  | _ => none

/-- text of the value at a tag (`msg[tag]` after `str()`) -/
def str? (m : RMsg) (t : Nat) : Option String := (m.get? t).map Val.render

def tagList (m : RMsg) : List Nat := m.tags.map (·.1)

/-- the `FIXMessage` as the rest of the library sees it -/
def render (m : RMsg) : AsyncFix.Session.Msg :=
  { mtype := m.mtype, tags := m.tags.map fun p => (p.1, p.2.render) }

end RMsg

/-! ### order view, tester state, arguments -/

/-- the attributes of `FIXNewOrderSingle` the helper and `process_execution_report` touch -/
structure OrderView where
  clordId : String
  origClordId : Option String := none
  orderId : Option String := none
  qty : Num
  price : Num
  cumQty : Num := ⟨0, true⟩
  leavesQty : Num := ⟨0, true⟩
  avgPx : Option Num := none          -- `nan` until the first report
  status : String := "Z"
  side : String := "1"
  ticker : String := "T"
  ordType : String := "2"
  account : Option String := some "000000"   -- `none`: not a `str` (set_account asserts)
  deriving DecidableEq, Repr, Inhabited

/-- Python truthiness of `orig_clord_id` (None or "" are falsy) -/
def truthy : Option String → Bool
  | some s => s != ""
  | none => false

/-- `FIXTester` fields used by the fabrication functions -/
structure TState where
  orderCtr : Nat := 0         -- `_order_id`
  execCtr : Nat := 10000      -- `_exec_id`
  registered : List String := []   -- keys of `registered_orders`
  orderIds : List (List Nat × Nat) := []   -- `_order_ids`: ClOrdID root (code points) ↦ OrderID handed out
  deriving DecidableEq, Repr, Inhabited

/-- arguments of `fix_exec_report_msg` after `order` -/
structure Args where
  clordId : String
  execType : String
  ordStatus : String
  cumQty : Option Num := none
  leavesQty : Option Num := none
  lastQty : Option Num := none
  price : Option Num := none
  orderQty : Option Num := none
  origClordId : Option String := none
  avgPrice : Num := ⟨0, true⟩
  deriving DecidableEq, Repr, Inhabited

/-- the helper's assertion sites, in source order -/
inductive Site
  | unregistered | emptyClord
  | orderQtyOnlyReplace | orderQtyPositive
  | cumLeOrderQty | cumNonneg
  | leavesNonneg | leavesLeOrderQty
  | sumLeOrderQty
  | lastOnlyTrade | lastPositive | lastMatchesCum | tradeNeedsLast
  | priceOnlyReplace
  | accountIsStr
  | pcOrig | pcClord | pcDistinct | pcCum | pcLeaves
  | finishedLeavesZero
  | cxlReqType                      -- fix_cxlrep_reject_msg: request is neither F nor G
  | cannotCancel | cannotReplace    -- fix_cxl_request / fix_rep_request: `assert o.can_…()`
  | origSet                         -- cancel_req / replace_req: `assert not self.orig_clord_id`
  deriving DecidableEq, Repr, Inhabited

inductive Refusal
  | assertion (s : Site)   -- AssertionError
  | schema                 -- FIXMessageError out of `self.schema.validate(m)`
  | tagNotFound            -- `cxl_req[FTag.…]` of a request without the tag
  | fixError               -- FIXError out of `replace_req` (nothing to change)
  deriving DecidableEq, Repr, Inhabited

/-- first failing assertion of a list `(site, condition)` evaluated in order -/
def firstFail : List (Site × Bool) → Option Site
  | [] => none
  | (s, ok) :: r => if ok then firstFail r else some s

def exTrade : String := "F"
def exReplaced : String := "5"
def exPendingCancel : String := "6"
def stPendingCancel : String := "6"
/-- the statuses `fix_exec_report_msg` (and `is_finished`) treat as finished:
FILLED CANCELED REJECTED EXPIRED -/
def finished : List String := ["2", "4", "8", "C"]

/-- the values `fix_exec_report_msg` works with after the `isnan` substitutions -/
structure Eff where
  orderQty : Num
  cum : Num
  leaves : Num
  price : Num
  deriving DecidableEq, Repr

def effOf (o : OrderView) (a : Args) : Eff :=
  { orderQty := a.orderQty.getD o.qty
    cum := a.cumQty.getD o.cumQty
    leaves := a.leavesQty.getD o.leavesQty
    price := a.price.getD o.price }

/-- assertions evaluated before any counter is touched (l.325-328) -/
def preChecks (st : TState) (o : OrderView) (a : Args) : List (Site × Bool) :=
  [(.unregistered, st.registered.contains o.clordId),
   (.emptyClord, a.clordId != "")]

/-- all later assertions in source order (l.345-417); a guarded assertion is `guard → condition`.
The two `assert not isnan(…)` of the trade block cannot fire (both values were substituted). -/
def mainChecks (o : OrderView) (a : Args) : List (Site × Bool) :=
  let v := effOf o a
  let pc := a.execType == exPendingCancel && a.ordStatus == stPendingCancel
  [(.orderQtyOnlyReplace, a.orderQty.isNone || a.execType == exReplaced),
   (.orderQtyPositive, a.orderQty.isNone || decide (v.orderQty.e > 0)),
   (.cumLeOrderQty, a.cumQty.isNone || decide (v.cum.e ≤ o.qty.e)),
   (.cumNonneg, a.cumQty.isNone || decide (v.cum.e ≥ 0)),
   (.leavesNonneg, a.leavesQty.isNone || decide (v.leaves.e ≥ 0)),
   (.leavesLeOrderQty, a.leavesQty.isNone || decide (v.leaves.e ≤ v.orderQty.e)),
   (.sumLeOrderQty, decide (v.cum.e + v.leaves.e ≤ v.orderQty.e)),
   (.lastOnlyTrade, a.lastQty.isNone || a.execType == exTrade),
   (.lastPositive, match a.lastQty with | none => true | some l => decide (l.e > 0)),
   (.lastMatchesCum, match a.lastQty with | none => true | some l => decide (l.e - (v.cum.e - o.cumQty.e) = 0)),
   (.tradeNeedsLast, a.lastQty.isSome || a.execType != exTrade),
   (.priceOnlyReplace, a.price.isNone || a.execType == exReplaced),
   (.accountIsStr, o.account.isSome),
   (.pcOrig, !pc || truthy o.origClordId),
   (.pcClord, !pc || o.clordId != ""),
   (.pcDistinct, !pc || some o.clordId != o.origClordId),
   (.pcCum, !pc || decide (o.cumQty.e = v.cum.e)),
   (.pcLeaves, !pc || decide (o.leavesQty.e = v.leaves.e)),
   (.finishedLeavesZero, !finished.contains a.ordStatus || decide (v.leaves.e = 0))]

/-- `order.clord_id_root` (`FIXNewOrderSingle.clord_root`, modelled and tied to the code by the OrderObj
family: `RE_CLORD_ROOT.match`) on the code points of the order's ClOrdID -/
def rootOf (o : OrderView) : List Nat :=
  AsyncFix.Model.OrderObj.clordRoot (o.clordId.toList.map Char.toNat)

def lookupRoot (r : List Nat) : List (List Nat × Nat) → Option Nat
  | [] => none
  | (r', k) :: rest => if r = r' then some k else lookupRoot r rest

/-- OrderID of the report (l.332-338, fix e62ed38): the order's own when it has one; else the one
remembered for the order's ClOrdID root; else a fresh counter value, which is remembered. -/
def orderIdOf (st : TState) (o : OrderView) : TState × Val :=
  match o.orderId with
  | some x => (st, .s x)
  | none =>
    match lookupRoot (rootOf o) st.orderIds with
    | some k => (st, .c k)
    | none =>
      ({ st with orderCtr := st.orderCtr + 1, orderIds := (rootOf o, st.orderCtr + 1) :: st.orderIds },
       .c (st.orderCtr + 1))

/-- the tags in the order the helper sets them (all distinct, so no `DuplicatedTagError`) -/
def buildReport (o : OrderView) (a : Args) (oid : Val) (eid : Nat) : RMsg :=
  let v := effOf o a
  { mtype := "8"
    tags :=
      [(11, .s a.clordId), (37, oid), (17, .c eid)]
      ++ (if truthy a.origClordId then [(41, .s (a.origClordId.getD ""))] else [])
      ++ [(150, .s a.execType), (39, .s a.ordStatus), (54, .s o.side), (14, .q v.cum), (151, .q v.leaves)]
      ++ (match a.lastQty with | some l => [(32, Val.q l)] | none => [])
      ++ [(55, .s o.ticker), (44, .q v.price), (38, .q v.orderQty), (6, .q a.avgPrice),
          (1, .s (o.account.getD ""))] }

/-- `fix_exec_report_msg` (fix_tester.py l.293-421).  `schema` = `self.schema.validate` when a schema was
given.  Both counters are consumed BEFORE the quantity assertions: a refused call still uses up an
ExecID (and, when the order has no OrderID and its root is new, an OrderID, which stays remembered). -/
def fabricate (schema : Option (RMsg → Bool)) (st : TState) (o : OrderView) (a : Args) :
    TState × Except Refusal RMsg :=
  match firstFail (preChecks st o a) with
  | some s => (st, .error (.assertion s))
  | none =>
    let (st1, oid) := orderIdOf st o
    let st2 := { st1 with execCtr := st1.execCtr + 1 }
    match firstFail (mainChecks o a) with
    | some s => (st2, .error (.assertion s))
    | none =>
      let m := buildReport o a oid st2.execCtr
      match schema with
      | some ok => if ok m then (st2, .ok m) else (st2, .error .schema)
      | none => (st2, .ok m)

/-- `order_register_single` -/
def register (st : TState) (o : OrderView) : TState :=
  { st with registered := o.clordId :: st.registered }

/-- a sequence of `fix_exec_report_msg` calls on one tester (any orders, any arguments, refused ones
included); results in call order -/
def runCalls (schema : Option (RMsg → Bool)) : TState → List (OrderView × Args) → TState × List (Except Refusal RMsg)
  | st, [] => (st, [])
  | st, (o, a) :: rest =>
    let r := fabricate schema st o a
    let rs := runCalls schema r.1 rest
    (rs.1, r.2 :: rs.2)

/-! ### cancel reject -/

def mCancelReq : String := "F"
def mReplaceReq : String := "G"

/-- `if self.schema: self.schema.validate(m)` as the last step -/
def schemaGate (schema : Option (RMsg → Bool)) (m : RMsg) : Except Refusal RMsg :=
  match schema with
  | some ok => if ok m then .ok m else .error .schema
  | none => .ok m

/-- `fix_cxlrep_reject_msg` (l.255-291): the two `cxl_req[…]` reads come first (TagNotFoundError), the
message-type assertion after the first four tags were set. -/
def cxlReject (schema : Option (RMsg → Bool)) (req : AsyncFix.Session.Msg) (ordStatus : String) :
    Except Refusal RMsg :=
  match req.get? 11, req.get? 41 with
  | some clord, some orig =>
    if req.mtype != mCancelReq && req.mtype != mReplaceReq then .error (.assertion .cxlReqType)
    else
      schemaGate schema
        { mtype := "9"
          tags := [(37, .c 0), (11, .s clord), (41, .s orig), (39, .s ordStatus),
                   (434, .s (if req.mtype == mCancelReq then "1" else "2"))] }
  | _, _ => .error .tagNotFound

/-! ### cancel / replace requests (the order object builds them; the helper asserts and registers) -/

/-- `can_cancel()` / `can_replace()` (order_single.py l.485-509) -/
def canRequest (status kind : String) : Bool :=
  changeStatus AsyncFix.Generated.OrderTable.spec status kind "0" (if kind = "F" then "6" else "E") false != .none

/-- the tail both request helpers share: optional validation, then registration under the NEW ClOrdID.
The order is already mutated and is NOT registered when the schema refuses the request. -/
def reqFinish (schema : Option (RMsg → Bool)) (st : TState) (o1 : OrderView) (m : RMsg) (nc : String) :
    TState × OrderView × Except Refusal RMsg :=
  match schema with
  | some ok =>
    if ok m then ({ st with registered := nc :: st.registered }, o1, .ok m) else (st, o1, .error .schema)
  | none => ({ st with registered := nc :: st.registered }, o1, .ok m)

def cxlMsg (o : OrderView) (nextClord time : String) : RMsg :=
  { mtype := "F"
    tags := [(11, .s nextClord), (38, .q o.qty), (41, .s o.clordId), (55, .s o.ticker), (54, .s o.side),
             (60, .s time)] }

/-- `fix_cxl_request` (l.219-230) with `cancel_req` (order_single.py l.140-163) inlined.  `nextClord` is
what `clord_next()` returns, `time` the TransactTime text.  Result: tester state, the (mutated) order,
outcome. -/
def cxlRequest (schema : Option (RMsg → Bool)) (st : TState) (o : OrderView) (nextClord time : String) :
    TState × OrderView × Except Refusal RMsg :=
  if !canRequest o.status "F" then (st, o, .error (.assertion .cannotCancel))
  else if truthy o.origClordId then (st, o, .error (.assertion .origSet))
  else
    reqFinish schema st { o with origClordId := some o.clordId, clordId := nextClord, status := "6" }
      (cxlMsg o nextClord time) nextClord

/-- `replace_req`: the price / quantity actually requested (`nan`, an unchanged value and a zero quantity
fall back to the order's) -/
def repPrice (o : OrderView) : Option Num → Num
  | some p => if p.e = o.price.e then o.price else p
  | none => o.price

def repQty (o : OrderView) : Option Num → Num
  | some q => if q.e = o.qty.e || q.e = 0 then o.qty else q
  | none => o.qty

def repMsg (o : OrderView) (p q : Num) (nextClord time : String) : RMsg :=
  { mtype := "G"
    tags := [(11, .s nextClord), (41, .s o.clordId), (40, .s o.ordType), (55, .s o.ticker),
             (44, .q p), (38, .q q), (54, .s o.side), (60, .s time)] }

/-- `fix_rep_request` (l.232-253) with `replace_req` (order_single.py l.165-204) inlined; `price` / `qty`
`none` = `nan`. -/
def repRequest (schema : Option (RMsg → Bool)) (st : TState) (o : OrderView) (price qty : Option Num)
    (nextClord time : String) : TState × OrderView × Except Refusal RMsg :=
  if !canRequest o.status "G" then (st, o, .error (.assertion .cannotReplace))
  else if (repPrice o price).e = o.price.e && (repQty o qty).e = o.qty.e then (st, o, .error .fixError)
  else if truthy o.origClordId then (st, o, .error (.assertion .origSet))
  else
    reqFinish schema st { o with origClordId := some o.clordId, clordId := nextClord, status := "E" }
      (repMsg o (repPrice o price) (repQty o qty) nextClord time) nextClord

/-! ### session message factories (`msg_*`, l.423-514): plain string messages -/

open AsyncFix.Session in
/-- `msg_logon(tags)`: `tags` first (distinct keys of a dict), then the defaults that are missing -/
def msgLogon (extra : List (Nat × String)) : Msg :=
  let m : Msg := { mtype := mLogon, tags := extra }
  let t1 := if m.has tEncryptMethod then m.tags else m.tags ++ [(tEncryptMethod, "0")]
  let m1 : Msg := { m with tags := t1 }
  let t2 := if m1.has tHeartBtInt then t1 else t1 ++ [(tHeartBtInt, "30")]
  { m with tags := t2 }

open AsyncFix.Session in
def msgLogout : Msg := { mtype := mLogout, tags := [] }

open AsyncFix.Session in
def msgHeartbeat (testReqId : Option String) : Msg :=
  { mtype := mHeartbeat, tags := match testReqId with | some t => [(tTestReqID, t)] | none => [] }

open AsyncFix.Session in
def msgTestRequest (testReqId : String) : Msg := { mtype := mTestRequest, tags := [(tTestReqID, testReqId)] }

open AsyncFix.Session in
def msgSequenceReset (seq newSeq : String) (gapFill : Bool) : Msg :=
  { mtype := mSequenceReset,
    tags := [(tMsgSeqNum, seq), (tGapFillFlag, if gapFill then "Y" else "N"), (tNewSeqNo, newSeq)] }

open AsyncFix.Session in
def msgResendRequest (b e : String) : Msg := { mtype := mResendRequest, tags := [(tBeginSeqNo, b), (tEndSeqNo, e)] }

/-! ### the order object's side (order_single.py l.400-474) -/

inductive PExc
  | fixError      -- FIXError (wrong message type, ClOrdID mismatch, change_status)
  | tagNotFound   -- TagNotFoundError
  | value         -- ValueError (`float()` of a non-number, `FOrdStatus()` of a non-member)
  deriving DecidableEq, Repr, Inhabited

def getS (m : RMsg) (t : Nat) : Except PExc String :=
  match m.get? t with
  | some v => .ok v.render
  | none => .error .tagNotFound

/-- `float(m[tag])` -/
def getF (m : RMsg) (t : Nat) : Except PExc Num :=
  match m.get? t with
  | some (.q n) => .ok n.toFloat
  | some (.c k) => .ok ⟨8 * (k : Int), true⟩
  | some (.s _) => .error .value
  | none => .error .tagNotFound

/-- `float(m.get(tag, None))` when present -/
def getFOpt (m : RMsg) (t : Nat) : Except PExc (Option Num) :=
  match m.get? t with
  | none => .ok none
  | some _ => (getF m t).map some

def stVals : List String := AsyncFix.Generated.OrderTable.ordStatus.map (·.2)

/-- `if new_status: self.status = FOrdStatus(new_status)`: falsy (`None`, `""`) ↦ unchanged / `False`;
a non-member raises ValueError. -/
def applyStatus (o : OrderView) (r : Res) : Except PExc (OrderView × Bool) :=
  match r with
  | .raised => .error .fixError
  | .none => .ok (o, false)
  | .to s =>
    if s == "" then .ok (o, false)
    else if stVals.contains s then .ok ({ o with status := s }, true)
    else .error .value

/-- `process_execution_report` (l.427-474), every raising branch included.  (On an exception Python
keeps the attribute assignments made before it; an `Except` result does not show them.) -/
def processExecReport (o : OrderView) (m : RMsg) : Except PExc (OrderView × Bool) := do
  if m.mtype != "8" then throw .fixError
  let clord ← getS m 11
  let cum ← getF m 14
  let rep ← getS m 39
  if clord != o.clordId && some clord != o.origClordId then throw .fixError
  let ex ← getS m 150
  let leaves ← getF m 151
  let r := changeStatus AsyncFix.Generated.OrderTable.spec o.status "8" ex rep false
  if r == .raised then throw .fixError
  let oid ← getS m 37
  let avg ← getF m 6
  let o1 := { o with orderId := some oid, leavesQty := leaves, cumQty := cum, avgPx := some avg }
  let o2 ←
    if ex == exReplaced then do
      let p ← getFOpt m 44
      let q ← getFOpt m 38
      pure { o1 with price := p.getD o1.price, qty := q.getD o1.qty, origClordId := none }
    else pure o1
  applyStatus o2 r

/-- `process_cancel_rej_report` (l.400-425) -/
def processCxlRej (o : OrderView) (m : RMsg) : Except PExc (OrderView × Bool) := do
  if m.mtype != "9" then throw .fixError
  let rep ← getS m 39
  let r := changeStatus AsyncFix.Generated.OrderTable.spec o.status "9" "0" rep false
  if r == .raised then throw .fixError
  let o1 := if rep == "8" then { o with leavesQty := ⟨0, false⟩ } else o
  let o2 := if truthy o1.origClordId then { o1 with clordId := o1.origClordId.getD "", origClordId := none } else o1
  applyStatus o2 r

end AsyncFix.Tester
