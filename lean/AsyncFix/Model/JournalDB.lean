/-
Model of `asyncfix/journaler.py`, part 2: the connection.

`Conn` = the database file (`committed`) + what this connection sees (`working`) + the
Python-`sqlite3` transaction state (legacy isolation_level ""): an implicit BEGIN is issued
before INSERT/UPDATE/DELETE when no transaction is open, *before* the parameters are bound;
`commit()` makes `working` durable; a failed INSERT (IntegrityError) rolls back the statement
only and leaves the transaction open; a crash (or `close()`) drops what is uncommitted.

Every public method is a small program (`Prog`) over `execute()` / `commit()` calls, mirroring
the Python statement by statement, so that a crash can be placed before/after every call
(`rollback()` counts as a call too).

Also modelled (CPython detail that decides the *kind* of exception when binding overflows):
`bind_parameters` reports a failed binding through `sqlite3_errcode(db)`; when the first
parameter overflows and the last thing that happened on the connection was a constraint
failure (statement taken from the statement cache, no BEGIN needed), the stale code makes it an
IntegrityError instead of OverflowError.  `stale` / `cache` track exactly that.
-/
import AsyncFix.Model.Journal
namespace AsyncFix.Model.Journal

/-- one `cursor.execute(sql, params)` -/
inductive Stmt
  | createMsgTable
  | createSessTable
  | insertSession (t s : String)
  | selectSession (t s : String)
  | selectSessions
  | insertMsg (seq key : Int) (dir : Dir) (msg : Bytes)
  | updateCounter (dir : Dir) (seq key : Int)
  | updateBoth (inSeq outSeq key : Int)
  | deleteFrom (key seq : Int) (dir : Dir)
  | selectRange (key : Int) (dir : Dir) (lo hi : Bound)
  | selectAll (keys : Option (List Int)) (dir : Option Dir)
  deriving DecidableEq, Repr

/-- the SQL text (key of CPython's statement cache) -/
inductive StmtKind
  | createMsgTable | createSessTable | insertSession | selectSession | selectSessions | insertMsg
  | updateCounter (dir : Dir) | updateBoth | deleteFrom | selectRange | selectAll (nkeys : Option Nat) (hasDir : Bool)
  deriving DecidableEq, Repr

def Stmt.kind : Stmt → StmtKind
  | .createMsgTable => .createMsgTable
  | .createSessTable => .createSessTable
  | .insertSession .. => .insertSession
  | .selectSession .. => .selectSession
  | .selectSessions => .selectSessions
  | .insertMsg .. => .insertMsg
  | .updateCounter d .. => .updateCounter d
  | .updateBoth .. => .updateBoth
  | .deleteFrom .. => .deleteFrom
  | .selectRange .. => .selectRange
  | .selectAll ks d => .selectAll (ks.map (·.length)) d.isSome

/-- INSERT / UPDATE / DELETE (`sqlite3_stmt_readonly` false and not DDL): opens a transaction -/
def Stmt.isDML : Stmt → Bool
  | .insertSession .. | .insertMsg .. | .updateCounter .. | .updateBoth .. | .deleteFrom .. => true
  | _ => false

/-- parameters in binding order; a parameter that is not an int is represented by `0` -/
def Stmt.params : Stmt → List Int
  | .insertSession .. | .selectSession .. => [0, 0]
  | .insertMsg seq key dir _ => [seq, key, dir.val, 0]
  | .updateCounter _ seq key => [seq, key]
  | .updateBoth i o key => [i, o, key]
  | .deleteFrom key seq dir => [key, seq, dir.val]
  | .selectRange key dir lo hi => [key, dir.val, lo.param, hi.param]
  | .selectAll ks d => ks.getD [] ++ (match d with | some d => [d.val] | none => [])
  | _ => []

/-- result of one `execute()` -/
inductive SRes
  | done
  | rowid (n : Nat)
  | sessRows (rs : List SessRow)
  | msgs (ms : List Bytes)
  | rows (rs : List (Int × Bytes × Int × Int))
  | integrity       -- sqlite3.IntegrityError
  | overflow        -- OverflowError while binding
  | unmodelled
  | fault (k : Kind) -- the call raised another sqlite3 error (collaborator fault, see `Prog.runInj`)
  deriving DecidableEq, Repr

/-- effect of a statement whose parameters were bound, on the table content -/
def Stmt.run (s : Stmt) (j : Journal) : Journal × SRes :=
  match s with
  | .createMsgTable | .createSessTable => (j, .done)       -- IF NOT EXISTS: no effect on rows
  | .insertSession t s' =>
    (match insSession j t s' with | some (j', id) => (j', .rowid id) | none => (j, .integrity))
  | .selectSession t s' => (j, .sessRows (selSession j t s'))
  | .selectSessions => (j, .sessRows j.sessions)
  | .insertMsg seq key dir msg =>
    (match insMsg j seq key dir msg with | some j' => (j', .done) | none => (j, .integrity))
  | .updateCounter dir seq key => (updCounter j dir seq key, .done)
  | .updateBoth i o key => (updBoth j i o key, .done)
  | .deleteFrom key seq dir => (delFrom j key seq dir, .done)
  | .selectRange key dir lo hi =>
    (match lo.eval, hi.eval with
     | .unmodelled, _ => (j, .unmodelled)
     | _, .unmodelled => (j, .unmodelled)
     | l, u => (j, .msgs (selRange j key dir l u)))
  | .selectAll ks d => (j, .rows (selAll j ks d))

structure Conn where
  committed : Journal := {}
  working : Journal := {}
  inTx : Bool := false
  stale : Bool := false
  cache : List StmtKind := []
  deriving DecidableEq, Repr

/-- `cursor.execute()`: statement cache / prepare, implicit BEGIN, bind, step.
`sqlite3_prepare` (statement not in the cache) and the implicit BEGIN reset SQLite's error code;
binding a later parameter successfully resets it too, so only an overflow of the *first*
parameter can be reported through a stale constraint error. -/
def Conn.exec (c : Conn) (s : Stmt) : Conn × SRes :=
  let prepared := !c.cache.contains s.kind
  let begins := s.isDML && !c.inTx
  let stale := c.stale && !prepared && !begins
  let cache := if prepared then s.kind :: c.cache else c.cache
  let inTx := c.inTx || s.isDML
  match s.params.findIdx? (fun n => !fits n) with
  | some i =>
    ({ c with inTx := inTx, cache := cache, stale := stale && i == 0 },
      if i == 0 && stale then .integrity else .overflow)
  | none =>
    ({ committed := if inTx then c.committed else (s.run c.working).1, working := (s.run c.working).1,
       inTx := inTx, stale := (s.run c.working).2 == .integrity, cache := cache },
      (s.run c.working).2)

/-- `conn.commit()` -/
def Conn.commit (c : Conn) : Conn :=
  if c.inTx then { c with committed := c.working, inTx := false, stale := false } else c

/-- `conn.rollback()` -/
def Conn.rollback (c : Conn) : Conn :=
  if c.inTx then { c with working := c.committed, inTx := false, stale := false } else c

/-- process death, or `cursor.close(); conn.close()`: only the file remains -/
def Conn.crash (c : Conn) : Conn := { committed := c.committed, working := c.committed }

/-- a new connection on a file -/
def connect (file : Journal) : Conn := { committed := file, working := file }

/-- a method body: `execute()`, `commit()` and `rollback()` calls with Python control flow in between -/
inductive Prog (α : Type) where
  | ret (a : α)
  | exec (s : Stmt) (k : SRes → Prog α)
  | commit (k : Prog α)
  | rollback (k : Prog α)

/-- run at most `fuel` calls; `none` = the process died before the method returned -/
def Prog.run : Prog α → Nat → Conn → Conn × Nat × Option α
  | .ret a, n, c => (c, n, some a)
  | .exec _ _, 0, c => (c, 0, none)
  | .exec s k, n + 1, c => (k (c.exec s).2).run n (c.exec s).1
  | .commit _, 0, c => (c, 0, none)
  | .commit k, n + 1, c => k.run n c.commit
  | .rollback _, 0, c => (c, 0, none)
  | .rollback k, n + 1, c => k.run n c.rollback

/-- `run` with a collaborator fault: the `j`-th execute()/commit() call of this method (rollback() is
not counted) raises an sqlite3 error of kind `kind` *instead of* doing anything – once; it is no call
on the real connection, so it uses no fuel.  A raising `execute()` is handled by the method's own
continuation (`SRes.fault`); `onCommit` is what the method does when `commit()` raises. -/
def Prog.runInj (onCommit : Kind → Prog α) (kind : Kind) : Prog α → Nat → Nat → Conn → Conn × Nat × Option α
  | .ret a, _, n, c => (c, n, some a)
  | .exec _ k, 0, n, c => (k (.fault kind)).run n c
  | .exec _ _, _ + 1, 0, c => (c, 0, none)
  | .exec s k, j + 1, n + 1, c => (k (c.exec s).2).runInj onCommit kind j n (c.exec s).1
  | .commit _, 0, n, c => (onCommit kind).run n c
  | .commit _, _ + 1, 0, c => (c, 0, none)
  | .commit k, j + 1, n + 1, c => k.runInj onCommit kind j n c.commit
  | .rollback _, _, 0, c => (c, 0, none)
  | .rollback k, j, n + 1, c => k.runInj onCommit kind j n c.rollback

/-- number of `execute()`/`commit()` calls of a method from a given connection state -/
def Prog.steps : Prog α → Conn → Nat
  | .ret _, _ => 0
  | .exec s k, c => (k (c.exec s).2).steps (c.exec s).1 + 1
  | .commit k, c => k.steps c.commit + 1
  | .rollback k, c => k.steps c.rollback + 1

/-- run to completion -/
def Prog.full : Prog α → Conn → Conn × α
  | .ret a, c => (c, a)
  | .exec s k, c => (k (c.exec s).2).full (c.exec s).1
  | .commit k, c => k.full c.commit
  | .rollback k, c => k.full c.rollback

/-! ## the methods as programs -/

/-- `Journaler.__init__` after `sqlite3.connect` -/
def openP : Prog Res :=
  .exec .createMsgTable fun _ => .exec .createSessTable fun _ => .ret .none

def excOf : SRes → Kind
  | .integrity => .integrity
  | .overflow => .overflow
  | .fault k => k
  | _ => .internal

/-- `next(self.cursor)` on the SELECT of the load path -/
def loadRes : SRes → Res
  | .sessRows (r :: _) => .handle (handleOf r)
  | .sessRows [] => .raised .stopIteration
  | r => .raised (excOf r)

def createOrLoadP (t s : String) : Prog Res :=
  .exec (.insertSession t s) fun
    | .rowid id => .commit (.ret (.handle ⟨id, t, s, 1, 1⟩))
    | .integrity => .exec (.selectSession t s) fun r => .ret (loadRes r)
    | r => .ret (.raised (excOf r))

def sessionsRes : SRes → Res
  | .sessRows rs => .dict (rs.foldl (fun d r => dictSet d (r.target, r.sender) (handleOf r)) [])
  | r => .raised (excOf r)

def sessionsP : Prog Res := .exec .selectSessions fun r => .ret (sessionsRes r)

/-- the two `except` clauses around INSERT, UPDATE and commit of `persist_msg`:
`except sqlite3.IntegrityError` → DuplicateSeqNoError (no rollback: the transaction opened by the
implicit BEGIN stays open, empty); `except Exception` → `rollback(); raise` (fix f5b31dd) -/
def persistFail : SRes → Prog Res
  | .integrity => .ret (.raised .duplicateSeqNo)
  | r => .rollback (.ret (.raised (excOf r)))

def persistP (msg : Bytes) (h : Handle) (dir : Dir) : Prog Res :=
  match findSeqNo msg with
  | none => .ret (.raised .fixMessage)
  | some n =>
    .exec (.insertMsg n h.key dir msg) fun
      | .done =>
        .exec (.updateCounter dir n h.key) fun
          | .done => .commit (.ret .none)
          | r => persistFail r
      | r => persistFail r

def setSeqNumP (h : Handle) (out inn : Option Int) : Prog Res :=
  if out.any (· ≤ 0) then .ret (.set h (some .assertion))
  else if inn.any (· ≤ 0) then .ret (.set { h with nextOut := effOut h out } (some .assertion))
  else
    let h2 : Handle := { h with nextOut := effOut h out, nextIn := effIn h inn }
    -- `except Exception: self.conn.rollback(); raise`
    let fail : SRes → Prog Res := fun r => .rollback (.ret (.set h2 (some (excOf r))))
    .exec (.updateBoth (effIn h inn - 1) (effOut h out - 1) h.key) fun
      | .done =>
        .exec (.deleteFrom h.key (effIn h inn) .inbound) fun
          | .done =>
            .exec (.deleteFrom h.key (effOut h out) .outbound) fun
              | .done => .commit (.ret (.set h2 none))
              | r => fail r
          | r => fail r
      | r => fail r

def recoverRes : SRes → Res
  | .msgs ms => .msgs ms
  | .unmodelled => .unmodelled
  | r => .raised (excOf r)

def recoverP (h : Handle) (dir : Dir) (lo hi : Bound) : Prog Res :=
  .exec (.selectRange h.key dir lo hi) fun r => .ret (recoverRes r)

def recoverMsgRes : SRes → Res
  | .msgs (m :: _) => .msg (some m)
  | .msgs [] => .msg none
  | .unmodelled => .unmodelled
  | r => .raised (excOf r)

def recoverMsgP (h : Handle) (dir : Dir) (seq : Bound) : Prog Res :=
  .exec (.selectRange h.key dir seq seq) fun r => .ret (recoverMsgRes r)

def getAllRes : SRes → Res
  | .rows rs => .rows rs
  | r => .raised (excOf r)

def getAllP (keys : Option (List Int)) (dir : Option Dir) : Prog Res :=
  .exec (.selectAll (normKeys keys) dir) fun r => .ret (getAllRes r)

def Op.prog : Op → Prog Res
  | .createOrLoad t s => createOrLoadP t s
  | .sessions => sessionsP
  | .persist msg h dir => persistP msg h dir
  | .setSeqNum h out inn => setSeqNumP h out inn
  | .recover h dir lo hi => recoverP h dir lo hi
  | .recoverMsg h dir seq => recoverMsgP h dir seq
  | .getAll keys dir => getAllP keys dir

/-- what a method does when its `commit()` raises: every writing method rolls back and re-raises
(`except Exception: self.conn.rollback(); raise` – set_seq_num since 493a9a7, persist_msg and
create_or_load since f5b31dd) -/
def Op.commitFail : Op → Kind → Prog Res
  | .setSeqNum h out inn, k =>
    .rollback (.ret (.set { h with nextOut := effOut h out, nextIn := effIn h inn } (some k)))
  | _, k => .rollback (.ret (.raised k))

/-! ## a process: `Journaler(file)`, a list of method calls, death after `fuel` calls -/

/-- run the programs one after the other until the fuel is used up in the middle of one;
returns the connection and the number of programs that returned -/
def runProgs : Conn → List (Prog Res) → Nat → Conn × Nat
  | c, [], _ => (c, 0)
  | c, p :: ps, n =>
    match p.run n c with
    | (c', n', some _) => let (c'', m) := runProgs c' ps n'; (c'', m + 1)
    | (c', _, none) => (c', 0)

/-- the whole process: open the file, call the methods, die after `fuel` execute/commit calls -/
def session (file : Journal) (ops : List Op) (fuel : Nat) : Conn × Nat :=
  runProgs (connect file) (openP :: ops.map Op.prog) fuel

/-- what a new `Journaler` on the file sees after the process is gone -/
def reopen (c : Conn) : Conn := (openP.full c.crash).1

end AsyncFix.Model.Journal
