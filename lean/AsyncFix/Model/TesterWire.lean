import AsyncFix.Model.Session

/-!
Tester family (C20): the simulated-acceptor wiring of `FIXTester` (asyncfix/fix_tester.py `__init__`,
`_conn_socket_write_initiator`, `_conn_socket_write_acceptor`, `_conn_socket_drain_acceptor`,
`process_msg_acceptor`, `reply`) over the session model, and the reference it is compared with: two
session-model endpoints that hand each other the frames they write (`Link`).

## What the tester's acceptor is
`conn_accept` is a plain `AsyncFIXConnection` (the base class, NOT `AsyncFIXDummyServer`) built on a
fresh in-memory journal with the CompIDs of the initiator swapped, heartbeat 30, and then patched by hand:
`_connection_state = NETWORK_CONN_ESTABLISHED`, `next_num_out / next_num_in` copied crosswise from the
initiator's session (the journal's stored counters are NOT touched), `_socket_writer` a mock whose
`write` hands the frame to the initiator.  `mkAcceptor` is that object.  Differences to a real acceptor
endpoint after `_handle_accept` (`realAcceptor`):

* role is `UNKNOWN` instead of `ACCEPTOR` until the first Logon arrives (`_process_message` assigns it);
* `on_connect` is never called; `connect()` is never called: no reader task, no heartbeat task
  (`_socket_reader` stays `None`), so nothing is ever sent spontaneously and nothing times out;
* the hooks are the base class's: `on_message` raises `NotImplementedError`, which
  `_process_message` swallows (`caught`) – `is_valid_msg_num` is already assigned, so
  `_finalize_message` still runs (`accView` maps the model's `deliver` to that);
* what the acceptor itself sends (Logon reply, Heartbeat for a TestRequest, …) goes through its real
  `send_msg` (state checks, journal) and is handed to the initiator's `_process_message` INSIDE the
  acceptor's `drain()`, i.e. in the middle of the acceptor's handler; an exception escaping the
  initiator there would propagate into the acceptor's handler (`nestedRaise`: outside the model);
* what the test sends on the acceptor's behalf (`reply`) does NOT go through `send_msg`: it is encoded
  with the acceptor's session (consuming its `next_num_out`; `raw_seq_num` when the message carries 34)
  and handed to the initiator (latin-1 bytes, as `send_msg`; fix bcdee93) – no state check, no TestRequest
  bookkeeping, NO journal row.
-/
namespace AsyncFix.Tester

open AsyncFix.Session AsyncFix.Generated.ConnEnum

/-- frames written, in order -/
def writes : List Effect → List Msg
  | [] => []
  | .write f :: r => f :: writes r
  | _ :: r => writes r

def isRaised : Effect → Bool
  | .raised _ => true
  | _ => false

def hasRaised (es : List Effect) : Bool := es.any isRaised

/-- `FIXTester.__init__` (l.51-87): the simulated acceptor for initiator `ci` -/
def mkAcceptor (ci : Conn) : Conn :=
  { state := st_NETWORK_CONN_ESTABLISHED, role := roleUnknown, wasActive := false,
    sess := { sender := ci.sess.target, target := ci.sess.sender,
              nextIn := ci.sess.nextOut, nextOut := ci.sess.nextIn },
    maxResend := 0, testReqId := none, lastTime := 0, hb := 30, sock := true, journal := {} }

/-- a real acceptor endpoint for the same initiator after `_handle_accept`: an `AsyncFIXDummyServer` over a
journal without rows whose stored counters mirror the initiator's (`Journaler.set_seq_num`) -/
def realAcceptor (ci : Conn) : Conn :=
  (connected (Conn.create ci.sess.target ci.sess.sender
    { outSeq := ci.sess.nextIn - 1, inSeq := ci.sess.nextOut - 1 } 30 roleAcceptor) .acceptor).1

/-- the tester's acceptor has the base-class hooks: `on_message` raises NotImplementedError inside the
`try` of `_process_message` (swallowed and logged).  The session model records the call as
`deliver m`; this is how it shows on the tester's acceptor.  (`Exc` has no kind for
NotImplementedError, hence a separate observation type.) -/
inductive AccObs
  | eff (e : Effect)
  | swallowedNotImplemented (m : Msg)
  deriving DecidableEq, Repr

def accView : Effect → AccObs
  | .deliver m => .swallowedNotImplemented m
  | e => .eff e

/-! ### the tester -/

structure TPair where
  ci : Conn
  ca : Conn
  que : List Msg := []     -- `acceptor_rcv_que` (frames; the decoded message and its bytes are one `Msg`)
  deriving DecidableEq, Repr

inductive Outcome
  | done
  | emptyQueue     -- `assert self.acceptor_rcv_que` of `process_msg_acceptor`
  | accRaised      -- the acceptor's `_process_message` let an exception escape (loop aborted)
  | nestedRaise    -- the initiator's nested `_process_message` let one escape into the acceptor's handler
  | outOfFuel      -- the `while self.acceptor_rcv_que` loop did not end within the fuel
  | replyRaised    -- `reply` raised (the encoder, `.encode("latin-1")`, or the initiator)
  deriving DecidableEq, Repr

structure TRes where
  pair : TPair
  effI : List Effect := []   -- initiator's trace
  effA : List Effect := []   -- acceptor's trace (model view; see `accView`)
  out : Outcome := .done
  deriving Repr

/-- `_conn_socket_write_initiator`: every frame the initiator writes is decoded and queued -/
def queueWrites (p : TPair) (ci : Conn) (e : List Effect) : TPair :=
  { p with ci := ci, que := p.que ++ writes e }

/-- `await conn_init.send_msg(m)` -/
def tSend (env : Env) (p : TPair) (m : Msg) : TRes :=
  let (ci1, e) := appSend env p.ci m
  { pair := queueWrites p ci1 e, effI := e }

/-- `await conn_init.send_test_req()` -/
def tTestReq (env : Env) (p : TPair) : TRes :=
  let (ci1, e) := appTestReq env p.ci
  { pair := queueWrites p ci1 e, effI := e }

/-- the initiator's `_process_message` calls nested in the acceptor's `drain()`s, one per frame the
acceptor wrote; `true` = one of them let an exception escape -/
def nestedFeed (sr : Msg → Bool) (env : Env) : Conn → List Msg → Conn × List Effect × Bool
  | c, [] => (c, [], false)
  | c, f :: r =>
    let (c1, e1) := recv sr env c f
    if hasRaised e1 then (c1, e1, true)
    else
      let (c2, e2, b) := nestedFeed sr env c1 r
      (c2, e1 ++ e2, b)

/-- one iteration of the loop of `process_msg_acceptor` on frame `f` (already popped) -/
def procOne (srI srA : Msg → Bool) (env : Env) (p : TPair) (f : Msg) : TRes :=
  let (ca1, eA) := recv srA env p.ca f
  let (ci1, eI, bad) := nestedFeed srI env p.ci (writes eA)
  { pair := queueWrites { p with ca := ca1 } ci1 eI, effI := eI, effA := eA,
    out := if bad then .nestedRaise else if hasRaised eA then .accRaised else .done }

/-- `while self.acceptor_rcv_que: pop(0); await conn_accept._process_message(…)` -/
def procLoop (srI srA : Msg → Bool) (env : Env) : Nat → TPair → TRes
  | _, ⟨ci, ca, []⟩ => { pair := ⟨ci, ca, []⟩ }
  | 0, p => { pair := p, out := .outOfFuel }
  | fuel + 1, ⟨ci, ca, f :: q⟩ =>
    let r1 := procOne srI srA env ⟨ci, ca, q⟩ f
    match r1.out with
    | .done =>
      let r2 := procLoop srI srA env fuel r1.pair
      { pair := r2.pair, effI := r1.effI ++ r2.effI, effA := r1.effA ++ r2.effA, out := r2.out }
    | _ => r1

/-- `await ft.process_msg_acceptor()` (index None) -/
def tProcAll (srI srA : Msg → Bool) (env : Env) (fuel : Nat) (p : TPair) : TRes :=
  if p.que.isEmpty then { pair := p, out := .emptyQueue } else procLoop srI srA env fuel p

/-- sequence number `reply` encodes with: `raw_seq_num = FTag.MsgSeqNum in msg` -/
def replySeq (m : Msg) : M Int :=
  if m.has tMsgSeqNum then do
    let v ← M.liftE (m.get tMsgSeqNum)
    M.int v
  else encodeSeq m

/-- `await ft.reply(m)` (l.179-204), schema none.  Text outside latin-1: `.encode("latin-1")` raises
UnicodeEncodeError (a ValueError) AFTER the acceptor's number was consumed. -/
def tReply (srI : Msg → Bool) (env : Env) (p : TPair) (m : Msg) : TRes :=
  match replySeq m p.ca with
  | ⟨.error ex, ca1, _⟩ => { pair := { p with ca := ca1 }, effA := [.raised ex], out := .replyRaised }
  | ⟨.ok seq, ca1, _⟩ =>
    let frame := buildFrame ca1.sess env.stamp m seq
    if !frameLatin1 frame then { pair := { p with ca := ca1 }, effA := [.raised .value], out := .replyRaised }
    else
      let (ci1, eI) := recv srI env p.ci frame
      { pair := queueWrites { p with ca := ca1 } ci1 eI, effI := eI, effA := [.write frame],
        out := if hasRaised eI then .replyRaised else .done }

/-- one step of a test script against the tester; after every step the test drains the queue when
there is something in it -/
inductive Op
  | iSend (m : Msg)      -- `await conn.send_msg(m)`
  | iTestReq             -- `await conn.send_test_req()`
  | aSend (m : Msg)      -- tester: `await ft.reply(m)`; real acceptor: `await acc.send_msg(m)`
  | aTestReq             -- tester: `await ft.reply(ft.msg_test_request(int(time.time())))`; real: `send_test_req()`
  deriving DecidableEq, Repr

def testReqMsg (env : Env) : Msg := Msg.mk' mTestRequest [(tTestReqID, pyStr env.secs)]

def drainAfter (srI srA : Msg → Bool) (env : Env) (fuel : Nat) (r : TRes) : TRes :=
  match r.out with
  | .done =>
    if r.pair.que.isEmpty then r
    else
      let r2 := procLoop srI srA env fuel r.pair
      { pair := r2.pair, effI := r.effI ++ r2.effI, effA := r.effA ++ r2.effA, out := r2.out }
  | _ => r

def tStep (srI srA : Msg → Bool) (env : Env) (fuel : Nat) (p : TPair) : Op → TRes
  | .iSend m => drainAfter srI srA env fuel (tSend env p m)
  | .iTestReq => drainAfter srI srA env fuel (tTestReq env p)
  | .aSend m => drainAfter srI srA env fuel (tReply srI env p m)
  | .aTestReq => drainAfter srI srA env fuel (tReply srI env p (testReqMsg env))

/-! ### the reference: two endpoints exchanging frames directly -/

structure LRes where
  ci : Conn
  ca : Conn
  effI : List Effect
  effA : List Effect
  quiet : Bool     -- nothing left in flight after three legs
  deriving Repr

/-- the sender acts, the receiver's read loop takes the frames (`feed`), the sender's read loop takes
the answers, the receiver's takes the answers to those -/
def exchange (srS srR : Msg → Bool) (env : Env) (snd rcv : Conn) (ev : Event) :
    Conn × Conn × List Effect × List Effect × Bool :=
  let (s1, e1) := step srS snd ev
  let (r1, e2, _) := feed srR env rcv (writes e1)
  let (s2, e3, _) := feed srS env s1 (writes e2)
  let (r2, e4, _) := feed srR env r1 (writes e3)
  (s2, r2, e1 ++ e3, e2 ++ e4, (writes e4).isEmpty)

def lStep (srI srA : Msg → Bool) (env : Env) (ci ca : Conn) : Op → LRes
  | .iSend m =>
    let (i, a, eI, eA, q) := exchange srI srA env ci ca (.appSend env m)
    ⟨i, a, eI, eA, q⟩
  | .iTestReq =>
    let (i, a, eI, eA, q) := exchange srI srA env ci ca (.appTestReq env)
    ⟨i, a, eI, eA, q⟩
  | .aSend m =>
    let (a, i, eA, eI, q) := exchange srA srI env ca ci (.appSend env m)
    ⟨i, a, eI, eA, q⟩
  | .aTestReq =>
    let (a, i, eA, eI, q) := exchange srA srI env ca ci (.appTestReq env)
    ⟨i, a, eI, eA, q⟩

/-- scripts -/
def tRun (srI srA : Msg → Bool) (fuel : Nat) : TPair → List (Env × Op) → TRes
  | p, [] => { pair := p }
  | p, (env, op) :: rest =>
    let r1 := tStep srI srA env fuel p op
    match r1.out with
    | .done =>
      let r2 := tRun srI srA fuel r1.pair rest
      { pair := r2.pair, effI := r1.effI ++ r2.effI, effA := r1.effA ++ r2.effA, out := r2.out }
    | _ => r1

def lRun (srI srA : Msg → Bool) : Conn → Conn → List (Env × Op) → LRes
  | ci, ca, [] => ⟨ci, ca, [], [], true⟩
  | ci, ca, (env, op) :: rest =>
    let r1 := lStep srI srA env ci ca op
    let r2 := lRun srI srA r1.ci r1.ca rest
    ⟨r2.ci, r2.ca, r1.effI ++ r2.effI, r1.effA ++ r2.effA, r1.quiet && r2.quiet⟩

end AsyncFix.Tester
