/-
Model of `SchemaField.validate_value` (asyncfix/protocol/schema.py, as of /repo commit 31078f3 + notes/candidate_fix_lex_multivalue_enum.diff) and
of the validators it dispatches to, branch for branch including the branches that raise.

  validate_value            ↦ validateValue      (guard, enumerated `values`, type dispatch, special cases)
  _validate_value_number    ↦ validateNumber
  _validate_value_str       ↦ validateStr
  _validate_value_datetime  ↦ validateDatetime
  _validate_value_monthyear ↦ validateMonthYear
  _validate_special_cases   ↦ specialCases

CPython's int() / float() / re / strptime are the models of AsyncFix/Py.
Order of the checks is the code's order (int()/float()/strptime first, the lexical `re.fullmatch`
guards added by 25584fa / 31078f3 after them), although every failure ends in the same error text.  Mathlib-free, executable.
-/
import AsyncFix.Py.PyStr
import AsyncFix.Py.PyFloatLex
import AsyncFix.Py.PyStrptime
import AsyncFix.Py.PyRe
namespace AsyncFix.Model.Lexical
open AsyncFix.Py

/-- interpreter setting that the validators depend on -/
structure Cfg where
  /-- `sys.get_int_max_str_digits()`; 0 = unlimited -/
  maxStrDigits : Nat := 4300

/-- outcome of `validate_value` -/
inductive Res
  | ok                       -- returns True
  | fme                      -- raises FIXMessageError
  | raised (kind : String)   -- any other exception escapes
  deriving DecidableEq, Repr

/-- outcome of one `_validate_value_*` helper: `None`, an error text, or an escaping exception -/
inductive VRes
  | pass
  | err
  | raised (kind : String)
  deriving DecidableEq, Repr

/-- a Python argument: a `str` or anything else -/
inductive PyVal
  | str (s : Str)
  | other
  deriving DecidableEq, Repr

/-- the dispatch branches of `validate_value` -/
inductive FType
  | int | posInt | dayOfMonth | float
  | string | char | boolean
  | code (maxLen : Nat)         -- COUNTRY 2, CURRENCY 3, EXCHANGE 4
  | date | timestamp | timeOnly | monthYear
  | unchecked                   -- DATA, LENGTH: "just hoping the data is ok"
  | unsupported                 -- anything else: warnings.warn, no check
  deriving DecidableEq, Repr

/-- `t = self.ftype.upper()` followed by the if/elif chain (type names are ASCII) -/
def classify (ftype : String) : FType :=
  let t := ftype.toUpper
  if t == "INT" then .int
  else if t == "SEQNUM" || t == "NUMINGROUP" then .posInt
  else if t == "DAYOFMONTH" then .dayOfMonth
  else if t == "FLOAT" || t == "QTY" || t == "PRICE" || t == "PRICEOFFSET" || t == "AMT" || t == "PERCENTAGE" then .float
  else if t == "STRING" || t == "MULTIPLESTRINGVALUE" || t == "MULTIPLEVALUESTRING" then .string
  else if t == "CHAR" then .char
  else if t == "BOOLEAN" then .boolean
  else if t == "COUNTRY" then .code 2
  else if t == "CURRENCY" then .code 3
  else if t == "EXCHANGE" then .code 4
  else if t == "LOCALMKTDATE" || t == "UTCDATEONLY" then .date
  else if t == "UTCTIMESTAMP" then .timestamp
  else if t == "UTCTIMEONLY" then .timeOnly
  else if t == "MONTHYEAR" then .monthYear
  else if t == "DATA" || t == "LENGTH" then .unchecked
  else .unsupported

inductive NumType | int | float
  deriving DecidableEq, Repr

/-- `_validate_value_number(value, num_type, no_zero, no_negative, no_nonfinite, num_range)`.
The `try … except ValueError` turns every ValueError into an error text.  `float(v)` of an int
raises OverflowError (not caught) when |v| ≥ 2^1024 − 2^970. -/
def validateNumber (cfg : Cfg) (nt : NumType) (noZero noNegative noNonfinite : Bool)
    (range : Option (Int × Int)) (s : Str) : VRes :=
  if s.isEmpty then .raised "Assertion"
  else match nt with
    | .int =>
      match pyInt cfg.maxStrDigits s with
      | none => .err
      | some v =>
        if noZero && v == 0 then .err
        else if noNegative && decide (v < 0) then .err
        else if noNonfinite && decide (floatInfThreshold ≤ v.natAbs) then .raised "Overflow"
        else if !reIntLexical s then .err
        else match range with
          | some (lo, hi) => if decide (lo ≤ v) && decide (v ≤ hi) then .pass else .err
          | none => .pass
    | .float =>
      -- no caller combines float with no_zero / no_negative / num_range; the model does not compute
      -- the float's sign or magnitude, so those combinations are outside it
      if noZero || noNegative || range.isSome then .raised "Unmodelled"
      else match pyFloat s with
        | .valueError => .err
        | .nonFinite => if noNonfinite then .err else if reFloatLexical s then .pass else .err
        | .finite => if reFloatLexical s then .pass else .err

/-- `_validate_value_str(value, max_len, subset, alpha_num)`; `max_len`/`subset` are tested for
truthiness first (`if max_len and …`) -/
def validateStr (maxLen : Option Nat) (subset : Option (List Str)) (alphaNum : Bool) (s : Str) : VRes :=
  if s.isEmpty then .raised "Assertion"
  else if s.contains 1 then .err
  else if s.contains 61 then .err
  else if (match maxLen with
      | some n => decide (n ≠ 0) && decide (n < s.length)
      | none => false) then .err
  else if (match subset with
      | some set => !set.isEmpty && !set.contains s
      | none => false) then .err
  else if alphaNum && reHasNonAlnum s then .err
  else .pass

/-- `_validate_value_datetime(value, format)`: a '.' in the value switches a format with %S and
without %f to `format + ".%f"`; every exception of strptime becomes an error text; then the
fixed-width layout of the (possibly extended) format must match the whole value -/
def validateDatetime (s : Str) (fmt : List Dir) : VRes :=
  let fmt' := if s.contains 46 && fmt.contains .S && !fmt.contains .f then fmt ++ [.lit 46, .f] else fmt
  match strptime fmt' s with
  | .ok _ => if layoutMatch fmt' s then .pass else .err
  | _ => .err

def fmtYmd : List Dir := [.Y, .m, .d]
def fmtYm : List Dir := [.Y, .m]
def fmtHMS : List Dir := [.H, .lit 58, .M, .lit 58, .S]
def fmtTimestamp : List Dir := [.Y, .m, .d, .lit 45, .H, .lit 58, .M, .lit 58, .S]

def weekCodes : List Str := [[119, 49], [119, 50], [119, 51], [119, 52], [119, 53]]

/-- `_validate_value_monthyear(value)`; `value[-2:]` / `value[:-2]` are `drop (len-2)` / `take (len-2)`
with truncated subtraction -/
def validateMonthYear (s : Str) : VRes :=
  if s.contains 119 then
    let week := s.drop (s.length - 2)
    if !weekCodes.contains week then .err
    else
      let v := s.take (s.length - 2)
      if v.length ≠ 6 then .err
      else validateDatetime v fmtYm
  else if s.length = 6 then validateDatetime s fmtYm
  else validateDatetime s fmtYmd

/-- the type dispatch of `validate_value` (the `else:` branch up to `_validate_special_cases`) -/
def validateTyped (cfg : Cfg) (t : FType) (s : Str) : VRes :=
  match t with
  | .int => validateNumber cfg .int false false false none s
  | .posInt => validateNumber cfg .int true true false none s
  | .dayOfMonth => validateNumber cfg .int false false false (some (1, 31)) s
  | .float => validateNumber cfg .float false false true none s
  | .string => validateStr none none false s
  | .char => validateStr (some 1) none false s
  | .boolean => validateStr (some 1) (some [[89], [78]]) false s
  | .code n => validateStr (some n) none true s
  | .date => validateDatetime s fmtYmd
  | .timestamp => validateDatetime s fmtTimestamp
  | .timeOnly => validateDatetime s fmtHMS
  | .monthYear => validateMonthYear s
  | .unchecked => .pass
  | .unsupported => .pass        -- warnings.warn(...); err stays None

/-- `_validate_special_cases`: EndSeqNo(16) = "0" is always fine -/
def specialCases (tag16 : Bool) (s : Str) (prev : VRes) : VRes :=
  if tag16 && s == [48] then .pass else prev

/-- `self.ftype.upper() in {"MULTIPLEVALUESTRING", "MULTIPLESTRINGVALUE"}` -/
def isMultiName (ftype : String) : Bool :=
  let t := ftype.toUpper
  t == "MULTIPLEVALUESTRING" || t == "MULTIPLESTRINGVALUE"

/-- `value.split(" ")`: split at every single blank, empty tokens kept -/
def splitBlank : Str → List Str
  | [] => [[]]
  | c :: cs =>
    if c = 32 then [] :: splitBlank cs
    else match splitBlank cs with
      | t :: ts => (c :: t) :: ts
      | [] => [[c]]

/-- a schema field as far as validate_value reads it: `self.tag == "16"`, the dispatch branch of
`self.ftype`, whether the type name is one of the two MultipleValueString spellings, the keys of `self.values` -/
structure Field where
  tag16 : Bool := false
  ftype : FType
  multi : Bool := false
  values : List Str := []

/-- `SchemaField.validate_value(value)` -/
def validateValue (cfg : Cfg) (f : Field) (v : PyVal) : Res :=
  match v with
  | .other => .fme                      -- not isinstance(value, str)
  | .str s =>
    if s.isEmpty then .fme               -- not value
    else if !f.values.isEmpty then
      -- enumerated MultipleValueString: every blank-separated token must be enumerated
      let isMember := if f.multi then (splitBlank s).all f.values.contains else f.values.contains s
      if isMember then .ok else .fme
    else
      match validateTyped cfg f.ftype s with
      | .raised k => .raised k
      | r =>
        match specialCases f.tag16 s r with
        | .pass => .ok
        | .err => .fme
        | .raised k => .raised k

end AsyncFix.Model.Lexical
