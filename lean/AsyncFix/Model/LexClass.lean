/-
The open findings of C19 as explicit, decidable predicates on the value string.

`narrow` (implementation too narrow) is stated on the SPEC side only: digit count, magnitude, '=',
year 0000, second 60.  `deviation` (implementation too wide): six fraction digits in times
(pinned by tests/test_protocol_schema.py) and the unvalidated Length type (pinned as well).
`Props/C19.lean` proves, for all strings,  accepted ↔ (spec ∧ ¬ narrow) ∨ deviation.
Each (family, mark) pair is one known-finding signature of harness/c19.py.
-/
import AsyncFix.Model.Lexical
import AsyncFix.Model.LexSpec
namespace AsyncFix.Model.LexClass
open AsyncFix.Py AsyncFix.Model.Lexical AsyncFix.Model

/-- the `int_max_str_digits` guard of int(): `n` digits are converted -/
def digitLimitOk (maxDigits n : Nat) : Bool :=
  !(decide (640 < n) && decide (0 < maxDigits) && decide (maxDigits < n))

/-- `-?` removed -/
def dropMinus : Str → Str
  | 45 :: r => r
  | r => r

/-- more digits than `int()` converts (sys.get_int_max_str_digits) -/
def overDigitLimit (cfg : Cfg) (s : Str) : Bool := !digitLimitOk cfg.maxStrDigits (dropMinus s).length

/-- |value| ≥ 2^1024 − 2^970 of a spec float `[-]digits[.digits]`: float() returns inf -/
def floatOverflow (s : Str) : Bool :=
  let b := dropMinus s
  let ds := (b.filter isAsciiDigit).map (· - 48)
  !decFinite (decVal ds) ds.length (- (((b.dropWhile isAsciiDigit).filter isAsciiDigit).length : Int))

def hasEquals (s : Str) : Bool := s.contains 61
def year0000 (s : Str) : Bool := s.take 4 == [48, 48, 48, 48]
/-- seconds field "60" of HH:MM:SS… -/
def second60 (tm : Str) : Bool := (tm.drop 6).take 2 == [54, 48]

/-- the explicit "too narrow" set per dispatch branch (meaningful for spec strings) -/
def narrow (cfg : Cfg) : FType → Str → Bool
  | .int, s => overDigitLimit cfg s
  | .posInt, s => overDigitLimit cfg s
  | .dayOfMonth, s => overDigitLimit cfg s
  | .float, s => floatOverflow s
  | .string, s => hasEquals s
  | .char, s => hasEquals s
  | .date, s => year0000 s
  | .monthYear, s => year0000 s
  | .timestamp, s => year0000 s || second60 (s.drop 9)
  | .timeOnly, s => second60 s
  | _, _ => false

/-- a time with SIX fraction digits whose first three give a valid, accepted FIX time:
`n` = length of the value without fraction (8 for HH:MM:SS, 17 for a timestamp) -/
def sixFractionDigits (cfg : Cfg) (t : FType) (spec : Str → Bool) (n : Nat) (s : Str) : Bool :=
  decide (s.length = n + 7) && spec (s.take (n + 4)) && !narrow cfg t (s.take (n + 4)) &&
    (s.drop (n + 4)).all isAsciiDigit

/-- the explicit "too wide" set per dispatch branch -/
def deviation (cfg : Cfg) : FType → Str → Bool
  | .timeOnly, s => sixFractionDigits cfg .timeOnly LexSpec.isTimeOnly 8 s
  | .timestamp, s => sixFractionDigits cfg .timestamp LexSpec.isTimestamp 17 s
  | _, _ => false

/-! ### names (= finding signatures `C19-<family>:<mark>`) -/

def narrowMarks (cfg : Cfg) (t : FType) (s : Str) : List String :=
  match t with
  | .int | .posInt | .dayOfMonth => if overDigitLimit cfg s then ["digit-limit"] else []
  | .float => if floatOverflow s then ["overflow"] else []
  | .string | .char => if hasEquals s then ["equals-sign"] else []
  | .date | .monthYear => if year0000 s then ["year-0000"] else []
  | .timestamp => (if year0000 s then ["year-0000"] else []) ++ (if second60 (s.drop 9) then ["second-60"] else [])
  | .timeOnly => if second60 s then ["second-60"] else []
  | _ => []

end AsyncFix.Model.LexClass
