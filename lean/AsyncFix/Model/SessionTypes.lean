import AsyncFix.Model.SessionPy
import AsyncFix.Generated.ConnEnum
import AsyncFix.Generated.Proto

/-!
Session family, data types: `Msg`, `Effect`, `Session`, `Journal`, `Conn`, `Env`.

## `Msg`  (asyncfix/message.py `FIXMessage`)
`mtype` is `msg.msg_type` (an `FMsg` member compares and hashes by its string value, so a string is exact),
`tags` is the ordered dict `msg.tags` (`str(tag) ↦ str(value)`, insertion order).

Modelling restrictions on messages (stated once, used everywhere):
* tags are canonical decimal naturals (`"58"`, never `"058"` / `" 58"`, which Python would treat as
  different keys);
* no repeating groups and no tag that the decoder recorded as repeated (`RepeatingTagError` value):
  the session layer never looks into groups; application payload travels in ordinary tags (e.g. 58);
* values contain no SOH; a message decoded from a frame lists its fields in wire order
  `8, 9, 35, 49, 56, 34, 52, …, 10` (the frame ↔ `Msg` relation is the Codec family's theorem C01).
-/
namespace AsyncFix.Session

open AsyncFix.Generated

/-! ### tag and message-type constants (FIX 4.4 `FTag` / `FMsg` values) -/
def tBeginSeqNo : Nat := 7
def tBeginString : Nat := 8
def tBodyLength : Nat := 9
def tCheckSum : Nat := 10
def tEndSeqNo : Nat := 16
def tMsgSeqNum : Nat := 34
def tMsgType : Nat := 35
def tNewSeqNo : Nat := 36
def tPossDupFlag : Nat := 43
def tSenderCompID : Nat := 49
def tSendingTime : Nat := 52
def tTargetCompID : Nat := 56
def tText : Nat := 58
def tEncryptMethod : Nat := 98
def tHeartBtInt : Nat := 108
def tTestReqID : Nat := 112
def tOrigSendingTime : Nat := 122
def tGapFillFlag : Nat := 123

def mHeartbeat : String := "0"
def mTestRequest : String := "1"
def mResendRequest : String := "2"
def mReject : String := "3"
def mSequenceReset : String := "4"
def mLogout : String := "5"
def mLogon : String := "A"

structure Msg where
  mtype : String
  tags : List (Nat × String) := []
  deriving DecidableEq, Repr, Inhabited

namespace Msg

def lookup (t : Nat) : List (Nat × String) → Option String
  | [] => none
  | (k, v) :: r => if k = t then some v else lookup t r

/-- `msg.get(tag, None)` -/
def get? (m : Msg) (t : Nat) : Option String := lookup t m.tags

/-- `tag in msg` -/
def has (m : Msg) (t : Nat) : Bool := (m.get? t).isSome

/-- `msg[tag]`; raises TagNotFoundError -/
def get (m : Msg) (t : Nat) : Except Exc String :=
  match m.get? t with
  | some v => .ok v
  | none => .error .tagNotFound

def replaceVal (t : Nat) (v : String) : List (Nat × String) → List (Nat × String)
  | [] => []
  | (k, w) :: r => if k = t then (k, v) :: r else (k, w) :: replaceVal t v r

/-- `msg.set(tag, value, replace)`: an existing key keeps its position (dict assignment),
a new key is appended; without `replace` an existing key raises DuplicatedTagError. -/
def set (m : Msg) (t : Nat) (v : String) (replace : Bool := false) : Except Exc Msg :=
  if m.has t then
    if replace then .ok { m with tags := replaceVal t v m.tags } else .error .duplicatedTag
  else .ok { m with tags := m.tags ++ [(t, v)] }

/-- `del msg[tag]`; KeyError when absent -/
def del (m : Msg) (t : Nat) : Except Exc Msg :=
  if m.has t then .ok { m with tags := m.tags.filter fun p => p.1 ≠ t } else .error .key

/-- `FIXMessage(mtype, {…})` of the session layer's own constructions (all tags distinct). -/
def mk' (mtype : String) (tags : List (Nat × String)) : Msg := { mtype := mtype, tags := tags }

/-- the `FIXMessage` the decoder builds from a field list: `msg_type` is the value of tag 35
(`"UNKNOWN"` when the frame has none). -/
def ofFields (fs : List (Nat × String)) : Msg :=
  { mtype := (lookup tMsgType fs).getD "UNKNOWN", tags := fs }

end Msg

/-! ### Effects -/
inductive Effect
  | write (frame : Msg)        -- `_socket_writer.write(bytes)`; the frame as the decoder reads it back
  | deliver (m : Msg)          -- `on_message(m)`
  | onLogon (healthy : Bool)   -- `on_logon(is_healthy)`
  | onLogout (m : Msg)         -- `on_logout(m)`
  | onDisconnect               -- `on_disconnect()`
  | onState (s : Nat)          -- `on_state_change(s)`
  | onConnect                  -- `on_connect()` (transport set-up only)
  | closeSocket                -- `_socket_writer.close()` + `wait_closed()`
  | caught (k : Exc)           -- `except Exception: self.log.exception(…)` inside `_process_message`
  | raised (k : Exc)           -- exception escaping the top-level entry point
  deriving DecidableEq, Repr, Inhabited

/-! ### Session (asyncfix/session.py) -/
structure Session where
  sender : String
  target : String
  nextIn : Int := 1
  nextOut : Int := 1
  deriving DecidableEq, Repr, Inhabited

/-! ### Abstract journal (asyncfix/journaler.py restricted to one session)

Rows are kept strictly ascending by sequence number (SQLite primary key + `ORDER BY seqNo`); a row
holds the frame as the decoder reads it back.  `outSeq` / `inSeq` are the columns
`session.outboundSeqNo` / `inboundSeqNo`.  That the SQLite journaler behaves like this store is
property C13 (Journal family).  Restriction: numbers fit SQLite's 64-bit INTEGER. -/
abbrev Rows := List (Int × Msg)

structure Journal where
  out : Rows := []
  inb : Rows := []
  outSeq : Int := 0
  inSeq : Int := 0
  deriving DecidableEq, Repr, Inhabited

namespace Rows

/-- insert keeping the order; `none` = primary-key violation (IntegrityError) -/
def insert (k : Int) (m : Msg) : Rows → Option Rows
  | [] => some [(k, m)]
  | (k', m') :: r =>
    if k < k' then some ((k, m) :: (k', m') :: r)
    else if k = k' then none
    else (insert k m r).map fun r' => (k', m') :: r'

/-- `DELETE … WHERE seqNo >= n` -/
def below (n : Int) (rs : Rows) : Rows := rs.filter fun p => p.1 < n

/-- `SELECT … WHERE seqNo >= b AND seqNo <= e ORDER BY seqNo` -/
def range (b e : Int) (rs : Rows) : Rows := rs.filter fun p => b ≤ p.1 && p.1 ≤ e

def find (k : Int) : Rows → Option Msg
  | [] => none
  | (k', m) :: r => if k = k' then some m else find k r

end Rows

inductive Dir | inbound | outbound
  deriving DecidableEq, Repr

namespace Journal

/-- `persist_msg` after `find_seq_no` produced `seq`: insert the row and set the stored counter of
that direction to `seq`; `none` = DuplicateSeqNoError, nothing changed. -/
def persist (j : Journal) (d : Dir) (seq : Int) (m : Msg) : Option Journal :=
  match d with
  | .outbound => (j.out.insert seq m).map fun r => { j with out := r, outSeq := seq }
  | .inbound => (j.inb.insert seq m).map fun r => { j with inb := r, inSeq := seq }

/-- the SQL part of `set_seq_num` (both counters written, rows `≥` deleted in both directions) -/
def setSeq (j : Journal) (nextOut nextIn : Int) : Journal :=
  { out := j.out.below nextOut, inb := j.inb.below nextIn,
    outSeq := nextOut - 1, inSeq := nextIn - 1 }

/-- `recover_messages(session, OUTBOUND, b, e)` -/
def recoverOut (j : Journal) (b e : Int) : List Msg := (j.out.range b e).map (·.2)

end Journal

/-! ### Connection -/
/-- `AsyncFIXConnection` fields the session layer reads or writes.

* `state`, `role`: ordinals of `ConnectionState` / `ConnectionRole` (`Generated.ConnEnum`), compared
  exactly as the code compares them;
* `lastTime`: `_message_last_time` in milliseconds (`0` = the code's `0.0`, which is falsy);
* `testReqId`: `_test_req_id` (seconds, `int(time.time())`); `some 0` is not `None` but falsy;
* `sock`: `_socket_writer` and `_socket_reader` are set (the code sets and clears them together);
* `hb`: `_heartbeat_period` in seconds. -/
structure Conn where
  state : Nat := ConnEnum.st_DISCONNECTED_NOCONN_TODAY
  role : Nat := 0
  wasActive : Bool := false
  sess : Session
  maxResend : Int := 0
  testReqId : Option Int := none
  lastTime : Int := 0
  hb : Int := 30
  sock : Bool := false
  journal : Journal := {}
  deriving DecidableEq, Repr, Inhabited

def roleUnknown : Nat := 0
def roleInitiator : Nat := 1
def roleAcceptor : Nat := 2

/-- what the patched clock shows during one event: `now` = `time.time()` in milliseconds,
`stamp` = `Codec.current_datetime()` (SendingTime text). -/
structure Env where
  now : Int
  stamp : String
  deriving DecidableEq, Repr, Inhabited

/-- `int(time.time())` (time is non-negative) -/
def Env.secs (e : Env) : Int := e.now / 1000

/-- `AsyncFIXConnection.__init__` + `Journaler.create_or_load`: counters are the stored ones + 1. -/
def Conn.create (sender target : String) (j : Journal) (hb : Int) (role : Nat) : Conn :=
  { role := role, hb := hb, journal := j,
    sess := { sender := sender, target := target, nextIn := j.inSeq + 1, nextOut := j.outSeq + 1 } }

end AsyncFix.Session
