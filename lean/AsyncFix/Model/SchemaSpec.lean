/-
Specification side of C15: `Allowed vv sch m` — "message `m` is built according to dictionary
`sch`".  Written declaratively (membership, quantifiers, sortedness), without reference to the
functions that model the library's validator (Model/Schema.lean `validate…`).

  * the message type is declared;
  * every required member of the message – field or group – is present;
  * if BeginString (8) is present the message claims to carry its header: every required header
    member is present;
  * every node except CheckSum (10, the framing layer's field, see C01/C02/C10) carries a tag
    that is declared in `<fields>` and is an acceptable instance (`NodeOk`) of a member of the
    header, of the trailer, or of the message – header and trailer members belong to every
    message;
  * `NodeOk`: a field member takes a plain, non-empty string that is valid for the field
    (`vv`); a group member takes a list of items, each `ItemOk` for the group's member list;
  * `ItemOk`: every tag is a member of the group, every node is acceptable for the member
    with its tag (recursively), members appear in dictionary order, the group's first member
    is present, every required member (field or nested group) is present.
-/
import AsyncFix.Model.Schema
namespace AsyncFix.Model.Schema

def nodeTags (ns : List Node) : List Tag := ns.map Node.tag

/-- position of tag `t` in the member list (`length` when absent) -/
def idxOf (gm : List Member) (t : Tag) : Nat := (memberTags gm).idxOf t

mutual
inductive NodeOk (vv : Tag → String → Bool) : Member → Node → Prop
  | field {t : Tag} {r : Bool} {s : String} :
      s ≠ "" → vv t s = true → NodeOk vv (.field t r) (.plain t s)
  | group {t : Tag} {r : Bool} {gm : List Member} {items : List (List Node)} :
      (∀ it, it ∈ items → ItemOk vv gm it) → NodeOk vv (.group t r gm) (.group t items)
inductive ItemOk (vv : Tag → String → Bool) : List Member → List Node → Prop
  | mk {gm : List Member} {it : List Node} :
      (∀ n, n ∈ it → n.tag ∈ memberTags gm) →                       -- tags ⊆ members
      (∀ n, n ∈ it → ∀ mem, mem ∈ gm → mem.tag = n.tag → NodeOk vv mem n) →  -- kinds, values, nesting
      it.Pairwise (fun a b => idxOf gm a.tag ≤ idxOf gm b.tag) →    -- dictionary order
      (∃ m0 rest, gm = m0 :: rest ∧ m0.tag ∈ nodeTags it) →         -- first member present
      (∀ mem, mem ∈ gm → mem.req = true → mem.tag ∈ nodeTags it) →  -- required members present
      ItemOk vv gm it
end

/-- the tag is declared in `<fields>` -/
def Schema.declares (sch : Schema) (t : Tag) : Prop := ∃ f, f ∈ sch.fields ∧ f.tag = t

def Allowed (vv : Tag → String → Bool) (sch : Schema) (m : Msg) : Prop :=
  ∃ ms, (m.msgType, ms) ∈ sch.messages ∧
    (∀ mem, mem ∈ ms → mem.req = true → mem.tag ∈ nodeTags m.tags) ∧
    ("8" ∈ nodeTags m.tags → ∀ mem, mem ∈ sch.header → mem.req = true → mem.tag ∈ nodeTags m.tags) ∧
    (∀ n, n ∈ m.tags → n.tag ≠ "10" →
      sch.declares n.tag ∧ ∃ mem, mem ∈ sch.header ++ sch.trailer ++ ms ∧ NodeOk vv mem n)

/-- item `it` occurs in the node list `ns` (instances of members `ms`) at some nesting depth ≥ 1,
    as an item of a group whose dictionary member list is `gm` -/
inductive ItemIn : List Member → List Node → List Member → List Node → Prop
  | here {ms ns t r gm items it} :
      Member.group t r gm ∈ ms → Node.group t items ∈ ns → it ∈ items → ItemIn ms ns gm it
  | deeper {ms ns t r gm' items it' gm it} :
      Member.group t r gm' ∈ ms → Node.group t items ∈ ns → it' ∈ items →
      ItemIn gm' it' gm it → ItemIn ms ns gm it

end AsyncFix.Model.Schema
