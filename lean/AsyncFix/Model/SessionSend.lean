import AsyncFix.Model.SessionMonad

/-!
Session family, outbound side: `_state_set`, the sequence-number selection and framing of
`Codec.encode`, `send_msg`, `send_test_req`, `disconnect`  (asyncfix/connection.py, codec.py, session.py).
-/
namespace AsyncFix.Session

open AsyncFix.Generated AsyncFix.Generated.ConnEnum

/-- `_state_set` (connection.py l.462-474): assign, remember that ACTIVE was reached, call the
`on_state_change` hook (a hook returns normally – modelling assumption on application code). -/
def stateSet (s : Nat) : M Unit := do
  M.modify fun c => { c with state := s, wasActive := c.wasActive || s == st_ACTIVE }
  M.emit (.onState s)

/-! ### `Codec.encode` (codec.py l.49-131), non-`raw_seq_num` mode -/

/-- Sequence-number selection of `Codec.encode` (l.76-98):
SequenceReset keeps its own 34 (EncodingError when absent); PossDupFlag=Y keeps 34 (EncodingError when
absent); otherwise `session.allocate_next_num_out()`.  `int(msg[34])` may raise ValueError. -/
def encodeSeq (m : Msg) : M Int := do
  if m.mtype == mSequenceReset then
    if !m.has tMsgSeqNum then M.throw .encoding
    else do
      let v ← M.liftE (m.get tMsgSeqNum)
      M.int v
  else if (m.get? tPossDupFlag).getD "N" == "Y" then
    if !m.has tMsgSeqNum then M.throw .encoding
    else do
      let v ← M.liftE (m.get tMsgSeqNum)
      M.int v
  else do
    let c ← M.get
    M.modify fun c => { c with sess := { c.sess with nextOut := c.sess.nextOut + 1 } }
    pure c.sess.nextOut

/-- `len("tag=value" + SOH)` in characters -/
def fieldLen (f : Nat × String) : Nat := (toString f.1).length + 1 + f.2.length + 1

/-- `sum(ord(ch))` over `"tag=value" + SOH` -/
def fieldSum (f : Nat × String) : Nat :=
  ((toString f.1).toList.foldl (fun a ch => a + ch.toNat) 0) + 61
    + (f.2.toList.foldl (fun a ch => a + ch.toNat) 0) + 1

/-- body fields in wire order (l.73-74, 100-111): 49, 56, 34, 52, then the message's own tags except
34 / 52 / 49 / 56 (group expansion of `_addTag` is outside the modelled fragment). -/
def bodyFields (s : Session) (stamp : String) (m : Msg) (seq : Int) : List (Nat × String) :=
  [(tSenderCompID, s.sender), (tTargetCompID, s.target), (tMsgSeqNum, pyStr seq), (tSendingTime, stamp)]
    ++ m.tags.filter fun p =>
        p.1 ≠ tMsgSeqNum && p.1 ≠ tSendingTime && p.1 ≠ tSenderCompID && p.1 ≠ tTargetCompID

/-- the frame `Codec.encode` returns, as the decoder reads it back: BeginString, BodyLength
(`len(body) + len("35=<type>") + 1`), MsgType, body, CheckSum (`sum(ord) % 256` as `%0.3i`). -/
def buildFrame (s : Session) (stamp : String) (m : Msg) (seq : Int) : Msg :=
  let body := bodyFields s stamp m seq
  let f35 : Nat × String := (tMsgType, m.mtype)
  let blen := (body.map fieldLen).sum + fieldLen f35
  let head : List (Nat × String) := [(tBeginString, Proto.beginString), (tBodyLength, toString blen), f35]
  let ck := (((head ++ body).map fieldSum).sum) % 256
  { mtype := m.mtype, tags := head ++ body ++ [(tCheckSum, pad3 ck)] }

/-- does `encoded.encode("latin-1")` succeed -/
def frameLatin1 (f : Msg) : Bool := f.tags.all fun p => isLatin1 p.2

/-- State checks of `send_msg` (connection.py l.231-260).
Note the transition NETWORK_CONN_ESTABLISHED → LOGON_INITIAL_SENT / role INITIATOR happens here, i.e.
BEFORE encoding, whatever happens to the message afterwards. -/
def sendGate (m : Msg) : M Unit := do
  let c ← M.get
  if c.state < st_NETWORK_CONN_ESTABLISHED then M.throw .connection
  else if c.state == st_NETWORK_CONN_ESTABLISHED then
    if m.mtype != mLogon && m.mtype != mLogout then M.throw .connection
    else do
      stateSet st_LOGON_INITIAL_SENT
      M.modify fun c => { c with role := roleInitiator }
  else if c.role == roleInitiator && c.state == st_LOGON_INITIAL_SENT && m.mtype != mLogout then
    M.throw .connection
  else pure ()

/-- `send_msg` after the state checks (l.256-281): TestRequest guard; encode (allocates); latin-1
refusal gives the number back (EncodingError); journal persist BEFORE the transport write
(DuplicateSeqNoError leaves the number consumed, nothing written); `None.write` when there is no
transport is an AttributeError raised after the journal write.  `drain()` returns normally. -/
def sendCore (env : Env) (m : Msg) : M Unit := do
  let c ← M.get
  if m.mtype == mTestRequest && c.testReqId.isNone then M.throw .connection
  else do
    let saved := c.sess.nextOut
    let seq ← encodeSeq m
    let c1 ← M.get
    let frame := buildFrame c1.sess env.stamp m seq
    if !frameLatin1 frame then do
      M.modify fun c => { c with sess := { c.sess with nextOut := saved } }
      M.throw .encoding
    else
      match c1.journal.persist .outbound seq frame with
      | none => M.throw .duplicateSeqNo
      | some j => do
        M.modify fun c => { c with journal := j }
        if !c1.sock then M.throw .attribute
        else M.emit (.write frame)

/-- `send_msg` (connection.py l.222-281) -/
def sendMsg (env : Env) (m : Msg) : M Unit := do
  sendGate m
  sendCore env m

/-- `send_test_req` (l.283-294): the id is `int(time.time())` and is assigned before the send, so it
stays set when the send raises. -/
def sendTestReq (env : Env) : M Unit := do
  let c ← M.get
  if c.testReqId.isSome then M.throw .connection
  else do
    M.modify fun c => { c with testReqId := some env.secs }
    sendMsg env (Msg.mk' mTestRequest [(tTestReqID, pyStr env.secs)])

/-- `except Exception: self.log.exception(…)` – the exception is swallowed; recorded as `caught k`. -/
def swallow {α} (dflt : α) (x : M α) : M α :=
  M.tryCatch x fun ex => do M.emit (.caught ex); pure dflt

/-- the Logout built by `disconnect` (l.207-210): Text(58) only for a non-empty reason -/
def logoutMsg (text : String) : Msg :=
  Msg.mk' mLogout (if text == "" then [] else [(tText, text)])

/-- `disconnect(disconn_state, logout_message)` (l.188-220).  Nothing at all happens from a
disconnected state.  Otherwise: the assertion; watchdog fields reset; optional Logout through
`send_msg` (which may raise – then the socket stays open and the state is NOT changed); socket close;
state; `on_disconnect`. -/
def disconnect (env : Env) (dstate : Nat) (logout : Option String) : M Unit := do
  let c ← M.get
  if c.state > st_DISCONNECTED_BROKEN_CONN then do
    M.assert (dstate ≤ st_DISCONNECTED_BROKEN_CONN)
    M.modify fun c => { c with testReqId := none, lastTime := 0, maxResend := 0 }
    match logout with
    | some text => swallow () (sendMsg env (logoutMsg text))
    | none => pure ()
    let c2 ← M.get
    if c2.sock then M.emit .closeSocket else pure ()
    M.modify fun c => { c with sock := false }
    stateSet dstate
    M.emit .onDisconnect
  else pure ()

end AsyncFix.Session
