/-
The closed system of C17: the order object, a FIFO queue of requests to the exchange, a FIFO queue
of reports back, and the reference exchange.  One `Action` = one atomic step of either side;
an action that is not enabled (nothing to receive, builder raises, exchange transition not
applicable) changes nothing except what the Python method itself changes before raising.
-/
import AsyncFix.Model.Exchange
namespace AsyncFix.Model.OrderLink
open AsyncFix.Model.OrderObj AsyncFix.Model.Exchange

structure Link where
  order : Order
  c2e : List Msg := []
  e2c : List Report := []
  ex : Exch := {}
  deriving DecidableEq, Repr

inductive Action
  | cNew
  | cCancel
  | cReplace (price qty : Option Int)
  | cRecv                                  -- the client processes the next report
  | xRecv (d : Decision)                   -- the exchange takes the next request
  | xDecide (d : Decision)
  | xAck
  | xRejNew
  | xFill (q px : Int)
  | xExpire
  | xSuspend
  | xResume
  deriving DecidableEq, Repr

/-- what an action visibly did (compared with the implementation step by step) -/
inductive StepOut
  | built (m : Msg)
  | raised (e : Exc)
  | ret (b : Bool)
  | empty
  | emit (rs : List Report)
  deriving DecidableEq, Repr

def clientBuild (l : Link) (r : Order × Res Msg) : Link × StepOut :=
  match r with
  | (o, .ok m) => ({ l with order := o, c2e := l.c2e ++ [m] }, .built m)
  | (o, .raised e) => ({ l with order := o }, .raised e)

/-- dispatch of an incoming report by MsgType, as an application's `on_message` does -/
def feed (o : Order) (r : Report) : Order × Res Bool :=
  if r.msgType = "9" then processCancelRej o r else processExecReport o r

def exchDo (l : Link) (r : Exch × List Report) : Link × StepOut :=
  ({ l with ex := r.1, e2c := l.e2c ++ r.2 }, .emit r.2)

def stepFull (l : Link) : Action → Link × StepOut
  | .cNew => clientBuild l (newReq l.order)
  | .cCancel => clientBuild l (cancelReq l.order)
  | .cReplace p q => clientBuild l (replaceReq l.order p q)
  | .cRecv =>
    match l.e2c with
    | [] => (l, .empty)
    | r :: rest =>
      match feed l.order r with
      | (o, .ok b) => ({ l with order := o, e2c := rest }, .ret b)
      | (o, .raised e) => ({ l with order := o, e2c := rest }, .raised e)
  | .xRecv d =>
    match l.c2e with
    | [] => (l, .empty)
    | m :: rest => exchDo { l with c2e := rest } (l.ex.recv (Req.ofMsg m) d)
  | .xDecide d => exchDo l (l.ex.decide d)
  | .xAck => exchDo l l.ex.ack
  | .xRejNew => exchDo l l.ex.rejectNew
  | .xFill q px => exchDo l (l.ex.fill q px)
  | .xExpire => exchDo l l.ex.expire
  | .xSuspend => exchDo l l.ex.suspend
  | .xResume => exchDo l l.ex.resume

/-- a client builder action whose overridden hook misbehaves (correspondence only; not part of `run`) -/
def stepHook (l : Link) (a : Action) (h : Hook) : Link × StepOut :=
  match a with
  | .cNew => clientBuild l (newReqH l.order h)
  | .cCancel => clientBuild l (cancelReqH l.order h)
  | .cReplace p q => clientBuild l (replaceReqH l.order p q h)
  | a => stepFull l a

def step (l : Link) (a : Action) : Link := (stepFull l a).1

def run (l : Link) : List Action → Link
  | [] => l
  | a :: rest => run (step l a) rest

/-- both queues empty: everything in flight has been processed -/
def Link.quiescent (l : Link) : Bool := l.c2e.isEmpty && l.e2c.isEmpty

end AsyncFix.Model.OrderLink
