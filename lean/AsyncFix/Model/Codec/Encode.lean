/-
Model of `Codec.encode(msg, session, raw_seq_num)` and `_addTag` (asyncfix/codec.py).
The result is the Python `str` (code points); `toWire` is the `.encode("latin-1")` of `send_msg`.
-/
import AsyncFix.Model.Codec.Cont
namespace AsyncFix.Model.Codec

structure Session where
  sender : Bytes
  target : Bytes
  nextOut : Int
  deriving Repr, BEq, Inhabited

def tag34 : Tag := [51, 52]
def tag43 : Tag := [52, 51]
def tag49 : Tag := [52, 57]
def tag52 : Tag := [53, 50]
def tag56 : Tag := [53, 54]
def mtSeqReset : Bytes := [52]     -- FMsg.SEQUENCERESET = "4"

def field (t v : Bytes) : Bytes := t ++ EQS :: v

mutual
/-- `_addTag(body, t, msg)` -/
def addTag : Node → Except Kind (List Bytes)
  | .leaf t v => .ok [field t v]
  | .err _ => .error .repeatingTag                  -- `msg[t]` raises
  | .group t items =>
    match addItems items with
    | .ok fs => .ok (field t (natToDec items.length) :: fs)
    | .error k => .error k
def addItems : List (List Node) → Except Kind (List Bytes)
  | [] => .ok []
  | it :: rest =>
    match addCont it, addItems rest with
    | .ok a, .ok b => .ok (a ++ b)
    | .error k, _ => .error k
    | _, .error k => .error k
def addCont : List Node → Except Kind (List Bytes)
  | [] => .ok []
  | n :: rest =>
    match addTag n, addCont rest with
    | .ok a, .ok b => .ok (a ++ b)
    | .error k, _ => .error k
    | _, .error k => .error k
end

/-- `msg[tag]` (`FIXContainer.get`) -/
def Cont.getStr (c : Cont) (t : Tag) : Except Kind Bytes :=
  match c.find? t with
  | none => .error .tagNotFound
  | some (.leaf _ v) => .ok v
  | some (.err _) => .error .repeatingTag
  | some (.group _ _) => .error .fixMessageError

/-- `int(msg[FTag.MsgSeqNum])` -/
def seqOf (c : Cont) : Except Kind Int :=
  match c.getStr tag34 with
  | .error k => .error k
  | .ok v => match pyInt v with
    | some n => .ok n
    | none => .error .valueError

def skipTags : List Tag := [tag34, tag52, tag49, tag56]

/-- sequence number selection of `encode`: the rendered MsgSeqNum and the session afterwards
(`allocate_next_num_out` mutates the session) -/
def selectSeq (m : Msg) (s : Session) (rawSeq : Bool) : Except Kind (Bytes × Session) :=
  if rawSeq then do
    let n ← seqOf m.body
    pure (intToDec n, s)
  else if m.mtype == mtSeqReset then
    if !m.body.has tag34 then throw .encodingError
    else do
      let n ← seqOf m.body
      pure (intToDec n, s)
  else do
    -- `msg.get(FTag.PossDupFlag, "N") == "Y"`
    let pd ← match m.body.find? tag43 with
      | none => pure false
      | some (.leaf _ v) => pure (v == [89])
      | some (.err _) => throw Kind.repeatingTag
      | some (.group _ _) => throw Kind.fixMessageError
    if pd then
      if !m.body.has tag34 then throw .encodingError
      else do
        let n ← seqOf m.body
        pure (intToDec n, s)
    else pure (intToDec s.nextOut, { s with nextOut := s.nextOut + 1 })

def tag35e : Tag := [51, 53]

/-- everything after the sequence number is known -/
def assemble (beginString : Bytes) (m : Msg) (s : Session) (seq now : Bytes) : Except Kind Bytes := do
  let rest ← addCont (m.body.filter fun n => !skipTags.contains n.tag)
  let bodyFields := [field tag49 s.sender, field tag56 s.target, field tag34 seq, field tag52 now] ++ rest
  let body := join SOH bodyFields ++ [SOH]
  let mt := field tag35e m.mtype
  let header := [field [56] beginString, field [57] (natToDec (body.length + mt.length + 1)), mt]
  let fixmsg := join SOH header ++ [SOH] ++ body
  let ck := sum fixmsg % 256
  pure (fixmsg ++ field [49, 48] (dec3 ck) ++ [SOH])

/-- `Codec.encode`: result (string or exception kind) and the session as it is left
(an exception raised by `_addTag` comes *after* the number was allocated). -/
def encode (beginString : Bytes) (m : Msg) (s : Session) (rawSeq : Bool) (now : Bytes) :
    Except Kind Bytes × Session :=
  match selectSeq m s rawSeq with
  | .error k => (.error k, s)
  | .ok (seq, s') => (assemble beginString m s' seq now, s')

/-- `.encode("latin-1")`: `UnicodeEncodeError` for a code point ≥ 256 -/
def toWire (frame : Bytes) : Except Kind Bytes :=
  if frame.all (· < 256) then .ok frame else .error .unicodeEncode

end AsyncFix.Model.Codec

namespace AsyncFix.Model.Codec

/-- the encoding step of `AsyncFIXConnection.send_msg`:
```
next_num_out = self._session.next_num_out
try:    encoded_msg = self._codec.encode(msg, self._session).encode("latin-1")
except UnicodeEncodeError: self._session.next_num_out = next_num_out; raise EncodingError(...)
```
Other exceptions of `encode` propagate with the session as `encode` left it. -/
def encodeWire (beginString : Bytes) (m : Msg) (s : Session) (now : Bytes) : Except Kind Bytes × Session :=
  match encode beginString m s false now with
  | (.ok f, s') =>
    match toWire f with
    | .ok w => (.ok w, s')
    | .error _ => (.error .encodingError, { s' with nextOut := s.nextOut })
  | (.error k, s') => (.error k, s')

end AsyncFix.Model.Codec
