/-
Structural description of a valid FIX frame, independent of encoder and decoder:
the spec side of C01 / C02 / C03.
-/
import AsyncFix.Model.Codec.Bytes
namespace AsyncFix.Model.Codec

/-- one `tag=value` field -/
structure Fld where
  tag : Bytes
  val : Bytes
  deriving Repr, BEq, DecidableEq, Inhabited

def fieldBytes (t v : Bytes) : Bytes := t ++ EQS :: v

/-- body bytes: every field followed by SOH -/
def bodyBytes : List Fld → Bytes
  | [] => []
  | f :: fs => fieldBytes f.tag f.val ++ SOH :: bodyBytes fs

/-- `8=<bs>|9=<len(body)>|` -/
def headBytes (bs : Bytes) (n : Nat) : Bytes :=
  fieldBytes [56] bs ++ SOH :: (fieldBytes [57] (natToDec n) ++ [SOH])

/-- the frame for body fields `fs`: BodyLength and CheckSum computed as FIX prescribes -/
def mkFrame (bs : Bytes) (fs : List Fld) : Bytes :=
  let pre := headBytes bs (bodyBytes fs).length ++ bodyBytes fs
  pre ++ fieldBytes [49, 48] (dec3 (sum pre % 256)) ++ [SOH]

/-- a tag the decoder accepts and that cannot be confused with framing:
non-empty ASCII digits (at most `maxStrDigits` of them – CPython's `int()` limit) -/
def okTag (t : Bytes) : Bool := !t.isEmpty && t.all isDigit && t.length ≤ maxStrDigits

/-- body fields of a valid frame: decodable tags, none of them CheckSum(10), SOH-free values -/
def okFields (fs : List Fld) : Bool :=
  fs.all fun f => okTag f.tag && f.tag != [49, 48] && !f.val.contains SOH

/-- `f` is a valid frame of protocol `bs` (BeginString without the `8=`):
 - `8=<bs>` starts with the frame-start marker `8=FIX.` and `bs` has no SOH,
 - body fields are `okFields`,
 - BodyLength is the body's byte count (and has at most `maxStrDigits` digits),
 - CheckSum is the byte sum mod 256 of everything before it, three digits. -/
def WFFrame (bs : Bytes) (f : Bytes) : Prop :=
  ∃ fs : List Fld, f = mkFrame bs fs ∧ okFields fs = true ∧
    (natToDec (bodyBytes fs).length).length ≤ maxStrDigits

/-- side conditions on the protocol's BeginString (decided on the generated value) -/
def okBegin (bs : Bytes) : Bool :=
  isPrefix marker (fieldBytes [56] bs) && !bs.contains SOH

/-- bytes between frames that the reader skips: contain no frame-start marker -/
def NoMarker (g : Bytes) : Prop := findSub marker g = none

end AsyncFix.Model.Codec
