/-
Model of the inner loop of `AsyncFIXConnection.socket_read_task` (asyncfix/connection.py):
append the chunk to the buffer, then decode / drop consumed bytes / hand over, until the
decoder returns no message.  (The connection-state test at the top of the loop is outside
this model: the connection is assumed to stay connected while the chunk is processed.)
-/
import AsyncFix.Model.Codec.Decode
namespace AsyncFix.Model.Codec

structure ReadOut where
  buf : Bytes
  delivered : List (Msg × Bytes)
  /-- decode raised (the reader task logs it and keeps the buffer) -/
  raised : Option Kind := none
  /-- a message was returned with a consumed length outside `1..len` – the real loop would
  spin or mis-slice; `readLoop_never_stalls` (Props/C10) proves this never happens -/
  stalled : Bool := false
  deriving Repr, Inhabited

def readLoop (bs : Bytes) (tbl : Tbl) (buf : Bytes) (acc : List (Msg × Bytes)) : ReadOut :=
  match decode bs tbl buf with
  | .raised k => { buf := buf, delivered := acc, raised := some k }
  | .none n => { buf := buf.drop n, delivered := acc }
  | .msg m n raw =>
    if h : 0 < n ∧ n ≤ buf.length then
      readLoop bs tbl (buf.drop n) (acc ++ [(m, raw)])
    else { buf := buf.drop n, delivered := acc ++ [(m, raw)], stalled := true }
termination_by buf.length
decreasing_by simp; omega

/-- one `read()` result appended to the buffer and processed -/
def feed (bs : Bytes) (tbl : Tbl) (buf chunk : Bytes) : ReadOut :=
  readLoop bs tbl (buf ++ chunk) []

/-- a whole sequence of reads; deliveries accumulate -/
def feedAll (bs : Bytes) (tbl : Tbl) : Bytes → List Bytes → List (Msg × Bytes) → Bytes × List (Msg × Bytes)
  | buf, [], acc => (buf, acc)
  | buf, c :: cs, acc =>
    let r := feed bs tbl buf c
    feedAll bs tbl r.buf cs (acc ++ r.delivered)

end AsyncFix.Model.Codec
