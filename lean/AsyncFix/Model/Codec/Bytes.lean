/-
Byte-string primitives used by the codec model (Mathlib-free, executable).
Bytes and code points are `Nat`; a byte string is `List Nat`.
Each function names the Python operation it mirrors.
-/
namespace AsyncFix.Model.Codec

abbrev Bytes := List Nat

def SOH : Nat := 1
def EQS : Nat := 61      -- '='

/-- `"8=FIX."` -/
def marker : Bytes := [56, 61, 70, 73, 88, 46]
/-- `"\x0110="` -/
def cksumPat : Bytes := [1, 49, 48, 61]

def isPrefix : Bytes → Bytes → Bool
  | [], _ => true
  | _ :: _, [] => false
  | p :: ps, c :: cs => p == c && isPrefix ps cs

/-- `s.find(pat)` for a non-empty `pat`; `none` is Python's `-1`. -/
def findSub (pat : Bytes) : Bytes → Option Nat
  | [] => none
  | c :: rest =>
    if isPrefix pat (c :: rest) then some 0
    else match findSub pat rest with
      | some i => some (i + 1)
      | none => none

/-- `s.find(pat, start)` -/
def findFrom (pat : Bytes) (s : Bytes) (start : Nat) : Option Nat :=
  match findSub pat (s.drop start) with
  | some i => some (i + start)
  | none => none

/-- `s.find(chr(c), start)` for one character -/
def findChar (c : Nat) : Bytes → Option Nat
  | [] => none
  | x :: rest => if x = c then some 0 else match findChar c rest with
      | some i => some (i + 1)
      | none => none

/-- `s.split(chr(sep))` – always at least one element -/
def splitOn (sep : Nat) : Bytes → List Bytes
  | [] => [[]]
  | c :: cs =>
    if c = sep then [] :: splitOn sep cs
    else match splitOn sep cs with
      | [] => [[c]]
      | f :: fs => (c :: f) :: fs

/-- `chr(sep).join(fs)` -/
def join (sep : Nat) : List Bytes → Bytes
  | [] => []
  | [f] => f
  | f :: fs => f ++ sep :: join sep fs

/-- `m.split("=", 1)`: `none` when there is no `=` (Python gives a 1-element list) -/
def splitEq : Bytes → Option (Bytes × Bytes)
  | [] => none
  | c :: rest =>
    if c = EQS then some ([], rest)
    else match splitEq rest with
      | some (a, b) => some (c :: a, b)
      | none => none

def sum (l : Bytes) : Nat := l.foldl (· + ·) 0

/-! ### decimal rendering: `"%s" % n`, `"%i" % n`, `"%0.3i" % n` for n ≥ 0 -/

def natToDec (n : Nat) : Bytes :=
  if n < 10 then [48 + n] else natToDec (n / 10) ++ [48 + n % 10]
termination_by n
decreasing_by omega

/-- `"%s" % n` / `str(n)` for a Python int -/
def intToDec : Int → Bytes
  | .ofNat n => natToDec n
  | .negSucc n => 45 :: natToDec (n + 1)

/-- `"%0.3i" % n` for `0 ≤ n`: at least three digits -/
def dec3 (n : Nat) : Bytes :=
  let d := natToDec n
  List.replicate (3 - d.length) 48 ++ d

/-! ### Python `int(s)` on a latin-1 string (code points 0..255)

`WS* [+-]? D (_? D)* WS*`; CPython strips with C `isspace` (9..13, 32); for a non-ASCII string
it first maps every character >= 127 with the Unicode space property (latin-1: `\x85`, `\xa0`)
to a blank, characters below 127 are kept as they are (so `\x1c..\x1f` never count); more than
4300 digits raise `ValueError` (sys.int_max_str_digits).  `none` = ValueError. -/

def isDigit (c : Nat) : Bool := 48 ≤ c && c ≤ 57

def isSpaceAscii (c : Nat) : Bool := (9 ≤ c && c ≤ 13) || c == 32
def isSpaceUni (c : Nat) : Bool := isSpaceAscii c || c == 133 || c == 160

def dropWhileEnd (p : Nat → Bool) (l : Bytes) : Bytes := (l.reverse.dropWhile p).reverse

/-- digits with single underscores between them; returns the value and the digit count -/
def digitsVal : Bytes → Nat → Nat → Bool → Option (Nat × Nat)
  -- (rest) (acc) (count) (previous char was a digit)
  | [], acc, n, prevDigit => if prevDigit then some (acc, n) else none
  | c :: cs, acc, n, prevDigit =>
    if isDigit c then digitsVal cs (acc * 10 + (c - 48)) (n + 1) true
    else if c = 95 ∧ prevDigit then
      match cs with
      | d :: _ => if isDigit d then digitsVal cs acc n false else none
      | [] => none
    else none

def maxStrDigits : Nat := 4300

def pyInt (s : Bytes) : Option Int :=
  let sp := if s.all (· < 128) then isSpaceAscii else isSpaceUni
  let t := dropWhileEnd sp (s.dropWhile sp)
  let (neg, body) := match t with
    | 45 :: r => (true, r)
    | 43 :: r => (false, r)
    | r => (false, r)
  match digitsVal body 0 0 false with
  | some (v, n) => if n > maxStrDigits then none else some (if neg then -(v : Int) else (v : Int))
  | none => none

/-- the CheckSum(10) value: exactly three ASCII digits
(`len(value) == 3 and value.isascii() and value.isdigit()`, then `int(value)`) -/
def ckParse (v : Bytes) : Option Nat :=
  match v with
  | [a, b, c] => if isDigit a && isDigit b && isDigit c then some ((a - 48) * 100 + (b - 48) * 10 + (c - 48)) else none
  | _ => none

end AsyncFix.Model.Codec
