/-
The inner loop of `socket_read_task` WITH the outcome of message processing:
`_process_message` may raise (e.g. `_validate_integrity` raising RepeatingTagError for a duplicated
header tag).  The exception leaves the inner loop, is logged by the task's outer handler, and the task
goes on with the next read.  The receive buffer is advanced BEFORE the message is processed, so the
frame is gone whatever processing does (Props/C10 `readLoopP_resume`).
`Reader.readLoop` is the special case of a processing step that never raises.
-/
import AsyncFix.Model.Codec.Reader
namespace AsyncFix.Model.Codec

structure ReadOutP where
  buf : Bytes
  delivered : List (Msg × Bytes)
  /-- an exception left `_process_message` for the last delivered message -/
  procRaised : Bool := false
  raised : Option Kind := none
  stalled : Bool := false
  deriving Repr, Inhabited

/-- `proc m raw = true`: `_process_message(m, raw)` raises -/
def readLoopP (bs : Bytes) (tbl : Tbl) (proc : Msg → Bytes → Bool) (buf : Bytes)
    (acc : List (Msg × Bytes)) : ReadOutP :=
  match decode bs tbl buf with
  | .raised k => { buf := buf, delivered := acc, raised := some k }
  | .none n => { buf := buf.drop n, delivered := acc }
  | .msg m n raw =>
    if h : 0 < n ∧ n ≤ buf.length then
      -- `self._msg_buffer = self._msg_buffer[parsed_length:]` comes first
      if proc m raw then { buf := buf.drop n, delivered := acc ++ [(m, raw)], procRaised := true }
      else readLoopP bs tbl proc (buf.drop n) (acc ++ [(m, raw)])
    else { buf := buf.drop n, delivered := acc ++ [(m, raw)], stalled := true }
termination_by buf.length
decreasing_by simp; omega

/-- one read appended and processed -/
def feedP (bs : Bytes) (tbl : Tbl) (proc : Msg → Bytes → Bool) (buf chunk : Bytes) : ReadOutP :=
  readLoopP bs tbl proc (buf ++ chunk) []

/-- processing step used by the correspondence: raises iff the message carries tag 9999 -/
def procTag9999 (m : Msg) (_ : Bytes) : Bool := m.body.has [57, 57, 57, 57]

end AsyncFix.Model.Codec
