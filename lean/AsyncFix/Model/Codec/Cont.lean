/-
FIXContainer / FIXMessage as the codec sees them (asyncfix/message.py).
Tags are the *strings* the Python dict is keyed with (`str(tag)`).
-/
import AsyncFix.Model.Codec.Bytes
namespace AsyncFix.Model.Codec

abbrev Tag := Bytes

/-- one entry of `FIXContainer.tags` (an insertion-ordered dict) -/
inductive Node
  | leaf (tag : Tag) (value : Bytes)          -- plain string value
  | err (tag : Tag)                           -- the class `RepeatingTagError` stored as value
  | group (tag : Tag) (items : List (List Node))   -- `_FIXRepeatingGroupContainer`
  deriving Repr, BEq, Inhabited

abbrev Cont := List Node

def Node.tag : Node → Tag
  | .leaf t _ => t
  | .err t => t
  | .group t _ => t

/-- `FIXMessage`: msg_type + container -/
structure Msg where
  mtype : Bytes
  body : Cont
  deriving Repr, BEq, Inhabited

/-- exception kinds that can leave the codec -/
inductive Kind
  | encodingError | tagNotFound | repeatingTag | fixMessageError | duplicatedTag
  | unmappedGroup | valueError | attributeError | assertion | unicodeEncode
  deriving Repr, DecidableEq, Inhabited

def Kind.name : Kind → String
  | .encodingError => "EncodingError" | .tagNotFound => "TagNotFoundError"
  | .repeatingTag => "RepeatingTagError" | .fixMessageError => "FIXMessageError"
  | .duplicatedTag => "DuplicatedTagError" | .unmappedGroup => "UnmappedRepeatedGrpError"
  | .valueError => "ValueError" | .attributeError => "AttributeError"
  | .assertion => "AssertionError" | .unicodeEncode => "UnicodeEncodeError"

/-- `self.tags.get(t)` -/
def Cont.find? (c : Cont) (t : Tag) : Option Node := List.find? (fun n => n.tag == t) c

/-- `t in self` -/
def Cont.has (c : Cont) (t : Tag) : Bool := c.any (fun n => n.tag == t)

/-- `self.tags[t] = v` on an insertion-ordered dict: replace in place, else append -/
def Cont.put (c : Cont) (n : Node) : Cont :=
  if c.has n.tag then c.map (fun m => if m.tag == n.tag then n else m) else c ++ [n]

/-- `FIXContainer.set(tag, value)` for a *string* value and a tag that passed `int()`:
`DuplicatedTagError` when present -/
def Cont.setStr (c : Cont) (t : Tag) (v : Bytes) : Except Kind Cont :=
  if c.has t then .error .duplicatedTag else .ok (c ++ [.leaf t v])

/-- `FIXContainer.set(tag, RepeatingTagError)`: a class value overwrites silently -/
def Cont.setErr (c : Cont) (t : Tag) : Cont := c.put (.err t)

/-- `parent.add_group(tag, item)` (index -1): append to the group's list, create it at the end
of the dict when absent; `AttributeError` when the tag holds a plain value -/
def Cont.addGroup (c : Cont) (t : Tag) (item : Cont) : Except Kind Cont :=
  match c.find? t with
  | none => .ok (c ++ [.group t [item]])
  | some (.group _ _) =>
      .ok (c.map fun m => match m with
        | .group t' items => if t' == t then .group t' (items ++ [item]) else m
        | _ => m)
  | some _ => .error .attributeError

end AsyncFix.Model.Codec
