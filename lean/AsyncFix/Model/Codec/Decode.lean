/-
Model of `Codec.decode(rawmsg, silent=True)` (asyncfix/codec.py), statement by statement.
`DecRes.raised` exists at every place where the Python could raise; `decode_no_raise`
(Props/C10) proves it unreachable.
-/
import AsyncFix.Model.Codec.Cont
namespace AsyncFix.Model.Codec

abbrev Tbl := List (Tag × List Tag)

def Tbl.members? (tbl : Tbl) (t : Tag) : Option (List Tag) :=
  match tbl.find? (fun p => p.1 == t) with
  | some p => some p.2
  | none => none

/-- `_RepeatingGroupContext`: group tag, its member tags, the item built so far.
The stack is innermost-first; the parent of a frame is the next frame, or the message. -/
structure Frame where
  gtag : Tag
  members : List Tag
  item : Cont
  deriving Repr, BEq, Inhabited

/-- `current_context.parent.add_group(current_context.tag, current_context); pop` -/
def closeTop (top : Cont) : List Frame → Except Kind (Cont × List Frame)
  | [] => .ok (top, [])
  | [f] => do
      let top' ← top.addGroup f.gtag f.item
      pure (top', [])
  | f :: p :: rest => do
      let it ← p.item.addGroup f.gtag f.item
      pure (top, { p with item := it } :: rest)

theorem closeTop_length {top : Cont} {st : List Frame} {top' : Cont} {st' : List Frame}
    (h : closeTop top st = .ok (top', st')) : st'.length = st.length - 1 := by
  match st with
  | [] =>
    simp only [closeTop, Except.ok.injEq, Prod.mk.injEq] at h
    simp [← h.2]
  | [f] =>
    simp only [closeTop, bind, Except.bind, pure, Except.pure] at h
    split at h
    · cases h
    · simp only [Except.ok.injEq, Prod.mk.injEq] at h
      simp [← h.2]
  | f :: p :: rest =>
    simp only [closeTop, bind, Except.bind, pure, Except.pure] at h
    split at h
    · cases h
    · simp only [Except.ok.injEq, Prod.mk.injEq] at h
      simp [← h.2]

/-- `while repeating_groups and tag not in current_context.repeating_group_tags: close` -/
def closeWhile (tag : Tag) (top : Cont) (st : List Frame) : Except Kind (Cont × List Frame) :=
  match st with
  | [] => .ok (top, [])
  | f :: rest =>
    if f.members.contains tag then .ok (top, f :: rest)
    else
      match h : closeTop top (f :: rest) with
      | .error k => .error k
      | .ok (top', st') => closeWhile tag top' st'
termination_by st.length
decreasing_by
  have := closeTop_length h
  simp at this
  simp [this]

structure DState where
  top : Cont := []
  stack : List Frame := []
  mtype : Bytes := [85, 78, 75, 78, 79, 87, 78]     -- "UNKNOWN"
  ckPassed : Bool := false
  deriving Repr, Inhabited

def tag10 : Tag := [49, 48]
def tag35 : Tag := [51, 53]
def tag8 : Tag := [56]
def tag9 : Tag := [57]

/-- body of `for m in msg:` after the two `split`/`int(tag)` guards -/
def stepField (tbl : Tbl) (ckExpected : Nat) (s : DState) (tag value : Bytes) : Except Kind DState := do
  let s :=
    if tag == tag10 then
      { s with ckPassed := (ckParse value == some ckExpected) }
    else if tag == tag35 then { s with mtype := value }
    else s
  match tbl.members? tag with
  | some members =>
    -- found the start of a repeating group
    let (top, stack) ← if s.stack.isEmpty then pure (s.top, s.stack) else closeWhile tag s.top s.stack
    pure { s with top := top, stack := { gtag := tag, members := members, item := [] } :: stack }
  | none =>
    if s.stack.isEmpty then
      if s.top.has tag then pure { s with top := s.top.setErr tag }
      else do
        let top ← s.top.setStr tag value
        pure { s with top := top }
    else do
      let (top, stack) ← closeWhile tag s.top s.stack
      match stack with
      | [] =>
        -- all groups are closed again
        if top.has tag then pure { s with top := top.setErr tag, stack := [] }
        else do
          let top' ← top.setStr tag value
          pure { s with top := top', stack := [] }
      | f :: rest =>
        if f.item.has tag then do
          -- the item already has this tag: start the next item
          let (top', stack') ← closeTop top (f :: rest)
          let it ← Cont.setStr [] tag value
          pure { s with top := top', stack := { f with item := it } :: stack' }
        else do
          let it ← f.item.setStr tag value
          pure { s with top := top, stack := { f with item := it } :: rest }

inductive DecRes
  | msg (m : Msg) (consumed : Nat) (raw : Bytes)
  | none (consumed : Nat)
  | raised (k : Kind)
  deriving Repr, Inhabited

/-- the field loop: `none` = a guard returned `(None, len(rawmsg), None)` -/
def fieldLoop (tbl : Tbl) (ckExpected : Nat) : DState → List Bytes → Except Kind (Option DState)
  | s, [] => pure (some s)
  | s, m :: rest =>
    match splitEq m with
    | none => pure none                               -- "incomplete tag"
    | some (tag, value) =>
      match pyInt tag with
      | none => pure none                             -- "non-numeric tag"
      | some _ => do
        let s' ← stepField tbl ckExpected s tag value
        fieldLoop tbl ckExpected s' rest

/-- length of the longest proper prefix of the marker (≤ 5) that the buffer ends with -/
def partialMarkerKeep (raw : Bytes) : Nat :=
  let tryK (k : Nat) : Bool := k ≤ raw.length && (raw.drop (raw.length - k) == marker.take k)
  if tryK 5 then 5 else if tryK 4 then 4 else if tryK 3 then 3 else if tryK 2 then 2 else if tryK 1 then 1 else 0

def decode (beginString : Bytes) (tbl : Tbl) (raw : Bytes) : DecRes :=
  match findSub marker raw with
  | none => .none (raw.length - partialMarkerKeep raw)
  | some validIdx =>
    let msg := raw.drop validIdx
    let nextMsg0 := match findSub marker (msg.drop 5) with
      | some i => i + 5
      | none => msg.length
    -- frame ends with its CheckSum(10) field
    let ckAt := findSub cksumPat msg
    let closedAt : Option Nat := match ckAt with
      | some ci => (match findChar SOH (msg.drop (ci + 1)) with
          | some e => some (e + (ci + 1) + 1)
          | none => none)
      | none => none
    -- the CheckSum field has started but its terminating SOH has not arrived: wait
    if ckAt.isSome && closedAt.isNone then .none validIdx else
    let nextMsg := closedAt.getD nextMsg0
    let encoded := msg.take nextMsg
    let fields0 := splitOn SOH encoded
    let fields := if fields0.getLast?.getD [] == [] then fields0.dropLast else fields0
    -- fewer than 3 fields: wait for more bytes – unless a complete CheckSum field already ended the frame
    if fields.length < 3 then .none (if closedAt.isSome then validIdx + nextMsg else validIdx) else
    match fields with
    | f0 :: f1 :: _ =>
      match splitEq f0 with
      | none => .raised .valueError      -- `tag, value = msg[0].split("=", 1)` (unreachable: f0 starts with "8=")
      | some (_, v0) =>
        if v0 != beginString then .none raw.length else
        match splitEq f1 with
        | none => .none raw.length                       -- "BodyLength split error"
        | some (t1, v1) =>
          if t1 != tag9 then .none raw.length else
          match pyInt v1 with
          | none => .none raw.length
          | some bl =>
            if bl < 0 then .none raw.length else
            let msgLength := f0.length + f1.length + 6 + 3 + bl.toNat
            if msgLength > raw.length - validIdx then .none validIdx else
            let parsed := validIdx + msgLength
            let ckExpected := (sum (join SOH fields.dropLast) + 1) % 256
            match fieldLoop tbl ckExpected {} fields with
            | .error k => .raised k
            | .ok none => .none raw.length
            | .ok (some s) =>
              if s.ckPassed then .msg { mtype := s.mtype, body := s.top } parsed encoded
              else .none parsed
    | _ => .none validIdx

end AsyncFix.Model.Codec
