import AsyncFix.Model.Session

/-!
Link family (property C07): TWO endpoints of the library talking to each other.

* `i` – the initiator (`AsyncFIXClient`, CompIDs `nameI → nameA`),
  `a` – the acceptor  (`AsyncFIXDummyServer`, CompIDs mirrored), each a `Session.Conn` with its own journal;
* `toA`, `toI` – FIFO queues of the frames in flight (head = next frame to arrive).  The transport is
  reliable and ordered until it breaks; a break loses everything in flight in both directions;
* history fields (`delI` …): what the two applications have seen.  They are never read by `step`.

Events (`Ev`):
* `appSend s env m`     – the application of side `s` awaits `send_msg(m)`; `m` is an application message
                          (`Ev.wf`: type outside the session-level set, no header / trailer tags except an explicit
                          PossDupFlag(43) ≠ `Y` and OrigSendingTime(122));
* `deliverNext to env`  – the next frame in flight towards `to` arrives and is handed to
                          `_process_message` by the reader loop (`Session.recv`); frames written in response
                          are appended to the opposite queue.  A frame arriving at an endpoint that has closed its
                          transport (`sock = false`) is lost (nothing reads it);
* `breakConn env`       – the connection breaks: both queues are emptied and each endpoint that still has a
                          transport takes the EOF branch of `socket_read_task` (`Session.eof`);
* `reconnect env`       – enabled when neither endpoint has a transport: a fresh transport comes up at both
                          ends (`Session.connected`), and the initiator's application sends Logon from
                          `on_connect` (heartbeat interval = its own `hb`).

`should_replay` is the library default (`True`).  The heartbeat watchdog is not part of this model
(no `tick` event): property C12 covers it on one endpoint.

Modelling restrictions: frame-level delivery (one frame per `read()`); both ends notice a break before
the next connection is made (`reconnect` is a no-op while one end still has its transport).
-/
namespace AsyncFix.Link

open AsyncFix.Session AsyncFix.Generated AsyncFix.Generated.ConnEnum

inductive Side | I | A
  deriving DecidableEq, Repr, Inhabited

def Side.other : Side → Side
  | .I => .A
  | .A => .I

def nameI : String := "INIT"
def nameA : String := "ACPT"

/-- `should_replay` of the base class -/
def srAll : Msg → Bool := fun _ => true

structure Link where
  i : Conn
  a : Conn
  toA : List Msg := []
  toI : List Msg := []
  /-- messages handed to `on_message` of I / A, in order -/
  delI : List Msg := []
  delA : List Msg := []
  /-- application messages whose `send_msg` returned normally on I / A, in order -/
  accI : List Msg := []
  accA : List Msg := []
  /-- every frame I / A wrote to a transport, in order -/
  wireI : List Msg := []
  wireA : List Msg := []
  /-- effects of the last event, tagged with the endpoint that produced them (trace output only) -/
  eff : List (Side × Effect) := []
  deriving Repr, Inhabited

/-- two fresh endpoints over empty journals -/
def Link.init (hb : Int := 30) : Link :=
  { i := Conn.create nameI nameA {} hb roleInitiator,
    a := Conn.create nameA nameI {} hb roleAcceptor }

def Link.conn (l : Link) : Side → Conn
  | .I => l.i
  | .A => l.a

/-- queue of the frames travelling TOWARDS `s` -/
def Link.queueTo (l : Link) : Side → List Msg
  | .I => l.toI
  | .A => l.toA

def Link.delivered (l : Link) : Side → List Msg
  | .I => l.delI
  | .A => l.delA

def Link.accepted (l : Link) : Side → List Msg
  | .I => l.accI
  | .A => l.accA

def Link.wire (l : Link) : Side → List Msg
  | .I => l.wireI
  | .A => l.wireA

def writesOf : List Effect → List Msg
  | [] => []
  | .write f :: r => f :: writesOf r
  | _ :: r => writesOf r

def deliveriesOf : List Effect → List Msg
  | [] => []
  | .deliver m :: r => m :: deliveriesOf r
  | _ :: r => deliveriesOf r

def hasRaised : List Effect → Bool
  | [] => false
  | .raised _ :: _ => true
  | _ :: r => hasRaised r

/-- header / trailer tags: written by the encoder, PossDupFlag / OrigSendingTime by the resend logic -/
def hdrTags : List Nat :=
  [tBeginString, tBodyLength, tCheckSum, tMsgSeqNum, tMsgType, tPossDupFlag, tSenderCompID, tSendingTime,
   tTargetCompID, tOrigSendingTime]

/-- application payload of a message or frame: its type and its non-header fields in order -/
def payloadOf (m : Msg) : String × List (Nat × String) :=
  (m.mtype, m.tags.filter fun p => !hdrTags.contains p.1)

/-- a field an application may put into a message: no header / trailer tag, except an explicit PossDupFlag(43)
other than `Y` and an OrigSendingTime(122) (both are overwritten / kept by the resend logic) -/
def appTagOk (p : Nat × String) : Bool :=
  !hdrTags.contains p.1 || (p.1 == tPossDupFlag && p.2 != "Y") || p.1 == tOrigSendingTime

/-- an application message as the application hands it to `send_msg`: not one of the session-level types
the resend logic never retransmits, and only fields an application may set (`appTagOk`) -/
def isAppMsg (m : Msg) : Bool :=
  !ConnEnum.noReplay.contains m.mtype && m.tags.all appTagOk

/-- the Logon the initiator's application sends from `on_connect` -/
def logonMsg (hb : Int) : Msg := Msg.mk' mLogon [(tEncryptMethod, "0"), (tHeartBtInt, pyStr hb)]

inductive Ev
  | appSend (s : Side) (env : Env) (m : Msg)
  | deliverNext (to : Side) (env : Env)
  | breakConn (env : Env)
  | reconnect (env : Env)
  deriving Repr

/-- well-formed event: application messages are application messages; the clock text is single-byte
(`Codec.current_datetime()` is ASCII) -/
def Ev.wf : Ev → Bool
  | .appSend _ env m => isAppMsg m && isLatin1 env.stamp
  | .deliverNext _ env => isLatin1 env.stamp
  | .breakConn env => isLatin1 env.stamp
  | .reconnect env => isLatin1 env.stamp

/-- store the new state of endpoint `s`, route its effects: writes into the queue towards the peer and
onto its wire log, deliveries onto its delivered list -/
def Link.absorb (l : Link) (s : Side) (c : Conn) (eff : List Effect) : Link :=
  match s with
  | .I => { l with i := c, toA := l.toA ++ writesOf eff, wireI := l.wireI ++ writesOf eff,
                   delI := l.delI ++ deliveriesOf eff, eff := l.eff ++ eff.map fun e => (Side.I, e) }
  | .A => { l with a := c, toI := l.toI ++ writesOf eff, wireA := l.wireA ++ writesOf eff,
                   delA := l.delA ++ deliveriesOf eff, eff := l.eff ++ eff.map fun e => (Side.A, e) }

def Link.noteAccepted (l : Link) (s : Side) (m : Msg) : Link :=
  match s with
  | .I => { l with accI := l.accI ++ [m] }
  | .A => { l with accA := l.accA ++ [m] }

/-- remove the head of the queue towards `to` -/
def Link.pop (l : Link) : Side → Link
  | .I => { l with toI := l.toI.tail }
  | .A => { l with toA := l.toA.tail }

def stepCore (l : Link) : Ev → Link
  | .appSend s env m =>
    let (c, eff) := Session.appSend env (l.conn s) m
    let l1 := l.absorb s c eff
    if hasRaised eff then l1 else l1.noteAccepted s m
  | .deliverNext to env =>
    match l.queueTo to with
    | [] => l
    | f :: _ =>
      let l0 := l.pop to
      if !(l.conn to).sock then l0
      else
        let (c, eff) := Session.recv srAll env (l.conn to) f
        l0.absorb to c eff
  | .breakConn env =>
    let (ci, ei) := Session.eof env l.i
    let (ca, ea) := Session.eof env l.a
    let l0 := { l with toA := [], toI := [] }
    ((l0.absorb .I ci ei).absorb .A ca ea)
  | .reconnect env =>
    if l.i.sock || l.a.sock then l
    else
      let (ca, ea) := Session.connected l.a .acceptor
      let (ci, ei) := Session.connected l.i .initiator
      let (ci2, ei2) := Session.appSend env ci (logonMsg ci.hb)
      let l0 := { l with toA := [], toI := [] }
      ((l0.absorb .A ca ea).absorb .I ci2 (ei ++ ei2))

/-- one event; `eff` is reset first so that it holds the effects of this event only -/
def step (l : Link) (ev : Ev) : Link := stepCore { l with eff := [] } ev

def run (l : Link) : List Ev → Link
  | [] => l
  | ev :: rest => run (step l ev) rest

/-- both connections ACTIVE and nothing in flight -/
def Link.quiescent (l : Link) : Bool :=
  l.i.state == st_ACTIVE && l.a.state == st_ACTIVE && l.toA.isEmpty && l.toI.isEmpty

end AsyncFix.Link
