/-
Session family, Python-level helpers.

* `pyInt`      – CPython `int(s)` for `s : str` (base 10), as used on tag values 34, 36, 7, 16, 112.
* `pyStr`      – CPython `str(n)` / `"%s" % n` for `n : int`.
* `isLatin1`   – does `s.encode("latin-1")` succeed.
* `Exc`        – the exception kinds the session layer can raise (canonical enum of DESIGN §2.4).

Modelling restrictions (documented, sampled by the correspondence):
* only ASCII input is modelled exactly: CPython also accepts non-ASCII decimal digits
  (`int("１２") = 12`) and Unicode white space; `pyInt` rejects them.  The harness only generates ASCII
  in numeric fields.
* CPython refuses strings with more than 4300 digits (`sys.set_int_max_str_digits`); not modelled.
-/
namespace AsyncFix.Session

/-- Exception kinds (Python class ↦ kind).  Everything here is a subclass of `Exception`, i.e. caught by
`except Exception`. -/
inductive Exc
  | connection      -- FIXConnectionError
  | encoding        -- EncodingError
  | duplicateSeqNo  -- DuplicateSeqNoError
  | fixMessage      -- FIXMessageError (Journaler.find_seq_no)
  | tagNotFound     -- TagNotFoundError (`msg[tag]` on a missing tag)
  | duplicatedTag   -- DuplicatedTagError (`msg[tag] = v` on an existing tag)
  | assertion       -- AssertionError
  | value           -- ValueError (`int()` of a non-numeric string)
  | key             -- KeyError (`del msg[tag]` on a missing tag)
  | attribute       -- AttributeError (`None.write`: no transport)
  deriving DecidableEq, Repr, Inhabited

def Exc.name : Exc → String
  | .connection => "Connection"
  | .encoding => "Encoding"
  | .duplicateSeqNo => "DuplicateSeqNo"
  | .fixMessage => "FIXMessageError"
  | .tagNotFound => "TagNotFound"
  | .duplicatedTag => "Duplicated"
  | .assertion => "Assertion"
  | .value => "Value"
  | .key => "Key"
  | .attribute => "Attribute"

/-- ASCII white space stripped by `int()` (C `isspace`): space, \t \n \v \f \r. -/
def isPyWs (c : Char) : Bool := c = ' ' || (9 ≤ c.toNat && c.toNat ≤ 13)

def isAsciiDigit (c : Char) : Bool := 48 ≤ c.toNat && c.toNat ≤ 57

/-- digits with single underscores strictly between digits: `digit ("_"? digit)*`.
`prev` = the previous character was a digit. -/
def pyDigits (acc : Nat) (prev : Bool) : List Char → Option Nat
  | [] => if prev then some acc else none
  | c :: r =>
    if isAsciiDigit c then pyDigits (acc * 10 + (c.toNat - 48)) true r
    else if c = '_' && prev then pyDigits acc false r
    else none

def stripWs (cs : List Char) : List Char :=
  ((cs.dropWhile isPyWs).reverse.dropWhile isPyWs).reverse

/-- `int(s)`; `none` = `ValueError`. -/
def pyIntChars (cs : List Char) : Option Int :=
  match stripWs cs with
  | '-' :: r => (pyDigits 0 false r).map fun n => - (n : Int)
  | '+' :: r => (pyDigits 0 false r).map fun n => (n : Int)
  | r => (pyDigits 0 false r).map fun n => (n : Int)

def pyInt (s : String) : Option Int := pyIntChars s.toList

/-- `str(n)` for a Python int. -/
def pyStr (n : Int) : String := toString n

/-- `s.encode("latin-1")` succeeds iff every code point is < 256. -/
def isLatin1 (s : String) : Bool := s.toList.all fun c => c.toNat < 256

/-- `"%0.3i" % n` for `0 ≤ n < 256` (CheckSum rendering). -/
def pad3 (n : Nat) : String :=
  let s := toString n
  if n < 10 then "00" ++ s else if n < 100 then "0" ++ s else s

end AsyncFix.Session
