/-
Model of asyncfix/message.py: `FIXContainer`, `_FIXRepeatingGroupContainer`, `FIXMessage`.
Executable, Mathlib-free.  Every function mirrors its Python method branch for branch, the raising
branches included (`Except Kind _`).

Python objects and how they are represented
  * text (`str`)                       `Str` = list of code points
  * `self.tags` (an OrderedDict)       `Cont` = association list in dict order; `lookup` / `dictSet` /
                                       `dictDel` are Python's `d.get(k)`, `d[k] = v`, `del d[k]`
  * a stored value                     `Val.str s` | `Val.group items` (a `_FIXRepeatingGroupContainer`
                                       holding `items`) | `Val.cls k` (a class object – `set()` stores
                                       classes unconverted, the decoder uses that for error markers)
  * a tag / value argument             `PyObj`: int | str | FTag member | other enum member | any other
                                       object given by its `str()` and the outcome of `int()` (float,
                                       None, bool, bytes: the harness pre-renders `str(x)`, e.g. the
                                       float repr; `str(int)` is computed here)
  * dict / list-of-dict arguments      `DEntry` / `DVal` / `DItem`
Every mutator performs its single mutation as its last statement, so a mutator is modelled as
`Except Kind Cont` (raise before the mutation, or the new state); `step` keeps the old state on a raise.
Aliasing is NOT modelled: containers are values; the harness passes copies wherever Python would share
an object (group items given as FIXContainer instances, `get_group_list()` results).
`FIXMessage` instances used as group items are not modelled (their `__repr__` differs).
-/
import AsyncFix.Py.PyInt
import AsyncFix.Generated.FTags
namespace AsyncFix.Model.Container
open AsyncFix.Py

/-- exception kinds the container methods can raise -/
inductive Kind
  | fixMessageError | tagNotFound | duplicated | repeating | unmapped
  | keyError | attributeError | valueError | typeError | indexError | overflowError
  deriving DecidableEq, Repr

/-- a class object: the two marker classes `get()` tests with `is`, any other `Exception` subclass,
any other class (`repr` = `str(cls)`, e.g. `<class 'int'>`) -/
inductive Cls
  | tagNotFound | repeating | exc (repr : Str) | other (repr : Str)
  deriving DecidableEq, Repr

inductive Val
  | str (s : Str)
  | group (items : List (List (Str × Val)))
  | cls (c : Cls)
  deriving Repr

/-- `FIXContainer.tags` in dict order -/
abbrev Cont := List (Str × Val)

/-! ## Python dict primitives (insertion-ordered) -/

def lookup {β : Type} (k : Str) : List (Str × β) → Option β
  | [] => none
  | (k', v) :: rest => if k' = k then some v else lookup k rest

/-- `d[k] = v`: an existing key keeps its position, a new key goes last -/
def dictSet {β : Type} (k : Str) (v : β) : List (Str × β) → List (Str × β)
  | [] => [(k, v)]
  | (k', v') :: rest => if k' = k then (k', v) :: rest else (k', v') :: dictSet k v rest

/-- `del d[k]` for a present key (callers test presence) -/
def dictDel {β : Type} (k : Str) : List (Str × β) → List (Str × β)
  | [] => []
  | (k', v') :: rest => if k' = k then rest else (k', v') :: dictDel k rest

def hasKey {β : Type} (k : Str) (d : List (Str × β)) : Bool := (lookup k d).isSome

def keys {β : Type} (d : List (Str × β)) : List Str := d.map Prod.fst

/-! ## argument objects -/

inductive PyObj
  | int (n : Int)
  | str (s : Str)
  | ftag (v : Str)                            -- FTag member (a `str` subclass), value v
  | enum (v : Str)                            -- FMsg-like member: `__str__` = value, not a `str`
  | other (s : Str) (i : Except Kind Int)     -- anything else: its `str()` and what `int()` does
  deriving Repr

/-- `str(o)` -/
def PyObj.pyStr : PyObj → Str
  | .int n => renderInt n
  | .str s => s
  | .ftag v => v
  | .enum v => v
  | .other s _ => s

/-- `int(o)` -/
def PyObj.pyInt : PyObj → Except Kind Int
  | .int n => .ok n
  | .str s => match pyIntOfString s with | some n => .ok n | none => .error .valueError
  | .ftag v => match pyIntOfString v with | some n => .ok n | none => .error .valueError
  | .enum _ => .error .typeError
  | .other _ i => i

/-- `stored == o` for a stored `str`: str.__eq__, or the reflected `__eq__` of FTag (`value == str(o)`)
and FMsg (`value == o`); False for int / float / None / bytes / bool -/
def PyObj.eqStr (o : PyObj) (s : Str) : Bool :=
  match o with
  | .str s' => s = s'
  | .ftag v => v = s
  | .enum v => v = s
  | _ => false

inductive PyVal
  | obj (o : PyObj)
  | cls (c : Cls)
  deriving Repr

/-! ## set / get / is_group / contains / del -/

/-- `FIXContainer.set(tag, value, replace)` -/
def set (c : Cont) (tag : PyObj) (value : PyVal) (replace : Bool) : Except Kind Cont :=
  if !intLike tag.pyStr then .error .fixMessageError        -- int(str(tag)) raised ValueError
  else
    let t := tag.pyStr
    match value with
    | .cls k => .ok (dictSet t (.cls k) c)                  -- _isclass(value): stored as is, no duplicate test
    | .obj o =>
      if !replace && hasKey t c then .error .duplicated
      else .ok (dictSet t (.str o.pyStr) c)

/-- the `default` argument of `get`: a class, or any other object (by its canonical text) -/
inductive Default
  | obj (repr : Str)
  | cls (c : Cls)
  deriving Repr

inductive GetRes
  | str (s : Str)       -- the stored string
  | cls (c : Cls)       -- a stored (or default) class object other than the two markers
  | dflt (repr : Str)   -- the default object
  deriving DecidableEq, Repr

/-- the `is TagNotFoundError` / `is RepeatingTagError` tests on a class object -/
def getCls : Cls → Except Kind GetRes
  | .tagNotFound => .error .tagNotFound
  | .repeating => .error .repeating
  | k => .ok (.cls k)

/-- `FIXContainer.get(tag, default)` -/
def get (c : Cont) (tag : PyObj) (d : Default) : Except Kind GetRes :=
  match lookup tag.pyStr c with
  | some (.str s) => .ok (.str s)
  | some (.cls k) => getCls k
  | some (.group _) => .error .fixMessageError
  | none =>
    match d with
    | .cls k => getCls k
    | .obj r => .ok (.dflt r)

/-- `__getitem__` -/
def getItem (c : Cont) (tag : PyObj) : Except Kind GetRes := get c tag (.cls .tagNotFound)

/-- `is_group(tag)`: None / True / False -/
def isGroup (c : Cont) (tag : PyObj) : Option Bool :=
  match lookup tag.pyStr c with
  | none => none
  | some (.group _) => some true
  | some _ => some false

/-- `item in container` -/
def contains (c : Cont) (item : PyObj) : Bool := hasKey item.pyStr c

/-- `del container[tag]` -/
def delItem (c : Cont) (tag : PyObj) : Except Kind Cont :=
  if hasKey tag.pyStr c then .ok (dictDel tag.pyStr c) else .error .keyError

/-! ## groups -/

/-- CPython `list.insert(i, x)` (`ins1`): negative index counts from the end, then clamp to [0, n] -/
def pyListInsert {α : Type} (l : List α) (i : Int) (x : α) : List α :=
  let n : Int := l.length
  let w := if i < 0 then i + n else i
  let w := if w < 0 then 0 else w
  let w := if w > n then n else w
  l.take w.toNat ++ x :: l.drop w.toNat

/-- `_FIXRepeatingGroupContainer.add_group(group, index)` -/
def groupAdd (items : List Cont) (g : Cont) (index : Int) : List Cont :=
  if index = -1 then items ++ [g] else pyListInsert items index g

/-! dict / list arguments: `{tag: value | [item, …]}`, item = dict | FIXContainer | something else -/
mutual
inductive DVal
  | plain (v : PyVal)
  | list (items : List DItem)
inductive DItem
  | dict (entries : List DEntry)
  | cont (c : Cont)
  | bad
inductive DEntry
  | mk (tag : PyObj) (v : DVal)
end

mutual
/-- the loop of `FIXContainer.__init__(tags)` continued from the partially filled container `acc` -/
def buildDict : List DEntry → Cont → Except Kind Cont
  | [], acc => .ok acc
  | .mk t (.plain v) :: rest, acc =>
    match set acc t v false with
    | .error e => .error e
    | .ok acc' => buildDict rest acc'
  | .mk t (.list items) :: rest, acc =>          -- isinstance(v, list): self.set_group(t, v)
    if !intLike t.pyStr then .error .fixMessageError       -- _check_tag
    else if hasKey t.pyStr acc then .error .duplicated
    else
      match buildItems items with
      | .error e => .error e
      | .ok gs => buildDict rest (dictSet t.pyStr (.group gs) acc)
/-- the loop of `set_group` over its items (`group_container.add_group(m, -1)` = append) -/
def buildItems : List DItem → Except Kind (List Cont)
  | [] => .ok []
  | .dict d :: rest =>
    match buildDict d [] with
    | .error e => .error e
    | .ok g => match buildItems rest with
      | .error e => .error e
      | .ok gs => .ok (g :: gs)
  | .cont g :: rest =>
    match buildItems rest with
    | .error e => .error e
    | .ok gs => .ok (g :: gs)
  | .bad :: _ => .error .fixMessageError
end

/-- `FIXContainer(tags)` -/
def fromDict (d : List DEntry) : Except Kind Cont := buildDict d []

/-- the `isinstance(group, dict)` / `isinstance(group, FIXContainer)` dispatch of `add_group` -/
def DItem.toCont : DItem → Except Kind Cont
  | .dict d => fromDict d
  | .cont g => .ok g
  | .bad => .error .fixMessageError

/-- `add_group(tag, group, index)` -/
def addGroup (c : Cont) (tag : PyObj) (item : DItem) (index : Int) : Except Kind Cont :=
  if !intLike tag.pyStr then .error .fixMessageError       -- _check_tag: int(str(tag)) raised ValueError
  else
    let t := tag.pyStr
    match item.toCont with
    | .error e => .error e
    | .ok g =>
      match lookup t c with
      | some (.group items) => .ok (dictSet t (.group (groupAdd items g index)) c)
      | some _ => .error .duplicated          -- the tag holds a str / class object: DuplicatedTagError
      | none => .ok (dictSet t (.group (groupAdd [] g index)) c)

/-- `set_group(tag, groups)` -/
def setGroup (c : Cont) (tag : PyObj) (items : List DItem) : Except Kind Cont :=
  let t := tag.pyStr
  if !intLike t then .error .fixMessageError               -- _check_tag
  else if hasKey t c then .error .duplicated
  else
    match buildItems items with
    | .error e => .error e
    | .ok gs => .ok (dictSet t (.group gs) c)

/-- `get_group_list(tag)` -/
def getGroupList (c : Cont) (tag : PyObj) : Except Kind (List Cont) :=
  match lookup tag.pyStr c with
  | none => .error .tagNotFound
  | some (.group items) => .ok items
  | some _ => .error .unmapped

/-- the loop of `get_group_by_tag` -/
def findByTag (gtag gvalue : PyObj) : List Cont → Except Kind Cont
  | [] => .error .tagNotFound
  | g :: rest =>
    if contains g gtag then
      match getItem g gtag with
      | .error e => .error e
      | .ok (.str s) => if gvalue.eqStr s then .ok g else findByTag gtag gvalue rest
      | .ok _ => findByTag gtag gvalue rest       -- a class object equals no str / enum / number
    else findByTag gtag gvalue rest

/-- `get_group_by_tag(tag, gtag, gvalue)` -/
def getGroupByTag (c : Cont) (tag gtag gvalue : PyObj) : Except Kind Cont :=
  match getGroupList c tag with
  | .error e => .error e
  | .ok items => findByTag gtag gvalue items

/-- `get_group_by_index(tag, index)`: `index >= len(g) or index < -len(g)` is tested, then `g[index]`
(Python indexing; the IndexError branches are unreachable and kept to mirror `g[index]`) -/
def getGroupByIndex (c : Cont) (tag : PyObj) (index : Int) : Except Kind Cont :=
  match getGroupList c tag with
  | .error e => .error e
  | .ok items =>
    let n : Int := items.length
    if index ≥ n ∨ index < -n then .error .tagNotFound
    else
      let i := if index < 0 then index + n else index
      if i < 0 then .error .indexError
      else match items[i.toNat]? with
        | some g => .ok g
        | none => .error .indexError

/-! ## query -/

/-- `FTag(s)` succeeds iff `s` is the value of a member -/
def isFTagValue (s : Str) : Bool := AsyncFix.Generated.FTags.values.any (fun n => natDigits n = s)

/-- `try: t = FTag(str(t))  except Exception: t = str(int(t))`, as the `str` of the resulting key -/
def queryKey (t : PyObj) : Except Kind Str :=
  if isFTagValue t.pyStr then .ok t.pyStr
  else match t.pyInt with
    | .error e => .error e
    | .ok n => .ok (renderInt n)

def queryLoop (c : Cont) : List PyObj → List (Str × GetRes) → Except Kind (List (Str × GetRes))
  | [], acc => .ok acc
  | t :: rest, acc =>
    match queryKey t with
    | .error e => .error e
    | .ok k =>
      match get c (.str k) (.obj [78, 111, 110, 101]) with       -- self.get(t, None)
      | .error e => .error e
      | .ok r => queryLoop c rest (dictSet k r acc)

/-- `query(*tags)`; the result dict as (str(key), value) in dict order (an FTag key and its value
string are the same dict key) -/
def query (c : Cont) (tags : List PyObj) : Except Kind (List (Str × GetRes)) :=
  queryLoop c (if tags.isEmpty then (keys c).map PyObj.str else tags) []

/-! ## rendering, equality, pickle -/

def joinSep (sep : Str) : List Str → Str
  | [] => []
  | [x] => x
  | x :: y :: rest => x ++ sep ++ joinSep sep (y :: rest)

/-- `#err#` -/
def errText : Str := [35, 101, 114, 114, 35]

def Cls.render : Cls → Str
  | .other r => r
  | _ => errText

mutual
/-- `"%s" % tag_value` inside `__str__` -/
def Val.render : Val → Str
  | .str s => s
  | .cls k => k.render
  | .group items =>                     -- str(len(groups)) + "=>" + str(groups)
    natDigits items.length ++ [61, 62, 91] ++ joinSep [44, 32] (renderItems items) ++ [93]
def renderItems : List (List (Str × Val)) → List Str
  | [] => []
  | g :: gs => joinSep [124] (renderFields g) :: renderItems gs
def renderFields : List (Str × Val) → List Str
  | [] => []
  | (t, v) :: rest => (t ++ 61 :: v.render) :: renderFields rest
end

/-- `FIXContainer.__str__` (= `__repr__`) -/
def render (c : Cont) : Str := joinSep [124] (renderFields c)

/-- `c1 == c2` on two class objects: identity (classes are identified by their `str()`) -/
def Cls.beq : Cls → Cls → Bool
  | .tagNotFound, .tagNotFound => true
  | .repeating, .repeating => true
  | .exc r₁, .exc r₂ => r₁ == r₂
  | .other r₁, .other r₂ => r₁ == r₂
  | _, _ => false

mutual
/-- `v1 == v2` for two stored values: str == str, class identity, `_FIXRepeatingGroupContainer.__eq__`
(`isinstance(other, …) and self.groups == other.groups`); values of different kinds are unequal -/
def Val.beq : Val → Val → Bool
  | .str s₁, .str s₂ => s₁ == s₂
  | .cls k₁, .cls k₂ => k₁.beq k₂
  | .group g₁, .group g₂ => beqItems g₁ g₂
  | _, _ => false
/-- `list == list` of containers: same length, equal element by element (`FIXContainer.__eq__`) -/
def beqItems : List (List (Str × Val)) → List (List (Str × Val)) → Bool
  | [], [] => true
  | a :: as, b :: bs => beqFields a b && beqItems as bs
  | _, _ => false
/-- `list(self.tags.items()) == list(other.tags.items())`: same (key, value) pairs in the same order -/
def beqFields : List (Str × Val) → List (Str × Val) → Bool
  | [], [] => true
  | (t₁, v₁) :: r₁, (t₂, v₂) :: r₂ => t₁ == t₂ && v₁.beq v₂ && beqFields r₁ r₂
  | _, _ => false
end

/-- `self == other` for a FIXContainer `other` -/
def eq (a b : Cont) : Bool := beqFields a b

def ignoreStrs : List Str := AsyncFix.Generated.FTags.ignoreTags.map natDigits

/-- the loop of `__eq__` over `other.items()` -/
def eqDictLoop (c : Cont) : List (PyObj × PyObj) → Except Kind Bool
  | [] => .ok true
  | (t, v) :: rest =>
    if ignoreStrs.contains t.pyStr then eqDictLoop c rest      -- `if str(t) in ignore_tags: continue`
    else if isGroup c t == some true then .error .fixMessageError
    else
      match getItem c t with
      | .error e => .error e
      | .ok r => if r = .str v.pyStr then eqDictLoop c rest else .ok false

def sameSet (a b : List Str) : Bool := a.all (b.contains ·) && b.all (a.contains ·)

/-- `self == other` for a dict `other` (given as its items in dict order) -/
def eqDict (c : Cont) (d : List (PyObj × PyObj)) : Except Kind Bool :=
  let otherTags := (d.map (·.1.pyStr)).filter (!ignoreStrs.contains ·)
  let selfTags := (keys c).filter (!ignoreStrs.contains ·)
  if !sameSet otherTags selfTags then .ok false else eqDictLoop c d

/-- `pickle.loads(pickle.dumps(c))`: default object pickling of `tags` (an OrderedDict of str, group
container objects and classes-by-reference); identity on the value model, compared on the implementation -/
def pickleRoundtrip (c : Cont) : Cont := c

/-! ## FIXMessage -/

structure Msg where
  msgType : Str          -- str(msg_type)
  body : Cont

/-- `msg_type=` -/
def msgTypePrefix : Str := [109, 115, 103, 95, 116, 121, 112, 101, 61]

/-- `FIXMessage.__repr__`; `__str__` and `__eq__` are inherited (they ignore msg_type) -/
def Msg.repr (m : Msg) : Str := msgTypePrefix ++ m.msgType ++ 124 :: render m.body

/-! ## operation sequences -/

inductive Op
  | set (tag : PyObj) (value : PyVal) (replace : Bool)
  | del (tag : PyObj)
  | addGroup (tag : PyObj) (item : DItem) (index : Int)
  | setGroup (tag : PyObj) (items : List DItem)
  | pickle

def Op.apply (c : Cont) : Op → Except Kind Cont
  | .set t v r => Container.set c t v r
  | .del t => Container.delItem c t
  | .addGroup t g i => Container.addGroup c t g i
  | .setGroup t gs => Container.setGroup c t gs
  | .pickle => .ok (pickleRoundtrip c)

/-- one mutator call on a live object: the new state and the exception raised, if any -/
def step (c : Cont) (op : Op) : Cont × Option Kind :=
  match op.apply c with
  | .ok c' => (c', none)
  | .error k => (c, some k)

def run (c : Cont) : List Op → Cont
  | [] => c
  | op :: ops => run (step c op).1 ops

end AsyncFix.Model.Container
