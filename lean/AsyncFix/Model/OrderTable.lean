/-
Model of the table interpreter at the end of `FIXNewOrderSingle.change_status`
(asyncfix/protocol/order_single.py).  The tables themselves are *generated*
from the source (AsyncFix/Generated/OrderTable.lean); this file is the generic
evaluator: the last ~25 lines of `change_status`.

Python values are modelled by their string values: `FOrdStatus`, `FExecType`
and `FMsg` members hash and compare by `value`, so a dict lookup with an enum
member, or with the plain string of its value, finds the same entry.
-/
namespace AsyncFix.Model.OrderTable

/-- A table cell: `True` (transit), `None` (valid, no status change), `FIXError`. -/
inductive Cell | go | stay | err
  deriving DecidableEq, Repr, Inhabited

/-- `{msg_status: cell, ..., None: default}` -/
structure Row where
  cells : List (String × Cell)
  dflt  : Cell
  deriving Repr

/-- A row of the outer dict: either a plain row or `{"exec_type": {exec: row, None: row}}`. -/
inductive RowSpec
  | plain (r : Row)
  | byExec (subs : List (String × Row)) (dflt : Row)
  deriving Repr

/-- `{status: rowspec, ..., None: default rowspec}` -/
structure Table where
  rows : List (String × RowSpec)
  dflt : RowSpec
  deriving Repr

/-- message kind value ↦ table (`if fix_msg_type == ... elif ...`). -/
abbrev Spec := List (String × Table)

/-- First match wins – Python dict literals with duplicate keys keep the *last*
value, the generator refuses nothing here, so duplicates are excluded by the
decidable side condition `Spec.nodup` proved on the generated table. -/
def lookup {α : Type} (k : String) : List (String × α) → Option α
  | [] => none
  | (k', v) :: rest => if k = k' then some v else lookup k rest

def Row.eval (r : Row) (msgStatus : String) : Cell :=
  (lookup msgStatus r.cells).getD r.dflt

def RowSpec.row (rs : RowSpec) (exec : String) : Row :=
  match rs with
  | .plain r => r
  | .byExec subs d => (lookup exec subs).getD d

def Table.eval (t : Table) (status exec msgStatus : String) : Cell :=
  (((lookup status t.rows).getD t.dflt).row exec).eval msgStatus

/-- Outcome of the lookup part: a cell, or "no table for this message kind". -/
inductive Out | cell (c : Cell) | noTable
  deriving DecidableEq, Repr

def cellOf (sp : Spec) (kind status exec msgStatus : String) : Out :=
  match lookup kind sp with
  | some t => .cell (t.eval status exec msgStatus)
  | none => .noTable

/-- Result of `change_status`. -/
inductive Res
  | to (s : String)   -- returns `msg_status`
  | none              -- returns `None`
  | raised            -- raises `FIXError`
  deriving DecidableEq, Repr

def changeStatus (sp : Spec) (status kind exec msgStatus : String) (raiseOnErr : Bool) : Res :=
  match cellOf sp kind status exec msgStatus with
  | .noTable => .raised            -- `raise FIXError("No status transition table ...")`, whatever raise_on_err
  | .cell .err => if raiseOnErr then .raised else .none
  | .cell .stay => .none
  | .cell .go => .to msgStatus

end AsyncFix.Model.OrderTable
