import AsyncFix.Model.SessionResend

/-!
Session family: `_process_message`, the watchdog iteration, transport events, the top-level entry
points and histories.

Entry points (each returns the new `Conn` and the effects in order; an exception that escapes the
Python entry point is the last effect `raised k`):

* `recv sr env c m`      – one decoded frame handed to `_process_message` by `socket_read_task`
* `feed sr env c ms`     – the inner `while True` of `socket_read_task` over the frames of one read
* `appSend env c m`      – the application awaits `send_msg(m)`
* `appTestReq env c`     – the application awaits `send_test_req()`
* `appDisconnect env c d logout` – the application awaits `disconnect(d, logout)`
* `tick env c`           – one iteration of `heartbeat_timer_task`
* `eof env c`            – `read()` returned `b""` / raised ConnectionError
* `connected c k`        – connection_client.py `connect()` / connection_server.py `_handle_accept`
* `resetSeq c`           – `reset_seq_num()`

`Event` / `step` / `run` package them for statements over histories.
-/
namespace AsyncFix.Session

open AsyncFix.Generated AsyncFix.Generated.ConnEnum

/-- `_process_message`, first part of the `try` block (connection.py l.812-849): everything up to and
including `is_valid_msg_num = await self._check_seqnum_gaps(msg_seq_num)`.
`none` = one of the early `return`s (`is_valid_msg_num` still `False`);
`some (valid, n)` = go on to the dispatch with this `is_valid_msg_num` and `msg_seq_num`. -/
def processHead (env : Env) (m : Msg) : M (Option (Bool × Int)) := do
  let c ← M.get
  M.assert (decide (c.state ≥ st_NETWORK_CONN_ESTABLISHED))
  -- l.814-823: acceptor's first message must be Logon
  let stop1 ←
    if c.state == st_NETWORK_CONN_ESTABLISHED then
      if m.mtype != mLogon then do
        disconnect env st_DISCONNECTED_BROKEN_CONN none
        pure true
      else do
        stateSet st_LOGON_INITIAL_RECV
        M.modify fun c => { c with role := roleAcceptor }
        pure false
    else pure false
  if stop1 then pure none
  else do
    let c1 ← M.get
    -- l.825-833 (F11): initiator before the Logon reply
    if c1.state == st_LOGON_INITIAL_SENT && m.mtype != mLogon && m.mtype != mLogout then do
      disconnect env st_DISCONNECTED_BROKEN_CONN none
      pure none
    else do
      -- l.835-842
      let stop2 ←
        if m.mtype == mLogon then do processLogon env m; pure false
        else if m.mtype == mSequenceReset then do
          let ok ← processSeqreset m
          if !ok then do
            let v ← M.liftE (m.get tMsgSeqNum)
            let n ← M.int v
            let _ ← checkSeqnumGaps env n
            pure true
          else pure false
        else if m.mtype == mLogout then do processLogout env m; pure false
        else pure false
      if stop2 then pure none
      else do
        let c2 ← M.get
        if c2.state ≤ st_DISCONNECTED_BROKEN_CONN then pure none
        else do
          let v ← M.liftE (m.get tMsgSeqNum)
          let n ← M.int v
          let valid ← checkSeqnumGaps env n
          pure (some (valid, n))

/-- `_process_message`, the dispatch (l.851-865); runs with `is_valid_msg_num` already assigned. -/
def processDispatch (env : Env) (sr : Msg → Bool) (m : Msg) (valid : Bool) (n : Int) : M Unit := do
  if m.mtype == mResendRequest then processResend env sr m
  else if m.mtype == mSequenceReset then pure ()
  else if m.mtype == mLogon then pure ()
  else if m.mtype == mTestRequest then processTestRequest env m
  else if m.mtype == mHeartbeat then processHeartbeat env m
  else do
    let c ← M.get
    if valid && n == c.sess.nextIn then M.emit (.deliver m) else pure ()

/-- `_process_message` (l.790-876).  `_validate_integrity` and the `disconnect` it triggers run BEFORE
the `try`: their exceptions escape.  Inside the `try`, `except Exception` swallows; the `finally`
runs `_finalize_message` iff `is_valid_msg_num` was assigned `True` before the exception / return, and
an exception raised there escapes. -/
def processMessage (env : Env) (sr : Msg → Bool) (m : Msg) : M Unit := do
  let integ ← validateIntegrity m
  match integ with
  | .critical => disconnect env st_DISCONNECTED_BROKEN_CONN none
  | .reason text => disconnect env st_DISCONNECTED_BROKEN_CONN (some text)
  | .good => do
    let head ← swallow none (processHead env m)
    match head with
    | none => pure ()
    | some (valid, n) => do
      swallow () (processDispatch env sr m valid n)
      if valid then finalizeMessage env m else pure ()

/-- one iteration of `heartbeat_timer_task` (l.351-388) at time `env.now`.
Thresholds (seconds in the code, milliseconds here): TestRequest when ACTIVE and
`now − last > hb − 1`; disconnect when `last ≠ 0` and `now − last > 2·hb`, and when a TestReqID is
outstanding (truthy: not `None`, not 0) and `now − id > 2·hb` and `now − last > 2·hb` (fix e3d9663:
valid traffic since the TestRequest spares the peer; `last` is stamped by the tick only right after a
TestRequest was sent).  `if not self._test_req_id` treats an id
of 0 like none, whereas `send_test_req` refuses it (`is not None`): mirrored.  An exception aborts the
iteration (the task logs it and starts the next one). -/
def tickBody (env : Env) : M Unit := do
  let c ← M.get
  if !c.sock then pure ()
  else do
    if c.state == st_ACTIVE then
      if env.now - c.lastTime > (c.hb - 1) * 1000 then
        if c.testReqId.getD 0 == 0 then do
          sendTestReq env
          M.modify fun c => { c with lastTime := env.now }
        else pure ()
      else pure ()
    else pure ()
    let c1 ← M.get
    if c1.lastTime != 0 && env.now - c1.lastTime > c1.hb * 2 * 1000 then
      disconnect env st_DISCONNECTED_BROKEN_CONN none
    else pure ()
    let c2 ← M.get
    if c2.testReqId.getD 0 != 0 && env.now - (c2.testReqId.getD 0) * 1000 > c2.hb * 2 * 1000
        && env.now - c2.lastTime > c2.hb * 2 * 1000 then
      disconnect env st_DISCONNECTED_BROKEN_CONN none
    else pure ()

/-- `reset_seq_num` (l.390-395) -/
def resetSeqNum : M Unit := do
  setSeqNum (some 1) (some 1)
  let c ← M.get
  M.assert (c.sess.nextIn == 1)
  M.assert (c.sess.nextOut == 1)

/-- how a transport comes up -/
inductive ConnKind
  | initiator       -- AsyncFIXClient.connect(), `open_connection` succeeded
  | initiatorFailed -- AsyncFIXClient.connect(), `open_connection` raised
  | acceptor        -- AsyncFIXDummyServer._handle_accept
  deriving DecidableEq, Repr

/-- connection set-up (connection_client.py l.50-72, connection_server.py l.72-90).  The state is
assigned directly (no `_state_set`, no `on_state_change`); the role was fixed by the subclass
constructor and is not touched.  The client refuses when a reader exists; the dummy server closes the
NEW writer when one exists and then adopts it anyway (mirrored as `closeSocket`). -/
def connectedM : ConnKind → M Unit
  | .initiator => do
    let c ← M.get
    if c.sock then M.throw .connection
    else do
      M.modify fun c => { c with sock := true, state := st_NETWORK_CONN_ESTABLISHED }
      M.emit .onConnect
  | .initiatorFailed => do
    let c ← M.get
    if c.sock then M.throw .connection
    else M.modify fun c => { c with state := st_DISCONNECTED_BROKEN_CONN }
  | .acceptor => do
    let c ← M.get
    if c.sock then M.emit .closeSocket else pure ()
    M.modify fun c => { c with sock := true, state := st_NETWORK_CONN_ESTABLISHED }
    M.emit .onConnect

/-! ### top-level entry points -/

def recv (sr : Msg → Bool) (env : Env) (c : Conn) (m : Msg) : Conn × List Effect :=
  (processMessage env sr m).run c

def appSend (env : Env) (c : Conn) (m : Msg) : Conn × List Effect := (sendMsg env m).run c

def appTestReq (env : Env) (c : Conn) : Conn × List Effect := (sendTestReq env).run c

def appDisconnect (env : Env) (c : Conn) (dstate : Nat) (logout : Option String) : Conn × List Effect :=
  (disconnect env dstate logout).run c

def tick (env : Env) (c : Conn) : Conn × List Effect := (tickBody env).run c

/-- `socket_read_task` l.338-342: EOF / ConnectionError ⇒ `disconnect(DISCONNECTED_BROKEN_CONN)`.
Without a reader the task only sleeps. -/
def eof (env : Env) (c : Conn) : Conn × List Effect :=
  if c.sock then (disconnect env st_DISCONNECTED_BROKEN_CONN none).run c else (c, [])

def connected (c : Conn) (k : ConnKind) : Conn × List Effect := (connectedM k).run c

def resetSeq (c : Conn) : Conn × List Effect := resetSeqNum.run c

/-- an exception escaped the entry point -/
def hasRaised (es : List Effect) : Bool := es.any fun e => match e with | .raised _ => true | _ => false

/-- inner loop of `socket_read_task` over the frames decoded from ONE `read()` chunk (plus what an
earlier read left in `_msg_buffer`).  A frame whose processing ends in a disconnected state ends the
loop and the remaining frames are GONE: `disconnect()` has cleared `_msg_buffer` (fix 9d91921) – bytes of
a connection that was dropped never reach the next connection of the same object.  When
`_process_message` lets an exception escape, the task logs it and the rest of the buffer (third
component) is processed after the next read.  (Started in a disconnected state – no `disconnect()` ran,
the code cannot even read then – nothing is processed and everything stays.) -/
def feed (sr : Msg → Bool) (env : Env) : Conn → List Msg → Conn × List Effect × List Msg
  | c, [] => (c, [], [])
  | c, m :: rest =>
    if c.state ≤ st_DISCONNECTED_BROKEN_CONN then (c, [], m :: rest)
    else
      let (c1, e1) := recv sr env c m
      if hasRaised e1 then (c1, e1, rest)
      else if c1.state ≤ st_DISCONNECTED_BROKEN_CONN then (c1, e1, [])
      else
        let (c2, e2, r) := feed sr env c1 rest
        (c2, e1 ++ e2, r)

/-! ### histories -/

inductive Event
  | recv (env : Env) (m : Msg)
  | appSend (env : Env) (m : Msg)
  | appTestReq (env : Env)
  | appDisconnect (env : Env) (dstate : Nat) (logout : Option String)
  | tick (env : Env)
  | eof (env : Env)
  | connected (k : ConnKind)
  | resetSeq
  deriving Repr

def step (sr : Msg → Bool) (c : Conn) : Event → Conn × List Effect
  | .recv env m => recv sr env c m
  | .appSend env m => appSend env c m
  | .appTestReq env => appTestReq env c
  | .appDisconnect env d l => appDisconnect env c d l
  | .tick env => tick env c
  | .eof env => eof env c
  | .connected k => connected c k
  | .resetSeq => resetSeq c

/-- run a history; the effects of all steps concatenated -/
def run (sr : Msg → Bool) : Conn → List Event → Conn × List Effect
  | c, [] => (c, [])
  | c, ev :: rest =>
    let (c1, e1) := step sr c ev
    let (c2, e2) := run sr c1 rest
    (c2, e1 ++ e2)

/-- run a history keeping, per step, the state before, the effects and the state after -/
def trace (sr : Msg → Bool) : Conn → List Event → List (Conn × List Effect × Conn)
  | _, [] => []
  | c, ev :: rest =>
    let (c1, e1) := step sr c ev
    (c, e1, c1) :: trace sr c1 rest

end AsyncFix.Session
