import AsyncFix.Model.Tester
import AsyncFix.Generated.TesterDict

/-!
Tester family (C20): what `FIXSchema.validate` (asyncfix/protocol/schema.py l.679-742) checks on the
messages the helper fabricates, over the dictionary tables GENERATED from tests/FIX44.xml
(`Generated/TesterDict.lean`):

* every tag is a top-level member of the message type, or a header / trailer field;
* every required member is present;
* every value is a non-empty string and passes `SchemaField.validate_value` for its field – value list
  when the field is enumerated, else by datatype.  Datatypes are modelled for the tags the helper
  writes only (`TesterDict.ftypes`): STRING / CHAR (no SOH, no `=`), QTY / PRICE (FIX float layout),
  INT, SEQNUM (positive; `EndSeqNo = 0` allowed); UTCTIMESTAMP (TransactTime of the order object's
  requests) is NOT modelled here (property C19) and accepted.  A tag without a modelled datatype is
  refused.

Used (a) as the concrete `schema` argument of the fabrication model in the driver, compared with the
real `FIXSchema` by the harness, and (b) as the concrete instance of the abstract `Allowed` predicate
in `Props/C20.lean`.
-/
namespace AsyncFix.Tester

open AsyncFix.Generated

def lookupK {α β : Type} [DecidableEq α] (k : α) : List (α × β) → Option β
  | [] => none
  | (k', v) :: r => if k = k' then some v else lookupK k r

def dictMembers (mt : String) : Option (List Nat × List Nat) := lookupK mt TesterDict.messages

def enumOf (t : Nat) : Option (List String) := lookupK t TesterDict.enums
def ftypeOf (t : Nat) : Option String := lookupK t TesterDict.ftypes

def isDigit (c : Char) : Bool := 48 ≤ c.toNat && c.toNat ≤ 57

/-- `-?[0-9]+` -/
def isFixInt (s : String) : Bool :=
  let cs := match s.toList with | '-' :: r => r | r => r
  !cs.isEmpty && cs.all isDigit

/-- `-?([0-9]+\.?[0-9]*|\.[0-9]+)` -/
def isFixFloat (s : String) : Bool :=
  let cs := match s.toList with | '-' :: r => r | r => r
  let ip := cs.takeWhile isDigit
  let rest := cs.dropWhile isDigit
  match rest with
  | [] => !ip.isEmpty
  | '.' :: fr => fr.all isDigit && (!ip.isEmpty || !fr.isEmpty)
  | _ => false

def noSohEq (s : String) : Bool := s.toList.all fun c => c.toNat != 1 && c != '='

/-- value of a decimal digit string (only called on `isFixInt` strings) -/
def digitsVal (cs : List Char) : Nat := cs.foldl (fun a c => a * 10 + (c.toNat - 48)) 0

/-- `SchemaField.validate_value` for the fields the helper writes -/
def valueOk (t : Nat) (v : String) : Bool :=
  v != "" &&
  match enumOf t with
  | some vs => vs.contains v
  | none =>
    match ftypeOf t with
    | some "STRING" => noSohEq v
    | some "CHAR" => noSohEq v && v.length ≤ 1
    | some "QTY" => isFixFloat v
    | some "PRICE" => isFixFloat v
    | some "INT" => isFixInt v
    | some "SEQNUM" =>
      (t == 16 && v == "0") ||
      (isFixInt v && (match v.toList with | '-' :: _ => false | r => digitsVal r != 0))
    | some "UTCTIMESTAMP" => true
    | _ => false

def knownType (mt : String) : Bool := (dictMembers mt).isSome

def requiredOf (mt : String) : List Nat := ((dictMembers mt).map (·.2)).getD []

/-- the tag is a top-level member of the message type, or a header / trailer field -/
def memberOk (mt : String) (t : Nat) : Bool :=
  (((dictMembers mt).map (·.1)).getD []).contains t || TesterDict.header.contains t || TesterDict.trailer.contains t

/-- `FIXSchema.validate` on a message without repeating groups and without BeginString (no header
validation is triggered: `"8" in msg` is false for everything the helper fabricates). -/
def dictCheck (m : AsyncFix.Session.Msg) : Bool :=
  knownType m.mtype &&
  (requiredOf m.mtype).all (fun t => m.has t) &&
  m.tags.all fun p => p.1 == 10 || (memberOk m.mtype p.1 && valueOk p.1 p.2)

/-- the structural part of `dictCheck`: known type, required members present, every tag allowed -/
def dictStruct (m : AsyncFix.Session.Msg) : Bool :=
  knownType m.mtype &&
  (requiredOf m.mtype).all (fun t => m.has t) &&
  m.tags.all fun p => p.1 == 10 || memberOk m.mtype p.1

/-- `dictStruct` as a function of the message type and the tag list alone -/
def structOk (mt : String) (tags : List Nat) : Bool :=
  knownType mt && (requiredOf mt).all (fun t => tags.contains t) && tags.all fun t => t == 10 || memberOk mt t

/-- the lexical part: every value passes `SchemaField.validate_value` -/
def dictValues (m : AsyncFix.Session.Msg) : Bool := m.tags.all fun p => p.1 == 10 || valueOk p.1 p.2

/-- the concrete schema argument: the dictionary check on the rendered message -/
def dictSchema (m : RMsg) : Bool := dictCheck m.render

end AsyncFix.Tester
