/-
Model of `FIXNewOrderSingle` (asyncfix/protocol/order_single.py) – the order object of C17.

* Text that the code only copies and compares (ClOrdIDs, OrderID, ticker, …) is a list of code
  points (`Str`); status / ExecType / message-type values are Lean `String`s, as in the C16 model
  whose interpreter `changeStatus` over the GENERATED table is reused unchanged.
* Prices and quantities are integers counting 1/8 units.  n/8 is exact in binary floating point,
  so Python's float arithmetic / equality on such values agrees with integer arithmetic; what
  `float(text)` does to a tag is abstracted to `Num` (missing tag / unparsable text / grid value).
* Every function returns the order as the Python method leaves it – also when it raises half-way
  through – together with `Res`: the returned value or the kind of exception raised.
-/
import AsyncFix.Model.OrderTable
import AsyncFix.Generated.OrderTable
import AsyncFix.Generated.UnicodeNd
namespace AsyncFix.Model.OrderObj
open AsyncFix.Model.OrderTable

abbrev Str := List Nat

/-- exception kinds the order object can raise -/
inductive Exc | fixError | assertion | value | tagNotFound
  | hook   -- whatever an overridden hook (set_instrument, set_account, set_price_qty, current_datetime) raises
  deriving DecidableEq, Repr

inductive Res (α : Type)
  | ok (a : α)
  | raised (e : Exc)
  deriving DecidableEq, Repr

/-- a numeric tag as `float(m[tag])` sees it -/
inductive Num
  | missing          -- tag absent: `TagNotFoundError` (or the `None` default of `m.get`)
  | bad              -- text that `float()` refuses: `ValueError`
  | val (n : Int)    -- a value on the 1/8 grid
  deriving DecidableEq, Repr

/-- the tags of an incoming report that the order object reads (plus OrigClOrdID, which it never reads) -/
structure Report where
  msgType : String
  clOrdId : Option Str := none        -- 11
  origClOrdId : Option Str := none    -- 41
  orderId : Option Str := none        -- 37
  execType : Option String := none    -- 150
  ordStatus : Option String := none   -- 39
  cumQty : Num := .missing            -- 14
  leavesQty : Num := .missing         -- 151
  avgPx : Num := .missing             -- 6
  price : Num := .missing             -- 44
  orderQty : Num := .missing          -- 38
  deriving DecidableEq, Repr

/-- a tag value of a built request: text that is copied, or a price / quantity (grid integer; the
message holds `str(float)` of it, see `renderGrid`) -/
inductive Val
  | text (s : Str)
  | num (n : Int)
  deriving DecidableEq, Repr

/-- a request message built by the order: MsgType and the tags in insertion order -/
structure Msg where
  msgType : String
  tags : List (Nat × Val)
  deriving DecidableEq, Repr

/-- `m.get(tag, None)` for a text tag / a price-quantity tag -/
def getText (tags : List (Nat × Val)) (t : Nat) : Option Str :=
  match tags.find? (·.1 == t) with
  | some (_, .text s) => some s
  | _ => none

def getNum (tags : List (Nat × Val)) (t : Nat) : Option Int :=
  match tags.find? (·.1 == t) with
  | some (_, .num n) => some n
  | _ => none

/-- ClOrdID (11) / OrigClOrdID (41) of a built request -/
def Msg.clOrdId (m : Msg) : Option Str := getText m.tags 11
def Msg.origClOrdId (m : Msg) : Option Str := getText m.tags 41

structure Order where
  clordId : Str
  origClordId : Option Str := none
  orderId : Option Str := none
  price : Int
  qty : Int
  leavesQty : Int := 0
  cumQty : Int := 0
  avgPx : Option Int := none          -- `none` = nan
  clordCnt : Nat := 0
  status : String := "Z"              -- FOrdStatus.CREATED
  -- constructor arguments that are only echoed into requests (already `str()`-ed)
  ticker : Str := []
  side : Str := []
  ordType : Str := []
  account : Str := []
  deriving DecidableEq, Repr

/-- `FIXNewOrderSingle(clord_id, …)`: `assert clord_id` -/
def Order.init (root : Str) (price qty : Int) (ticker side ordType account : Str := []) : Res Order :=
  if root = [] then .raised .assertion
  else .ok { clordId := root, price := price, qty := qty,
             ticker := ticker, side := side, ordType := ordType, account := account }

/-! ### text helpers -/

/-- `str(n)` for a non-negative Python int: most significant digit first.  Structural recursion on
a fuel argument (so that the kernel can evaluate it); `dec n` starts with fuel `n + 1`, more than
the number of digits – `dec_eq` (Lemmas/OrderObjText) shows the fuel never runs out. -/
def decAux : Nat → Nat → Str
  | 0, _ => []
  | fuel + 1, n => if n < 10 then [48 + n] else decAux fuel (n / 10) ++ [48 + n % 10]

def dec (n : Nat) : Str := decAux (n + 1) n

/-- digits of the fractional part k/8 as Python's `repr(float)` prints them -/
def frac8 (k : Nat) : Str :=
  match k with
  | 0 => [48] | 1 => [49, 50, 53] | 2 => [50, 53] | 3 => [51, 55, 53]
  | 4 => [53] | 5 => [54, 50, 53] | 6 => [55, 53] | _ => [56, 55, 53]

/-- `str(n / 8)` for a Python float of magnitude below 2^46 (all three decimals are printed): the text a
`Val.num n` stands for in the real message -/
def renderGrid (n : Int) : Str :=
  let a := n.natAbs
  (if n < 0 then [45] else []) ++ dec (a / 8) ++ [46] ++ frac8 (a % 8)

/-- `\d` of CPython's `re` on a str pattern: the Unicode decimal digits -/
def isNd (c : Nat) : Bool :=
  AsyncFix.Generated.UnicodeNd.ranges.any fun r => r.1 ≤ c && c ≤ r.2

/-! ### `RE_CLORD_ROOT = re.compile(r"(.+)--(\d+)\Z", re.DOTALL)`, used with `.match`

A backtracking matcher specialised to this pattern.  `match` anchors at position 0; with DOTALL `.`
matches every character; `\Z` holds only at the end of the text; both `+` are greedy and give
characters back one at a time. -/

/-- `\Z` -/
def atEnd : Str → Bool
  | [] => true
  | _ :: _ => false

/-- `(\d+)\Z` on `s`: try `n`, `n-1`, …, 1 digits (`n` = length of the greedy digit run) -/
def digitsThenEnd (s : Str) : Nat → Bool
  | 0 => false
  | n + 1 => atEnd (s.drop (n + 1)) || digitsThenEnd s n

/-- `--(\d+)\Z` at the current position -/
def tailMatches : Str → Bool
  | a :: b :: rest => a == 45 && b == 45 && digitsThenEnd rest (rest.takeWhile isNd).length
  | _ => false

/-- `(.+)` then the tail: try `n`, `n-1`, …, 1 characters for group 1 -/
def tryDot (s : Str) : Nat → Option Str
  | 0 => none
  | n + 1 => if tailMatches (s.drop (n + 1)) then some (s.take (n + 1)) else tryDot s n

/-- `RE_CLORD_ROOT.match(s)`: group 1 of the match, if any -/
def reMatchRoot (s : Str) : Option Str := tryDot s s.length

/-- `FIXNewOrderSingle.clord_root` -/
def clordRoot (s : Str) : Str := (reMatchRoot s).getD s

/-! ### the methods -/

abbrev spec := AsyncFix.Generated.OrderTable.spec

/-- FOrdStatus values: `FOrdStatus(x)` succeeds exactly on these -/
def statusValues : List String := AsyncFix.Generated.OrderTable.ordStatus.map (·.2)

/-- model string of the int `0` that the code passes as "ExecType omitted" (no table key) -/
def omitted : String := "<int:0>"

/-- Python truthiness of `self.orig_clord_id` (None or a str) -/
def truthy : Option Str → Bool
  | some (_ :: _) => true
  | _ => false

/-- the id `clord_next()` returns: root of the current id, `--`, the incremented counter -/
def nextId (o : Order) : Str := clordRoot o.clordId ++ [45, 45] ++ dec (o.clordCnt + 1)

/-- `clord_next()`: increments the counter, returns the new id -/
def clordNext (o : Order) : Order × Str := ({ o with clordCnt := o.clordCnt + 1 }, nextId o)

def isFinished (o : Order) : Bool :=
  o.status == "2" || o.status == "4" || o.status == "8" || o.status == "C"

/-- `can_cancel()` (kind "F", required status "6") / `can_replace()` (kind "G", "E") -/
def canRequest (o : Order) (kind rep : String) : Res Bool :=
  match changeStatus spec o.status kind omitted rep false with
  | .raised => .raised .fixError
  | .none => .ok false
  | .to _ => .ok true

def canCancel (o : Order) : Res Bool := canRequest o "F" "6"
def canReplace (o : Order) : Res Bool := canRequest o "G" "E"

/-- value of TransactTime (tag 60): the clock is external, the harness canonicalises it to "T" -/
def clock : Str := [84]

/-- `self.clord_id = self.clord_next()` -/
def takeNextId (o : Order) : Order :=
  { o with clordCnt := o.clordCnt + 1, clordId := nextId o }

def newReq (o : Order) : Order × Res Msg :=
  if o.status ≠ "Z" then (o, .raised .assertion)
  else
    ({ takeNextId o with status := "A" },
     .ok ⟨"D", [(11, .text (nextId o)), (55, .text o.ticker), (1, .text o.account),
                (40, .text o.ordType), (54, .text o.side), (60, .text clock),
                (44, .num o.price), (38, .num o.qty)]⟩)

/-- `orig_clord_id = clord_id; clord_id = clord_next(); status = …` of both request builders -/
def startRequest (o : Order) (status : String) : Order :=
  { takeNextId o with origClordId := some o.clordId, status := status }

def cancelReq (o : Order) : Order × Res Msg :=
  match canCancel o with
  | .raised e => (o, .raised e)
  | .ok false => (o, .raised .fixError)
  | .ok true =>
    if truthy o.origClordId then (o, .raised .assertion)
    else
      (startRequest o "6",
       .ok ⟨"F", [(11, .text (nextId o)), (38, .num o.qty), (41, .text o.clordId),
                  (55, .text o.ticker), (54, .text o.side), (60, .text clock)]⟩)

/-- price / quantity that `replace_req(price, qty)` will ask for; `none` = None / nan / ±inf -/
def effPrice (o : Order) : Option Int → Int
  | none => o.price
  | some x => if x = o.price then o.price else x

def effQty (o : Order) : Option Int → Int
  | none => o.qty
  | some x => if x = o.qty ∨ x = 0 then o.qty else x

def replaceReq (o : Order) (price qty : Option Int) : Order × Res Msg :=
  match canReplace o with
  | .raised e => (o, .raised e)
  | .ok false => (o, .raised .fixError)
  | .ok true =>
    if effPrice o price = o.price ∧ effQty o qty = o.qty then (o, .raised .fixError)
    else if truthy o.origClordId then (o, .raised .assertion)
    else
      (startRequest o "E",
       .ok ⟨"G", [(11, .text (nextId o)), (41, .text o.clordId), (40, .text o.ordType),
                  (55, .text o.ticker), (44, .num (effPrice o price)), (38, .num (effQty o qty)),
                  (54, .text o.side), (60, .text clock)]⟩)

/-- `self.status = FOrdStatus(new_status)` -/
def setStatus (o : Order) (s : String) : Order × Res Bool :=
  if s ∈ statusValues then ({ o with status := s }, .ok true) else (o, .raised .value)

/-- the request was rejected: back to the previous ClOrdID -/
def revertId (o : Order) : Order :=
  if truthy o.origClordId then
    { o with clordId := o.origClordId.getD [], origClordId := none }
  else o

def processCancelRej (o : Order) (r : Report) : Order × Res Bool :=
  if r.msgType ≠ "9" then (o, .raised .fixError) else
  match r.ordStatus with
  | none => (o, .raised .tagNotFound)
  | some st =>
    match changeStatus spec o.status "9" omitted st false with
    | .raised => (o, .raised .fixError)
    | .to s => setStatus (revertId (if st = "8" then { o with leavesQty := 0 } else o)) s
    | .none => (revertId (if st = "8" then { o with leavesQty := 0 } else o), .ok false)

/-- tail of `process_execution_report`: `if new_status: self.status = FOrdStatus(new_status)` -/
def finishExec (res : OrderTable.Res) (o : Order) : Order × Res Bool :=
  match res with
  | .to s => if s ≠ "" then setStatus o s else (o, .ok false)
  | _ => (o, .ok false)

/-- the `exec_type == REPLACED` block -/
def applyReplaced (res : OrderTable.Res) (o : Order) (r : Report) : Order × Res Bool :=
  match r.price with
  | .bad => (o, .raised .value)
  | .missing =>
    (match r.orderQty with
     | .bad => (o, .raised .value)
     | .missing => finishExec res { o with origClordId := none }
     | .val q => finishExec res { o with qty := q, origClordId := none })
  | .val p =>
    (match r.orderQty with
     | .bad => ({ o with price := p }, .raised .value)
     | .missing => finishExec res { o with price := p, origClordId := none }
     | .val q => finishExec res { o with price := p, qty := q, origClordId := none })

def processExecReport (o : Order) (r : Report) : Order × Res Bool :=
  if r.msgType ≠ "8" then (o, .raised .fixError) else
  match r.clOrdId with
  | none => (o, .raised .tagNotFound)
  | some cl =>
  match r.cumQty with
  | .missing => (o, .raised .tagNotFound)
  | .bad => (o, .raised .value)
  | .val cum =>
  match r.ordStatus with
  | none => (o, .raised .tagNotFound)
  | some st =>
  if cl ≠ o.clordId ∧ some cl ≠ o.origClordId then (o, .raised .fixError) else
  match r.execType with
  | none => (o, .raised .tagNotFound)
  | some ex =>
  match r.leavesQty with
  | .missing => (o, .raised .tagNotFound)
  | .bad => (o, .raised .value)
  | .val leaves =>
  if changeStatus spec o.status "8" ex st false = .raised then (o, .raised .fixError) else
  match r.orderId with
  | none => (o, .raised .tagNotFound)
  | some oid =>
  match r.avgPx with
  | .missing => ({ o with orderId := some oid, leavesQty := leaves, cumQty := cum }, .raised .tagNotFound)
  | .bad => ({ o with orderId := some oid, leavesQty := leaves, cumQty := cum }, .raised .value)
  | .val avg =>
    if ex = "5" then
      applyReplaced (changeStatus spec o.status "8" ex st false)
        { o with orderId := some oid, leavesQty := leaves, cumQty := cum, avgPx := some avg } r
    else
      finishExec (changeStatus spec o.status "8" ex st false)
        { o with orderId := some oid, leavesQty := leaves, cumQty := cum, avgPx := some avg }

/-! ### overridable hooks that misbehave

`set_instrument`, `set_account`, `set_price_qty`, `current_datetime` are documented extension points.
All of them are called after the ClOrdID bookkeeping and before the status assignment of the builder,
so the position of the faulty call does not matter for the order's state.  The theorems of C17 are
about hooks that return normally and do not call back; these variants exist for the correspondence
(the code as it is NOW is not exception safe: see Findings/C17). -/

inductive Hook
  | ok         -- returns normally
  | raises     -- raises (nothing is sent)
  | bumps      -- calls `clord_next()` itself while the message is being built (re-entrancy)
  | reenters   -- calls `can_cancel()` / `can_replace()` while the message is being built
  deriving DecidableEq, Repr

def bumpCnt (r : Order × Res Msg) : Order × Res Msg :=
  ({ r.1 with clordCnt := r.1.clordCnt + 1 }, r.2)

def newReqH (o : Order) (h : Hook) : Order × Res Msg :=
  if o.status ≠ "Z" then (o, .raised .assertion)
  else match h with
    | .raises => (takeNextId o, .raised .hook)
    | .bumps => bumpCnt (newReq o)
    | _ => newReq o

def cancelReqH (o : Order) (h : Hook) : Order × Res Msg :=
  match (cancelReq o).2, h with
  | .ok _, .raises => (startRequest o o.status, .raised .hook)
  | .ok _, .bumps => bumpCnt (cancelReq o)
  | _, _ => cancelReq o

def replaceReqH (o : Order) (price qty : Option Int) (h : Hook) : Order × Res Msg :=
  match (replaceReq o price qty).2, h with
  | .ok _, .raises => (startRequest o o.status, .raised .hook)
  | .ok _, .bumps => bumpCnt (replaceReq o price qty)
  | _, _ => replaceReq o price qty

/-- what `can_cancel()` / `can_replace()` answer when called from inside a hook of a builder that gets that far -/
def hookView (o : Order) (isNew : Bool) : Res Bool × Res Bool :=
  let mid := if isNew then takeNextId o else startRequest o o.status
  (canCancel mid, canReplace mid)

/-! ### arbitrary call sequences (for the local theorems) -/

inductive Op
  | newReq
  | cancelReq
  | replaceReq (price qty : Option Int)
  | execReport (r : Report)
  | cancelRej (r : Report)
  deriving DecidableEq, Repr

def liftBuild (r : Order × Res Msg) : Order × Res (Option Msg) :=
  (r.1, match r.2 with | .ok m => .ok (some m) | .raised e => .raised e)

def liftRet (r : Order × Res Bool) : Order × Res (Option Msg) :=
  (r.1, match r.2 with | .ok _ => .ok none | .raised e => .raised e)

/-- outcome of one call: the request that was built, if any -/
def applyOp (o : Order) : Op → Order × Res (Option Msg)
  | .newReq => liftBuild (newReq o)
  | .cancelReq => liftBuild (cancelReq o)
  | .replaceReq p q => liftBuild (replaceReq o p q)
  | .execReport r => liftRet (processExecReport o r)
  | .cancelRej r => liftRet (processCancelRej o r)

def runOps (o : Order) : List Op → Order
  | [] => o
  | op :: rest => runOps (applyOp o op).1 rest

/-- the requests built along a call sequence, each with the counter value after building it -/
def builtOps (o : Order) : List Op → List (Nat × Msg)
  | [] => []
  | op :: rest =>
    match applyOp o op with
    | (o', .ok (some m)) => (o'.clordCnt, m) :: builtOps o' rest
    | (o', _) => builtOps o' rest

end AsyncFix.Model.OrderObj
