import AsyncFix.Model.Link

/-!
Link family, ABSTRACT protocol model (`ALink`) and the abstraction function from the executable model
(`absLink : Link → ALink`).

The abstract model keeps what property C07 talks about and nothing else: per endpoint the session phase
(`ASt`), the role flag, the three numbers (`e` = next expected inbound, `o` = next outbound, `w` = resend
watermark) and the outbound journal as a list `number ↦ application payload | session-level row`; frames are
`number + kind`.  Its step function `astep` is a plain case analysis (no exceptions, no strings).

`Lemmas/LinkStepSim.lean` (`step_sim`) proves that `absLink` commutes with the step functions on well-formed states
(`absLink (step l ev) = astep (absLink l) (absEv ev)`); `Lemmas/LinkSafe*.lean` / `LinkSync*.lean` prove the invariants on the
abstract model.  Both models are executable: the driver command `sched.link-explore` tests the commutation and
the candidate invariants on every state of the exhaustive exploration.
-/
namespace AsyncFix.Link

open AsyncFix.Session AsyncFix.Generated AsyncFix.Generated.ConnEnum

abbrev Payload := String × List (Nat × String)

inductive AKind
  | logon
  | resend (b : Int)
  | gapFill (nw : Int)
  | logout
  | app (p : Payload) (pd : Bool)
  deriving DecidableEq, Repr, Inhabited

structure AFrame where
  seq : Int
  kind : AKind
  deriving DecidableEq, Repr, Inhabited

/-- session phase: `disc` = states 1-3, `conn` = NETWORK_CONN_ESTABLISHED, `sent` = LOGON_INITIAL_SENT,
`awaiting` = RESENDREQ_AWAITING, `active` = ACTIVE -/
inductive ASt | disc | conn | sent | awaiting | active
  deriving DecidableEq, Repr, Inhabited

structure AConn where
  st : ASt
  /-- `_connection_role == INITIATOR` -/
  ini : Bool
  e : Int
  o : Int
  w : Int
  out : List (Int × Option Payload)
  deriving DecidableEq, Repr, Inhabited

structure ALink where
  i : AConn
  a : AConn
  toA : List AFrame := []
  toI : List AFrame := []
  delI : List (Int × Payload) := []
  delA : List (Int × Payload) := []
  accI : List Payload := []
  accA : List Payload := []
  wireI : List AFrame := []
  wireA : List AFrame := []
  deriving DecidableEq, Repr, Inhabited

inductive AEv
  | appSend (s : Side) (p : Payload) (ok : Bool)
  | deliverNext (to : Side)
  | breakConn
  | reconnect
  deriving DecidableEq, Repr

/-! ### abstract endpoint -/

/-- result of one entry point: new endpoint, frames written, messages delivered -/
structure ARes where
  c : AConn
  wr : List AFrame := []
  dl : List (Int × Payload) := []
  deriving DecidableEq, Repr, Inhabited

def AKind.entry : AKind → Option Payload
  | .app p _ => some p
  | _ => none

def AKind.pd : AKind → Bool
  | .app _ pd => pd
  | _ => false

/-- a freshly numbered send that passed the state gate: allocate, journal, write -/
def AConn.push (c : AConn) (k : AKind) : AConn × AFrame :=
  ({ c with o := c.o + 1, out := c.out ++ [(c.o, k.entry)] }, { seq := c.o, kind := k })

/-- a send under its own number (gap fill, retransmission): journal, write; the counter stays -/
def AConn.pushAt (c : AConn) (n : Int) (k : AKind) : AConn × AFrame :=
  ({ c with out := c.out ++ [(n, k.entry)] }, { seq := n, kind := k })

/-- `disconnect(…, logout_message=None)` from a connected phase -/
def AConn.drop (c : AConn) : AConn := { c with st := .disc, w := 0 }

/-- `disconnect(…, logout_message=text)` from a connected phase: the Logout is numbered, journaled and
written; from `conn` the send gate also turns the role to INITIATOR -/
def AConn.dropLogout (c : AConn) : ARes :=
  let c1 := if c.st = .conn then { c with ini := true } else c
  let (c2, f) := c1.push .logout
  { c := c2.drop, wr := [f] }

/-- `_check_seqnum_gaps n` when the phase is not `awaiting` and `n > e`: watermark, ResendRequest, awaiting -/
def AConn.askResend (c : AConn) (n : Int) : AConn × AFrame :=
  let (c1, f) := { c with w := n }.push (.resend c.e)
  ({ c1 with st := .awaiting }, f)

/-- the loop of `_process_resend` over the recovered rows; `gfb` = gap_fill_begin -/
def resendRows : List (Int × Option Payload) → Int → AConn → List AFrame → AConn × List AFrame × Int
  | [], gfb, c, acc => (c, acc, gfb)
  | (_, none) :: rest, gfb, c, acc => resendRows rest gfb c acc
  | (k, some p) :: rest, gfb, c, acc =>
    let (c1, acc1) :=
      if gfb < k then
        let (c1, f) := c.pushAt gfb (.gapFill k)
        (c1, acc ++ [f])
      else (c, acc)
    let (c2, f2) := c1.pushAt k (.app p true)
    resendRows rest (k + 1) c2 (acc1 ++ [f2])

/-- `_process_resend` for `ResendRequest(b, 0)`; the phase is `awaiting` or `active` and stays -/
def AConn.serve (c : AConn) (b : Int) : AConn × List AFrame :=
  if b < 1 || b ≥ c.o then (c, [])
  else
    let rows := c.out.filter fun r => b ≤ r.1 && r.1 ≤ sysMaxsize
    let c0 := { c with out := c.out.filter fun r => r.1 < b }
    let (c1, fs, gfb) := resendRows rows b c0 []
    -- trailing gap fill up to `min(EndSeqNo + 1, next_num_out)` with EndSeqNo = sys.maxsize (fix da179c4)
    let top := min (sysMaxsize + 1) c.o
    if gfb < top then
      let (c2, f) := c1.pushAt gfb (.gapFill top)
      (c2, fs ++ [f])
    else (c1, fs)

/-- after a numbered frame `n = e` was accepted: advance to `e'`; `awaiting` ends when `e' - 1 ≥ w` -/
def AConn.advance (c : AConn) (e' : Int) : AConn :=
  if c.st = .awaiting && e' - 1 ≥ c.w then { c with e := e', st := .active, w := 0 }
  else { c with e := e' }

/-- `_process_message` on a well-formed frame of the peer; the endpoint has a transport (`st ≠ disc`) -/
def arecv (c : AConn) (f : AFrame) : ARes :=
  let n := f.seq
  let gf := match f.kind with | .gapFill _ => true | _ => false
  if n < c.e && !gf && !(c.st = .awaiting && f.kind.pd) then c.dropLogout
  else if c.st = .conn && f.kind ≠ .logon then { c := c.drop }
  else if c.st = .sent && f.kind ≠ .logon && f.kind ≠ .logout then { c := c.drop }
  else
    match f.kind with
    | .logon =>
      if c.st = .conn then
        -- acceptor: Logon reply, then ACTIVE or ResendRequest
        let (c1, r) := { c with ini := false }.push .logon
        if n = c.e then { c := { c1 with st := .active, e := c.e + 1 }, wr := [r] }
        else
          let (c2, q) := c1.askResend n
          { c := c2, wr := [r, q] }
      else if !c.ini then { c := c }   -- acceptor role outside LOGON_INITIAL_RECV: assertion, swallowed
      else if n = c.e then { c := { c with st := .active, e := c.e + 1 } }
      else
        let (c2, q) := c.askResend n
        { c := c2, wr := [q] }
    | .logout => { c := c.drop }
    | .gapFill nw =>
      if n = c.e && nw > n then { c := c.advance nw }
      else if n > c.e && c.st ≠ .awaiting then
        let (c2, q) := c.askResend n
        { c := c2, wr := [q] }
      else { c := c }
    | .resend b =>
      let (c1, wr1) := if n > c.e && c.st ≠ .awaiting then
          let (c2, q) := c.askResend n
          (c2, [q])
        else (c, [])
      let (c2, wr2) := c1.serve b
      { c := if n = c.e then c2.advance (c.e + 1) else c2, wr := wr1 ++ wr2 }
    | .app p _ =>
      if n > c.e then
        if c.st ≠ .awaiting then
          let (c2, q) := c.askResend n
          { c := c2, wr := [q] }
        else { c := c }
      else if n = c.e then { c := c.advance (c.e + 1), dl := [(n, p)] }
      else { c := c }

/-- the state gate of `send_msg` for an application message -/
def AConn.canSend (c : AConn) : Bool :=
  match c.st with
  | .disc | .conn => false
  | .sent => !c.ini
  | _ => true

/-! ### abstract link -/

def ALink.conn (l : ALink) : Side → AConn
  | .I => l.i
  | .A => l.a

def ALink.queueTo (l : ALink) : Side → List AFrame
  | .I => l.toI
  | .A => l.toA

def ALink.absorb (l : ALink) (s : Side) (r : ARes) : ALink :=
  match s with
  | .I => { l with i := r.c, toA := l.toA ++ r.wr, wireI := l.wireI ++ r.wr, delI := l.delI ++ r.dl }
  | .A => { l with a := r.c, toI := l.toI ++ r.wr, wireA := l.wireA ++ r.wr, delA := l.delA ++ r.dl }

def ALink.noteAccepted (l : ALink) (s : Side) (p : Payload) : ALink :=
  match s with
  | .I => { l with accI := l.accI ++ [p] }
  | .A => { l with accA := l.accA ++ [p] }

def ALink.pop (l : ALink) : Side → ALink
  | .I => { l with toI := l.toI.tail }
  | .A => { l with toA := l.toA.tail }

def AConn.eof (c : AConn) : AConn := if c.st = .disc then c else c.drop

def astep (l : ALink) : AEv → ALink
  | .appSend s p ok =>
    let c := l.conn s
    if c.canSend && ok then
      let (c1, f) := c.push (.app p false)
      (l.absorb s { c := c1, wr := [f] }).noteAccepted s p
    else l
  | .deliverNext to =>
    match l.queueTo to with
    | [] => l
    | f :: _ =>
      let l0 := l.pop to
      if (l.conn to).st = .disc then l0 else l0.absorb to (arecv (l.conn to) f)
  | .breakConn =>
    { l with toA := [], toI := [], i := l.i.eof, a := l.a.eof }
  | .reconnect =>
    if l.i.st ≠ .disc || l.a.st ≠ .disc then l
    else
      let (ci, f) := { l.i with st := .sent, ini := true }.push .logon
      { l with toA := [f], toI := [], a := { l.a with st := .conn }, i := ci, wireI := l.wireI ++ [f] }

def arun (l : ALink) : List AEv → ALink
  | [] => l
  | ev :: rest => arun (astep l ev) rest

def ALink.quiescent (l : ALink) : Bool :=
  l.i.st = .active && l.a.st = .active && l.toA.isEmpty && l.toI.isEmpty

/-! ### abstraction -/

def seqOf (f : Msg) : Option Int := (f.get? tMsgSeqNum).bind pyInt

def intTag (f : Msg) (t : Nat) : Int := ((f.get? t).bind pyInt).getD 0

def absFrame (f : Msg) : AFrame :=
  { seq := (seqOf f).getD 0,
    kind :=
      if f.mtype == mLogon then .logon
      else if f.mtype == mResendRequest then .resend (intTag f tBeginSeqNo)
      else if f.mtype == mSequenceReset then .gapFill (intTag f tNewSeqNo)
      else if f.mtype == mLogout then .logout
      else .app (payloadOf f) (f.get? tPossDupFlag == some "Y") }

def absRow (r : Int × Msg) : Int × Option Payload :=
  (r.1, if ConnEnum.noReplay.contains r.2.mtype then none else some (payloadOf r.2))

def absSt (s : Nat) : ASt :=
  if s ≤ st_DISCONNECTED_BROKEN_CONN then .disc
  else if s == st_NETWORK_CONN_ESTABLISHED then .conn
  else if s == st_LOGON_INITIAL_SENT then .sent
  else if s == st_RESENDREQ_AWAITING then .awaiting
  else .active

def absConn (c : Conn) : AConn :=
  { st := absSt c.state, ini := c.role == roleInitiator, e := c.sess.nextIn, o := c.sess.nextOut,
    w := c.maxResend, out := c.journal.out.map absRow }

def absDelivered (f : Msg) : Int × Payload := ((seqOf f).getD 0, payloadOf f)

def absLink (l : Link) : ALink :=
  { i := absConn l.i, a := absConn l.a, toA := l.toA.map absFrame, toI := l.toI.map absFrame,
    delI := l.delI.map absDelivered, delA := l.delA.map absDelivered,
    accI := l.accI.map payloadOf, accA := l.accA.map payloadOf,
    wireI := l.wireI.map absFrame, wireA := l.wireA.map absFrame }

/-- single-byte check of an application message (type and field values) -/
def msgLatin1 (m : Msg) : Bool := isLatin1 m.mtype && m.tags.all fun p => isLatin1 p.2

def absEv : Ev → AEv
  | .appSend s _ m => .appSend s (payloadOf m) (msgLatin1 m)
  | .deliverNext to _ => .deliverNext to
  | .breakConn _ => .breakConn
  | .reconnect _ => .reconnect

end AsyncFix.Link
