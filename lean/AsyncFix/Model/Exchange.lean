/-
REFERENCE EXCHANGE for one order – this file is SPEC, written for C17, not a model of library code.

It follows the FIX 4.4 Vol. 4 order state change matrices (A vanilla, B cancel, C cancel/replace)
plus expire and suspend / resume:

* `base` is the order's own state: "A" pending new, "0" new, "1" partially filled, "2" filled,
  "4" canceled, "8" rejected, "C" expired, "9" suspended.
* a NewOrderSingle is acknowledged (New), acknowledged as Pending New (then New or Rejected), or rejected;
* a cancel / replace request is rejected at once (OrderCancelReject, OrdStatus = current state),
  acknowledged as pending (Pending Cancel / Pending Replace, decided later) or accepted at once;
  a request for an order that is finished (or not yet acknowledged) is always rejected; one that
  does not name the ClOrdID under which the order is live is rejected as unknown (OrdStatus Rejected);
* accepted cancel: Canceled, LeavesQty 0.  Accepted replace: ExecType Replaced, new price / qty –
  a requested quantity below CumQty is amended to CumQty (matrix C.3.c), so the echoed OrderQty can
  differ from the requested one and be fractional –, LeavesQty = max(qty − cum, 0), OrdStatus
  Filled / Suspended / PartiallyFilled / New;
* fills (any amount up to LeavesQty, at any time the order is working – also while a request is
  pending or still in flight), expire (from new / partially filled / suspended), suspend, resume;
  when a fill or the expiry finishes an order whose request is acknowledged as pending, the
  OrderCancelReject follows immediately;
* OrdStatus on execution reports follows the precedence rule: Pending Cancel > Pending Replace > base;
* reports carry the ClOrdID of the request they answer and OrigClOrdID = the id it replaces;
  unsolicited reports carry the ClOrdID under which the order is live.

The same exchange exists a second time, independently, in Python (harness/c17_ref.py); the
correspondence compares the reports of both on every action.
-/
import AsyncFix.Model.OrderObj
namespace AsyncFix.Model.Exchange
open AsyncFix.Model.OrderObj

/-- a cancel ("F") / replace ("G") request acknowledged as pending -/
structure PReq where
  kind : String
  clOrdId : Str
  price : Int
  qty : Int
  deriving DecidableEq, Repr

structure Exch where
  known : Bool := false
  base : String := ""
  liveId : Str := []
  price : Int := 0
  qty : Int := 0
  cum : Int := 0
  leaves : Int := 0
  avgPx : Int := 0
  pending : Option PReq := none
  deriving DecidableEq, Repr

inductive Decision | accept | reject | pend
  deriving DecidableEq, Repr

/-- what the exchange reads of a client message -/
structure Req where
  kind : String
  clOrdId : Option Str
  origClOrdId : Option Str
  price : Option Int
  qty : Option Int
  deriving DecidableEq, Repr

def Req.ofMsg (m : Msg) : Req :=
  ⟨m.msgType, getText m.tags 11, getText m.tags 41, getNum m.tags 44, getNum m.tags 38⟩

def orderIdC : Str := [69, 88, 49]        -- "EX1"
def noOrderId : Str := [78, 79, 78, 69]   -- "NONE"

/-- price / quantity absent or not positive -/
def badPQ : Option Int → Option Int → Bool
  | some p, some q => decide (p ≤ 0) || decide (q ≤ 0)
  | _, _ => true

def live (s : String) : Bool := s == "0" || s == "1" || s == "9"
def working (s : String) : Bool := s == "0" || s == "1"

/-- OrdStatus by the precedence rule -/
def Exch.reported (e : Exch) : String :=
  match e.pending with
  | some p => if p.kind = "F" then "6" else "E"
  | none => e.base

def Exch.execRep (e : Exch) (cl : Str) (ex : String) (orig : Option Str := none) : Report :=
  { msgType := "8", clOrdId := some cl, origClOrdId := orig, orderId := some orderIdC,
    execType := some ex, ordStatus := some e.reported, cumQty := .val e.cum,
    leavesQty := .val e.leaves, avgPx := .val e.avgPx, price := .val e.price, orderQty := .val e.qty }

def cxlRej (cl : Str) (orig : Option Str) (status : String) (unknown : Bool := false) : Report :=
  { msgType := "9", clOrdId := some cl, origClOrdId := orig,
    orderId := some (if unknown then noOrderId else orderIdC), ordStatus := some status }

/-- decide an acknowledged-pending request -/
def Exch.decide (e : Exch) (d : Decision) : Exch × List Report :=
  match e.pending with
  | none => (e, [])
  | some p =>
    let old := e.liveId
    let e0 := { e with pending := none }
    if d = .reject then (e0, [cxlRej p.clOrdId (some old) e0.base])
    else if p.kind = "F" then
      let e1 := { e0 with liveId := p.clOrdId, base := "4", leaves := 0 }
      (e1, [e1.execRep p.clOrdId "4" (some old)])
    else
      let lv := if p.qty - e0.cum < 0 then 0 else p.qty - e0.cum
      let b := if lv = 0 then "2" else if e0.base = "9" then "9" else if e0.cum > 0 then "1" else "0"
      -- matrix C.3.c: a quantity below what is already filled is amended to CumQty
      let nq := if p.qty < e0.cum then e0.cum else p.qty
      let e1 := { e0 with liveId := p.clOrdId, price := p.price, qty := nq, leaves := lv, base := b }
      (e1, [e1.execRep p.clOrdId "5" (some old)])

/-- take a client message with decision `d` -/
def Exch.recv (e : Exch) (m : Req) (d : Decision) : Exch × List Report :=
  match m.clOrdId with
  | none => (e, [])                         -- no ClOrdID: not answerable, ignored
  | some cl =>
  if m.kind = "D" then
    if e.known then (e, [])                 -- second NewOrderSingle: ignored
    else
      let bad := badPQ m.price m.qty
      let e0 := { e with known := true, liveId := cl, price := m.price.getD 0, qty := m.qty.getD 0,
                         cum := 0, avgPx := 0 }
      let d := if bad then Decision.reject else d
      match d with
      | .accept => let e1 := { e0 with base := "0", leaves := e0.qty }; (e1, [e1.execRep cl "0"])
      | .pend => let e1 := { e0 with base := "A", leaves := e0.qty }; (e1, [e1.execRep cl "A"])
      | .reject => let e1 := { e0 with base := "8", leaves := 0 }; (e1, [e1.execRep cl "8"])
  else if m.kind = "F" ∨ m.kind = "G" then
    if !e.known || m.origClOrdId != some e.liveId || e.pending.isSome then
      (e, [cxlRej cl m.origClOrdId "8" true])
    else if !live e.base then (e, [cxlRej cl m.origClOrdId e.base])
    else
      let np := if m.kind = "G" then m.price else some e.price
      let nq := if m.kind = "G" then m.qty else some e.qty
      if m.kind = "G" ∧ badPQ np nq then (e, [cxlRej cl m.origClOrdId e.base])
      else if d = .reject then (e, [cxlRej cl m.origClOrdId e.base])
      else
        let e1 := { e with pending := some ⟨m.kind, cl, np.getD 0, nq.getD 0⟩ }
        if d = .pend then (e1, [e1.execRep cl (if m.kind = "F" then "6" else "E") (some e.liveId)])
        else e1.decide .accept
  else (e, [])

/-- the order reached a finished state: an acknowledged-pending request is rejected at once -/
def Exch.finish (e : Exch) (ex : String) : Exch × List Report :=
  match e.pending with
  | none => (e, [e.execRep e.liveId ex])
  | some p =>
    let e1 := { e with pending := none }
    (e1, [e1.execRep e.liveId ex, cxlRej p.clOrdId (some e.liveId) e1.base])

def Exch.ack (e : Exch) : Exch × List Report :=
  if !e.known || e.base != "A" then (e, [])
  else let e1 := { e with base := "0" }; (e1, [e1.execRep e.liveId "0"])

def Exch.rejectNew (e : Exch) : Exch × List Report :=
  if !e.known || e.base != "A" then (e, [])
  else let e1 := { e with base := "8", leaves := 0 }; (e1, [e1.execRep e.liveId "8"])

def Exch.fill (e : Exch) (q px : Int) : Exch × List Report :=
  if !e.known || !working e.base || q ≤ 0 || q > e.leaves then (e, [])
  else
    let e1 := { e with cum := e.cum + q, leaves := e.leaves - q, avgPx := px }
    if e1.leaves = 0 then ({ e1 with base := "2" } : Exch).finish "F"
    else let e2 := { e1 with base := "1" }; (e2, [e2.execRep e.liveId "F"])

def Exch.expire (e : Exch) : Exch × List Report :=
  if !e.known || !live e.base then (e, [])
  else ({ e with base := "C", leaves := 0 } : Exch).finish "C"

def Exch.suspend (e : Exch) : Exch × List Report :=
  if !e.known || !working e.base then (e, [])
  else let e1 := { e with base := "9" }; (e1, [e1.execRep e.liveId "9"])

def Exch.resume (e : Exch) : Exch × List Report :=
  if !e.known || e.base != "9" then (e, [])
  else let e1 := { e with base := if e.cum > 0 then "1" else "0" }; (e1, [e1.execRep e.liveId "D"])

end AsyncFix.Model.Exchange
