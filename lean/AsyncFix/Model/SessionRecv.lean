import AsyncFix.Model.SessionSend

/-!
Session family, inbound handlers of asyncfix/connection.py: `_validate_integrity`, `_process_logon`,
`_check_seqnum_gaps`, `_process_logout`, `_process_seqreset`, `_finalize_message`,
`_process_testrequest`, `_process_heartbeat`; `FIXSession.set_next_num_in` (session.py) and
`Journaler.set_seq_num` (journaler.py) as they act on the connection.
-/
namespace AsyncFix.Session

open AsyncFix.Generated AsyncFix.Generated.ConnEnum

/-- result of `_validate_integrity`: `None` / `True` (drop without Logout) / reason text -/
inductive Integrity
  | good
  | critical
  | reason (text : String)
  deriving DecidableEq, Repr

/-- `_validate_integrity` (connection.py l.476-524).  `msg[8]` raises TagNotFoundError when absent: that
escapes `_process_message` (the call is outside its `try`).  A non-numeric MsgSeqNum is an integrity
defect with its own reason (fix 10275ed).  Too low = below `next_num_in`, except for a SequenceReset
and except for a PossDupFlag=Y frame while RESENDREQ_AWAITING (fix 1c8bf2b).  `validate_comp_ids(msg[49], msg[56])` compares our *target* with the frame's
SenderCompID(49) and our *sender* with its TargetCompID(56) (session.py l.60-73). -/
def validateIntegrity (m : Msg) : M Integrity := do
  let c ← M.get
  let bs ← M.liftE (m.get tBeginString)
  if bs != Proto.beginString then
    pure (.reason ("Protocol BeginString(8) mismatch, expected " ++ Proto.beginString ++ ", got " ++ bs))
  else if !m.has tSenderCompID || !m.has tTargetCompID then pure .critical
  else do
    let s49 ← M.liftE (m.get tSenderCompID)
    let s56 ← M.liftE (m.get tTargetCompID)
    if !(c.sess.sender == s56 && c.sess.target == s49) then
      pure (.reason "TargetCompID / SenderCompID mismatch")
    else if !m.has tMsgSeqNum then pure (.reason "MsgSeqNum(34) tag is missing")
    else do
      let v ← M.liftE (m.get tMsgSeqNum)
      match pyInt v with
      | none => pure (.reason "MsgSeqNum(34) is not a number")
      | some n =>
        if n < c.sess.nextIn && !(m.mtype == mSequenceReset)
            && !(c.state == st_RESENDREQ_AWAITING && (m.get? tPossDupFlag).getD "N" == "Y") then
          pure (.reason ("MsgSeqNum is too low, expected " ++ pyStr c.sess.nextIn ++ ", got " ++ pyStr n))
        else pure .good

/-- `Journaler.set_seq_num(session, next_num_out, next_num_in)` (journaler.py l.117-155): asserts `> 0`
(the outbound one first, and the session attribute is already assigned when the inbound assertion
fails), mutates the session, writes BOTH stored counters from the session and deletes rows `≥` in both
directions. -/
def setSeqNum (nextOut nextIn : Option Int) : M Unit := do
  match nextOut with
  | some n => do
    M.assert (decide (n > 0))
    M.modify fun c => { c with sess := { c.sess with nextOut := n } }
  | none => pure ()
  match nextIn with
  | some n => do
    M.assert (decide (n > 0))
    M.modify fun c => { c with sess := { c.sess with nextIn := n } }
  | none => pure ()
  M.modify fun c => { c with journal := c.journal.setSeq c.sess.nextOut c.sess.nextIn }

/-- `_process_logon` (connection.py l.526-556), asserts included.  Acceptor: a Logon without
EncryptMethod(98) or HeartBtInt(108) cannot be answered – Logout with that reason, disconnect, `return`
(fix 29469a0; no state change to ACTIVE, no `on_logon`); otherwise the reply copies 98 and 108; when
`send_msg` of the reply raises, `disconnect(DISCONNECTED_BROKEN_CONN)` runs and the exception is re-raised
(fix a9dbd9f: never stay in LOGON_INITIAL_RECV). -/
def processLogon (env : Env) (m : Msg) : M Unit := do
  M.assert (m.mtype == mLogon)
  let c ← M.get
  M.assert (c.role == roleAcceptor || c.role == roleInitiator)
  let v ← M.liftE (m.get tMsgSeqNum)
  let n ← M.int v
  let stop ←
    if c.role == roleAcceptor then do
      M.assert (c.state == st_LOGON_INITIAL_RECV)
      if !m.has tEncryptMethod || !m.has tHeartBtInt then do
        disconnect env st_DISCONNECTED_BROKEN_CONN (some "Logon() without EncryptMethod(98) / HeartBtInt(108)")
        pure true
      else do
        if n ≥ c.sess.nextIn then do
          let e ← M.liftE (m.get tEncryptMethod)
          let h ← M.liftE (m.get tHeartBtInt)
          -- fix a9dbd9f: a reply that cannot be sent drops the connection, then the error goes on
          M.tryCatch (sendMsg env (Msg.mk' mLogon [(tEncryptMethod, e), (tHeartBtInt, h)])) fun ex => do
            disconnect env st_DISCONNECTED_BROKEN_CONN none
            M.throw ex
        else pure ()
        pure false
    else pure false
  if stop then pure ()
  else do
    let c2 ← M.get
    if n == c2.sess.nextIn then stateSet st_ACTIVE else stateSet st_RECV_SEQNUM_TOO_HIGH
    let c3 ← M.get
    M.emit (.onLogon (c3.state == st_ACTIVE))

/-- `_check_seqnum_gaps` (l.548-569): `True` = number is not above expectation.  A gap outside
RESENDREQ_AWAITING records the watermark, sends ResendRequest(BeginSeqNo = expected, EndSeqNo = 0) and
enters RESENDREQ_AWAITING (not reached when the send raises; the watermark stays assigned). -/
def checkSeqnumGaps (env : Env) (n : Int) : M Bool := do
  let c ← M.get
  if n > c.sess.nextIn then do
    if c.state != st_RESENDREQ_AWAITING then do
      M.modify fun c => { c with maxResend := n }
      sendMsg env (Msg.mk' mResendRequest [(tBeginSeqNo, pyStr c.sess.nextIn), (tEndSeqNo, "0")])
      stateSet st_RESENDREQ_AWAITING
    else pure ()
    pure false
  else pure true

/-- `_process_logout` (l.571-586) -/
def processLogout (env : Env) (m : Msg) : M Unit := do
  M.assert (m.mtype == mLogout)
  let c ← M.get
  let dstate := if c.wasActive then st_DISCONNECTED_WCONN_TODAY else st_DISCONNECTED_BROKEN_CONN
  M.emit (.onLogout m)
  disconnect env dstate none

/-- `_process_seqreset` (l.687-722): `False` = a GapFill that is not numbered as expected or does not
move forward (then the caller only runs the gap check).  Otherwise NewSeqNo is read and asserted
`> 0` first (fix d38d961), then two `set_seq_num` calls: to the frame's own MsgSeqNum, then to NewSeqNo.  Python's `or` short-circuits: `int(msg[36])` is evaluated
only when the number is the expected one. -/
def processSeqreset (m : Msg) : M Bool := do
  M.assert (m.mtype == mSequenceReset)
  let c ← M.get
  let v ← M.liftE (m.get tMsgSeqNum)
  let honoured ←
    if m.get? tGapFillFlag == some "Y" then do
      let n ← M.int v
      if n != c.sess.nextIn then pure false
      else do
        let w ← M.liftE (m.get tNewSeqNo)
        let nw ← M.int w
        pure (!(nw ≤ n))
    else pure true
  if !honoured then pure false
  else do
    -- fix d38d961: NewSeqNo is read and checked before anything is touched
    let w ← M.liftE (m.get tNewSeqNo)
    let nw ← M.int w
    M.assert (decide (nw > 0))
    let n ← M.int v
    setSeqNum none (some n)
    setSeqNum none (some nw)
    pure true

/-- `FIXSession.set_next_num_in` (session.py l.81-108): returns the accepted number, `0` (garbled) or
`-1` (gap).  For a SequenceReset the returned number is NewSeqNo − 1. -/
def setNextNumIn (m : Msg) : M Int := do
  let c ← M.get
  if m.mtype == mSequenceReset then
    if !m.has tNewSeqNo then pure 0
    else do
      let w ← M.liftE (m.get tNewSeqNo)
      let nw ← M.int w
      M.modify fun c => { c with sess := { c.sess with nextIn := nw - 1 + 1 } }
      pure (nw - 1)
  else if !m.has tMsgSeqNum then pure 0
  else do
    let v ← M.liftE (m.get tMsgSeqNum)
    let n ← M.int v
    if n != c.sess.nextIn then pure (-1)
    else do
      M.modify fun c => { c with sess := { c.sess with nextIn := n + 1 } }
      pure n

/-- `Journaler.persist_msg(raw, session, INBOUND)` (journaler.py l.157-191): the key is
`find_seq_no(raw)`, i.e. `int()` of the frame's first 34 field (FIXMessageError when that fails). -/
def persistInbound (m : Msg) : M Unit := do
  let seq ←
    match m.get? tMsgSeqNum with
    | none => M.throw .fixMessage
    | some v => match pyInt v with
      | none => M.throw .fixMessage
      | some n => pure n
  let c ← M.get
  match c.journal.persist .inbound seq m with
  | none => M.throw .duplicateSeqNo
  | some j => M.modify fun c => { c with journal := j }

/-- `_finalize_message` (connection.py l.724-747); runs in the `finally` of `_process_message`, so an
exception here escapes. -/
def finalizeMessage (env : Env) (m : Msg) : M Unit := do
  let n ← setNextNumIn m
  if n ≤ 0 then pure ()
  else do
    let c ← M.get
    if c.state == st_RESENDREQ_AWAITING then do
      M.assert (decide (c.maxResend > 0))
      if n ≥ c.maxResend then do
        M.modify fun c => { c with maxResend := 0 }
        stateSet st_ACTIVE
      else pure ()
    else pure ()
    let c' ← M.get
    -- fix 5623bd4: the receive time is stamped only while connected
    if c'.state > st_DISCONNECTED_BROKEN_CONN then M.modify fun c => { c with lastTime := env.now }
    else pure ()
    persistInbound m

/-- `_process_testrequest` (l.749-761): Heartbeat echoing TestReqID (`0` when the request has none) -/
def processTestRequest (env : Env) (m : Msg) : M Unit := do
  M.assert (m.mtype == mTestRequest)
  sendMsg env (Msg.mk' mHeartbeat [(tTestReqID, (m.get? tTestReqID).getD "0")])

/-- `_process_heartbeat` (l.763-788): only with an outstanding TestRequest; a Heartbeat without
TestReqID is an interval heartbeat; a non-numeric id counts as 0; a wrong id ends the session with a
Logout. -/
def processHeartbeat (env : Env) (m : Msg) : M Unit := do
  M.assert (m.mtype == mHeartbeat)
  let c ← M.get
  match c.testReqId with
  | none => pure ()
  | some tid =>
    match m.get? tTestReqID with
    | none => pure ()
    | some v =>
      let got : Int := (pyInt v).getD 0
      if tid != got then
        disconnect env st_DISCONNECTED_BROKEN_CONN (some "Invalid TestRequest(TestReqID) received")
      else M.modify fun c => { c with testReqId := none }

end AsyncFix.Session
