import AsyncFix.Model.SessionRecv

/-!
Session family: `_process_resend` (asyncfix/connection.py l.588-685) – servicing of a peer's
ResendRequest from the outbound journal.

The application filter `should_replay` is the parameter `sr : Msg → Bool` (it sees the decoded journal
row, header included).  Journal rows are abstract `Msg`s, i.e. the result of
`Codec.decode(row, silent=False)`; rows that the real decoder would refuse (its `assert`s) cannot be
represented – they can only come from outside corruption of the SQLite file.
-/
namespace AsyncFix.Session

open AsyncFix.Generated AsyncFix.Generated.ConnEnum

/-- `sys.maxsize` -/
def sysMaxsize : Int := 9223372036854775807

/-- SequenceReset-GapFill as `_process_resend` builds it: tags in the order 123, 34, 36. -/
def gapFillMsg (seqNo newSeqNo : Int) : Msg :=
  Msg.mk' mSequenceReset [(tGapFillFlag, "Y"), (tMsgSeqNum, pyStr seqNo), (tNewSeqNo, pyStr newSeqNo)]

/-- lines 652-661: PossDupFlag=Y (replacing an existing one in place), OrigSendingTime = the row's
SendingTime unless already present, then the header / trailer fields are deleted (`del` raises KeyError
when one is missing).  MsgSeqNum(34) stays, so `encode` re-sends under the original number. -/
def prepareReplay (r : Msg) : Except Exc Msg := do
  let r ← r.set tPossDupFlag "Y" true
  let r ← if r.has tOrigSendingTime then pure r else do
    let st ← r.get tSendingTime
    r.set tOrigSendingTime st
  let r ← r.del tMsgType
  let r ← r.del tBeginString
  let r ← r.del tBodyLength
  let r ← r.del tSendingTime
  let r ← r.del tSenderCompID
  let r ← r.del tTargetCompID
  r.del tCheckSum

/-- `persist_msg(enc_msg, session, OUTBOUND)` of a recovered row under its own number `n`
(`find_seq_no` reads the same 34 field that `int(replay_msg[34])` has just parsed):
DuplicateSeqNoError when the number is taken, else the row is stored and the stored outbound counter
becomes `n`. -/
def persistOutboundRow (n : Int) (row : Msg) : M Unit := do
  let c ← M.get
  match c.journal.persist .outbound n row with
  | none => M.throw .duplicateSeqNo
  | some j => M.modify fun c => { c with journal := j }

/-- the `for enc_msg in journal_replay_msgs` loop (l.633-672) with its two running variables
`gap_fill_begin`, `gap_fill_end`; returns their final values.  Rows numbered above the requested
EndSeqNo go back into the journal unsent (fix da179c4: the FIRST `set_seq_num` deleted them). -/
def resendLoop (env : Env) (sr : Msg → Bool) (endNo : Int) : List Msg → Int → Int → M (Int × Int)
  | [], gfb, gfe => pure (gfb, gfe)
  | row :: rest, gfb, gfe => do
    let v ← M.liftE (row.get tMsgSeqNum)
    let n ← M.int v
    if n > endNo then do
      persistOutboundRow n row
      resendLoop env sr endNo rest gfb gfe
    else do
      let ty ← M.liftE (row.get tMsgType)
      if ConnEnum.noReplay.contains ty || !sr row then
        resendLoop env sr endNo rest gfb (n + 1)
      else do
        if gfb < n then sendMsg env (gapFillMsg gfb n) else pure ()
        let rp ← M.liftE (prepareReplay row)
        sendMsg env rp
        resendLoop env sr endNo rest (n + 1) gfe

/-- `_process_resend`.  Steps: state RESENDREQ_HANDLING unless awaiting; `int()` of 7 and 16
(TagNotFoundError / ValueError); EndSeqNo 0 ↦ `sys.maxsize`; range check (F15: a request starting below
1 or at / beyond `next_num_out` is ignored and the state restored); recover ALL rows from BeginSeqNo on
(fix da179c4); remember `next_num_out`; FIRST `set_seq_num(next_num_out = BeginSeqNo)` (rewinds the
counter, deletes journal rows `≥ BeginSeqNo`); loop (rows above EndSeqNo are put back unsent);
`assert gap_fill_end <= current_next_num_out` (the loop's value); trailing gap fill from `gap_fill_begin`
up to `min(EndSeqNo + 1, remembered counter)`; SECOND `set_seq_num(next_num_out = remembered)`; state
ACTIVE unless awaiting.  An exception anywhere leaves the counter rewound and the state as it is (caught
by the caller). -/
def processResend (env : Env) (sr : Msg → Bool) (m : Msg) : M Unit := do
  let c0 ← M.get
  if c0.state != st_RESENDREQ_AWAITING then stateSet st_RESENDREQ_HANDLING else pure ()
  M.assert (m.mtype == mResendRequest)
  let c ← M.get
  M.assert (c.state == st_RESENDREQ_HANDLING || c.state == st_RESENDREQ_AWAITING)
  let vb ← M.liftE (m.get tBeginSeqNo)
  let b ← M.int vb
  let ve ← M.liftE (m.get tEndSeqNo)
  let e0 ← M.int ve
  let e := if e0 == 0 then sysMaxsize else e0
  if b < 1 || b ≥ c.sess.nextOut then
    if c.state != st_RESENDREQ_AWAITING then stateSet st_ACTIVE else pure ()
  else do
    let rows := c.journal.recoverOut b sysMaxsize
    let cur := c.sess.nextOut
    setSeqNum (some b) none
    let (gfb, gfe) ← resendLoop env sr e rows b b
    M.assert (decide (gfe ≤ cur))
    let gfe2 := min (e + 1) cur
    if gfb < gfe2 then sendMsg env (gapFillMsg gfb gfe2) else pure ()
    setSeqNum (some cur) none
    let c2 ← M.get
    if c2.state != st_RESENDREQ_AWAITING then stateSet st_ACTIVE else pure ()

end AsyncFix.Session
