import AsyncFix.Model.SchedHandlers

/-!
Sched family, part 3: tasks and the scheduler.

Tasks (DESIGN §5): an application task awaiting `send_msg(m)`, one iteration of
`heartbeat_timer_task`, the reader task handing ONE decoded frame to `_process_message`.
An exception that escapes a task's entry point is its last effect `raised k` (the sender's caller gets
it; the two library tasks log it).

A schedule is a list of letters

* `run i`   – the event loop runs task `i` for ONE segment (from where it is suspended to its next
              `await` that suspends, or to its end);
* `pause`   – the transport's write buffer went over the high-water mark (`pause_writing`);
* `resume`  – it drained below the low-water mark (`resume_writing`): every drain waiter is woken.

`drain()`: while the transport is paused the task joins the FIFO of drain waiters; it can run again
only after a `resume` and only when every waiter queued before it has run (asyncio wakes the waiters
in order and runs them in order).  While the transport is not paused `drain()` is modelled as a yield
that can be resumed at any time (asyncio would not suspend at all: a subset).
A letter that is not enabled (`run i` of a finished / unknown / still blocked task) changes nothing –
so "every list of letters" is a superset of the schedules asyncio can produce.

The scheduler also keeps the ghost counters `opened` / `closed` (rewind marks, restore marks):
`windowOpen` = a `_process_resend` is between its two `set_seq_num` calls (or died there),
`everRewound` = some `_process_resend` rewound the outbound counter during the prefix.
-/
namespace AsyncFix.Sched

open AsyncFix.Session AsyncFix.Generated.ConnEnum

inductive Task
  | send (env : Env) (m : Msg)
  | tick (env : Env)
  | recv (env : Env) (m : Msg)
  deriving Repr, Inhabited

/-- the coroutine of a task -/
def Task.body (sr : Msg → Bool) : Task → R Unit
  | .send env m => sendMsgR env m
  | .tick env => tickBodyR env
  | .recv env m => processMessageR env sr m

/-- where a task is: `live none k` = not started, `live (some pt) k` = suspended at `pt` -/
inductive TState
  | live (pt : Option YieldPoint) (k : Conn → Res Unit)
  | fin

inductive Letter
  | run (i : Nat)
  | pause
  | resume
  deriving DecidableEq, Repr, Inhabited

structure SState where
  conn : Conn
  tasks : List TState
  /-- all effects so far in the order they happened, with the task that caused them -/
  log : List (Nat × Effect) := []
  paused : Bool := false
  /-- drain waiters in arrival order; `true` = woken by a `resume` -/
  drainQ : List (Nat × Bool) := []
  opened : Nat := 0
  closed : Nat := 0
  /-- `Ghost.waive` marks seen -/
  waived : Nat := 0

def SState.init (sr : Msg → Bool) (c : Conn) (ts : List Task) (paused : Bool := false) : SState :=
  { conn := c, tasks := ts.map fun t => .live none (t.body sr), paused := paused }

def countGhost (g : Ghost) (gs : List Ghost) : Nat := (gs.filter (· == g)).length

/-- the exception that escapes a task's entry point -/
def errEff : Except Exc Unit → List Effect
  | .ok _ => []
  | .error ex => [.raised ex]

/-- task `i` runs one segment from the current connection -/
def SState.runTask (s : SState) (i : Nat) (k : Conn → Res Unit) : SState :=
  match k s.conn with
  | .done c e g r =>
    { s with conn := c, tasks := s.tasks.set i .fin,
             log := s.log ++ (e ++ errEff r).map fun x => (i, x),
             opened := s.opened + countGhost .rewind g, closed := s.closed + countGhost .restore g,
             waived := s.waived + countGhost .waive g }
  | .yield c e g pt k' =>
    { s with conn := c, tasks := s.tasks.set i (.live (some pt) k'),
             log := s.log ++ e.map fun x => (i, x),
             drainQ := if pt == .drain && s.paused then s.drainQ ++ [(i, false)] else s.drainQ,
             opened := s.opened + countGhost .rewind g, closed := s.closed + countGhost .restore g,
             waived := s.waived + countGhost .waive g }

def SState.queued (s : SState) (i : Nat) : Bool := s.drainQ.any fun p => p.1 == i

def SState.step (s : SState) : Letter → SState
  | .pause => { s with paused := true }
  | .resume => { s with paused := false, drainQ := s.drainQ.map fun p => (p.1, true) }
  | .run i =>
    match s.tasks[i]? with
    | some (.live _ k) =>
      if s.queued i then
        if s.drainQ.head? == some (i, true) then
          ({ s with drainQ := s.drainQ.tail }).runTask i k
        else s
      else s.runTask i k
    | _ => s

def SState.exec (s : SState) (sched : List Letter) : SState := sched.foldl SState.step s

/-- is the letter enabled (would it do something) -/
def SState.enabled (s : SState) : Letter → Bool
  | .pause => !s.paused
  | .resume => s.paused
  | .run i =>
    match s.tasks[i]? with
    | some (.live _ _) => !s.queued i || s.drainQ.head? == some (i, true)
    | _ => false

def TState.isFin : TState → Bool
  | .fin => true
  | .live .. => false

def SState.allDone (s : SState) : Bool := s.tasks.all TState.isFin

/-- "a resend rewind window is open": some `_process_resend` is between its two `set_seq_num` calls -/
def SState.windowOpen (s : SState) : Bool := decide (s.closed < s.opened)

/-- some `_process_resend` has rewound the outbound counter during the prefix -/
def SState.everRewound (s : SState) : Bool := decide (0 < s.opened)

/-- some acceptor Logon reply was lost (no transport / no free journal slot) during the prefix -/
def SState.everWaived (s : SState) : Bool := decide (0 < s.waived)

/-- nothing is claimed once this is non-zero -/
def SState.blocked (s : SState) : Nat := s.opened + s.waived

/-- the effects without their task ids -/
def SState.effects (s : SState) : List Effect := s.log.map (·.2)

end AsyncFix.Sched
