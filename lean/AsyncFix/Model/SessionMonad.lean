import AsyncFix.Model.SessionTypes

/-!
Session family: the little state / effect-writer / exception monad the handlers are written in.

`M α = Conn → Out α`: a computation starts from a connection, returns the connection it left behind
(**also when it raises** – Python keeps every attribute assignment made before the exception), the
effects it emitted in order, and either a value or the exception kind.

Only `pure`, `bind`, `throw`, `tryCatch`, `get`, `modify`, `emit` and `liftE` are used by the
handlers: no early `return`, no `for`, no mutable variables, so that every handler unfolds to plain
`match`/`if` terms.
-/
namespace AsyncFix.Session

structure Out (α : Type) where
  res : Except Exc α
  conn : Conn
  eff : List Effect

def M (α : Type) := Conn → Out α

namespace M

@[inline] def pure' {α} (a : α) : M α := fun c => ⟨.ok a, c, []⟩

@[inline] def bind' {α β} (x : M α) (f : α → M β) : M β := fun c =>
  match x c with
  | ⟨.ok a, c1, e1⟩ =>
    match f a c1 with
    | ⟨r, c2, e2⟩ => ⟨r, c2, e1 ++ e2⟩
  | ⟨.error ex, c1, e1⟩ => ⟨.error ex, c1, e1⟩

instance : Monad M where
  pure := pure'
  bind := bind'

/-- `raise` -/
@[inline] def throw {α} (ex : Exc) : M α := fun c => ⟨.error ex, c, []⟩

/-- `try: x  except Exception as ex: h ex` (state and effects of `x` up to the exception are kept) -/
@[inline] def tryCatch {α} (x : M α) (h : Exc → M α) : M α := fun c =>
  match x c with
  | ⟨.ok a, c1, e1⟩ => ⟨.ok a, c1, e1⟩
  | ⟨.error ex, c1, e1⟩ =>
    match h ex c1 with
    | ⟨r, c2, e2⟩ => ⟨r, c2, e1 ++ e2⟩

@[inline] def get : M Conn := fun c => ⟨.ok c, c, []⟩
@[inline] def modify (f : Conn → Conn) : M Unit := fun c => ⟨.ok (), f c, []⟩
@[inline] def emit (e : Effect) : M Unit := fun c => ⟨.ok (), c, [e]⟩

/-- a pure Python expression that may raise -/
@[inline] def liftE {α} (x : Except Exc α) : M α := fun c => ⟨x, c, []⟩

/-- `assert b` -/
@[inline] def assert (b : Bool) : M Unit := if b then pure () else throw .assertion

/-- `int(s)`; ValueError -/
@[inline] def int (s : String) : M Int :=
  match pyInt s with
  | some n => pure n
  | none => throw .value

/-- run as a top-level entry point: an escaping exception becomes the last effect `raised k`. -/
def run {α} (x : M α) (c : Conn) : Conn × List Effect :=
  match x c with
  | ⟨.ok _, c1, e1⟩ => (c1, e1)
  | ⟨.error ex, c1, e1⟩ => (c1, e1 ++ [.raised ex])

end M

end AsyncFix.Session
