/-
Model of `asyncfix/journaler.py` (SQLite journal), part 1: the tables as SQLite holds
them and the public methods as *pure* functions on the table content that one connection
sees (`Journal` = the "working" view).  Part 2 (`Model/JournalDB.lean`) adds the
connection: statements, implicit transactions, commit, crash, reopen.

Python `int` = `Int` (unbounded); bytes = `List Nat`; CompIDs = `String` (valid Unicode).
Modelled, not verified (sampled by the correspondence): CPython `int(bytes)`,
`bytes.index`, SQLite uniqueness / rowid assignment / ORDER BY / INTEGER range /
comparison of an INTEGER column with a TEXT parameter.
-/
namespace AsyncFix.Model.Journal

abbrev Bytes := List Nat

/-! ## CPython `int(b)` for a bytes object `b` (base 10) -/

/-- `Py_ISSPACE` and `sqlite3Isspace`: space, \t \n \v \f \r -/
def isSpace (b : Nat) : Bool := b == 32 || (9 ≤ b && b ≤ 13)
def isDigit (b : Nat) : Bool := 48 ≤ b && b ≤ 57

/-- `sys.int_info.default_max_str_digits`: more digits (leading zeros count) ⇒ ValueError -/
def maxStrDigits : Nat := 4300

/-- digit scan of `PyLong_FromString`: digits with single underscores *between* digits.
Returns (value, number of digits, rest); `none` = doubled or trailing underscore. -/
def scanDigits (acc cnt : Nat) (prevUs : Bool) : Bytes → Option (Nat × Nat × Bytes)
  | [] => if prevUs then none else some (acc, cnt, [])
  | b :: bs =>
    if isDigit b then scanDigits (acc * 10 + (b - 48)) (cnt + 1) false bs
    else if b == 95 then (if prevUs then none else scanDigits acc cnt true bs)
    else if prevUs then none else some (acc, cnt, b :: bs)

/-- `int(bytes)`: ws* [+-]? digit (_? digit)* ws*, nothing else (a NUL anywhere is an error);
`none` = ValueError -/
def pyIntBytes (bs : Bytes) : Option Int :=
  let s := bs.dropWhile isSpace
  let neg := s.head? == some 45
  let s := if s.head? == some 43 || s.head? == some 45 then s.tail else s
  if s.head? == some 95 then none
  else
    match scanDigits 0 0 false s with
    | none => none
    | some (v, cnt, rest) =>
      if cnt == 0 || cnt > maxStrDigits then none
      else if !(rest.dropWhile isSpace).isEmpty then none
      else some (if neg then -(v : Int) else (v : Int))

/-! ## `Journaler.find_seq_no` -/

def pat34 : Bytes := [1, 51, 52, 61]        -- b"\x0134="

/-- the bytes after the first occurrence of `\x0134=` (`msg.index`), `none` = ValueError -/
def afterPat : Bytes → Option Bytes
  | [] => none
  | b :: bs => if pat34.isPrefixOf (b :: bs) then some (bs.drop 3) else afterPat bs

/-- `find_seq_no`: `none` = FIXMessageError (pattern missing, no SOH after it, or `int()` refuses) -/
def findSeqNo (msg : Bytes) : Option Int :=
  match afterPat msg with
  | none => none
  | some rest => if rest.contains 1 then pyIntBytes (rest.takeWhile (· != 1)) else none

/-! ## SQLite values -/

/-- a Python int can be bound to a statement iff it fits a signed 64-bit integer (else OverflowError) -/
def fits (n : Int) : Bool := -9223372036854775808 ≤ n && n ≤ 9223372036854775807

inductive Dir | inbound | outbound
  deriving DecidableEq, Repr, Inhabited

/-- `MessageDirection.value` -/
def Dir.val : Dir → Int | .inbound => 0 | .outbound => 1

/-- a range bound of `recover_messages` (`int | str`); text as UTF-8 bytes -/
inductive Bound | int (n : Int) | text (bs : Bytes)
  deriving DecidableEq, Repr

/-- what the bound parameter is when compared with the INTEGER column `seqNo` -/
inductive BVal
  | val (n : Int)     -- an integer
  | posInf            -- TEXT that is no number (sorts after every integer) or an integer literal ≥ 2⁶³
  | unmodelled        -- text that SQLite converts to a floating point number (not modelled)
  deriving DecidableEq, Repr

def scanNat (acc cnt : Nat) : Bytes → Nat × Nat × Bytes
  | [] => (acc, cnt, [])
  | b :: bs => if isDigit b then scanNat (acc * 10 + (b - 48)) (cnt + 1) bs else (acc, cnt, b :: bs)

/-- NUMERIC affinity applied to a TEXT operand (`applyNumericAffinity` / `sqlite3AtoF`):
ws* [+-]? digits* (. digits*)? ([eE] [+-]? digits+)? ws* with ≥ 1 mantissa digit is a number. -/
def sqlTextVal (bs : Bytes) : BVal :=
  let s := bs.dropWhile isSpace
  let neg := s.head? == some 45
  let s := if s.head? == some 43 || s.head? == some 45 then s.tail else s
  let (v, n1, s) := scanNat 0 0 s
  let hasDot := s.head? == some 46
  let (_, n2, s) := if hasDot then scanNat 0 0 s.tail else (0, 0, s)
  if n1 + n2 == 0 then .posInf
  else
    let hasExp := s.head? == some 101 || s.head? == some 69
    let s := if hasExp then s.tail else s
    let s := if hasExp && (s.head? == some 43 || s.head? == some 45) then s.tail else s
    let (_, n3, s) := if hasExp then scanNat 0 0 s else (0, 1, s)
    if n3 == 0 then .posInf
    else if !(s.dropWhile isSpace).isEmpty then .posInf
    else if hasDot || hasExp then .unmodelled
    else
      let x : Int := if neg then -(v : Int) else (v : Int)
      if fits x then .val x else if neg then .unmodelled else .posInf

def Bound.eval : Bound → BVal
  | .int n => .val n
  | .text bs => sqlTextVal bs

/-- the integer that is bound to the statement (`0` stands for a text parameter, which always binds) -/
def Bound.param : Bound → Int | .int n => n | .text _ => 0

/-- `seqNo >= ?` -/
def BVal.le (b : BVal) (x : Int) : Bool :=
  match b with | .val n => n ≤ x | _ => false
/-- `seqNo <= ?` -/
def BVal.ge (b : BVal) (x : Int) : Bool :=
  match b with | .val n => x ≤ n | .posInf => true | _ => false

/-! ## tables -/

/-- row of table `session` -/
structure SessRow where
  sid : Nat
  target : String
  sender : String
  outSeq : Int
  inSeq : Int
  deriving DecidableEq, Repr

/-- row of table `message` (with its implicit rowid) -/
structure MsgRow where
  rowid : Nat
  seq : Int
  sid : Int
  dir : Dir
  msg : Bytes
  deriving DecidableEq, Repr

/-- table content; `sessions` in sessionId order, `msgs` in rowid order;
`nextSid` = AUTOINCREMENT sequence + 1 -/
structure Journal where
  sessions : List SessRow := []
  msgs : List MsgRow := []
  nextSid : Nat := 1
  deriving DecidableEq, Repr

/-- a `FIXSession` value held by the caller -/
structure Handle where
  key : Int
  target : String
  sender : String
  nextOut : Int
  nextIn : Int
  deriving DecidableEq, Repr

inductive Kind
  | fixMessage | duplicateSeqNo | assertion | overflow | integrity | stopIteration | internal
  | operational | data        -- sqlite3.OperationalError / sqlite3.DataError (injected collaborator faults)
  deriving DecidableEq, Repr

/-- result of a public method -/
inductive Res
  | none                                          -- returned None
  | handle (h : Handle)                           -- create_or_load
  | dict (d : List ((String × String) × Handle))  -- sessions(), insertion order
  | msgs (ms : List Bytes)                        -- recover_messages
  | msg (m : Option Bytes)                        -- recover_msg
  | rows (rs : List (Int × Bytes × Int × Int))    -- get_all_msgs: (seq, msg, direction, session)
  | set (h : Handle) (exc : Option Kind)          -- set_seq_num: the session object afterwards, exception if any
  | raised (k : Kind)
  | unmodelled
  deriving DecidableEq, Repr

/-! ## statements on the table content -/

def SessRow.isPair (r : SessRow) (t s : String) : Bool := r.target == t && r.sender == s
def MsgRow.isKey (r : MsgRow) (seq key : Int) (dir : Dir) : Bool := r.seq == seq && r.sid == key && r.dir == dir

/-- `INSERT INTO session(targetCompId, senderCompId)`: `none` = IntegrityError (UNIQUE), else lastrowid -/
def insSession (j : Journal) (t s : String) : Option (Journal × Nat) :=
  if j.sessions.any (·.isPair t s) then none
  else some ({ j with sessions := j.sessions ++ [⟨j.nextSid, t, s, 0, 0⟩], nextSid := j.nextSid + 1 }, j.nextSid)

/-- `SELECT … WHERE targetCompId = ? AND senderCompId = ?` -/
def selSession (j : Journal) (t s : String) : List SessRow := j.sessions.filter (·.isPair t s)

def maxRowid : List MsgRow → Nat
  | [] => 0
  | r :: rs => max r.rowid (maxRowid rs)

/-- `INSERT INTO message VALUES(?,?,?,?)`: `none` = IntegrityError (PRIMARY KEY); rowid = max + 1 -/
def insMsg (j : Journal) (seq key : Int) (dir : Dir) (msg : Bytes) : Option Journal :=
  if j.msgs.any (·.isKey seq key dir) then none
  else some { j with msgs := j.msgs ++ [⟨maxRowid j.msgs + 1, seq, key, dir, msg⟩] }

/-- `UPDATE session SET outboundSeqNo=? WHERE sessionId = ?` / `inboundSeqNo` -/
def updCounter (j : Journal) (dir : Dir) (seq key : Int) : Journal :=
  { j with sessions := j.sessions.map fun r =>
      if (r.sid : Int) = key then
        (match dir with | .outbound => { r with outSeq := seq } | .inbound => { r with inSeq := seq })
      else r }

/-- `UPDATE session SET inboundSeqNo=?, outboundSeqNo=? WHERE sessionId = ?` -/
def updBoth (j : Journal) (inSeq outSeq key : Int) : Journal :=
  { j with sessions := j.sessions.map fun r =>
      if (r.sid : Int) = key then { r with inSeq := inSeq, outSeq := outSeq } else r }

/-- `DELETE FROM message WHERE session = ? AND seqNo >= ? AND direction = ?` -/
def delFrom (j : Journal) (key seq : Int) (dir : Dir) : Journal :=
  { j with msgs := j.msgs.filter fun r => !(r.sid == key && decide (seq ≤ r.seq) && r.dir == dir) }

def insertSeq (r : MsgRow) : List MsgRow → List MsgRow
  | [] => [r]
  | x :: xs => if r.seq < x.seq then r :: x :: xs else x :: insertSeq r xs
/-- `ORDER BY seqNo` (stable) -/
def sortSeq : List MsgRow → List MsgRow
  | [] => []
  | x :: xs => insertSeq x (sortSeq xs)

def insertRowid (r : MsgRow) : List MsgRow → List MsgRow
  | [] => [r]
  | x :: xs => if r.rowid < x.rowid then r :: x :: xs else x :: insertRowid r xs
/-- `ORDER BY rowid` -/
def sortRowid : List MsgRow → List MsgRow
  | [] => []
  | x :: xs => insertRowid x (sortRowid xs)

/-- `SELECT msg FROM message WHERE session = ? AND direction = ? AND seqNo >= ? AND seqNo <= ? ORDER BY seqNo` -/
def selRange (j : Journal) (key : Int) (dir : Dir) (lo hi : BVal) : List Bytes :=
  (sortSeq (j.msgs.filter fun r => r.sid == key && r.dir == dir && lo.le r.seq && hi.ge r.seq)).map (·.msg)

/-- `SELECT seqNo, msg, direction, session FROM message [WHERE session in (…)] [AND direction = ?] ORDER BY rowid` -/
def selAll (j : Journal) (keys : Option (List Int)) (dir : Option Dir) : List (Int × Bytes × Int × Int) :=
  (sortRowid (j.msgs.filter fun r =>
      (match keys with | some ks => ks.contains r.sid | none => true) &&
      (match dir with | some d => r.dir == d | none => true))).map
    fun r => (r.seq, r.msg, r.dir.val, r.sid)

/-! ## the public methods (what one connection sees) -/

def handleOf (r : SessRow) : Handle := ⟨r.sid, r.target, r.sender, r.outSeq + 1, r.inSeq + 1⟩

/-- `d[k] = v` on an insertion-ordered dict -/
def dictSet (d : List ((String × String) × Handle)) (k : String × String) (v : Handle) :
    List ((String × String) × Handle) :=
  if d.any (·.1 == k) then d.map fun e => if e.1 == k then (e.1, v) else e else d ++ [(k, v)]

/-- `Journaler.sessions()` -/
def sessions (j : Journal) : List ((String × String) × Handle) :=
  j.sessions.foldl (fun d r => dictSet d (r.target, r.sender) (handleOf r)) []

/-- `Journaler.create_or_load()` -/
def createOrLoad (j : Journal) (t s : String) : Journal × Res :=
  match insSession j t s with
  | some (j', id) => (j', .handle ⟨id, t, s, 1, 1⟩)
  | none =>
    match selSession j t s with
    | r :: _ => (j, .handle (handleOf r))
    | [] => (j, .raised .stopIteration)

/-- `Journaler.persist_msg()` (msg is `bytes`; binding order seq, key, direction, msg) -/
def persist (j : Journal) (msg : Bytes) (h : Handle) (dir : Dir) : Journal × Res :=
  match findSeqNo msg with
  | none => (j, .raised .fixMessage)
  | some n =>
    if !(fits n && fits h.key) then (j, .raised .overflow)
    else
      match insMsg j n h.key dir msg with
      | none => (j, .raised .duplicateSeqNo)
      | some j1 => (updCounter j1 dir n h.key, .none)

/-- effective next numbers of a `set_seq_num` call: the argument, or (argument `None`) what the
session object holds -/
def effOut (h : Handle) (out : Option Int) : Int := out.getD h.nextOut
def effIn (h : Handle) (inn : Option Int) : Int := inn.getD h.nextIn

/-- `Journaler.set_seq_num()`; the result carries the session object as mutated (the outbound
number is assigned before the inbound assertion is evaluated, and both stay assigned when the SQL
part raises).  UPDATE, DELETE, DELETE, commit run inside `try … except Exception: rollback; raise`:
when binding any of the integers overflows, nothing of the call remains. -/
def setSeqNum (j : Journal) (h : Handle) (out inn : Option Int) : Journal × Res :=
  if out.any (· ≤ 0) then (j, .set h (some .assertion))
  else if inn.any (· ≤ 0) then (j, .set { h with nextOut := effOut h out } (some .assertion))
  else if !(fits (effIn h inn - 1) && fits (effOut h out - 1) && fits h.key &&
      fits (effIn h inn) && fits (effOut h out)) then
    (j, .set { h with nextOut := effOut h out, nextIn := effIn h inn } (some .overflow))
  else
    (delFrom (delFrom (updBoth j (effIn h inn - 1) (effOut h out - 1) h.key) h.key (effIn h inn) .inbound)
        h.key (effOut h out) .outbound,
      .set { h with nextOut := effOut h out, nextIn := effIn h inn } none)

/-- `Journaler.recover_messages()` (binding order key, direction, start, end; an int outside
64 bits raises OverflowError) -/
def recoverMessages (j : Journal) (h : Handle) (dir : Dir) (lo hi : Bound) : Res :=
  if !(fits h.key && fits lo.param && fits hi.param) then .raised .overflow
  else
    match lo.eval, hi.eval with
    | .unmodelled, _ => .unmodelled
    | _, .unmodelled => .unmodelled
    | l, u => .msgs (selRange j h.key dir l u)

/-- `Journaler.recover_msg()` -/
def recoverMsg (j : Journal) (h : Handle) (dir : Dir) (seq : Bound) : Res :=
  match recoverMessages j h dir seq seq with
  | .msgs (m :: _) => .msg (some m)
  | .msgs [] => .msg none
  | r => r

/-- `if sessions is not None and len(sessions) != 0`: an empty filter list is no filter -/
def normKeys : Option (List Int) → Option (List Int)
  | some [] => none
  | k => k

/-- `Journaler.get_all_msgs()`; `keys` = the session filter (FIXSession objects ↦ their keys) -/
def getAllMsgs (j : Journal) (keys : Option (List Int)) (dir : Option Dir) : Res :=
  if ((normKeys keys).getD []).any (!fits ·) then .raised .overflow
  else .rows (selAll j (normKeys keys) dir)

/-- one call of a public method -/
inductive Op
  | createOrLoad (t s : String)
  | sessions
  | persist (msg : Bytes) (h : Handle) (dir : Dir)
  | setSeqNum (h : Handle) (out inn : Option Int)
  | recover (h : Handle) (dir : Dir) (lo hi : Bound)
  | recoverMsg (h : Handle) (dir : Dir) (seq : Bound)
  | getAll (keys : Option (List Int)) (dir : Option Dir)
  deriving DecidableEq, Repr

def applyOp (j : Journal) : Op → Journal × Res
  | .createOrLoad t s => createOrLoad j t s
  | .sessions => (j, .dict (sessions j))
  | .persist msg h dir => persist j msg h dir
  | .setSeqNum h out inn => setSeqNum j h out inn
  | .recover h dir lo hi => (j, recoverMessages j h dir lo hi)
  | .recoverMsg h dir seq => (j, recoverMsg j h dir seq)
  | .getAll keys dir => (j, getAllMsgs j keys dir)

def applyOps (j : Journal) (ops : List Op) : Journal := ops.foldl (fun j op => (applyOp j op).1) j

end AsyncFix.Model.Journal
