/-
SPEC: the lexical spaces of the FIX 4.4 datatypes (FIX 4.4 Vol. 1 "Data Types" table, and the
wording of property C19), written from the table and independently of the implementation model:
nothing here mentions int(), float(), regular expressions or strptime.  This file is part of the
trusted statement of C19; it is kept small so it can be read against the table.

  int          optional '-' and ASCII digits            ("-23", "00023")
  SeqNum, NumInGroup   ASCII digits, value > 0          (EndSeqNo(16) may also be "0")
  DayOfMonth   ASCII digits, value 1..31
  float, Qty, Price, PriceOffset, Amt, Percentage
               optional '-', ASCII digits with at most one '.', at least one digit ("23." = "23.0")
  char         one character other than the delimiter SOH
  Boolean      "Y" | "N"
  String, MultipleValueString   any characters other than SOH, not empty
  Country / Currency / Exchange  1..2 / 1..3 / 1..4 ASCII letters or digits ("codes of bounded length")
  UTCDateOnly, LocalMktDate     YYYYMMDD, YYYY 0000-9999, a day that exists in that month
  UTCTimeOnly  HH:MM:SS or HH:MM:SS.sss ; HH 00-23, MM 00-59, SS 00-60 (60 = leap second)
  UTCTimestamp YYYYMMDD-HH:MM:SS[.sss]
  MonthYear    YYYYMM | YYYYMMDD | YYYYMMwN (N = 1..5)
  data         anything, not empty
  Length       ASCII digits, value > 0

Years are proleptic Gregorian; year 0000 is a leap year (divisible by 400).
-/
namespace AsyncFix.Model.LexSpec

abbrev Str := List Nat

def digit (c : Nat) : Bool := decide (48 ≤ c) && decide (c ≤ 57)
def letter (c : Nat) : Bool := (decide (65 ≤ c) && decide (c ≤ 90)) || (decide (97 ≤ c) && decide (c ≤ 122))

/-- one or more ASCII digits -/
def digits (s : Str) : Bool := !s.isEmpty && s.all digit

/-- value of a string of ASCII digits -/
def value : Str → Nat → Nat
  | [], acc => acc
  | c :: cs, acc => value cs (10 * acc + (c - 48))

def isInt : Str → Bool
  | 45 :: r => digits r
  | s => digits s

def isPositiveInt (s : Str) : Bool := digits s && decide (0 < value s 0)

def isDayOfMonth (s : Str) : Bool := digits s && decide (1 ≤ value s 0) && decide (value s 0 ≤ 31)

/-- digits with at most one '.', at least one digit -/
def isUnsignedFloat (s : Str) : Bool :=
  s.all (fun c => digit c || c == 46) && s.any digit && decide ((s.filter (· == 46)).length ≤ 1)

def isFloat : Str → Bool
  | 45 :: r => isUnsignedFloat r
  | s => isUnsignedFloat s

def isString (s : Str) : Bool := !s.isEmpty && !s.contains 1
def isChar (s : Str) : Bool := decide (s.length = 1) && !s.contains 1
def isBoolean (s : Str) : Bool := s == [89] || s == [78]
def isCode (maxLen : Nat) (s : Str) : Bool :=
  !s.isEmpty && decide (s.length ≤ maxLen) && s.all fun c => digit c || letter c
def isData (s : Str) : Bool := !s.isEmpty

/-! calendar -/
def leapYear (y : Nat) : Bool := (y % 4 == 0 && y % 100 != 0) || y % 400 == 0

def monthLength (y m : Nat) : Nat :=
  match m with
  | 1 => 31 | 2 => if leapYear y then 29 else 28 | 3 => 31 | 4 => 30 | 5 => 31 | 6 => 30
  | 7 => 31 | 8 => 31 | 9 => 30 | 10 => 31 | 11 => 30 | 12 => 31
  | _ => 0

def two (a b : Nat) : Nat := (a - 48) * 10 + (b - 48)
def four (a b c d : Nat) : Nat := (a - 48) * 1000 + (b - 48) * 100 + (c - 48) * 10 + (d - 48)

/-- YYYYMM with MM 01..12 -/
def isYearMonth : Str → Bool
  | [y1, y2, y3, y4, m1, m2] =>
    digit y1 && digit y2 && digit y3 && digit y4 && digit m1 && digit m2 &&
      decide (1 ≤ two m1 m2) && decide (two m1 m2 ≤ 12)
  | _ => false

/-- YYYYMMDD naming an existing day -/
def isDate : Str → Bool
  | [y1, y2, y3, y4, m1, m2, d1, d2] =>
    isYearMonth [y1, y2, y3, y4, m1, m2] && digit d1 && digit d2 &&
      decide (1 ≤ two d1 d2) && decide (two d1 d2 ≤ monthLength (four y1 y2 y3 y4) (two m1 m2))
  | _ => false

/-- HH:MM:SS -/
def isHMS : Str → Bool
  | [h1, h2, 58, m1, m2, 58, s1, s2] =>
    digit h1 && digit h2 && digit m1 && digit m2 && digit s1 && digit s2 &&
      decide (two h1 h2 ≤ 23) && decide (two m1 m2 ≤ 59) && decide (two s1 s2 ≤ 60)
  | _ => false

/-- .sss -/
def isMillis : Str → Bool
  | [46, f1, f2, f3] => digit f1 && digit f2 && digit f3
  | _ => false

/-- HH:MM:SS or HH:MM:SS.sss -/
def isTimeOnly (s : Str) : Bool := isHMS s || (isHMS (s.take 8) && isMillis (s.drop 8))

/-- -HH:MM:SS[.sss] -/
def isDashTime : Str → Bool
  | 45 :: r => isTimeOnly r
  | _ => false

/-- YYYYMMDD-HH:MM:SS[.sss] -/
def isTimestamp (s : Str) : Bool := isDate (s.take 8) && isDashTime (s.drop 8)

/-- wN, N = 1..5 -/
def isWeekCode : Str → Bool
  | [119, n] => decide (49 ≤ n) && decide (n ≤ 53)
  | _ => false

/-- YYYYMM | YYYYMMDD | YYYYMMwN -/
def isMonthYear (s : Str) : Bool :=
  isYearMonth s || isDate s || (isYearMonth (s.take 6) && isWeekCode (s.drop 6))

/-- enumerated MultipleValueString: one or more values delimited by single blanks, each of them an enumeration
member (`cur` = the characters of the current value, last first) -/
def memberList (members : List Str) : Str → Str → Bool
  | [], cur => members.contains cur.reverse
  | c :: cs, cur =>
    if c == 32 then members.contains cur.reverse && memberList members cs []
    else memberList members cs (c :: cur)

def isMemberList (members : List Str) (s : Str) : Bool := memberList members s []

/-- the datatypes of the table, grouped as validate_value groups them -/
inductive DType
  | int | posInt | dayOfMonth | float | string | char | boolean
  | code (maxLen : Nat)
  | date | timestamp | timeOnly | monthYear | data | length
  deriving DecidableEq, Repr

def lexical : DType → Str → Bool
  | .int => isInt
  | .posInt => isPositiveInt
  | .dayOfMonth => isDayOfMonth
  | .float => isFloat
  | .string => isString
  | .char => isChar
  | .boolean => isBoolean
  | .code n => isCode n
  | .date => isDate
  | .timestamp => isTimestamp
  | .timeOnly => isTimeOnly
  | .monthYear => isMonthYear
  | .data => isData
  | .length => isPositiveInt

/-- lexical space of a field: EndSeqNo (tag 16) may carry "0" (= "infinity" in a ResendRequest) -/
def fieldLexical (tag16 : Bool) (t : DType) (s : Str) : Bool :=
  (tag16 && s == [48]) || lexical t s

end AsyncFix.Model.LexSpec
