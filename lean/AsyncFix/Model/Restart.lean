import AsyncFix.Model.Session

/-!
Restart family (property C09): discarding ONE endpoint and rebuilding it over the same journal.

* `restart c role` – what `AsyncFIXConnection.__init__` + `Journaler.create_or_load` produce when a new
  object is built over the journal the old object `c` leaves behind (same CompIDs, same heartbeat
  period; `role` is what the subclass constructor assigns: 1 = `AsyncFIXClient`, 2 = `AsyncFIXDummyServer`,
  0 = the bare base class).  Everything volatile (state, `_connection_was_active`, watermark, TestReqID,
  timers, transport) is the constructor's default; the two counters are the STORED ones + 1.

* A SEGMENTED view of the two handlers the property names crash points in.  A handler is a list of
  atomic segments `σ → M σ` (σ = the local variables that flow from one segment to the next); running
  all of them in order is *provably* the sequential model function (`Lemmas/RestartSeg.lean`:
  `sendSeq_eq : sendSeq env m = sendMsg env m`, `recvSeq_eq : recvSeq sr env m = processMessage env sr m`).
  "The process is killed after segment k" = run the first k segments, keep the connection they leave
  (its `journal` field is the durable state: every journal operation of the code commits – `persist_msg`
  and, since fix 1273eea, `set_seq_num` – and SQLite's commit is atomic, property C08), forget everything
  else, `restart`.

  `send_msg` (connection.py l.222-281), segments in code order:
    1 gate      state checks, LOGON_INITIAL_SENT transition                         (l.231-254)
    2 allocate  TestRequest guard, `Codec.encode` (takes the number), latin-1 check  (l.256-268)
    3 journal   `persist_msg(OUTBOUND)`  – BEFORE the transport write (fix e44eaf2)  (l.276-278)
    4 write     `_socket_writer.write`                                              (l.280)
    5 drain     `await _socket_writer.drain()`                                       (l.281)
  `_process_message` (l.806-892):
    1 head      `_validate_integrity`, logon / seqreset / logout handling, gap check (l.818-865)
    2 dispatch  type dispatch incl. the application callback `on_message`           (l.867-881)
    3 count     `session.set_next_num_in` – the live counter moves                   (l.747)
    4 mark      resend-watermark / state update, `_message_last_time` (while connected) (l.749-762)
    5 journal   `persist_msg(INBOUND)`                                              (l.763)
  Segments 3-5 are `_finalize_message`, run from the `finally` clause.

An exception raised by a segment ends the handler exactly as in the sequential model (the remaining
segments do not run).  Crash points INSIDE segment 1 / 2 of inbound processing (between the journal
operations of a reply that is sent from there, between the two `set_seq_num` calls of
`_process_seqreset`, inside resend servicing) are not separate segments; the harness covers them on the
implementation side (oracle) and checks that the state they leave is one of the boundary states whenever
the segment contains a single journal operation.
-/
namespace AsyncFix.Restart

open AsyncFix.Session AsyncFix.Generated AsyncFix.Generated.ConnEnum

/-- a new connection object over the journal of the old one -/
def restart (c : Conn) (role : Nat) : Conn :=
  Conn.create c.sess.sender c.sess.target c.journal c.hb role

/-! ### segments -/

abbrev Seg (σ : Type) := σ → M σ

/-- run segments in order, threading the local state; an exception ends the run -/
def runSegs {σ : Type} : List (Seg σ) → σ → M σ
  | [], s => pure s
  | f :: r, s => do
    let s' ← f s
    runSegs r s'

/-! ### `send_msg` -/

/-- segment 2: TestRequest guard, `Codec.encode` (allocates the number unless the message carries its
own), latin-1 refusal (gives the number back).  Returns the number and the frame. -/
def sendAlloc (env : Env) (m : Msg) : M (Int × Msg) := do
  let c ← M.get
  if m.mtype == mTestRequest && c.testReqId.isNone then M.throw .connection
  else do
    let saved := c.sess.nextOut
    let seq ← encodeSeq m
    let c1 ← M.get
    let frame := buildFrame c1.sess env.stamp m seq
    if !frameLatin1 frame then do
      M.modify fun c => { c with sess := { c.sess with nextOut := saved } }
      M.throw .encoding
    else pure (seq, frame)

/-- segment 3: `persist_msg(encoded, session, OUTBOUND)` -/
def sendJournal (seq : Int) (frame : Msg) : M Unit := do
  let c ← M.get
  match c.journal.persist .outbound seq frame with
  | none => M.throw .duplicateSeqNo
  | some j => M.modify fun c => { c with journal := j }

/-- segment 4: `self._socket_writer.write(encoded)` (`None.write` without a transport) -/
def sendWrite (frame : Msg) : M Unit := do
  let c ← M.get
  if !c.sock then M.throw .attribute else M.emit (.write frame)

/-- segment 5: `await self._socket_writer.drain()` – returns normally -/
def sendDrain : M Unit := pure ()

/-- local state of a send: the allocated number and the encoded frame, once they exist -/
abbrev SendSt := Option (Int × Msg)

def sendSegs (env : Env) (m : Msg) : List (Seg SendSt) :=
  [ fun s => do sendGate m; pure s,
    fun _ => do let p ← sendAlloc env m; pure (some p),
    fun s => do (match s with | some p => sendJournal p.1 p.2 | none => pure ()); pure s,
    fun s => do (match s with | some p => sendWrite p.2 | none => pure ()); pure s,
    fun s => do sendDrain; pure s ]

/-- all five segments = `send_msg` -/
def sendSeq (env : Env) (m : Msg) : M Unit := do
  let _ ← runSegs (sendSegs env m) none
  pure ()

/-- the first `k` segments of a send -/
def sendPrefix (k : Nat) (env : Env) (m : Msg) : M SendSt := runSegs ((sendSegs env m).take k) none

/-! ### `_process_message` -/

/-- local state of inbound processing.  `go`: the later segments still have something to do;
`valid`, `n`: `is_valid_msg_num`, `msg_seq_num`; `cnt`: what `set_next_num_in` returned. -/
structure RecvSt where
  go : Bool := true
  valid : Bool := false
  n : Int := 0
  cnt : Int := 0
  deriving DecidableEq, Repr, Inhabited

/-- segment 1 -/
def recvHead (env : Env) (m : Msg) : Seg RecvSt := fun s => do
  let integ ← validateIntegrity m
  match integ with
  | .critical => do
    disconnect env st_DISCONNECTED_BROKEN_CONN none
    pure { s with go := false }
  | .reason text => do
    disconnect env st_DISCONNECTED_BROKEN_CONN (some text)
    pure { s with go := false }
  | .good => do
    let head ← swallow none (processHead env m)
    match head with
    | none => pure { s with go := false }
    | some (valid, n) => pure { s with go := true, valid := valid, n := n }

/-- segment 2 (contains the application callback) -/
def recvDispatch (env : Env) (sr : Msg → Bool) (m : Msg) : Seg RecvSt := fun s =>
  if s.go then do
    swallow () (processDispatch env sr m s.valid s.n)
    pure s
  else pure s

/-- segment 3: `msg_sec_no = self._session.set_next_num_in(msg)`; `<= 0` ends `_finalize_message` -/
def recvCount (m : Msg) : Seg RecvSt := fun s =>
  if s.go && s.valid then do
    let k ← setNextNumIn m
    pure { s with cnt := k, go := decide (k > 0) }
  else pure { s with go := false }

/-- segment 4: watermark / state update while RESENDREQ_AWAITING, `_message_last_time` -/
def recvMark (env : Env) : Seg RecvSt := fun s =>
  if s.go then do
    let c ← M.get
    if c.state == st_RESENDREQ_AWAITING then do
      M.assert (decide (c.maxResend > 0))
      if s.cnt ≥ c.maxResend then do
        M.modify fun c => { c with maxResend := 0 }
        stateSet st_ACTIVE
      else pure ()
    else pure ()
    let c' ← M.get
    -- fix 5623bd4: the receive time is stamped only while connected
    if c'.state > st_DISCONNECTED_BROKEN_CONN then M.modify fun c => { c with lastTime := env.now }
    else pure ()
    pure s
  else pure s

/-- segment 5: `persist_msg(raw_msg, session, INBOUND)` -/
def recvJournal (m : Msg) : Seg RecvSt := fun s =>
  if s.go then do
    persistInbound m
    pure s
  else pure s

def recvSegs (sr : Msg → Bool) (env : Env) (m : Msg) : List (Seg RecvSt) :=
  [recvHead env m, recvDispatch env sr m, recvCount m, recvMark env, recvJournal m]

/-- all five segments = `_process_message` -/
def recvSeq (sr : Msg → Bool) (env : Env) (m : Msg) : M Unit := do
  let _ ← runSegs (recvSegs sr env m) {}
  pure ()

/-- the first `k` segments of inbound processing -/
def recvPrefix (k : Nat) (sr : Msg → Bool) (env : Env) (m : Msg) : M RecvSt :=
  runSegs ((recvSegs sr env m).take k) {}

/-! ### crash states -/

/-- the connection and the effects the process had produced when it was killed after segment `k` of a
send (an exception before that point ends the handler; it is the last effect, as for `appSend`) -/
def sendKilled (k : Nat) (env : Env) (c : Conn) (m : Msg) : Conn × List Effect :=
  (sendPrefix k env m).run c

def recvKilled (k : Nat) (sr : Msg → Bool) (env : Env) (c : Conn) (m : Msg) : Conn × List Effect :=
  (recvPrefix k sr env m).run c

/-- kill after segment `k` of `send_msg(m)`, then a new object over the journal -/
def sendCrash (k : Nat) (env : Env) (c : Conn) (m : Msg) (role : Nat) : Conn :=
  restart (sendKilled k env c m).1 role

/-- kill after segment `k` of `_process_message(m)`, then a new object over the journal -/
def recvCrash (k : Nat) (sr : Msg → Bool) (env : Env) (c : Conn) (m : Msg) (role : Nat) : Conn :=
  restart (recvKilled k sr env c m).1 role

/-! ### histories with restarts and kills -/

/-- events of one endpoint's life across incarnations -/
inductive REvent
  | ev (e : Event)                                   -- an ordinary event, run to completion
  | restart (role : Nat)                             -- stop at a quiescent point, rebuild
  | killSend (k : Nat) (env : Env) (m : Msg) (role : Nat)   -- killed inside `send_msg`, rebuilt
  | killRecv (k : Nat) (env : Env) (m : Msg) (role : Nat)   -- killed inside `_process_message`, rebuilt
  deriving Repr

def rstep (sr : Msg → Bool) (c : Conn) : REvent → Conn × List Effect
  | .ev e => step sr c e
  | .restart role => (restart c role, [])
  | .killSend k env m role => let r := sendKilled k env c m; (restart r.1 role, r.2)
  | .killRecv k env m role => let r := recvKilled k sr env c m; (restart r.1 role, r.2)

def rrun (sr : Msg → Bool) : Conn → List REvent → Conn × List Effect
  | c, [] => (c, [])
  | c, ev :: rest =>
    let (c1, e1) := rstep sr c ev
    let (c2, e2) := rrun sr c1 rest
    (c2, e1 ++ e2)

end AsyncFix.Restart
