import AsyncFix.Model.Sched

/-!
Sched family, part 2: the coroutines of asyncfix/connection.py as resumptions.

Each `fooR` below is the `do` block of its sequential version `foo` (Model/Session*.lean) with

* `stateSet s`                 ↦ `stateSetR s`      (`await self.on_state_change(s)` inside `_state_set`)
* `M.emit (.onLogon b)` …      ↦ `R.hook … point`   (the awaited hooks)
* `M.emit .closeSocket`        ↦ `R.hook .closeSocket .waitClosed`  (`close()` + `await wait_closed()`)
* the end of `sendCore`        ↦ `R.yield .drain`   (`await self._socket_writer.drain()`)
* `sr row`                     ↦ `R.yield .shouldReplay` first (`await self.should_replay(row)`; not
                                 reached for session-level rows: Python's `or` short-circuits)
* every handler without an `await` (`sendCore`, `encodeSeq`, `validateIntegrity`, `setSeqNum`,
  `processSeqreset`, `setNextNumIn`, `persistInbound`) ↦ `R.liftM`, i.e. ONE segment.

Where a handler reads the connection (`← R.get`) is where the Python code reads `self._…`: after a
yield it sees what other tasks left behind.  Values read before a yield stay (Python locals:
`msg_seq_num`, `dstate`, `current_next_num_out`, `gap_fill_begin`, `gap_fill_end`, the rows recovered
from the journal).
-/
namespace AsyncFix.Sched

open AsyncFix.Session AsyncFix.Generated AsyncFix.Generated.ConnEnum

/-- `_state_set`: assign (same segment as what precedes), then `await self.on_state_change(s)` -/
def stateSetR (s : Nat) : R Unit := do
  R.liftM (stateSet s)
  R.yield .onStateChange

/-- state checks of `send_msg`; the only await is the `_state_set(LOGON_INITIAL_SENT)` of an initiator's
first message – the role is assigned AFTER it -/
def sendGateR (m : Msg) : R Unit := do
  let c ← R.get
  if c.state < st_NETWORK_CONN_ESTABLISHED then R.throw .connection
  else if c.state == st_NETWORK_CONN_ESTABLISHED then
    if m.mtype != mLogon && m.mtype != mLogout then R.throw .connection
    else do
      stateSetR st_LOGON_INITIAL_SENT
      R.modify fun c => { c with role := roleInitiator }
  else if c.role == roleInitiator && c.state == st_LOGON_INITIAL_SENT && m.mtype != mLogout then
    R.throw .connection
  else pure ()

/-- TestRequest guard, encode (allocates the number), latin-1 refusal, journal persist, transport
write: no `await` – ONE segment (`sendCore` itself); then `await drain()` -/
def sendCoreR (env : Env) (m : Msg) : R Unit := do
  R.liftM (sendCore env m)
  R.yield .drain

/-- `send_msg` -/
def sendMsgR (env : Env) (m : Msg) : R Unit := do
  sendGateR m
  sendCoreR env m

/-- `send_test_req` -/
def sendTestReqR (env : Env) : R Unit := do
  let c ← R.get
  if c.testReqId.isSome then R.throw .connection
  else do
    R.modify fun c => { c with testReqId := some env.secs }
    sendMsgR env (Msg.mk' mTestRequest [(tTestReqID, pyStr env.secs)])

/-- `except Exception: self.log.exception(…)` -/
def swallowR {α} (dflt : α) (x : R α) : R α :=
  R.tryCatch x fun ex => do R.liftM (M.emit (.caught ex)); pure dflt

/-- `disconnect` -/
def disconnectR (env : Env) (dstate : Nat) (logout : Option String) : R Unit := do
  let c ← R.get
  if c.state > st_DISCONNECTED_BROKEN_CONN then do
    R.assert (dstate ≤ st_DISCONNECTED_BROKEN_CONN)
    R.modify fun c => { c with testReqId := none, lastTime := 0, maxResend := 0 }
    match logout with
    | some text => swallowR () (sendMsgR env (logoutMsg text))
    | none => pure ()
    let c2 ← R.get
    if c2.sock then R.hook .closeSocket .waitClosed else pure ()
    R.modify fun c => { c with sock := false }
    stateSetR dstate
    R.hook .onDisconnect .onDisconnect
  else pure ()

/-- `except Exception: y; raise` – the handler of a `try` whose exception is re-raised after `y`.  The ghost
mark is bookkeeping only (see `Ghost.waive`). -/
def rethrowAfter {α : Type} (y : R Unit) (ex : Exc) : R α := do
  if ex == .duplicateSeqNo || ex == .attribute then R.ghost .waive else pure ()
  y
  R.throw ex

/-- `_process_logon` -/
def processLogonR (env : Env) (m : Msg) : R Unit := do
  R.assert (m.mtype == mLogon)
  let c ← R.get
  R.assert (c.role == roleAcceptor || c.role == roleInitiator)
  let v ← R.liftE (m.get tMsgSeqNum)
  let n ← R.int v
  let stop ←
    if c.role == roleAcceptor then do
      R.assert (c.state == st_LOGON_INITIAL_RECV)
      if !m.has tEncryptMethod || !m.has tHeartBtInt then do
        disconnectR env st_DISCONNECTED_BROKEN_CONN (some "Logon() without EncryptMethod(98) / HeartBtInt(108)")
        pure true
      else do
        if n ≥ c.sess.nextIn then do
          let e ← R.liftE (m.get tEncryptMethod)
          let h ← R.liftE (m.get tHeartBtInt)
          -- fix a9dbd9f: a reply that cannot be sent drops the connection, then the error goes on
          R.tryCatch (sendMsgR env (Msg.mk' mLogon [(tEncryptMethod, e), (tHeartBtInt, h)]))
            (rethrowAfter (disconnectR env st_DISCONNECTED_BROKEN_CONN none))
        else pure ()
        pure false
    else pure false
  if stop then pure ()
  else do
    let c2 ← R.get
    if n == c2.sess.nextIn then stateSetR st_ACTIVE else stateSetR st_RECV_SEQNUM_TOO_HIGH
    let c3 ← R.get
    R.hook (.onLogon (c3.state == st_ACTIVE)) .onLogon

/-- `_check_seqnum_gaps` -/
def checkSeqnumGapsR (env : Env) (n : Int) : R Bool := do
  let c ← R.get
  if n > c.sess.nextIn then do
    if c.state != st_RESENDREQ_AWAITING then do
      R.modify fun c => { c with maxResend := n }
      sendMsgR env (Msg.mk' mResendRequest [(tBeginSeqNo, pyStr c.sess.nextIn), (tEndSeqNo, "0")])
      stateSetR st_RESENDREQ_AWAITING
    else pure ()
    pure false
  else pure true

/-- `_process_logout` -/
def processLogoutR (env : Env) (m : Msg) : R Unit := do
  R.assert (m.mtype == mLogout)
  let c ← R.get
  let dstate := if c.wasActive then st_DISCONNECTED_WCONN_TODAY else st_DISCONNECTED_BROKEN_CONN
  R.hook (.onLogout m) .onLogout
  disconnectR env dstate none

/-- the replay loop of `_process_resend`; awaits: `should_replay(row)` for rows that are not
session-level, and the `drain()` of every gap fill / replay it sends.  Rows numbered above the requested
EndSeqNo go back into the journal unsent, without an await (fix da179c4). -/
def resendLoopR (env : Env) (sr : Msg → Bool) (endNo : Int) : List Msg → Int → Int → R (Int × Int)
  | [], gfb, gfe => pure (gfb, gfe)
  | row :: rest, gfb, gfe => do
    let v ← R.liftE (row.get tMsgSeqNum)
    let n ← R.int v
    if n > endNo then do
      R.liftM (persistOutboundRow n row)
      resendLoopR env sr endNo rest gfb gfe
    else do
      let ty ← R.liftE (row.get tMsgType)
      let skip ←
        if ConnEnum.noReplay.contains ty then pure true
        else do
          R.yield .shouldReplay
          pure (!sr row)
      if skip then
        resendLoopR env sr endNo rest gfb (n + 1)
      else do
        if gfb < n then sendMsgR env (gapFillMsg gfb n) else pure ()
        let rp ← R.liftE (prepareReplay row)
        sendMsgR env rp
        resendLoopR env sr endNo rest (n + 1) gfe

/-- `_process_resend`; ghost marks at its two `set_seq_num` calls (`rewind` in the segment of the first
call, `restore` in the segment of the second) -/
def processResendR (env : Env) (sr : Msg → Bool) (m : Msg) : R Unit := do
  let c0 ← R.get
  if c0.state != st_RESENDREQ_AWAITING then stateSetR st_RESENDREQ_HANDLING else pure ()
  R.assert (m.mtype == mResendRequest)
  let c ← R.get
  R.assert (c.state == st_RESENDREQ_HANDLING || c.state == st_RESENDREQ_AWAITING)
  let vb ← R.liftE (m.get tBeginSeqNo)
  let b ← R.int vb
  let ve ← R.liftE (m.get tEndSeqNo)
  let e0 ← R.int ve
  let e := if e0 == 0 then sysMaxsize else e0
  if b < 1 || b ≥ c.sess.nextOut then
    if c.state != st_RESENDREQ_AWAITING then stateSetR st_ACTIVE else pure ()
  else do
    let rows := c.journal.recoverOut b sysMaxsize
    let cur := c.sess.nextOut
    R.ghost .rewind
    R.liftM (setSeqNum (some b) none)
    let (gfb, gfe) ← resendLoopR env sr e rows b b
    R.assert (decide (gfe ≤ cur))
    let gfe2 := min (e + 1) cur
    if gfb < gfe2 then sendMsgR env (gapFillMsg gfb gfe2) else pure ()
    R.liftM (setSeqNum (some cur) none)
    R.ghost .restore
    let c2 ← R.get
    if c2.state != st_RESENDREQ_AWAITING then stateSetR st_ACTIVE else pure ()

/-- `_finalize_message` -/
def finalizeMessageR (env : Env) (m : Msg) : R Unit := do
  let n ← R.liftM (setNextNumIn m)
  if n ≤ 0 then pure ()
  else do
    let c ← R.get
    if c.state == st_RESENDREQ_AWAITING then do
      R.assert (decide (c.maxResend > 0))
      if n ≥ c.maxResend then do
        R.modify fun c => { c with maxResend := 0 }
        stateSetR st_ACTIVE
      else pure ()
    else pure ()
    let c' ← R.get
    -- fix 5623bd4: the receive time is stamped only while connected
    if c'.state > st_DISCONNECTED_BROKEN_CONN then R.modify fun c => { c with lastTime := env.now }
    else pure ()
    R.liftM (persistInbound m)

/-- `_process_testrequest` -/
def processTestRequestR (env : Env) (m : Msg) : R Unit := do
  R.assert (m.mtype == mTestRequest)
  sendMsgR env (Msg.mk' mHeartbeat [(tTestReqID, (m.get? tTestReqID).getD "0")])

/-- `_process_heartbeat` -/
def processHeartbeatR (env : Env) (m : Msg) : R Unit := do
  R.assert (m.mtype == mHeartbeat)
  let c ← R.get
  match c.testReqId with
  | none => pure ()
  | some tid =>
    match m.get? tTestReqID with
    | none => pure ()
    | some v =>
      let got : Int := (pyInt v).getD 0
      if tid != got then
        disconnectR env st_DISCONNECTED_BROKEN_CONN (some "Invalid TestRequest(TestReqID) received")
      else R.modify fun c => { c with testReqId := none }

/-- `_process_message`, first part of the `try` block -/
def processHeadR (env : Env) (m : Msg) : R (Option (Bool × Int)) := do
  let c ← R.get
  R.assert (decide (c.state ≥ st_NETWORK_CONN_ESTABLISHED))
  let stop1 ←
    if c.state == st_NETWORK_CONN_ESTABLISHED then
      if m.mtype != mLogon then do
        disconnectR env st_DISCONNECTED_BROKEN_CONN none
        pure true
      else do
        stateSetR st_LOGON_INITIAL_RECV
        R.modify fun c => { c with role := roleAcceptor }
        pure false
    else pure false
  if stop1 then pure none
  else do
    let c1 ← R.get
    if c1.state == st_LOGON_INITIAL_SENT && m.mtype != mLogon && m.mtype != mLogout then do
      disconnectR env st_DISCONNECTED_BROKEN_CONN none
      pure none
    else do
      let stop2 ←
        if m.mtype == mLogon then do processLogonR env m; pure false
        else if m.mtype == mSequenceReset then do
          let ok ← R.liftM (processSeqreset m)
          if !ok then do
            let v ← R.liftE (m.get tMsgSeqNum)
            let n ← R.int v
            let _ ← checkSeqnumGapsR env n
            pure true
          else pure false
        else if m.mtype == mLogout then do processLogoutR env m; pure false
        else pure false
      if stop2 then pure none
      else do
        let c2 ← R.get
        if c2.state ≤ st_DISCONNECTED_BROKEN_CONN then pure none
        else do
          let v ← R.liftE (m.get tMsgSeqNum)
          let n ← R.int v
          let valid ← checkSeqnumGapsR env n
          pure (some (valid, n))

/-- `_process_message`, the dispatch -/
def processDispatchR (env : Env) (sr : Msg → Bool) (m : Msg) (valid : Bool) (n : Int) : R Unit := do
  if m.mtype == mResendRequest then processResendR env sr m
  else if m.mtype == mSequenceReset then pure ()
  else if m.mtype == mLogon then pure ()
  else if m.mtype == mTestRequest then processTestRequestR env m
  else if m.mtype == mHeartbeat then processHeartbeatR env m
  else do
    let c ← R.get
    if valid && n == c.sess.nextIn then R.hook (.deliver m) .onMessage else pure ()

/-- `_process_message` -/
def processMessageR (env : Env) (sr : Msg → Bool) (m : Msg) : R Unit := do
  let integ ← R.liftM (validateIntegrity m)
  match integ with
  | .critical => disconnectR env st_DISCONNECTED_BROKEN_CONN none
  | .reason text => disconnectR env st_DISCONNECTED_BROKEN_CONN (some text)
  | .good => do
    let head ← swallowR none (processHeadR env m)
    match head with
    | none => pure ()
    | some (valid, n) => do
      swallowR () (processDispatchR env sr m valid n)
      if valid then finalizeMessageR env m else pure ()

/-- one iteration of `heartbeat_timer_task` (up to its `await asyncio.sleep(1.0)`) -/
def tickBodyR (env : Env) : R Unit := do
  let c ← R.get
  if !c.sock then pure ()
  else do
    if c.state == st_ACTIVE then
      if env.now - c.lastTime > (c.hb - 1) * 1000 then
        if c.testReqId.getD 0 == 0 then do
          sendTestReqR env
          R.modify fun c => { c with lastTime := env.now }
        else pure ()
      else pure ()
    else pure ()
    let c1 ← R.get
    if c1.lastTime != 0 && env.now - c1.lastTime > c1.hb * 2 * 1000 then
      disconnectR env st_DISCONNECTED_BROKEN_CONN none
    else pure ()
    let c2 ← R.get
    if c2.testReqId.getD 0 != 0 && env.now - (c2.testReqId.getD 0) * 1000 > c2.hb * 2 * 1000
        && env.now - c2.lastTime > c2.hb * 2 * 1000 then
      disconnectR env st_DISCONNECTED_BROKEN_CONN none
    else pure ()

end AsyncFix.Sched
