/-
Model of message validation against a FIX XML dictionary
(asyncfix/protocol/schema.py: `FIXSchema.validate`, `FIXSchema._validate_header`,
`SchemaGroup.validate_group`), as the code is NOW (required groups are checked at message
level and inside group items; header and trailer members are validated like message members;
every rejection is a `FIXMessageError`).

What is abstracted
* A dictionary after parsing (`Schema`): the declared fields, the flattened member list of the
  header, of the trailer and of every message type; a member is a
  field or a repeating group with its own member list.  Members refer to fields by TAG.  The
  library keys members by field NAME (`SchemaField.__hash__/__eq__`) and group bookkeeping by
  tag; both views coincide when tags and names are in bijection, which is part of `schemaWF`.
* Value validation (`SchemaField.validate_value`) is the parameter `vv : tag → value → Bool`
  (property C19 / Model/Lexical.lean is about it); only its guard "value must be a non-empty
  string" is modelled here, because it concerns non-string objects and `""`.
* A message (`Msg`): message type + ordered nodes; a node is a plain string value, a
  non-string value (an exception class stored by `FIXContainer.set`, as the decoder does for
  `RepeatingTagError`) or a repeating group = list of items = list of nodes.  Python dicts have
  distinct keys; nothing below needs that, so it is not demanded.

Outcome kinds: `msgError` = `FIXMessageError` or a subclass (`TagNotFoundError`,
`RepeatingTagError`).  After the repairs 4e42d87 / 732dc8f no other exception type can leave
`validate` for messages of this shape (see notes/report_sch.md, "exception census").
-/
namespace AsyncFix.Model.Schema

abbrev Tag := String

/-- `<field number= name= type=>`; `hasEnum` = it has `<value>` children -/
structure Field where
  tag : Tag
  name : String
  ftype : String
  hasEnum : Bool
  deriving Repr, DecidableEq

inductive Member where
  | field (tag : Tag) (req : Bool)
  | group (tag : Tag) (req : Bool) (members : List Member)
  deriving Repr

def Member.tag : Member → Tag
  | .field t _ => t
  | .group t _ _ => t

def Member.req : Member → Bool
  | .field _ r => r
  | .group _ r _ => r

def Member.isField : Member → Bool
  | .field .. => true
  | .group .. => false

structure Schema where
  fields : List Field
  header : List Member
  trailer : List Member
  /-- msgtype ↦ members (`FIXSchema._messages_types`) -/
  messages : List (String × List Member)
  deriving Repr

/-- which class object is stored as a value (`FIXContainer.get` treats two of them specially) -/
inductive ClsKind | notFound | repeating | other
  deriving Repr, DecidableEq

inductive Node where
  | plain (tag : Tag) (v : String)
  | cls (tag : Tag) (k : ClsKind)
  | group (tag : Tag) (items : List (List Node))
  deriving Repr

def Node.tag : Node → Tag
  | .plain t _ => t
  | .cls t _ => t
  | .group t _ => t

def Node.isGroup : Node → Bool
  | .group .. => true
  | _ => false

structure Msg where
  msgType : String
  tags : List Node
  deriving Repr

/-- `msgError` = `FIXMessageError` or a subclass; `foreign` = any other exception type.  The
    model never produces `foreign` (theorem `validate_error_kind`); the harness maps every
    exception that is not a `FIXMessageError` to a reply the model cannot give. -/
inductive Kind | msgError | foreign
  deriving Repr, DecidableEq

inductive Outcome | ok | raised (k : Kind)
  deriving Repr, DecidableEq

/-- sequencing of checks: first failure wins -/
@[inline] def Outcome.andThen (a : Outcome) (b : Outcome) : Outcome :=
  match a with
  | .ok => b
  | .raised k => .raised k

/-- `t in container` -/
def hasTag (ns : List Node) (t : Tag) : Bool := ns.any (fun n => n.tag = t)

/-- `container.tags.get(t)` -/
def getNode (ns : List Node) (t : Tag) : Option Node := ns.find? (fun n => n.tag = t)

/-- position and member of tag `t` (`tag_order[t]`, `tag_fields[t]`, `schema_msg[field]`) -/
def lookupMem : List Member → Tag → Option (Nat × Member)
  | [], _ => none
  | m :: ms, t =>
    if m.tag = t then some (0, m)
    else match lookupMem ms t with
      | none => none
      | some (i, x) => some (i + 1, x)

def memberTags (ms : List Member) : List Tag := ms.map (·.tag)

/-- `tag in self._tag2field` -/
def Schema.knownTag (sch : Schema) (t : Tag) : Bool := sch.fields.any (fun f => f.tag = t)

def lookupMsg : List (String × List Member) → String → Option (List Member)
  | [], _ => none
  | (k, v) :: rest, t => if k = t then some v else lookupMsg rest t

/-- `SchemaField.validate_value(value)` for a string: empty ⇒ FIXMessageError, else the verdict -/
def strOutcome (vv : Tag → String → Bool) (t : Tag) (s : String) : Outcome :=
  if s = "" then .raised .msgError
  else if vv t s then .ok else .raised .msgError

/-- the first loop of `validate`: every required member (field or group) is present -/
def checkRequired (ns : List Node) : List Member → Outcome
  | [] => .ok
  | m :: rest =>
    if m.req && !hasTag ns m.tag then .raised .msgError else checkRequired ns rest

/-- `_validate_header`: required header FIELDS are present, `msg[tag]` is fetched
    (`FIXContainer.get` raises `FIXMessageError` for groups, `TagNotFoundError` /
    `RepeatingTagError` for those two marker classes) and value-validated (any other
    non-string ⇒ FIXMessageError) -/
def validateHeader (vv : Tag → String → Bool) (ns : List Node) : List Member → Outcome
  | [] => .ok
  | .group _ _ _ :: rest => validateHeader vv ns rest
  | .field t req :: rest =>
    if !req then validateHeader vv ns rest
    else match getNode ns t with
      | none => .raised .msgError
      | some (.group _ _) => .raised .msgError
      | some (.cls _ _) => .raised .msgError
      | some (.plain _ s) => (strOutcome vv t s).andThen (validateHeader vv ns rest)

mutual
/-- `SchemaGroup.validate_group(groups)`: loop over the items -/
def validateGroup (vv : Tag → String → Bool) (gm : List Member) : List (List Node) → Outcome
  | [] => .ok
  | it :: rest =>
    (validateItemLoop vv gm 0 it).andThen
      ((if !(it.any fun n => (lookupMem gm n.tag).any fun p => p.1 = 0) then .raised .msgError
        else checkRequired it gm).andThen (validateGroup vv gm rest))

/-- `for t, v in fmsg.items()` with `prev_tag` (`prev` = max(prev_tag, 0): `prev_tag > idx`
    is never true for -1 nor for 0) -/
def validateItemLoop (vv : Tag → String → Bool) (gm : List Member) (prev : Nat) :
    List Node → Outcome
  | [] => .ok
  | n :: rest =>
    match lookupMem gm n.tag with
    | none => .raised .msgError                      -- unsupported tag
    | some (i, mem) =>
      if prev > i then .raised .msgError             -- incorrect tag order
      else (validateMember vv mem n).andThen (validateItemLoop vv gm i rest)

/-- the kind and value checks of one node against its dictionary member; the same code shape
    in `validate` (message level) and in `validate_group` (item level):
    field: `is_group` ⇒ "must be a tag, got group", else `validate_value`;
    group: `not is_group` ⇒ "must be a group", else `validate_group` -/
def validateMember (vv : Tag → String → Bool) (mem : Member) : Node → Outcome
  | .plain _ s =>
    match mem with
    | .field ft _ => strOutcome vv ft s
    | .group _ _ _ => .raised .msgError              -- must be a group
  | .cls _ _ => .raised .msgError                    -- field: value must be a string; group: must be a group
  | .group _ items =>
    match mem with
    | .field _ _ => .raised .msgError                -- must be a tag, got group
    | .group _ _ gm' => validateGroup vv gm' items
end

/-- `field in self._header` / `elif field in self._trailer` / `elif field not in schema_msg` -/
def memberFor (sch : Schema) (ms : List Member) (t : Tag) : Option Member :=
  match lookupMem sch.header t with
  | some (_, m) => some m
  | none =>
    match lookupMem sch.trailer t with
    | some (_, m) => some m
    | none =>
      match lookupMem ms t with
      | some (_, m) => some m
      | none => none

/-- third loop of `validate`: `for tag, val in msg.tags.items()` -/
def checkEntries (vv : Tag → String → Bool) (sch : Schema) (ms : List Member) :
    List Node → Outcome
  | [] => .ok
  | n :: rest =>
    if n.tag = "10" then checkEntries vv sch ms rest          -- "TODO: check the checksum"
    else if !sch.knownTag n.tag then .raised .msgError        -- not in schema
    else match memberFor sch ms n.tag with
      | none => .raised .msgError                             -- not allowed in this message
      | some mem => (validateMember vv mem n).andThen (checkEntries vv sch ms rest)

/-- `FIXSchema.validate(msg)` -/
def validate (vv : Tag → String → Bool) (sch : Schema) (m : Msg) : Outcome :=
  match lookupMsg sch.messages m.msgType with
  | none => .raised .msgError
  | some ms =>
    (checkRequired m.tags ms).andThen
      ((if hasTag m.tags "8" then validateHeader vv m.tags sch.header else .ok).andThen
        (checkEntries vv sch ms m.tags))

/-! ## well-formedness of a parsed dictionary (decidable; evaluated by the driver on the real
dictionaries, hypothesis of the theorems) -/

def isInfix (p : List Char) : List Char → Bool
  | [] => p.isEmpty
  | c :: cs => p.isPrefixOf (c :: cs) || isInfix p cs

/-- the `SchemaSet.__init__` test on a group's counter field -/
def groupFieldOk (f : Field) : Bool :=
  (isInfix "No".toList f.name.toList || isInfix "Num".toList f.name.toList)
    && (f.ftype = "NUMINGROUP" || f.ftype = "INT")

def Schema.fieldOf (sch : Schema) (t : Tag) : Option Field := sch.fields.find? (fun f => f.tag = t)

mutual
/-- member tags pairwise distinct at every level, every member declared as a field, group
    counters acceptable to `SchemaSet.__init__` -/
def membersWF (sch : Schema) : List Member → Bool
  | [] => true
  | m :: rest => memberWF sch m && !(memberTags rest).contains m.tag && membersWF sch rest
def memberWF (sch : Schema) : Member → Bool
  | .field t _ => sch.knownTag t
  | .group t _ gm => (match sch.fieldOf t with | some f => groupFieldOk f | none => false)
      && membersWF sch gm
end

def nodupStr : List String → Bool
  | [] => true
  | x :: xs => !xs.contains x && nodupStr xs

/-- Well-formedness of a parsed dictionary.
* field tags and field names are in bijection (the library keys members by name, items by tag);
* message types are distinct;
* for every message type, header ++ trailer ++ message members have pairwise distinct tags at
  every level, are declared fields, and group counters pass `SchemaSet.__init__`;
* `10` (exempt from validation) is not a header tag, and the header has no *required group*
  (`_validate_header` looks at required fields only). -/
def schemaWF (sch : Schema) : Bool :=
  nodupStr (sch.fields.map (·.tag)) && nodupStr (sch.fields.map (·.name))
    && nodupStr (sch.messages.map (·.1))
    && membersWF sch (sch.header ++ sch.trailer)
    && sch.messages.all (fun p => membersWF sch (sch.header ++ sch.trailer ++ p.2))
    && !(memberTags sch.header).contains "10"
    && sch.header.all (fun m => m.isField || !m.req)

end AsyncFix.Model.Schema
