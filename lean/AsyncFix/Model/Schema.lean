/-
Model of message validation against a FIX XML dictionary
(asyncfix/protocol/schema.py: `FIXSchema.validate`, `FIXSchema._validate_header`,
`SchemaGroup.validate_group`), as the code is NOW (required groups are checked at message
level and inside group items).

What is abstracted
* A dictionary after parsing (`Schema`): the declared fields, the flattened member list of the
  header, of the trailer (the library never reads `<trailer>`; it is part of the abstract
  dictionary because the *specification* mentions it) and of every message type; a member is a
  field or a repeating group with its own member list.  Members refer to fields by TAG.  The
  library keys members by field NAME (`SchemaField.__hash__/__eq__`) and group bookkeeping by
  tag; both views coincide when tags and names are in bijection, which is part of `schemaWF`.
* Value validation (`SchemaField.validate_value`) is the parameter `vv : tag → value → Bool`
  (property C19 / Model/Lexical.lean is about it); only its two `assert`s are modelled here
  because they decide the *exception kind*: non-string value and empty string.
* A message (`Msg`): message type + ordered nodes; a node is a plain string value, a
  non-string value (an exception class stored by `FIXContainer.set`, as the decoder does for
  `RepeatingTagError`) or a repeating group = list of items = list of nodes.  Python dicts have
  distinct keys; nothing below needs that, so it is not demanded.

Outcome kinds: `msgError` = `FIXMessageError` or a subclass (`TagNotFoundError`,
`RepeatingTagError`), `assertion` = `AssertionError`.  No other exception type can leave
`validate` for messages of this shape (see notes/report_sch.md, "exception census").
-/
namespace AsyncFix.Model.Schema

abbrev Tag := String

/-- `<field number= name= type=>`; `hasEnum` = it has `<value>` children -/
structure Field where
  tag : Tag
  name : String
  ftype : String
  hasEnum : Bool
  deriving Repr, DecidableEq

inductive Member where
  | field (tag : Tag) (req : Bool)
  | group (tag : Tag) (req : Bool) (members : List Member)
  deriving Repr

def Member.tag : Member → Tag
  | .field t _ => t
  | .group t _ _ => t

def Member.req : Member → Bool
  | .field _ r => r
  | .group _ r _ => r

def Member.isField : Member → Bool
  | .field .. => true
  | .group .. => false

structure Schema where
  fields : List Field
  header : List Member
  trailer : List Member
  /-- msgtype ↦ members (`FIXSchema._messages_types`) -/
  messages : List (String × List Member)
  deriving Repr

/-- which class object is stored as a value (`FIXContainer.get` treats two of them specially) -/
inductive ClsKind | notFound | repeating | other
  deriving Repr, DecidableEq

inductive Node where
  | plain (tag : Tag) (v : String)
  | cls (tag : Tag) (k : ClsKind)
  | group (tag : Tag) (items : List (List Node))
  deriving Repr

def Node.tag : Node → Tag
  | .plain t _ => t
  | .cls t _ => t
  | .group t _ => t

def Node.isGroup : Node → Bool
  | .group .. => true
  | _ => false

structure Msg where
  msgType : String
  tags : List Node
  deriving Repr

inductive Kind | msgError | assertion
  deriving Repr, DecidableEq

inductive Outcome | ok | raised (k : Kind)
  deriving Repr, DecidableEq

/-- sequencing of checks: first failure wins -/
@[inline] def Outcome.andThen (a : Outcome) (b : Outcome) : Outcome :=
  match a with
  | .ok => b
  | .raised k => .raised k

/-- `t in container` -/
def hasTag (ns : List Node) (t : Tag) : Bool := ns.any (fun n => n.tag = t)

/-- `container.tags.get(t)` -/
def getNode (ns : List Node) (t : Tag) : Option Node := ns.find? (fun n => n.tag = t)

/-- position and member of tag `t` (`tag_order[t]`, `tag_fields[t]`, `schema_msg[field]`) -/
def lookupMem : List Member → Tag → Option (Nat × Member)
  | [], _ => none
  | m :: ms, t =>
    if m.tag = t then some (0, m)
    else match lookupMem ms t with
      | none => none
      | some (i, x) => some (i + 1, x)

def memberTags (ms : List Member) : List Tag := ms.map (·.tag)

/-- `tag in self._tag2field` -/
def Schema.knownTag (sch : Schema) (t : Tag) : Bool := sch.fields.any (fun f => f.tag = t)

def lookupMsg : List (String × List Member) → String → Option (List Member)
  | [], _ => none
  | (k, v) :: rest, t => if k = t then some v else lookupMsg rest t

/-- `SchemaField.validate_value(value)` for a string: the `assert value` and the verdict -/
def strOutcome (vv : Tag → String → Bool) (t : Tag) (s : String) : Outcome :=
  if s = "" then .raised .assertion
  else if vv t s then .ok else .raised .msgError

/-- `field.validate_value(v)` with whatever object the container holds under the tag
    (`assert isinstance(value, str)`) -/
def valueOutcome (vv : Tag → String → Bool) (t : Tag) : Node → Outcome
  | .plain _ s => strOutcome vv t s
  | .cls _ _ => .raised .assertion
  | .group _ _ => .raised .assertion

/-- the first loop of `validate`: every required member (field or group) is present -/
def checkRequired (ns : List Node) : List Member → Outcome
  | [] => .ok
  | m :: rest =>
    if m.req && !hasTag ns m.tag then .raised .msgError else checkRequired ns rest

/-- `_validate_header`: required header FIELDS are present, `msg[tag]` is fetched
    (`FIXContainer.get` raises for groups and for two marker classes) and value-validated -/
def validateHeader (vv : Tag → String → Bool) (ns : List Node) : List Member → Outcome
  | [] => .ok
  | .group _ _ _ :: rest => validateHeader vv ns rest
  | .field t req :: rest =>
    if !req then validateHeader vv ns rest
    else match getNode ns t with
      | none => .raised .msgError
      | some (.group _ _) => .raised .msgError
      | some (.cls _ .notFound) => .raised .msgError
      | some (.cls _ .repeating) => .raised .msgError
      | some n => (valueOutcome vv t n).andThen (validateHeader vv ns rest)

mutual
/-- `SchemaGroup.validate_group(groups)`: loop over the items -/
def validateGroup (vv : Tag → String → Bool) (gm : List Member) : List (List Node) → Outcome
  | [] => .ok
  | it :: rest =>
    (validateItemLoop vv gm 0 it).andThen
      ((if !(it.any fun n => (lookupMem gm n.tag).any fun p => p.1 = 0) then .raised .msgError
        else checkRequired it gm).andThen (validateGroup vv gm rest))

/-- `for t, v in fmsg.items()` with `prev_tag` (`prev` = max(prev_tag, 0): `prev_tag > idx`
    is never true for -1 nor for 0) -/
def validateItemLoop (vv : Tag → String → Bool) (gm : List Member) (prev : Nat) :
    List Node → Outcome
  | [] => .ok
  | n :: rest =>
    match lookupMem gm n.tag with
    | none => .raised .msgError                      -- unsupported tag
    | some (i, mem) =>
      if prev > i then .raised .msgError             -- incorrect tag order
      else (validateMember vv mem n).andThen (validateItemLoop vv gm i rest)

/-- body of the item loop after the order check -/
def validateMember (vv : Tag → String → Bool) (mem : Member) : Node → Outcome
  | .plain _ s =>
    match mem with
    | .field ft _ => strOutcome vv ft s
    | .group _ _ _ => .raised .msgError              -- must be a group
  | .cls _ _ =>
    match mem with
    | .field _ _ => .raised .assertion               -- validate_value(<class>)
    | .group _ _ _ => .raised .msgError
  | .group _ items =>
    match mem with
    | .field _ _ => .raised .assertion               -- validate_value(<group container>)
    | .group _ _ gm' => validateGroup vv gm' items
end

/-- third loop of `validate`: `for tag, val in msg.tags.items()` -/
def checkEntries (vv : Tag → String → Bool) (sch : Schema) (ms : List Member) :
    List Node → Outcome
  | [] => .ok
  | n :: rest =>
    if n.tag = "10" then checkEntries vv sch ms rest
    else if !sch.knownTag n.tag then .raised .msgError
    else if (memberTags sch.header).contains n.tag then checkEntries vv sch ms rest
    else match lookupMem ms n.tag with
      | none => .raised .msgError                    -- not allowed in this message
      | some (_, .field ft _) =>
        if n.isGroup then .raised .msgError          -- must be a tag, got group
        else (valueOutcome vv ft n).andThen (checkEntries vv sch ms rest)
      | some (_, .group _ _ gm) =>
        match n with
        | .group _ items => (validateGroup vv gm items).andThen (checkEntries vv sch ms rest)
        | _ => .raised .msgError                     -- must be a group

/-- `FIXSchema.validate(msg)` -/
def validate (vv : Tag → String → Bool) (sch : Schema) (m : Msg) : Outcome :=
  match lookupMsg sch.messages m.msgType with
  | none => .raised .msgError
  | some ms =>
    (checkRequired m.tags ms).andThen
      ((if hasTag m.tags "8" then validateHeader vv m.tags sch.header else .ok).andThen
        (checkEntries vv sch ms m.tags))

/-! ## well-formedness of a parsed dictionary (decidable; evaluated by the driver on the real
dictionaries, hypothesis of the theorems) -/

def isInfix (p : List Char) : List Char → Bool
  | [] => p.isEmpty
  | c :: cs => p.isPrefixOf (c :: cs) || isInfix p cs

/-- the `SchemaSet.__init__` test on a group's counter field -/
def groupFieldOk (f : Field) : Bool :=
  (isInfix "No".toList f.name.toList || isInfix "Num".toList f.name.toList)
    && (f.ftype = "NUMINGROUP" || f.ftype = "INT")

def Schema.fieldOf (sch : Schema) (t : Tag) : Option Field := sch.fields.find? (fun f => f.tag = t)

mutual
/-- member tags pairwise distinct at every level, every member declared as a field, group
    counters acceptable to `SchemaSet.__init__` -/
def membersWF (sch : Schema) : List Member → Bool
  | [] => true
  | m :: rest => memberWF sch m && !(memberTags rest).contains m.tag && membersWF sch rest
def memberWF (sch : Schema) : Member → Bool
  | .field t _ => sch.knownTag t
  | .group t _ gm => (match sch.fieldOf t with | some f => groupFieldOk f | none => false)
      && membersWF sch gm
end

def nodupStr : List String → Bool
  | [] => true
  | x :: xs => !xs.contains x && nodupStr xs

def schemaWF (sch : Schema) : Bool :=
  nodupStr (sch.fields.map (·.tag)) && nodupStr (sch.fields.map (·.name))
    && membersWF sch sch.header && membersWF sch sch.trailer
    && nodupStr (sch.messages.map (·.1))
    && sch.messages.all (fun p => membersWF sch p.2)

end AsyncFix.Model.Schema
