import AsyncFix.Model.Session

/-!
Sched family, part 1: **resumptions**.

The session handlers of `Model/Session*.lean` are functions `M α = Conn → Out α`: one call runs a whole
coroutine, as if every `await` returned at once.  Here the same coroutines are values of

    Res α = done  conn effects ghosts result
          | yield conn effects ghosts point (k : Conn → Res α)

A `yield` stands for an `await` that can really suspend the coroutine (DESIGN §5 "Sched"):

* `drain`          – `await self._socket_writer.drain()` at the end of `send_msg`
* `waitClosed`     – `await self._socket_writer.wait_closed()` in `disconnect`
* `onStateChange`, `onMessage`, `onLogon`, `onLogout`, `onDisconnect`, `shouldReplay`
                   – the awaited application hooks

Everything between two yields is one **segment**: the event loop cannot run another task inside it.
`conn` / `effects` are the connection and the effects at the end of the segment (the effects of this
segment only, in order; a hook's own effect – e.g. `onState s` – is emitted when the hook is *called*,
i.e. at the end of the segment that precedes its yield).  The continuation receives the connection AS
IT IS WHEN THE TASK IS RESUMED: other tasks may have changed it.  `Conn`-valued local variables that a
handler read before a yield stay what they were (Python locals).

`ghosts` are not behaviour: `rewind` marks the first `set_seq_num(next_num_out=BeginSeqNo)` of
`_process_resend`, `restore` the second one.  The scheduler counts them to decide "a resend rewind
window is open"; `runSeq` ignores them.

`R α = Conn → Res α` is a monad; `R.liftM` embeds an `M` computation as ONE segment (it contains no
`await`), so only the handlers that contain an `await` are written again (`SchedHandlers.lean`), with
the same `do` blocks as their sequential versions.  `Res.runSeq` resumes every yield at once with the
connection the segment left behind; `Lemmas/SchedSeq.lean` proves `runSeq (hR …) = h …` for every
handler.
-/
namespace AsyncFix.Sched

open AsyncFix.Session

/-- the `await`s that can suspend a coroutine of the connection -/
inductive YieldPoint
  | drain | waitClosed | onStateChange | onMessage | onLogon | onLogout | onDisconnect | shouldReplay
  deriving DecidableEq, Repr, Inhabited

def YieldPoint.name : YieldPoint → String
  | .drain => "drain"
  | .waitClosed => "waitClosed"
  | .onStateChange => "onStateChange"
  | .onMessage => "onMessage"
  | .onLogon => "onLogon"
  | .onLogout => "onLogout"
  | .onDisconnect => "onDisconnect"
  | .shouldReplay => "shouldReplay"

/-- ghost marks (proof bookkeeping, dropped by `runSeq`): `_process_resend` rewound / restored the counter;
`waive` = the acceptor's Logon reply could not be sent for want of a transport or of a free journal slot
(AttributeError / DuplicateSeqNoError) and is re-raised only after `disconnect()` (fix a9dbd9f): between the
consumed number and the re-raised exception the loss is not yet visible in the effects, so nothing is
claimed about schedules that contain such a failure -/
inductive Ghost
  | rewind | restore | waive
  deriving DecidableEq, Repr, Inhabited

inductive Res (α : Type) where
  | done (c : Conn) (effs : List Effect) (gh : List Ghost) (r : Except Exc α)
  | yield (c : Conn) (effs : List Effect) (gh : List Ghost) (pt : YieldPoint) (k : Conn → Res α)

namespace Res
variable {α β : Type}

/-- put effects / ghosts in front of the first segment -/
def prepend (e : List Effect) (g : List Ghost) : Res α → Res α
  | .done c e' g' r => .done c (e ++ e') (g ++ g') r
  | .yield c e' g' pt k => .yield c (e ++ e') (g ++ g') pt k

/-- sequencing: the last segment of the first part and the first segment of the second part are ONE
segment (there is no `await` between two statements) -/
def bind : Res α → (α → Conn → Res β) → Res β
  | .done c e g (.ok a), f => (f a c).prepend e g
  | .done c e g (.error ex), _ => .done c e g (.error ex)
  | .yield c e g pt k, f => .yield c e g pt fun c' => (k c').bind f

/-- `try: x  except Exception as ex: h ex` -/
def tryCatch : Res α → (Exc → Conn → Res α) → Res α
  | .done c e g (.ok a), _ => .done c e g (.ok a)
  | .done c e g (.error ex), h => (h ex c).prepend e g
  | .yield c e g pt k, h => .yield c e g pt fun c' => (k c').tryCatch h

/-- never interleaved: every yield is resumed at once, with the connection it left behind -/
def runSeq : Res α → Out α
  | .done c e _ r => ⟨r, c, e⟩
  | .yield c e _ _ k =>
    match (k c).runSeq with
    | ⟨r, c', e'⟩ => ⟨r, c', e ++ e'⟩

/-- number of yields when never interleaved (used by the driver and by non-vacuity examples) -/
def yieldsSeq : Res α → Nat
  | .done .. => 0
  | .yield c _ _ _ k => (k c).yieldsSeq + 1

/-- connection / effects / ghosts at the end of the first segment -/
def conn : Res α → Conn
  | .done c .. => c
  | .yield c .. => c

def effs : Res α → List Effect
  | .done _ e .. => e
  | .yield _ e .. => e

def ghosts : Res α → List Ghost
  | .done _ _ g _ => g
  | .yield _ _ g _ _ => g

/-- does the first segment end in an `await` -/
def isYield : Res α → Bool
  | .done .. => false
  | .yield .. => true

end Res

/-- a coroutine body: started on the connection as it is when the task first runs -/
def R (α : Type) := Conn → Res α

namespace R
variable {α β : Type}

@[inline] def pure' (a : α) : R α := fun c => .done c [] [] (.ok a)
@[inline] def bind' (x : R α) (f : α → R β) : R β := fun c => (x c).bind f

instance : Monad R where
  pure := pure'
  bind := bind'

/-- an `M` computation contains no `await`: one segment -/
@[inline] def liftM (x : M α) : R α := fun c =>
  match x c with
  | ⟨r, c1, e⟩ => .done c1 e [] r

/-- `await <something that suspends>`: the task continues with the connection of that moment -/
@[inline] def yield (pt : YieldPoint) : R Unit := fun c =>
  .yield c [] [] pt fun c' => .done c' [] [] (.ok ())

/-- an awaited application hook: the call is the effect `e`, then the hook may suspend -/
@[inline] def hook (e : Effect) (pt : YieldPoint) : R Unit := fun c =>
  .yield c [e] [] pt fun c' => .done c' [] [] (.ok ())

@[inline] def ghost (g : Ghost) : R Unit := fun c => .done c [] [g] (.ok ())

@[inline] def tryCatch (x : R α) (h : Exc → R α) : R α := fun c => (x c).tryCatch h

@[inline] def get : R Conn := liftM M.get
@[inline] def modify (f : Conn → Conn) : R Unit := liftM (M.modify f)
@[inline] def throw (ex : Exc) : R α := liftM (M.throw ex)
@[inline] def liftE (x : Except Exc α) : R α := liftM (M.liftE x)
@[inline] def assert (b : Bool) : R Unit := liftM (M.assert b)
@[inline] def int (s : String) : R Int := liftM (M.int s)

/-- never interleaved -/
def runSeq (x : R α) : M α := fun c => (x c).runSeq

end R

end AsyncFix.Sched
