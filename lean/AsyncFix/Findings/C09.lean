import AsyncFix.Model.Restart
namespace AsyncFix.Findings.C09
end AsyncFix.Findings.C09
