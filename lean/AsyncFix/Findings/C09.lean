/-
Open known findings of C09, as machine-checked counter-examples on the session / restart model.
NOT part of the gating build: if the code is repaired (and the model follows) these stop checking, and
the check reports that the finding no longer reproduces.  The same witnesses are replayed on the real
code over a SQLite file journal by harness/c09.py.
-/
import AsyncFix.Props.C09
namespace AsyncFix.Findings.C09
open AsyncFix.Session AsyncFix.Restart AsyncFix.Props.C09 AsyncFix.Generated.ConnEnum

def srAll : Msg → Bool := fun _ => true
def env0 : Env := { now := 1700000000000, stamp := "20240102-22:13:20.000" }

/-- an ACTIVE acceptor "S" talking to "T": 6 frames sent, 4 received, stored = live -/
def c0 : Conn :=
  { (Conn.create "S" "T" { outSeq := 6, inSeq := 4 } 30 2) with state := st_ACTIVE, sock := true, wasActive := true }

/-- frame from the counterparty as the decoder hands it over -/
def frame (ty : String) (seq : String) (extra : List (Nat × String)) : Msg :=
  Msg.ofFields ([(8, "FIX.4.4"), (9, "50"), (35, ty), (49, "T"), (56, "S"), (34, seq), (52, "20240102-22:13:20.000")]
    ++ extra ++ [(10, "000")])

/-! ### D13  `C09-seqreset-stored-inbound-counter-lags` -/

/-- SequenceReset-Reset 34=5 NewSeqNo=9 -/
def resetJump : Msg := frame "4" "5" [(36, "9")]

/-- after it the live counter is 9, the stored one 5: the new object expects 6 -/
theorem d13_lag :
    (recv srAll env0 c0 resetJump).1.sess.nextIn = 9 ∧
    (recv srAll env0 c0 resetJump).1.journal.inSeq = 5 ∧
    (restart (recv srAll env0 c0 resetJump).1 2).sess.nextIn = 6 := by decide +kernel

theorem not_stored_eq_live_full : ¬ stored_eq_live_full := by
  intro h
  have := h srAll c0 [.recv env0 resetJump] (by decide +kernel) (by decide +kernel)
    (by intro ev hev; simp only [List.mem_singleton] at hev; subst hev; rfl) (by decide +kernel)
  revert this
  decide +kernel

/-- the same with a multi-number GapFill while awaiting a resend (the property text's example) -/
def gapFill : Msg := frame "4" "5" [(123, "Y"), (43, "Y"), (36, "9")]
theorem d13_lag_gapfill :
    (restart (recv srAll env0 { c0 with state := st_RESENDREQ_AWAITING, maxResend := 9 } gapFill).1 2).sess.nextIn = 6 ∧
    (recv srAll env0 { c0 with state := st_RESENDREQ_AWAITING, maxResend := 9 } gapFill).1.sess.nextIn = 9 := by
  decide +kernel

def isResendReq (b : String) : Effect → Bool
  | .write f => f.mtype == mResendRequest && f.get? tBeginSeqNo == some b
  | _ => false

/-- consequence on the wire: restart, the transport comes up, the counterparty logs on with its true next
number 9 – the endpoint answers with ResendRequest(BeginSeqNo=6) although it had received everything -/
theorem d13_resend_request_although_nothing_lost :
    let c1 := (recv srAll env0 c0 resetJump).1
    let c2 := (connected (restart c1 2) .acceptor).1
    ((recv srAll env0 c2 (frame "A" "9" [(98, "0"), (108, "30")])).2.any (isResendReq "6")) = true := by
  decide +kernel

/-- a Reset whose NewSeqNo equals its own MsgSeqNum leaves the stored counter AHEAD of the live one -/
theorem d13_stored_ahead :
    (recv srAll env0 c0 (frame "4" "5" [(36, "5")])).1.sess.nextIn = 5 ∧
    (restart (recv srAll env0 c0 (frame "4" "5" [(36, "5")])).1 2).sess.nextIn = 6 := by decide +kernel

/-! ### D15  `C09-redelivery-after-crash-between-callback-and-journal` -/

def appMsg : Msg := frame "D" "5" [(11, "ord5"), (58, "payload")]

/-- killed after segment 2 (callback returned, nothing journaled): delivered, not counted -/
theorem d15_delivered_not_counted :
    Effect.deliver appMsg ∈ (recvKilled 2 srAll env0 c0 appMsg).2 ∧
    (restart (recvKilled 2 srAll env0 c0 appMsg).1 2).sess.nextIn = 5 := by decide +kernel

theorem not_exactly_once_full : ¬ exactly_once_full := by
  intro h
  have := h 2 srAll env0 appMsg c0 2 (by decide +kernel) (by decide +kernel) (by decide +kernel)
  revert this
  decide +kernel

/-- the second delivery: restart, reconnect, Logon 34=6 (gap: ResendRequest from 5), the counterparty resends
34=5 with PossDupFlag=Y – `on_message` is called with the same application message again -/
theorem redelivery_witness :
    let c1 := (recvKilled 2 srAll env0 c0 appMsg).1
    let c2 := (connected (restart c1 2) .acceptor).1
    let c3 := (recv srAll env0 c2 (frame "A" "6" [(98, "0"), (108, "30")])).1
    let resent := frame "D" "5" [(43, "Y"), (122, "20240102-22:13:20.000"), (11, "ord5"), (58, "payload")]
    Effect.deliver resent ∈ (recv srAll env0 c3 resent).2 := by decide +kernel

/-! ### `C09-kill-during-resend-servicing-rewinds-outbound-counter` -/

/-- what `_process_resend` has committed after its FIRST `set_seq_num(next_num_out = BeginSeqNo)`:
the crash point between the two `set_seq_num` calls (inside segment 2 of inbound processing) -/
def rewound (c : Conn) (b : Int) : Conn := ((setSeqNum (some b) none).run c).1

/-- an endpoint that has sent 1..6 and is asked to resend from 2: a kill there leaves 1 as the stored
counter; the new object's `next_num_out` is 2 – numbers 2..6 will be used again for NEW frames (the first
is the Logon of the next connection), and the rows 2..6 are gone from the journal -/
theorem resend_rewind_crash_reuses_numbers :
    c0.sess.nextOut = 7 ∧ (restart (rewound c0 2) 2).sess.nextOut = 2 ∧
    (restart (rewound c0 2) 2).journal.out.range 2 6 = [] := by decide +kernel

/-- on the wire: the restarted endpoint's Logon reply carries MsgSeqNum 2 -/
theorem resend_rewind_logon_number :
    let c2 := (connected (restart (rewound c0 2) 2) .acceptor).1
    ((recv srAll env0 c2 (frame "A" "5" [(98, "0"), (108, "30")])).2.any fun e =>
      match e with
      | .write f => f.mtype == mLogon && f.get? tMsgSeqNum == some "2"
      | _ => false) = true := by decide +kernel

end AsyncFix.Findings.C09
