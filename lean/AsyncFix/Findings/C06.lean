import AsyncFix.Props.C06
import AsyncFix.Lemmas.SessionResendWitness

/-!
# C06 – machine-checked counter-example of `resend_full` (known finding D9)

signature `C06-bounded-end-gapfills-and-deletes-tail`

Journal: application messages 1..5 (next outbound number 6).  The peer sends ResendRequest(2, 3).
Evaluating the model (`decide +kernel`, no axioms beyond the kernel's):

* frames written: PossDup copies of 2 and 3, then SequenceReset-GapFill 4 → 6 – numbers 4 and 5 were
  not asked for and are declared "not to be resent";
* journal afterwards: rows 1, 2, 3 and the gap fill under 4 – the application messages 4 and 5 are
  DELETED (`set_seq_num(next_num_out=2)` deleted everything from 2 on, only 2..3 were recovered and
  re-journaled), so a later ResendRequest can never deliver them.

Likewise ResendRequest(4, 2) (EndSeqNo < BeginSeqNo) writes GapFill 4 → 6 and deletes 4 and 5.
`harness/c06.py` replays the same witnesses on the real connection.
-/
namespace AsyncFix.Session.C06.Findings
open Msg Witness AsyncFix.Generated AsyncFix.Generated.ConnEnum

def J5 : Rows := [app 1, app 2, app 3, app 4, app 5]
def c5 : Conn := conn 6 J5
def all : Msg → Bool := fun _ => true

theorem outInv5 : OutInv c5 where
  sorted := by simp [c5, conn, J5, Rows.Sorted, app, row]
  lt := by intro p hp; simp [c5, conn, J5, app, row] at hp; rcases hp with h|h|h|h|h <;> subst h <;> decide
  rows := by
    intro p hp
    simp only [c5, conn, J5, List.mem_cons, List.not_mem_nil, or_false] at hp
    rcases hp with h|h|h|h|h <;> subst h <;>
      exact rowOK_row _ _ _ (by decide) (by decide) (by decide +kernel) (by decide +kernel)
  stored := by decide

theorem hyp5 (b e : Int) (hb : 0 ≤ b) (he : 0 ≤ e) : Hyp envW c5 (req b e) b e where
  state := Or.inl rfl
  sock := rfl
  lsender := by decide
  ltarget := by decide
  lstamp := by decide
  inv := outInv5
  envelope := envelope_req _ _ _ _
  req := req_req b e hb he
  fits := by decide

/-- what was written for (2, 3): (type, MsgSeqNum, PossDupFlag, NewSeqNo) -/
theorem d9_frames :
    (writes (recv all envW c5 (req 2 3)).2).map
      (fun g => (g.mtype, g.get? tMsgSeqNum, g.get? tPossDupFlag, g.get? tNewSeqNo)) =
    [("D", some "2", some "Y", none), ("D", some "3", some "Y", none),
     ("4", some "4", none, some "6")] := by
  decide +kernel

/-- the journal afterwards: numbers and types – rows 4 and 5 are gone, 4 is now a gap fill -/
theorem d9_rows_deleted :
    (recv all envW c5 (req 2 3)).1.journal.out.map (fun p => (p.1, p.2.mtype)) =
      [(1, "D"), (2, "D"), (3, "D"), (4, "4")] ∧
    (recv all envW c5 (req 2 3)).1.journal.out.find 5 = none ∧
    (c5.journal.out.find 5).isSome = true := by
  decide +kernel

/-- EndSeqNo < BeginSeqNo: nothing asked for, yet 4 and 5 are gap-filled and deleted -/
theorem d9_inverted :
    (writes (recv all envW c5 (req 4 2)).2).map
      (fun g => (g.mtype, g.get? tMsgSeqNum, g.get? tNewSeqNo)) = [("4", some "4", some "6")] ∧
    (recv all envW c5 (req 4 2)).1.journal.out.map (fun p => (p.1, p.2.mtype)) =
      [(1, "D"), (2, "D"), (3, "D"), (4, "4")] := by
  decide +kernel

/-- the request is in the excluded class -/
example : D9 c5 3 := by decide

/-- `resend_full` does not hold for the current code -/
theorem resend_full_refuted : ¬ resend_full := by
  intro h
  have h1 := h all envW c5 (req 2 3) 2 3 (hyp5 2 3 (by decide) (by decide))
  rw [if_pos (by decide)] at h1
  obtain ⟨sent, g1, _, _, _, _, _, g7, _⟩ := h1
  have hl := congrArg List.length g7
  have hw := congrArg List.length g1
  rw [List.length_map] at hw
  simp only [List.length_append] at hl
  have e1 : (recv all envW c5 (req 2 3)).1.journal.out.length = 4 := by decide +kernel
  have e2 : (writes (recv all envW c5 (req 2 3)).2).length = 3 := by decide +kernel
  have e3 : (Rows.below 2 c5.journal.out).length = 1 := by decide +kernel
  have e4 : (c5.journal.out.filter (fun p => decide (reqLast c5 2 3 < p.1))).length = 2 := by
    decide +kernel
  omega

end AsyncFix.Session.C06.Findings
