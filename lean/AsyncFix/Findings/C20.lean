/-
Machine-checked counter-examples of the open findings of C20 (non-gating: when a finding is repaired in
/repo and the model follows, the corresponding refutation stops compiling).
-/
import AsyncFix.Props.C20
import AsyncFix.Props.C20Lock
namespace AsyncFix.Findings.C20
open AsyncFix.Tester AsyncFix.Props.C20

def st0 : TState := { registered := ["c1"] }
def o0 : OrderView := { clordId := "c1", qty := ⟨80, true⟩, price := ⟨800, true⟩, status := "A" }
def aPendingNew : Args := { clordId := "c1", execType := "A", ordStatus := "A" }
def aNew : Args := { clordId := "c1", execType := "0", ordStatus := "0", cumQty := some ⟨0, true⟩, leavesQty := some ⟨80, true⟩ }
def aForeign : Args := { aNew with clordId := "zzz" }

def msgOf (r : TState × Except Refusal RMsg) : RMsg := match r.2 with | .ok m => m | .error _ => default

theorem eq_of_isOk (r : TState × Except Refusal RMsg) (h : r.2.isOk = true) : r = (r.1, .ok (msgOf r)) := by
  obtain ⟨s, e⟩ := r
  cases e with
  | error x => simp [Except.isOk, Except.toBool] at h
  | ok m => rfl

def raisedFix (r : Except PExc (OrderView × Bool)) : Bool := match r with | .error .fixError => true | _ => false

theorem eq_of_raisedFix {r : Except PExc (OrderView × Bool)} (h : raisedFix r = true) : r = .error .fixError := by
  unfold raisedFix at h
  split at h
  · rfl
  · cases h

def r1 := fabricate none st0 o0 aPendingNew
def r2 := fabricate none r1.1 o0 aNew

/-- D27 / C20-orderid-unstable-before-first-processing: the two reports carry OrderID 1 and 2 -/
theorem order_id_witness : (msgOf r1).str? 37 = some "1" ∧ (msgOf r2).str? 37 = some "2" := by decide +kernel

theorem order_id_stable_full_refuted : ¬ order_id_stable_full := by
  intro h
  have e1 : fabricate none st0 o0 aPendingNew = (r1.1, .ok (msgOf r1)) := eq_of_isOk r1 (by decide +kernel)
  have e2 : fabricate none r1.1 o0 aNew = (r2.1, .ok (msgOf r2)) := eq_of_isOk r2 (by decide +kernel)
  have := h none st0 r1.1 r2.1 o0 aPendingNew aNew (msgOf r1) (msgOf r2) e1 e2
  rw [order_id_witness.1, order_id_witness.2] at this
  exact absurd this (by decide)

def r3 := fabricate none st0 o0 aForeign

/-- C20-foreign-clordid-accepted: accepted by the helper, `process_execution_report` raises FIXError -/
theorem foreign_clordid_witness :
    r3.2.isOk = true ∧ processExecReport o0 (msgOf r3) = .error .fixError :=
  ⟨by decide +kernel, eq_of_raisedFix (by decide +kernel)⟩

theorem fabricated_processable_full_refuted : ¬ fabricated_processable_full := by
  intro h
  have e : fabricate none st0 o0 aForeign = (r3.1, .ok (msgOf r3)) := eq_of_isOk r3 foreign_clordid_witness.1
  obtain ⟨o', b, hp⟩ := h none st0 r3.1 o0 aForeign (msgOf r3) (by decide +kernel) e
  rw [foreign_clordid_witness.2] at hp
  cases hp

/-! ### C20-reply-nonascii-utf8 -/
open AsyncFix.Session in
def latinEx : Msg := Msg.mk' "D" [(58, "é")]

open AsyncFix.Session in
/-- after a clean Logon, `reply` of a message with the single-byte text "é" raises (its own decode of the
UTF-8 bytes fails the checksum) … -/
theorem reply_nonascii_witness :
    (tRun (fun _ => true) (fun _ => true) 1 ⟨ciEx, mkAcceptor ciEx, []⟩
      [(envEx 1, .iSend logonEx), (envEx 2, .aSend latinEx)]).out = .replyRaised := by decide +kernel

open AsyncFix.Session in
/-- … while the real acceptor endpoint delivers it (the link is quiet and the initiator counted it) -/
theorem link_nonascii_witness :
    (lRun (fun _ => true) (fun _ => true) ciEx (realAcceptor ciEx)
      [(envEx 1, .iSend logonEx), (envEx 2, .aSend latinEx)]).quiet = true ∧
    (lRun (fun _ => true) (fun _ => true) ciEx (realAcceptor ciEx)
      [(envEx 1, .iSend logonEx), (envEx 2, .aSend latinEx)]).ci.sess.nextIn = 7 := by decide +kernel

open AsyncFix.Session in
theorem tester_lockstep_full_refuted : ¬ tester_lockstep_full := by
  intro h
  have := h (fun _ => true) (fun _ => true) 0 ciEx start_ciEx (envEx 1) logonEx (by decide) logonEx_ok
    [(envEx 2, .aSend latinEx)] (by
      intro x hx
      simp only [List.mem_cons, List.mem_nil_iff, or_false] at hx
      subst hx
      exact ⟨by decide, ⟨by decide, by decide, by decide⟩, rfl, Or.inl ⟨by decide, by decide, by decide, by decide, by decide, by decide⟩⟩)
  have hd := this.done
  rw [reply_nonascii_witness] at hd
  cases hd

end AsyncFix.Findings.C20
