import AsyncFix.Model.Tester
namespace AsyncFix.Findings.C20
end AsyncFix.Findings.C20
