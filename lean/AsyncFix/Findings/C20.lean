/-
Machine-checked counter-example of the open (pinned) finding of C20 (non-gating: when a finding is repaired in
/repo and the model follows, the corresponding refutation stops compiling).
-/
import AsyncFix.Props.C20
import AsyncFix.Props.C20Lock
namespace AsyncFix.Findings.C20
open AsyncFix.Tester AsyncFix.Props.C20

def st0 : TState := { registered := ["c1"] }
def o0 : OrderView := { clordId := "c1", qty := ⟨80, true⟩, price := ⟨800, true⟩, status := "A" }
def aNew : Args := { clordId := "c1", execType := "0", ordStatus := "0", cumQty := some ⟨0, true⟩, leavesQty := some ⟨80, true⟩ }
def aForeign : Args := { aNew with clordId := "zzz" }

def msgOf (r : TState × Except Refusal RMsg) : RMsg := match r.2 with | .ok m => m | .error _ => default

theorem eq_of_isOk (r : TState × Except Refusal RMsg) (h : r.2.isOk = true) : r = (r.1, .ok (msgOf r)) := by
  obtain ⟨s, e⟩ := r
  cases e with
  | error x => simp [Except.isOk, Except.toBool] at h
  | ok m => rfl

def raisedFix (r : Except PExc (OrderView × Bool)) : Bool := match r with | .error .fixError => true | _ => false

theorem eq_of_raisedFix {r : Except PExc (OrderView × Bool)} (h : raisedFix r = true) : r = .error .fixError := by
  unfold raisedFix at h
  split at h
  · rfl
  · cases h

def r3 := fabricate none st0 o0 aForeign

/-- C20-foreign-clordid-accepted: accepted by the helper, `process_execution_report` raises FIXError -/
theorem foreign_clordid_witness :
    r3.2.isOk = true ∧ processExecReport o0 (msgOf r3) = .error .fixError :=
  ⟨by decide +kernel, eq_of_raisedFix (by decide +kernel)⟩

theorem fabricated_processable_full_refuted : ¬ fabricated_processable_full := by
  intro h
  have e : fabricate none st0 o0 aForeign = (r3.1, .ok (msgOf r3)) := eq_of_isOk r3 foreign_clordid_witness.1
  obtain ⟨o', b, hp⟩ := h none st0 r3.1 o0 aForeign (msgOf r3) (by decide +kernel) e
  rw [foreign_clordid_witness.2] at hp
  cases hp

end AsyncFix.Findings.C20
