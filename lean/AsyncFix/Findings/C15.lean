/-
C15 has NO open known finding.  This (non-gating) file records, on the model of the code as
it is now, the witnesses of the six defects that were repaired in /repo (commits 92174fd,
05c7da9, 4e42d87, 732dc8f, 5779005, df573a7): each witness is now rejected with
`FIXMessageError`, respectively accepted.  If one of these stops checking, the model has been
changed back towards the defective behaviour.
-/
import AsyncFix.Props.C15
namespace AsyncFix.Findings.C15
open AsyncFix.Model.Schema AsyncFix.Props.C15

/-- 92174fd: message without its required group -/
theorem fixed_missing_required_group :
    validate vvToy toy ⟨"D", [.plain "11" "c"]⟩ = .raised .msgError := by decide

/-- 05c7da9: group item without its required nested member (here the required field 452; the
    toy nested group 802 is optional, its required member 803 is) -/
theorem fixed_item_missing_required :
    validate vvToy toy ⟨"D", [.plain "11" "c", .group "453" [[.plain "448" "p", .plain "452" "1",
      .group "802" [[.plain "523" "s"]]]]]⟩ = .raised .msgError := by decide

/-- 4e42d87: plain member of a group item given as a group (was AssertionError) -/
theorem fixed_group_for_field_in_item :
    validate vvToy toy ⟨"D", [.plain "11" "c",
      .group "453" [[.plain "448" "p", .group "452" [[.plain "448" "x"]]]]]⟩ = .raised .msgError := by
  decide

/-- 732dc8f: empty value / class object as value (was AssertionError) -/
theorem fixed_empty_value :
    validate vvToy toy ⟨"0", [.plain "58" ""]⟩ = .raised .msgError := by decide
theorem fixed_class_value :
    validate vvToy toy ⟨"0", [.cls "58" .repeating]⟩ = .raised .msgError := by decide

/-- 5779005: header member with an invalid value, without BeginString (was accepted) -/
theorem fixed_header_value_checked :
    validate vvToy toy ⟨"0", [.plain "35" "bad"]⟩ = .raised .msgError := by decide
theorem fixed_header_field_as_group :
    validate vvToy toy ⟨"0", [.group "35" [[.plain "58" "x"]]]⟩ = .raised .msgError := by decide

/-- df573a7: a trailer member of the dictionary (was rejected as "not allowed") -/
theorem fixed_trailer_member_accepted :
    validate vvToy toy ⟨"0", [.plain "58" "hello", .plain "93" "3"]⟩ = .ok := by decide

end AsyncFix.Findings.C15
