/-
Open known findings of C10 as machine-checked counter-examples (kernel evaluation of the model on
the witness frames; the same witnesses are replayed on the real decoder by harness/c10.py).
NOT part of the gating build.
-/
import AsyncFix.Props.C10
namespace AsyncFix.Findings.C10
open AsyncFix.Model.Codec AsyncFix.Props.C10

/-- Boolean form of `BodyLengthOK` -/
def bodyLengthOKb (enc : Bytes) : Bool :=
  match fieldsOf enc with
  | f0 :: f1 :: _ =>
    (match splitEq f1 with
     | some (t, v1) => t == tag9 &&
        pyInt v1 == some (((join SOH (fieldsOf enc).dropLast).length + 1 - (f0.length + f1.length + 2) : Nat) : Int)
     | none => false)
  | _ => false

theorem bodyLengthOKb_of {enc : Bytes} (h : BodyLengthOK enc) : bodyLengthOKb enc = true := by
  obtain ⟨f0, f1, rest, v1, hf, hs, hp⟩ := h
  unfold bodyLengthOKb
  rw [hf] at hp ⊢
  simp only [hs, hp, beq_self_eq_true, Bool.and_self]

/-- the frame of tests/test_codec.py::test_decode_custom_msg_type: says `9=82`, has 84 body bytes -/
def pinnedFrame : Bytes :=
  [56, 61, 70, 73, 88, 46, 52, 46, 52, 1, 57, 61, 56, 50, 1, 51, 53, 61, 65, 83, 68, 1, 52, 57, 61, 115, 101,
   110, 100, 101, 114, 1, 53, 54, 61, 116, 97, 114, 103, 101, 116, 1, 51, 52, 61, 49, 1, 53, 50, 61, 50, 48,
   50, 51, 48, 57, 49, 57, 45, 48, 55, 58, 49, 51, 58, 50, 54, 46, 56, 48, 56, 1, 52, 52, 61, 49, 50, 51, 46,
   52, 53, 1, 51, 56, 61, 57, 56, 55, 54, 1, 53, 53, 61, 86, 79, 68, 46, 76, 1, 49, 48, 61, 50, 52, 56, 1]

/-- C10-bodylength-not-verified: the pinned frame is returned (consumed 104 of its 106 bytes!)
although BodyLength(9)=82 and the body has 84 bytes. -/
theorem not_bodylength_full : ¬ C10_bodylength_full := by
  intro h
  obtain ⟨m, hm⟩ : ∃ m, decode bs44 [] pinnedFrame = .msg m 104 pinnedFrame :=
    DecRes.of_msgOf (by decide +kernel)
  have := bodyLengthOKb_of (h bs44 [] pinnedFrame m 104 pinnedFrame hm)
  revert this
  decide +kernel

/-- `8=FIX.4.4|9=17|35=0|49=S|34=100|10=010|` -/
def goodFields : List Fld := [⟨[51, 53], [48]⟩, ⟨[52, 57], [83]⟩, ⟨[51, 52], [49, 48, 48]⟩]
def goodFrame : Bytes := mkFrame bs44 goodFields

theorem goodFrame_wf : okBegin bs44 = true ∧ WFFrame bs44 goodFrame :=
  ⟨by decide +kernel, goodFields, rfl, by decide +kernel, by decide +kernel⟩

def gA : Bytes := [56, 61, 70, 73, 88, 46, 52, 46, 52, 1, 57, 61, 49, 55, 1, 51, 53, 61, 48, 1, 52, 57, 61, 83]
def gB : Bytes := [1, 51, 52, 61, 49, 48, 48, 1, 49, 48, 61, 48, 49, 48, 1]

theorem goodFrame_eq : goodFrame = gA ++ gB := by decide +kernel

/-- `…49=S\0|34=100|10=010|` -/
def nulFrame : Bytes := gA ++ 0 :: gB
/-- C10-bodylength-not-verified, single-byte form: a NUL inserted into a value (`49=S` → `49=S\0`)
keeps the byte sum, so the frame – one byte longer than its BodyLength says – is returned. -/
theorem nul_insertion_returned : ¬ C10_corruption_full := by
  intro h
  have he : Edit1 goodFrame nulFrame := by
    rw [goodFrame_eq]; exact Edit1.insert _ _ 0 (by decide)
  obtain ⟨m, hm⟩ : ∃ m, decode bs44 [] nulFrame = .msg m 39 nulFrame :=
    DecRes.of_msgOf (by decide +kernel)
  exact h bs44 [] _ _ goodFrame_wf.1 goodFrame_wf.2 he _ m 39 hm

/-- the full statement of C10's second sentence does not hold for the unchanged code -/
theorem not_C10_full : ¬ C10_full := fun h => not_bodylength_full h.1

end AsyncFix.Findings.C10
