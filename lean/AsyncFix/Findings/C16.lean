/-
Open known findings of C16, as machine-checked counter-examples on the generated table.
NOT part of the gating build: if the code is repaired these stop checking, and the check
reports that the finding no longer reproduces.
-/
import AsyncFix.Props.C16
namespace AsyncFix.Findings.C16
open AsyncFix.Model.OrderTable AsyncFix.Generated.OrderTable AsyncFix.Props.C16

/-- C16-unsupported-kind-raises: kind "D" (NewOrderSingle) with raise_on_err=False raises. -/
theorem not_trichotomy_full : ¬ trichotomy_full := by
  intro h
  have := h "0" "D" "0" "0" false
  revert this
  decide +kernel

/-- C16-kind9-pending-new: a cancel reject reporting PENDING_NEW moves a NEW order to PENDING_NEW. -/
theorem not_never_ack_to_pending_new_full : ¬ never_ack_to_pending_new_full := by
  intro h
  have := h "0" "9" "0" "A" false (by decide) (by decide +kernel)
  revert this
  decide

end AsyncFix.Findings.C16
