/-
C12 has no open known finding any more.  This (non-gating) file keeps machine-checked evaluations of the
session model on concrete schedules: the two defects found by the C12 work as they behave AFTER their
repairs (fix e3d9663, fix 5623bd4 – if either is reverted and the model follows, these stop checking), and
two recorded quirks.
-/
import AsyncFix.Props.C12
namespace AsyncFix.Findings.C12
open AsyncFix.Session AsyncFix.Session.Watchdog AsyncFix.Generated AsyncFix.Generated.ConnEnum
open AsyncFix.Props.C12

/-- FIXED (e3d9663), was C12-traffic-does-not-answer-testrequest: h = 2 s, last frame at 100 000, a valid
Heartbeat every 2 s, the TestRequest (id 101) sent at 101 500 is never echoed, ticks every second.  Before
the fix the tick at 105 500 closed the socket 1.5 s after a valid frame; now nothing is torn down. -/
theorem heartbeatingPeer_spared :
    (run (fun _ => true) c0 (hist heartbeatingPeer)).1.state = st_ACTIVE ∧
    Effect.closeSocket ∉ (run (fun _ => true) c0 (hist heartbeatingPeer)).2 := by
  decide +kernel

/-- … and once that peer falls silent (last frame 104 000) it is dropped by the first tick more than
`2·h` after it, without a second TestRequest. -/
theorem heartbeatingPeer_then_silent_dropped :
    (run (fun _ => true) c0 (hist (heartbeatingPeer ++
      [.tick (env0 106500), .tick (env0 107500), .tick (env0 108500)]))).1.state = st_DISCONNECTED_BROKEN_CONN := by
  decide +kernel

/-- FIXED (5623bd4), was the stale `_message_last_time` after a wrong-id Logout: `_finalize_message` no longer
stamps the receive time on the connection the dispatch has just disconnected, so the first watchdog
iteration after a later reconnect leaves the fresh connection alone. -/
theorem reconnect_after_wrong_id_survives :
    let c1 := (recv (fun _ => true) (env0 102000) c0armed (peerMsg "0" "5" [(112, "abc")])).1
    let c2 := (connected c1 .initiator).1
    c1.state = st_DISCONNECTED_BROKEN_CONN ∧ c1.lastTime = 0 ∧
    c2.state = st_NETWORK_CONN_ESTABLISHED ∧ c2.sock = true ∧ tick (env0 160000) c2 = (c2, []) := by
  decide +kernel

/-- `h = 1`: the idle threshold is 0 – a frame at 100 000 and a tick 1 ms later already probe. -/
theorem h1_probe_after_1ms :
    writes (tick (env0 100001) { c0 with hb := 1 }).2 ≠ [] := by
  decide +kernel

/-- Quirk (unreachable after 1970-01-01 00:00:01): `if not self._test_req_id` treats id 0 like "none"
while `send_test_req` refuses it (`is not None`): the iteration raises FIXConnectionError at every tick
and never reaches either timeout test. -/
theorem id_zero_watchdog_stuck :
    tick (env0 200000) { c0 with testReqId := some 0 } = ({ c0 with testReqId := some 0 }, [.raised .connection]) := by
  decide +kernel

end AsyncFix.Findings.C12
