/-
Open known findings / observations of C12 as machine-checked evaluations of the session model on
concrete schedules.  NOT part of the gating build: if the code (and with it the model) is repaired these
stop checking, and the check reports that the finding no longer reproduces.
-/
import AsyncFix.Props.C12
namespace AsyncFix.Findings.C12
open AsyncFix.Session AsyncFix.Session.Watchdog AsyncFix.Generated AsyncFix.Generated.ConnEnum
open AsyncFix.Props.C12

/-- C12-traffic-does-not-answer-testrequest.  h = 2 s, last frame at t0 = 100 000.  The peer sends a valid
in-sequence Heartbeat every 2 s (102 000, 104 000) – exactly what FIX asks of an idle peer – but does not
echo the TestRequest (id 101) that the watchdog sends at 101 500 because its idle threshold is
`h − 1 = 1 s`.  Ticks every second.  The tick at 105 500 closes the socket although the last valid frame
is 1.5 s old: nothing but the echo clears `_test_req_id`. -/
def heartbeatingPeer : List WEv :=
  [.tick (env0 100500), .tick (env0 101500), .recv (env0 102000) (peerMsg "0" "5" []),
   .tick (env0 102500), .tick (env0 103500), .recv (env0 104000) (peerMsg "0" "6" []),
   .tick (env0 104500), .tick (env0 105500)]

theorem heartbeatingPeer_dropped :
    (run (fun _ => true) c0 (hist heartbeatingPeer)).1.state = st_DISCONNECTED_BROKEN_CONN ∧
    Effect.closeSocket ∈ (run (fun _ => true) c0 (hist heartbeatingPeer)).2 := by
  decide +kernel

theorem not_live_peer_spared_traffic_full : ¬ live_peer_spared_traffic_full := by
  intro hfull
  have hp : Paced (2 * 1000) c0.lastTime heartbeatingPeer := by
    simp [Paced, heartbeatingPeer, c0, env0]
  have hb : BenignRun (fun _ => true) c0 heartbeatingPeer := benignRunB_sound (by decide +kernel)
  have := hfull (fun _ => true) 2 c0 heartbeatingPeer (by omega) c0_up rfl hp hb
    Effect.closeSocket heartbeatingPeer_dropped.2
  simp [isDisc] at this

/-- the same peer is spared as soon as it echoes (Props.C12 `live_peer_spared`), and traffic alone spares
it only below the idle threshold (`live_peer_spared_traffic_partial`); with `h = 1` the threshold is 0:
a frame at 100 000 and a tick 1 ms later already probe. -/
theorem h1_probe_after_1ms :
    writes (tick (env0 100001) { c0 with hb := 1 }).2 ≠ [] := by
  decide +kernel

/-- Observation (outside C12's "active session" scope, reported separately): a Heartbeat with a wrong
TestReqID makes `_process_heartbeat` disconnect, but `_finalize_message` still runs afterwards and sets
`_message_last_time` again; the stale value survives the disconnect, and the first watchdog iteration
after a later successful reconnect – more than `2·h` seconds later, before any frame is finalised –
tears the fresh connection down ("message last time timeout"). -/
theorem stale_last_time_kills_reconnect :
    let c1 := (recv (fun _ => true) (env0 102000) c0armed (peerMsg "0" "5" [(112, "abc")])).1
    let c2 := (connected c1 .initiator).1
    c1.state = st_DISCONNECTED_BROKEN_CONN ∧ c1.lastTime = 102000 ∧
    c2.state = st_NETWORK_CONN_ESTABLISHED ∧ c2.sock = true ∧
    (tick (env0 160000) c2).2 = [.closeSocket, .onState st_DISCONNECTED_BROKEN_CONN, .onDisconnect] := by
  decide +kernel

/-- Quirk (unreachable after 1970-01-01 00:00:01): `if not self._test_req_id` treats id 0 like "none"
while `send_test_req` refuses it (`is not None`): the iteration raises FIXConnectionError at every tick
and never reaches either timeout test. -/
theorem id_zero_watchdog_stuck :
    tick (env0 200000) { c0 with testReqId := some 0 } = ({ c0 with testReqId := some 0 }, [.raised .connection]) := by
  decide +kernel

end AsyncFix.Findings.C12
