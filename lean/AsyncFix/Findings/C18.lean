/-
Open known finding of C18 as a machine-checked counter-example on the model (the same witness
`harness/c18.py` replays on the implementation).  NOT part of the gating build: if the code is repaired,
the model changes with it and this stops checking.
(The former findings 1–6 were repaired by /repo commits 7c684d5, 68fefe3, 9e4749c, 8584485; their
statements are now theorems in `Props/C18.lean`.)
-/
import AsyncFix.Props.C18
namespace AsyncFix.Findings.C18
open AsyncFix.Py AsyncFix.Model.Container AsyncFix.Props.C18

theorem pyInt_01 : pyIntOfString [48, 49] = some 1 := by decide

/-- C18-noncanonical-tag-distinct-key: `c.set("01", v)` then `c[1]` → TagNotFoundError -/
theorem not_get_after_set_any_spelling_full : ¬ get_after_set_any_spelling_full := by
  intro h
  have hi : intLike [48, 49] = true := by simp [intLike, pyInt_01]
  have := h [] [([48, 49], .str [97])] [48, 49] 1 (.str [97]) pyInt_01
    (by simp [Model.Container.set, PyObj.pyStr, hi, dictSet])
  simp [Model.Container.get, PyObj.pyStr, r1, lookup, getCls] at this

end AsyncFix.Findings.C18
