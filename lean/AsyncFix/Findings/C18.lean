/-
Open known findings of C18 as machine-checked counter-examples on the model (the same witnesses
`harness/c18.py` replays on the implementation).  NOT part of the gating build: if the code is repaired,
the model changes with it and these stop checking.
-/
import AsyncFix.Props.C18
namespace AsyncFix.Findings.C18
open AsyncFix.Py AsyncFix.Model.Container AsyncFix.Props.C18

/-! text: "1"=49 "2"=50 "5"=53 "8"=56 "a"=97 "b"=98 "x"=120 "y"=121 "|"=124 "="=61 ","=44 " "=32 -/

/-- C18-eq-rendered-text: `{1: "a|2=b"} == {1: "a", 2: "b"}` -/
theorem not_eq_iff_same_content_full : ¬ eq_iff_same_content_full := by
  intro h
  have h1 : eq [([49], .str [97, 124, 50, 61, 98])] [([49], .str [97]), ([50], .str [98])] = true := by
    simp [eq, render, renderFields, Val.render, joinSep]
  have := (h _ _).1 h1
  simp at this

/-- each exclusion of `Cont.safe` is needed: a comma inside a group item … -/
theorem eq_collision_comma :
    eq [([53], .group [[([49], .str [97, 44, 32, 50, 61, 98])], [([51], .str [99])]])]
       [([53], .group [[([49], .str [97])], [([50], .str [98, 44, 32, 51, 61, 99])]])] = true := by
  simp [eq, render, renderFields, Val.render, renderItems, joinSep, natDigits_one]

/-- … a string that looks like a rendered group (`1=>[2=x]`, needs `[` and `]`) … -/
theorem eq_collision_brackets :
    eq [([53], .str [49, 61, 62, 91, 50, 61, 120, 93])] [([53], .group [[([50], .str [120])]])] = true := by
  simp [eq, render, renderFields, Val.render, renderItems, joinSep, natDigits_one]

/-- … and a class-object value: every exception class renders as `#err#` -/
theorem eq_collision_errclass :
    eq [([49], .cls .tagNotFound)] [([49], .str [35, 101, 114, 114, 35])] = true := by
  simp [eq, render, renderFields, Val.render, Cls.render, errText, joinSep]

theorem plain_1a : Plain [([49], .str [97])] := by
  intro k v h
  simp only [lookup] at h
  split at h
  · simp only [Option.some.injEq] at h; exact ⟨_, h.symm⟩
  · simp at h

theorem mem_ignore_8 : ([56] : Str) ∈ ignoreStrs := by rw [ignoreStrs_eq]; simp
theorem not_mem_ignore_1 : ([49] : Str) ∉ ignoreStrs := by rw [ignoreStrs_eq]; simp

/-- C18-eqdict-framing-tag-raises: `FIXContainer({1:"a"}) == {"8":"y", "1":"a"}` raises TagNotFoundError -/
theorem eqDict_framing_raises :
    eqDict [([49], .str [97])] [(.str [56], .str [121]), (.str [49], .str [97])] = .error .tagNotFound := by
  rw [eqDict_unfold]
  have h : tagSetsAgree [([49], .str [97])] [(.str [56], .str [121]), (.str [49], .str [97])] = true := by
    simp [tagSetsAgree, ignoreStrs_eq, sameSet, keys, PyObj.pyStr]
  simp [h, eqDictLoop_cons, lookup, PyObj.pyStr]

theorem not_eqDict_full : ¬ eqDict_full := by
  intro h
  obtain ⟨b, hb, _⟩ := h [([49], .str [97])] [(.str [56], .str [121]), (.str [49], .str [97])] plain_1a
  rw [eqDict_framing_raises] at hb
  simp at hb

/-- C18-eqdict-framing-tag-compared: `{8:"x",1:"a"} == {"8":"y","1":"a"}` is False although only a framing
tag differs -/
theorem eqDict_framing_compared :
    eqDict [([56], .str [120]), ([49], .str [97])] [(.str [56], .str [121]), (.str [49], .str [97])] = .ok false := by
  rw [eqDict_unfold]
  have h : tagSetsAgree [([56], .str [120]), ([49], .str [97])] [(.str [56], .str [121]), (.str [49], .str [97])] = true := by
    simp [tagSetsAgree, ignoreStrs_eq, sameSet, keys, PyObj.pyStr]
  simp [h, eqDictLoop_cons, lookup, PyObj.pyStr]

theorem eqDict_framing_compared_same_content :
    SameContentIgnoringFraming [([56], .str [120]), ([49], .str [97])] [(.str [56], .str [121]), (.str [49], .str [97])] := by
  constructor
  · intro k hk
    simp only [keys, List.map_cons, List.map_nil, List.mem_cons, List.not_mem_nil, or_false, PyObj.pyStr,
      exists_eq_or_imp, exists_eq_left]
    constructor
    · rintro (h | h)
      · subst h; exact absurd mem_ignore_8 hk
      · exact Or.inr h.symm
    · rintro (h | h)
      · subst h; exact absurd mem_ignore_8 hk
      · exact Or.inr h.symm
  · intro p hp hi
    simp only [List.mem_cons, List.not_mem_nil, or_false] at hp
    rcases hp with hp | hp
    · subst hp; exact absurd mem_ignore_8 hi
    · subst hp; simp [lookup, PyObj.pyStr]

theorem not_intLike_x : intLike [120] = false := by decide

/-- C18-group-tag-not-checked: `FIXContainer().add_group("x", {})` succeeds -/
theorem not_nonint_tag_refused_full : ¬ nonint_tag_refused_full := by
  intro h
  have := h [] (.addGroup (.str [120]) (.dict []) (-1)) [120] rfl not_intLike_x (by intro t; simp)
  simp [step, Op.apply, addGroup, DItem.toCont, fromDict, buildDict, PyObj.pyStr, lookup] at this

/-- C18-by-index-indexerror: one item, index -2 → IndexError instead of TagNotFoundError -/
theorem not_get_group_by_index_errors_full : ¬ get_group_by_index_errors_full := by
  intro h
  have := h [([53], .group [[]])] (.str [53]) [[]] (-2) (by simp [getGroupList, lookup, PyObj.pyStr])
    (by left; decide)
  simp [getGroupByIndex, getGroupList, lookup, PyObj.pyStr] at this

/-- C18-add-group-plain-tag-attributeerror: `FIXContainer({1:"a"}).add_group(1, {})` raises AttributeError -/
theorem not_add_group_errors_full : ¬ add_group_errors_full := by
  intro h
  have := h [([49], .str [97])] (.str [49]) (.dict []) (-1) .attributeError
    (by simp [addGroup, DItem.toCont, fromDict, buildDict, PyObj.pyStr, lookup])
  simp at this

theorem pyInt_01 : pyIntOfString [48, 49] = some 1 := by decide

/-- C18-noncanonical-tag-distinct-key: `c.set("01", v)` then `c[1]` → TagNotFoundError -/
theorem not_get_after_set_any_spelling_full : ¬ get_after_set_any_spelling_full := by
  intro h
  have hi : intLike [48, 49] = true := by simp [intLike, pyInt_01]
  have := h [] [([48, 49], .str [97])] [48, 49] 1 (.str [97]) pyInt_01
    (by simp [Model.Container.set, PyObj.pyStr, hi, dictSet])
  simp [Model.Container.get, PyObj.pyStr, r1, lookup, getCls] at this

/-- not a finding (intended, used by the decoder for error markers), recorded for completeness: a class
object as value bypasses the duplicate check -/
theorem class_value_bypasses_duplicate_check :
    Model.Container.set [([49], .str [97])] (.str [49]) (.cls .repeating) false = .ok [([49], .cls .repeating)] := by
  simp [Model.Container.set, PyObj.pyStr, il1, dictSet]

end AsyncFix.Findings.C18
