import AsyncFix.Props.C18
namespace AsyncFix.Findings.C18
end AsyncFix.Findings.C18
