import AsyncFix.Model.LexClass
