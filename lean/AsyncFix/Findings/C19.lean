/-
Open findings of C19, machine-checked on the model by evaluation of the witnesses that
harness/c19.py replays on the implementation (notes/findings_lex.json).  Non-gating.
For each: the witness IS in the FIX lexical space but rejected (too narrow), or is NOT but accepted
(too wide).  `C19_full_refuted` refutes the full-strength statement kept in Props/C19.lean.
-/
import AsyncFix.Props.C19
namespace AsyncFix.Findings.C19
open AsyncFix.Py AsyncFix.Model AsyncFix.Model.Lexical AsyncFix.Model.LexClass AsyncFix.Props.C19
open AsyncFix.Model.LexSpec hiding Str

def cfg : Cfg := {}

/-- code points of an ASCII literal -/
def cps (s : String) : Str := s.toList.map Char.toNat

/-- C19-int:digit-limit — 4301 digits: in the lexical space, in the too-narrow set, hence (by
`impl_iff`) rejected; `error_kind` makes the rejection a FIXMessageError -/
theorem int_digit_limit :
    lexical .int (49 :: List.replicate 4300 49) = true ∧
    validateValue cfg (plain false .int) (.str (49 :: List.replicate 4300 49)) = .fme := by
  have hl' : ∀ n, lexical .int (49 :: List.replicate n 49) = true := by
    intro n; simp [lexical, isInt, digits, digit]
  have hn' : ∀ n, narrow cfg .int (49 :: List.replicate n 49) = !digitLimitOk 4300 (n + 1) := by
    intro n; simp [narrow, overDigitLimit, dropMinus, cfg]
  have hl := hl' 4300
  have hn : narrow cfg .int (49 :: List.replicate 4300 49) = true := by rw [hn']; decide
  refine ⟨hl, rejection_is_fme _ _ _ ?_⟩
  intro h
  rcases (impl_iff cfg false (t := .int) (dt := .int) rfl _).1 h with ⟨-, h2⟩ | h2
  · rw [hn] at h2; cases h2
  · simp [deviation] at h2

/-- C19-float:overflow — "1" followed by 309 zeros -/
theorem float_overflow :
    lexical .float (49 :: List.replicate 309 48) = true ∧
    validateValue cfg (plain false .float) (.str (49 :: List.replicate 309 48)) = .fme := by decide +kernel

/-- C19-string:equals-sign — "a=b" (pinned by test_field_type_validation__string) -/
theorem string_equals :
    lexical .string (cps "a=b") = true ∧
    validateValue cfg (plain false .string) (.str (cps "a=b")) = .fme := by decide +kernel

/-- C19-date:year-0000 — "00000101" -/
theorem date_year0000 :
    lexical .date (cps "00000101") = true ∧
    validateValue cfg (plain false .date) (.str (cps "00000101")) = .fme := by decide +kernel

/-- C19-time:year-0000 — "00000101-00:00:00" -/
theorem timestamp_year0000 :
    lexical .timestamp (cps "00000101-00:00:00") = true ∧
    validateValue cfg (plain false .timestamp) (.str (cps "00000101-00:00:00")) = .fme := by decide +kernel

/-- C19-time:second-60 — "23:59:60" -/
theorem time_second60 :
    lexical .timeOnly (cps "23:59:60") = true ∧
    validateValue cfg (plain false .timeOnly) (.str (cps "23:59:60")) = .fme := by decide +kernel

/-- C19-time:fraction-6-digits — "20230921-14:00:00.123456" (pinned by test_field_type_validation__utctimestamp) -/
theorem six_fraction_accepted :
    lexical .timestamp (cps "20230921-14:00:00.123456") = false ∧
    validateValue cfg (plain false .timestamp) (.str (cps "20230921-14:00:00.123456")) = .ok := by
  decide +kernel

/-- C19-length:unvalidated — "-202309" (pinned by test_field_type_validation__length) -/
theorem length_unvalidated :
    lexical .length (cps "-202309") = false ∧
    validateValue cfg (plain false .unchecked) (.str (cps "-202309")) = .ok := by decide +kernel

/-- the full-strength statement of C19 does not hold on the current tree -/
theorem C19_full_refuted : ¬ C19_full := by
  intro h
  have h1 := (h cfg false .string .string rfl (cps "a=b")).2 (by decide +kernel)
  have h2 : validateValue cfg (plain false .string) (.str (cps "a=b")) = .fme := string_equals.2
  unfold accepted at h1
  rw [h2] at h1
  cases h1

end AsyncFix.Findings.C19
