import AsyncFix.Props.C17
