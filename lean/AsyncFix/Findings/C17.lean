/-
Open known findings of C17 as machine-checked counter-examples (NOT part of the gating build).
The same witnesses are replayed on the real FIXNewOrderSingle by harness/c17.py (notes/findings_ordobj.json).
-/
import AsyncFix.Props.C17
namespace AsyncFix.Findings.C17
open AsyncFix.Model.OrderObj AsyncFix.Model.Exchange AsyncFix.Model.OrderLink AsyncFix.Props.C17

def ord : Str := [111, 114, 100]   -- "ord"

theorem ord_init : Order.init ord 80 40 [] [] [] [] = .ok { clordId := ord, price := 80, qty := 40 } := by
  decide +kernel

/-- C17-suspended-expire-ignored: new, ack, suspend, expire – everything processed -/
def witnessExpire : List Action :=
  [.cNew, .xRecv .accept, .cRecv, .xSuspend, .cRecv, .xExpire, .cRecv]

/-- the exchange says Expired, the order object still says Suspended, is not finished and would
still build a cancel request -/
theorem suspended_expire_state :
    (run (start { clordId := ord, price := 80, qty := 40 }) witnessExpire).quiescent = true ∧
    (run (start { clordId := ord, price := 80, qty := 40 }) witnessExpire).ex.known = true ∧
    (run (start { clordId := ord, price := 80, qty := 40 }) witnessExpire).ex.reported = "C" ∧
    (run (start { clordId := ord, price := 80, qty := 40 }) witnessExpire).order.status = "9" ∧
    isFinished (run (start { clordId := ord, price := 80, qty := 40 }) witnessExpire).order = false ∧
    canCancel (run (start { clordId := ord, price := 80, qty := 40 }) witnessExpire).order = .ok true := by
  decide +kernel

theorem not_converges_full_suspended_expire : ¬ converges_full := by
  intro h
  have hs := suspended_expire_state
  have := (h ord 80 40 [] [] [] [] _ witnessExpire ord_init hs.1 hs.2.1).1
  rw [hs.2.2.1, hs.2.2.2.1] at this
  revert this; decide

/-- the witness is excluded by `calm`, as it must be -/
example : calm (start { clordId := ord, price := 80, qty := 40 }) witnessExpire = false := by decide +kernel

/-- C17-suspended-replace-stuck: new, ack, suspend, replace request, accepted, everything processed -/
def witnessReplace : List Action :=
  [.cNew, .xRecv .accept, .cRecv, .xSuspend, .cRecv, .cReplace (some 88) none, .xRecv .accept, .cRecv]

/-- the exchange has replaced the (still suspended) order; the order object took the new price but
stays PENDING_REPLACE with no request outstanding and refuses every further request -/
theorem suspended_replace_state :
    (run (start { clordId := ord, price := 80, qty := 40 }) witnessReplace).quiescent = true ∧
    (run (start { clordId := ord, price := 80, qty := 40 }) witnessReplace).ex.known = true ∧
    (run (start { clordId := ord, price := 80, qty := 40 }) witnessReplace).ex.reported = "9" ∧
    (run (start { clordId := ord, price := 80, qty := 40 }) witnessReplace).ex.pending = none ∧
    (run (start { clordId := ord, price := 80, qty := 40 }) witnessReplace).order.status = "E" ∧
    (run (start { clordId := ord, price := 80, qty := 40 }) witnessReplace).order.price = 88 ∧
    (run (start { clordId := ord, price := 80, qty := 40 }) witnessReplace).order.origClordId = none ∧
    canCancel (run (start { clordId := ord, price := 80, qty := 40 }) witnessReplace).order = .ok false := by
  decide +kernel

theorem not_converges_full_suspended_replace : ¬ converges_full := by
  intro h
  have hs := suspended_replace_state
  have := (h ord 80 40 [] [] [] [] _ witnessReplace ord_init hs.1 hs.2.1).1
  rw [hs.2.2.1, hs.2.2.2.2.1] at this
  revert this; decide

/-- … and stays stuck: resume and a complete fill later the exchange says Filled, the order PENDING_REPLACE -/
example :
    (run (start { clordId := ord, price := 80, qty := 40 })
      (witnessReplace ++ [.xResume, .cRecv, .xFill 40 88, .cRecv])).ex.reported = "2" ∧
    (run (start { clordId := ord, price := 80, qty := 40 })
      (witnessReplace ++ [.xResume, .cRecv, .xFill 40 88, .cRecv])).order.status = "E" := by
  decide +kernel

end AsyncFix.Findings.C17
