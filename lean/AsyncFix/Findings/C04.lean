/-
Open known finding of C04 as machine-checked counter-examples on the session model.
NOT part of the gating build: if the code (and with it the model) is repaired these stop checking, and
the check reports that the finding no longer reproduces.

C04-backward-reset-moves-counter-back (DESIGN §4 D6): a SequenceReset in Reset mode (no GapFillFlag)
whose NewSeqNo is BELOW the expected inbound number is honoured: the expected number goes back and
already delivered numbers are delivered to `on_message` a second time.  Pinned by the repository's own
unit test test_sequence_reset_request__incoming_seq_num_toolow_ignored.
-/
import AsyncFix.Props.C04
namespace AsyncFix.Findings.C04
open AsyncFix.Session AsyncFix.Props.C04 AsyncFix.Props.C04.Witness

/-- expecting 5: deliver 5, Reset-mode SequenceReset(34=6, NewSeqNo=3), then 3, 4, 5 again.
(The same history is replayed on the real connection by the oracle of harness/c04.py.) -/
def backwardHistory : List Event :=
  [.recv env0 (app "5"), .recv env0 (reset "6" "3"), .recv env0 (app "3"), .recv env0 (app "4"),
   .recv env0 (app "5")]

theorem backwardHistory_delivers :
    deliveredNums (run all active backwardHistory).2 = [some 5, some 3, some 4, some 5] := by
  decide +kernel

/-- the excluded class is exactly what this history contains -/
theorem backwardHistory_excluded : noBackward all active backwardHistory = false := by decide +kernel

theorem not_delivered_strictly_increasing_full : ¬ delivered_strictly_increasing_full := by
  intro h
  obtain ⟨ns, hns, hpw⟩ := h all active backwardHistory (by decide)
  rw [backwardHistory_delivers] at hns
  match ns, hns, hpw with
  | [a, b, c, d], hns, hpw =>
    simp only [List.map_cons, List.map_nil, List.cons.injEq, Option.some.injEq, and_true] at hns
    obtain ⟨rfl, rfl, rfl, rfl⟩ := hns
    simp at hpw

/-- one step: expected 6 (after delivering 5), Reset to 3 moves the expectation back -/
theorem not_nextIn_forward_full : ¬ nextIn_forward_full := by
  intro h
  have := h all env0 active (reset "5" "3")
  revert this
  decide +kernel

end AsyncFix.Findings.C04
