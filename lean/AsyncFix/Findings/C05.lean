import AsyncFix.Props.C05

/-!
Machine-checked counter-example for the statement of Props/C05 that is kept as `def … : Prop`
(non-gating), and the regression witness of the repaired finding D9.

* `not_outInv_step_full` – finding `C05-app-own-number`: an application that passes a SequenceReset
  (or PossDupFlag=Y) message to `send_msg` chooses the number itself; `persist_msg` then sets the stored
  outbound counter to that number.  Witness: counter 42, the application sends
  `SequenceReset(34=3, 36=9)`: stored next-outbound becomes 3 (+1) while the session keeps 42 – after a
  restart the numbers 4 … 41 would be used again.
-/
namespace AsyncFix.Findings.C05

open AsyncFix.Session AsyncFix.Props.C05 AsyncFix.Generated AsyncFix.Generated.ConnEnum

/-- the connection after `hist`'s first three events: ACTIVE, counter 43 -/
def cA : Conn := (run (fun _ => true) c0 (hist.take 3)).1

theorem cA_inv : OutInv cA :=
  outInv_run _ c0 _ c0_inv (fun ev hev => (hist_ok ev (List.mem_of_mem_take hev)).1)

def appReset : Msg := Msg.mk' mSequenceReset [(tMsgSeqNum, "3"), (tNewSeqNo, "9")]

theorem not_outInv_step_full : ¬ outInv_step_full := by
  intro h
  have := (h (fun _ => true) cA env0 appReset cA_inv).counter
  revert this
  decide +kernel

/-! ### former finding D9 (repaired by /repo da179c4): regression witness, now a positive fact -/

def bounded : List Event := [
  .appSend env0 (order "one"),
  .appSend env0 (order "two"),
  .recv env0 (peer "2" 8 [(7, "43"), (16, "43")]) ]

def kept : Msg := buildFrame cA.sess env0.stamp (order "two") 44

/-- after `ResendRequest(7=43, 16=43)` the order sent under 44 is still in the journal, identically -/
theorem bounded_resend_keeps_row :
    Rows.find 44 (run (fun _ => true) cA bounded).1.journal.out = some kept := by decide +kernel

end AsyncFix.Findings.C05
