import AsyncFix.Props.C05

/-!
Machine-checked counter-examples for the two statements of Props/C05 that are kept as `def … : Prop`
(non-gating).

* `not_outInv_step_full` – finding `C05-app-own-number`: an application that passes a SequenceReset
  (or PossDupFlag=Y) message to `send_msg` chooses the number itself; `persist_msg` then sets the stored
  outbound counter to that number.  Witness: counter 42, the application sends
  `SequenceReset(34=3, 36=9)`: stored next-outbound becomes 3 (+1) while the session keeps 42 – after a
  restart the numbers 4 … 41 would be used again.
* `not_new_messages_journaled_full` – consequence of the open C06 finding D9 for C05: a bounded
  ResendRequest deletes the rows above its range.  Witness: orders sent under 43 and 44,
  `ResendRequest(7=43, 16=43)`: afterwards the journal holds a SequenceReset-GapFill under 44 although
  the order sent under 44 was neither retransmitted nor declined – its bytes cannot be read back.
-/
namespace AsyncFix.Findings.C05

open AsyncFix.Session AsyncFix.Props.C05 AsyncFix.Generated AsyncFix.Generated.ConnEnum

/-- the connection after `hist`'s first three events: ACTIVE, counter 43 -/
def cA : Conn := (run (fun _ => true) c0 (hist.take 3)).1

theorem cA_inv : OutInv cA :=
  outInv_run _ c0 _ c0_inv (fun ev hev => (hist_ok ev (List.mem_of_mem_take hev)).1)

def appReset : Msg := Msg.mk' mSequenceReset [(tMsgSeqNum, "3"), (tNewSeqNo, "9")]

theorem not_outInv_step_full : ¬ outInv_step_full := by
  intro h
  have := (h (fun _ => true) cA env0 appReset cA_inv).counter
  revert this
  decide +kernel

def bounded : List Event := [
  .appSend env0 (order "one"),
  .appSend env0 (order "two"),
  .recv env0 (peer "2" 8 [(7, "43"), (16, "43")]) ]

def lost : Msg := buildFrame cA.sess env0.stamp (order "two") 44

theorem not_new_messages_journaled_full : ¬ new_messages_journaled_full := by
  intro h
  have hok : ∀ ev ∈ bounded, ev.ok ∧ isReset ev = false := by decide
  have hs := h (fun _ => true) cA bounded cA_inv hok (by decide +kernel) lost (by decide +kernel) 44
    (buildFrame_seqOf _ _ _ _)
  -- the journal holds a gap fill under 44 …
  have hrow : (Rows.find 44 (run (fun _ => true) cA bounded).1.journal.out).map (·.mtype)
      = some mSequenceReset := by decide +kernel
  unfold Slot at hs
  cases hf : Rows.find 44 (run (fun _ => true) cA bounded).1.journal.out with
  | none => rw [hf] at hrow; cases hrow
  | some g =>
    rw [hf] at hrow hs
    have hg : g.mtype = mSequenceReset := by simpa using hrow
    -- … which is no copy of the order, and the order was not declined
    have hdecl : ¬ Declined (fun _ => true) (run (fun _ => true) cA bounded).1.sess.sender
        (run (fun _ => true) cA bounded).1.sess.target lost := by
      intro hd
      rcases hd with hd | ⟨_, _, hd⟩
      · revert hd; decide
      · cases hd
    rcases hs with hc | ⟨_, hd⟩
    · have := hc.mtype
      rw [hg] at this
      revert this; decide
    · exact hdecl hd

end AsyncFix.Findings.C05
