/-
Open known finding of C08 as a machine-checked counter-example (NOT part of the gating build).

C08-set-seq-num-overflow-half-applied: `set_seq_num(session, next_num_out=1, next_num_in=2**63)`
executes the UPDATE (counters out=0, in=2⁶³-1), then binding the first DELETE raises OverflowError;
nothing is rolled back, so the UPDATE stays pending and the next completed call commits it: the file
then holds the new outbound counter while the outbound messages ≥ 1 were never deleted – part of
an operation.
-/
import AsyncFix.Props.C08
namespace AsyncFix.Findings.C08
open AsyncFix.Model.Journal AsyncFix.Props.C08

def witness : List Op :=
  [ .createOrLoad "T" "S",
    .persist [1, 51, 52, 61, 49, 1] ⟨1, "T", "S", 1, 1⟩ .outbound,
    .setSeqNum ⟨1, "T", "S", 1, 1⟩ (some 1) (some 9223372036854775808),
    .persist [1, 51, 52, 61, 55, 1] ⟨1, "T", "S", 1, 1⟩ .inbound ]

/-- the witness is in the excluded set of the `_partial` theorems -/
theorem witness_half_applies : ∃ op ∈ witness, op.HalfApplies = true := by decide

theorem not_crash_is_op_boundary_full : ¬ crash_is_op_boundary_full := by
  intro hfull
  obtain ⟨m, h1, -, h3, heq⟩ := hfull {} jinv_empty witness 100
  have hc : completedOps {} witness 100 = 4 := by decide +kernel
  have hm : m = 4 := by
    rw [hc] at h1
    have : witness.length = 4 := rfl
    omega
  subst hm
  have := congrArg (fun S => S.store 1 .outbound 1) heq
  revert this
  decide +kernel

/-- the same, seen from the file: after the process is gone the outbound counter says "next is 1"
while message 1 is still stored -/
example : (abs (reopen (session {} witness 100).1).working).counters 1 = some (0, 7) ∧
    (abs (reopen (session {} witness 100).1).working).store 1 .outbound 1 ≠ none := by
  decide +kernel

end AsyncFix.Findings.C08
