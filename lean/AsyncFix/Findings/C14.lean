import AsyncFix.Props.C14
import AsyncFix.Lemmas.SchedWitness

/-!
# C14 – machine-checked counter-examples of `concurrent_full`

## D21, signature `C14-send-inside-resend-rewind-window`

Session with 6 messages sent (`next_num_out = 7`, rows 3..6 journaled).  Task 0 = reader with a
ResendRequest(5, 0), task 1 = application `send_msg(D "concurrent")`.  Schedule `r0 r0 r1 r1 r0 r0`:
the reader sets RESENDREQ_HANDLING (suspends in `on_state_change`), then rewinds the counter to 5 and
suspends in `should_replay(row 5)` – the window is open, `next_num_out = 5`; the sender allocates **5**,
journals its message under 5 (the old row 5 was deleted by the rewind, so no duplicate error HERE) and
writes it: a NEW message numbered 5 < 7, a number that belongs to another message; the reader resumes,
tries to re-journal the replayed row 5 → DuplicateSeqNoError (swallowed), leaves the counter at 6 and
the state RESENDREQ_HANDLING.  Evaluated on the model by the kernel; `harness/c14.py` replays the same
schedule on the real coroutines (corpus/sched/d21.json).

## signature `C14-state-revived-after-concurrent-disconnect`

Acceptor, transport up, Logon numbered too high, overdue TestRequest id.  The reader writes its Logon
reply (number 1) and suspends in `drain`; the watchdog task disconnects completely (socket dropped,
state DISCONNECTED_BROKEN_CONN); the reader resumes and `_state_set(RECV_SEQNUM_TOO_HIGH)` revives the
state without a transport; its ResendRequest passes the state checks, consumes number 2, journals it and
dies in `None.write` (AttributeError, swallowed): `next_num_out = 3` although the highest number that was
sent is 1.
-/
namespace AsyncFix.Sched.C14.Findings

open AsyncFix.Session AsyncFix.Sched AsyncFix.Sched.C14 AsyncFix.Sched.Witness AsyncFix.Generated.ConnEnum

/-- after `r0 r0` the reader is suspended in `should_replay` INSIDE the window: counter rewound to 5 -/
theorem d21_window_open :
    let s := run all c0 tsD21 false [.run 0, .run 0]
    s.windowOpen = true ∧ s.everRewound = true ∧ s.conn.sess.nextOut = 5 ∧ c0.sess.nextOut = 7 := by
  decide +kernel

/-- the whole schedule: the only new message on the wire is the application's, numbered 5 -/
theorem d21_duplicate_number :
    let s := run all c0 tsD21 false schedD21
    (newWrites s.effects).map (fun f => (f.get? 58, seqOf f)) = [(some "concurrent", some 5)] ∧
    (Rows.find 5 c0.journal.out).isSome = true ∧
    s.log.map (fun p => (p.1, p.2 == .caught .duplicateSeqNo)) = [(0, false), (1, false), (0, true)] ∧
    s.allDone = true ∧ s.conn.sess.nextOut = 6 ∧ s.windowOpen = true := by
  decide +kernel

/-- the schedule is excluded by the partial theorem's hypothesis – and by nothing else -/
example : (run all c0 tsD21 false schedD21).everRewound = true ∧ (∀ t ∈ tsD21, t.wf = true) := by
  decide +kernel

theorem revived_counts :
    let s := run all cA tsRevive false schedRevive
    (newWrites s.effects).map seqOf = [some 1] ∧ s.conn.sess.nextOut = 3 ∧ s.conn.journal.outSeq = 2 ∧
    lost s.effects = 1 ∧ s.everRewound = false ∧ s.allDone = true ∧
    s.conn.state = st_RECV_SEQNUM_TOO_HIGH ∧ s.conn.sock = false := by
  decide +kernel

/-- `concurrent_full` does not hold for the current code (D21) -/
theorem concurrent_full_refuted : ¬ concurrent_full := by
  intro h
  have h1 := h all c0 tsD21 false schedD21 J_c0 (by decide)
  obtain ⟨ns, e1, _, e3⟩ := h1.increasing
  have hw : (newWrites (run all c0 tsD21 false schedD21).effects).map seqOf = [some 5] := by decide +kernel
  rw [hw] at e1
  cases ns with
  | nil => simp at e1
  | cons n r =>
    simp only [List.map_cons, List.cons.injEq, Option.some.injEq] at e1
    have := (e3 n (by simp)).1
    have h7 : c0.sess.nextOut = 7 := rfl
    omega

/-- … and, independently of any resend, by the revived connection: the counter is not the number of
frames written -/
theorem concurrent_full_refuted_revived : ¬ concurrent_full := by
  intro h
  have h1 := (h all cA tsRevive false schedRevive J_cA (by decide)).counter
  have h2 : (run all cA tsRevive false schedRevive).conn.sess.nextOut = 3 := by decide +kernel
  have h3 : (newWrites (run all cA tsRevive false schedRevive).effects).length = 1 := by decide +kernel
  rw [h2, h3] at h1
  simp at h1
  have : cA.sess.nextOut = 1 := rfl
  omega

end AsyncFix.Sched.C14.Findings
