/-
Open known finding of C13 as a machine-checked counter-example (NOT part of the gating build).

C13-set-seq-num-overflow-half-applied: `set_seq_num(session, next_num_out=1, next_num_in=2**63)`
raises OverflowError *after* the counters were updated and *before* any message was deleted: on the
same connection both loading paths then report next outbound = 1 while outbound message 1 is still
returned by range queries.  (Same root cause as C08-set-seq-num-overflow-half-applied.)
-/
import AsyncFix.Props.C13
namespace AsyncFix.Findings.C13
open AsyncFix.Model.Journal AsyncFix.Props.C13

def before : Journal :=
  applyOps {} [ .createOrLoad "T" "S", .persist [1, 51, 52, 61, 49, 1] ⟨1, "T", "S", 1, 1⟩ .outbound ]

theorem not_setSeqNum_refines_full : ¬ setSeqNum_refines_full := by
  intro hfull
  have := congrArg (fun S => S.store 1 .outbound 1)
    (hfull before ⟨1, "T", "S", 1, 1⟩ (some 1) (some 9223372036854775808))
  revert this
  decide +kernel

theorem not_refinement_full : ¬ refinement_full := by
  intro hfull
  have := congrArg (fun S => S.store 1 .outbound 1)
    (hfull [ .createOrLoad "T" "S", .persist [1, 51, 52, 61, 49, 1] ⟨1, "T", "S", 1, 1⟩ .outbound,
             .setSeqNum ⟨1, "T", "S", 1, 1⟩ (some 1) (some 9223372036854775808) ])
  revert this
  decide +kernel

end AsyncFix.Findings.C13
