import AsyncFix.Lemmas.SessionInFrame
namespace AsyncFix.Session
open AsyncFix.Generated AsyncFix.Generated.ConnEnum

def seqOf (m : Msg) : Option Int := (m.get? tMsgSeqNum).bind pyInt
def newSeqOf (m : Msg) : Option Int := (m.get? tNewSeqNo).bind pyInt
def isGapFill (m : Msg) : Bool := m.get? tGapFillFlag == some "Y"

@[simp] theorem holds_getTag (m : Msg) (t : Nat) (c : Conn) (Q : Post String) :
    Holds (M.liftE (m.get t)) c Q ↔
      (∀ v, m.get? t = some v → Q (.ok v) c []) ∧ (m.get? t = none → Q (.error .tagNotFound) c []) := by
  unfold Msg.get
  cases h : m.get? t <;> simp [Holds, M.liftE]

theorem processSeqreset_spec (m : Msg) (c : Conn) :
    Holds (processSeqreset m) c (fun r c' e =>
      e = [] ∧ c'.state = c.state ∧ c'.maxResend = c.maxResend ∧
      match r with
      | .ok true => ∃ n nw, seqOf m = some n ∧ newSeqOf m = some nw ∧
          (isGapFill m = true → n = c.sess.nextIn ∧ n < nw) ∧ c'.sess.nextIn = nw
      | .ok false => c'.sess.nextIn = c.sess.nextIn ∧ isGapFill m = true ∧
          ∃ n, seqOf m = some n ∧ (n = c.sess.nextIn → ∃ nw, newSeqOf m = some nw ∧ nw ≤ n)
      | .error _ => c'.sess.nextIn = c.sess.nextIn ∨ (isGapFill m = false ∧ seqOf m = some c'.sess.nextIn)) := by
  unfold processSeqreset setSeqNum
  simp only [holds_bind, holds_assert, holds_get, holds_getTag, holds_ite, holds_int, holds_pure, holds_modify,
    List.append_nil, List.nil_append]
  simp [seqOf, newSeqOf, isGapFill, mSequenceReset]
  repeat' (first | intro _ | apply And.intro)
  all_goals simp_all
  trace_state
