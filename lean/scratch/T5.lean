import AsyncFix.Lemmas.SessionInMsg
namespace AsyncFix.Session
open AsyncFix.Generated AsyncFix.Generated.ConnEnum

def env0 : Env := { now := 1000, stamp := "20240102-00:00:01.000" }
def c0 : Conn :=
  { state := st_ACTIVE, role := roleInitiator, wasActive := true, sock := true,
    sess := { sender := "S", target := "T", nextIn := 5, nextOut := 9 } }
def app (n : String) : Msg := Msg.ofFields [(8, "FIX.4.4"), (9, "50"), (35, "D"), (49, "T"), (56, "S"), (34, n), (52, "x"), (58, "hi"), (10, "000")]
def rst (n nw : String) : Msg := Msg.ofFields [(8, "FIX.4.4"), (9, "50"), (35, "4"), (49, "T"), (56, "S"), (34, n), (52, "x"), (36, nw), (10, "000")]

#eval (recv (fun _ => true) env0 c0 (app "5")).2.length
example : deliveries (recv (fun _ => true) env0 c0 (app "5")).2 = [app "5"] := by decide
example : deliveries (recv (fun _ => true) env0 c0 (app "5")).2 = [app "5"] := by decide +kernel
def hist : List Event := [.recv env0 (app "5"), .recv env0 (rst "6" "3"), .recv env0 (app "3"), .recv env0 (app "4"), .recv env0 (app "5")]
#eval (deliveries (run (fun _ => true) c0 hist).2).map seqOf
example : (deliveries (run (fun _ => true) c0 hist).2).map seqOf = [some 5, some 3, some 4, some 5] := by decide +kernel
