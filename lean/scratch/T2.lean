import AsyncFix.Lemmas.SessionInWp
namespace AsyncFix.Session
open AsyncFix.Generated AsyncFix.Generated.ConnEnum

def isDeliver : Effect → Bool
  | .deliver _ => true
  | _ => false

def Quiet : StepRel where
  R c c' e := c'.sess.nextIn = c.sess.nextIn ∧ ∀ x ∈ e, isDeliver x = false
  refl c := ⟨rfl, by simp⟩
  trans := by
    intro a b c e1 e2 h1 h2
    refine ⟨h2.1.trans h1.1, ?_⟩
    intro x hx
    rcases List.mem_append.1 hx with h | h
    · exact h1.2 x h
    · exact h2.2 x h

theorem stateSet_quiet (s : Nat) : Sat Quiet (stateSet s) := by
  unfold stateSet
  apply Sat.bind
  · apply Sat.modify
    intro c
    simp [Quiet]
  · intro _
    with_reducible apply Sat.emit
    intro c
    simp [Quiet, isDeliver]
