import AsyncFix.Lemmas.SessionInAwait
namespace AsyncFix.Session
open AsyncFix.Generated AsyncFix.Generated.ConnEnum

theorem Msg.set_mtype {m m' : Msg} {t : Nat} {v : String} {b : Bool} (h : m.set t v b = .ok m') :
    m'.mtype = m.mtype := by
  unfold Msg.set at h
  split at h
  · split at h
    · cases h; rfl
    · cases h
  · cases h; rfl

theorem Msg.del_mtype {m m' : Msg} {t : Nat} (h : m.del t = .ok m') : m'.mtype = m.mtype := by
  unfold Msg.del at h
  split at h
  · cases h; rfl
  · cases h

theorem except_bind_ok {α β} {x : Except Exc α} {f : α → Except Exc β} {b : β}
    (h : (x >>= f) = .ok b) : ∃ a, x = .ok a ∧ f a = .ok b := by
  cases x with
  | ok a => exact ⟨a, rfl, h⟩
  | error e => cases h

theorem prepareReplay_mtype {r rp : Msg} (h : prepareReplay r = .ok rp) : rp.mtype = r.mtype := by
  unfold prepareReplay at h
  obtain ⟨r1, h1, h⟩ := except_bind_ok h
  have e1 := Msg.set_mtype h1
  have key : ∀ r2 : Msg, r2.mtype = r1.mtype →
      (do let r ← r2.del tMsgType
          let r ← r.del tBeginString
          let r ← r.del tBodyLength
          let r ← r.del tSendingTime
          let r ← r.del tSenderCompID
          let r ← r.del tTargetCompID
          r.del tCheckSum) = Except.ok rp → rp.mtype = r.mtype := by
    intro r2 e2 h
    obtain ⟨r3, h3, h⟩ := except_bind_ok h
    obtain ⟨r4, h4, h⟩ := except_bind_ok h
    obtain ⟨r5, h5, h⟩ := except_bind_ok h
    obtain ⟨r6, h6, h⟩ := except_bind_ok h
    obtain ⟨r7, h7, h⟩ := except_bind_ok h
    obtain ⟨r8, h8, h⟩ := except_bind_ok h
    rw [Msg.del_mtype h, Msg.del_mtype h8, Msg.del_mtype h7, Msg.del_mtype h6, Msg.del_mtype h5, Msg.del_mtype h4,
      Msg.del_mtype h3, e2, e1]
  dsimp only at h
  split at h
  · exact key r1 rfl h
  · obtain ⟨st, _, h⟩ := except_bind_ok h
    obtain ⟨r2, h2, h⟩ := except_bind_ok h
    exact key r2 (Msg.set_mtype h2) h
