import Driver.Util
import AsyncFix.Model.JournalDB
/-!
Line-protocol commands of the Journal family (`jrn.*`).

One driver process = a sequence of *journal processes* on one database file:
  jrn.start <fuel|->      new empty file, new process: `Journaler(file)`; the process dies after
                          `fuel` execute()/commit() calls (`-` = never)
  jrn.restart <fuel|->    the running process is gone (crash or close): new process on the same file
  jrn.col xT xS           create_or_load
  jrn.sessions            sessions()
  jrn.persist K O I <in|out> xMSG          persist_msg with a FIXSession(key=K, next_num_out=O, next_num_in=I)
  jrn.set K O I <n|-> <n|->                set_seq_num(session, next_num_out, next_num_in)
  jrn.rec K <in|out> B B                   recover_messages; bound B = n<int> | x<utf8 hex>
  jrn.rec1 K <in|out> B                    recover_msg
  jrn.getall <-|[]|k,k,…> <-|in|out>       get_all_msgs
  jrn.fault J <Operational|Data>   the J-th execute()/commit() of the NEXT method call raises that sqlite3 error (once)
  jrn.save / jrn.load     remember / restore the whole connection state (one slot): a long prefix is run once
  jrn.digest              get_all_msgs() as `g <count> <checksum>` (large journals)
  jrn.calls               execute()/commit() calls made by the current process so far
  jrn.findseq xMSG        Journaler.find_seq_no
  jrn.textval xTEXT       how SQLite compares that text parameter with the INTEGER column
Replies of method calls end in ` tx=0|1` (conn.in_transaction); `dead` once the process has died.
-/
namespace Driver.Journal
open AsyncFix.Model.Journal

structure St where
  conn : Conn := {}
  fuel : Option Nat := none
  dead : Bool := true
  calls : Nat := 0
  saved : Conn := {}
  inject : Option (Nat × Kind) := none

def kindStr : Kind → String
  | .fixMessage => "FIXMessage" | .duplicateSeqNo => "DuplicateSeqNo" | .assertion => "Assertion"
  | .overflow => "Overflow" | .integrity => "Integrity" | .stopIteration => "StopIteration"
  | .internal => "Internal" | .operational => "Operational" | .data => "Data"

def handleStr (h : Handle) : String :=
  s!"{h.key}:{Driver.strTok h.target}:{Driver.strTok h.sender}:{h.nextOut}:{h.nextIn}"

def resStr : Res → String
  | .none => "none"
  | .handle h => "h " ++ handleStr h
  | .dict d => "d " ++ ",".intercalate (d.map fun e =>
      s!"{Driver.strTok e.1.1}/{Driver.strTok e.1.2}={handleStr e.2}")
  | .msgs ms => "m " ++ ",".intercalate (ms.map Driver.bytesTok)
  | .msg (some m) => "o " ++ Driver.bytesTok m
  | .msg none => "o none"
  | .rows rs => "r " ++ ",".intercalate (rs.map fun (a, m, d, s) => s!"{a}:{Driver.bytesTok m}:{d}:{s}")
  | .set h none => s!"s {h.nextOut}:{h.nextIn} ok"
  | .set h (some k) => s!"s {h.nextOut}:{h.nextIn} {kindStr k}"
  | .raised k => "e " ++ kindStr k
  | .unmodelled => "unmodelled"

def bigFuel : Nat := 1000000000

/-- order-independent checksum of the rows of get_all_msgs (same arithmetic in harness/c08.py) -/
def digestMod : Int := 2305843009213693951
def rowDigest (r : Int × Bytes × Int × Int) : Int :=
  (r.1 * 1000003 + r.2.2.1 * 7 + r.2.2.2 * 13 + (r.2.1.length : Int) * 17 + ((r.2.1.foldl (· + ·) 0 : Nat) : Int)) % digestMod
def digestStr : Res → String
  | .rows rs => s!"g {rs.length} {(rs.foldl (fun a r => (a + rowDigest r) % digestMod) 0)}"
  | r => resStr r

def runOpWith (fmt : Res → String) (st : St) (p : Prog Res) : St × String :=
  if st.dead then (st, "dead")
  else
    let f := st.fuel.getD bigFuel
    match p.run f st.conn with
    | (c, f', some r) =>
      ({ st with conn := c, fuel := st.fuel.map fun _ => f', calls := st.calls + (f - f') },
        fmt r ++ (if c.inTx then " tx=1" else " tx=0"))
    | (c, f', none) =>
      ({ st with conn := c, fuel := some 0, dead := true, calls := st.calls + (f - f') }, "dead")

def runOp (st : St) (p : Prog Res) : St × String := runOpWith resStr st p

/-- a method call, with the armed collaborator fault (if any) applied to it -/
def runMethod (st : St) (op : Op) : St × String :=
  match st.inject with
  | none => runOp st op.prog
  | some (j, kind) =>
    let st := { st with inject := none }
    if st.dead then (st, "dead")
    else
      let f := st.fuel.getD bigFuel
      match op.prog.runInj op.commitFail kind j f st.conn with
      | (c, f', some r) =>
        ({ st with conn := c, fuel := st.fuel.map fun _ => f', calls := st.calls + (f - f') },
          resStr r ++ (if c.inTx then " tx=1" else " tx=0"))
      | (c, f', none) =>
        ({ st with conn := c, fuel := some 0, dead := true, calls := st.calls + (f - f') }, "dead")

def tokFuel (t : String) : Option (Option Nat) :=
  if t == "-" then some none else t.toNat?.map some

def tokDir (t : String) : Option Dir :=
  if t == "in" then some .inbound else if t == "out" then some .outbound else none

def tokOptInt (t : String) : Option (Option Int) :=
  if t == "-" then some none else t.toInt?.map some

def tokBound (t : String) : Option Bound :=
  match t.toList with
  | 'n' :: rest => (String.ofList rest).toInt?.map Bound.int
  | 'x' :: _ => (Driver.tokBytes t).map Bound.text
  | _ => none

def tokKeys (t : String) : Option (Option (List Int)) :=
  if t == "-" then some none
  else if t == "[]" then some (some [])
  else ((t.splitOn ",").mapM String.toInt?).map some

def tokOptDir (t : String) : Option (Option Dir) :=
  if t == "-" then some none else (tokDir t).map some

def mkHandle (k o i : String) : Option Handle := do
  let k ← k.toInt?
  let o ← o.toInt?
  let i ← i.toInt?
  pure ⟨k, "", "", o, i⟩

def handle (st : St) (cmd : String) (args : List String) : St × String :=
  match cmd, args with
  | "start", [f] =>
    match tokFuel f with
    | some fuel => runOp { st with conn := connect {}, fuel := fuel, dead := false, calls := 0 } openP
    | none => (st, "bad-op")
  | "restart", [f] =>
    match tokFuel f with
    | some fuel => runOp { st with conn := st.conn.crash, fuel := fuel, dead := false, calls := 0 } openP
    | none => (st, "bad-op")
  | "col", [t, s] =>
    match Driver.tokStr t, Driver.tokStr s with
    | some t, some s => runMethod st (Op.createOrLoad t s)
    | _, _ => (st, "bad-op")
  | "sessions", [] => runMethod st Op.sessions
  | "persist", [k, o, i, d, m] =>
    match mkHandle k o i, tokDir d, Driver.tokBytes m with
    | some h, some d, some m => runMethod st (Op.persist m h d)
    | _, _, _ => (st, "bad-op")
  | "set", [k, o, i, a, b] =>
    match mkHandle k o i, tokOptInt a, tokOptInt b with
    | some h, some a, some b => runMethod st (Op.setSeqNum h a b)
    | _, _, _ => (st, "bad-op")
  | "rec", [k, d, lo, hi] =>
    match mkHandle k "0" "0", tokDir d, tokBound lo, tokBound hi with
    | some h, some d, some lo, some hi => runMethod st (Op.recover h d lo hi)
    | _, _, _, _ => (st, "bad-op")
  | "rec1", [k, d, b] =>
    match mkHandle k "0" "0", tokDir d, tokBound b with
    | some h, some d, some b => runMethod st (Op.recoverMsg h d b)
    | _, _, _ => (st, "bad-op")
  | "getall", [ks, d] =>
    match tokKeys ks, tokOptDir d with
    | some ks, some d => runMethod st (Op.getAll ks d)
    | _, _ => (st, "bad-op")
  | "fault", [j, k] =>
    match j.toNat?, (if k == "Operational" then some Kind.operational else if k == "Data" then some Kind.data else none) with
    | some j, some k => ({ st with inject := some (j, k) }, "ok")
    | _, _ => (st, "bad-op")
  | "save", [] => ({ st with saved := st.conn }, "ok")
  | "load", [] => ({ st with conn := st.saved, fuel := none, dead := false, calls := 0 }, "ok")
  | "digest", [] => runOpWith digestStr st (Op.getAll none none).prog
  | "calls", [] => (st, toString st.calls)
  | "findseq", [m] =>
    match Driver.tokBytes m with
    | some m => (st, match findSeqNo m with | some n => s!"some {n}" | none => "none")
    | none => (st, "bad-op")
  | "textval", [t] =>
    match Driver.tokBytes t with
    | some t => (st, match sqlTextVal t with
        | .val n => s!"val {n}" | .posInf => "posinf" | .unmodelled => "unmodelled")
    | none => (st, "bad-op")
  | _, _ => (st, "bad-op")

end Driver.Journal
