import Driver.Util
import Driver.Order
import Driver.OrderObj
import Driver.Journal
import Driver.Codec
import Driver.Container
import Driver.Session
import Driver.Schema
import Driver.Sched
import Driver.Lexical
import Driver.Restart
import Driver.Conc
import Driver.Tester

/-!
Line-protocol driver of the executable models: one request line ↦ one reply line.
Commands are `<family>.<cmd> args…`; every family keeps its own state.
`sync` flushes stdout (used by interactive conversations).
-/

structure DriverState where
  journal : Driver.Journal.St := {}
  codec : Driver.Codec.St := {}
  cont : Driver.Container.St := {}
  sess : Driver.Session.St := {}
  schema : Driver.Schema.St := {}
  sched : Driver.Sched.St := {}
  ordobj : Driver.OrderObj.St := {}
  lex : Driver.Lexical.St := {}
  rst : Driver.Restart.St := {}
  conc : Driver.Conc.St := {}
  tst : Driver.Tester.St := {}

def step (st : DriverState) (line : String) : DriverState × String :=
  match (line.trimAscii.toString.splitOn " ").filter (· ≠ "") with
  | [] => (st, "bad-op")
  | "ping" :: _ => (st, "pong")
  | "ord.cs" :: args => (st, Driver.Order.changeStatusCmd args)
  | cmd :: args =>
    match cmd.splitOn "." with
    | ["jrn", c] => let (s, o) := Driver.Journal.handle st.journal c args; ({ st with journal := s }, o)
    | ["codec", c] => let (s, o) := Driver.Codec.handle st.codec c args; ({ st with codec := s }, o)
    | ["cont", c] => let (s, o) := Driver.Container.handle st.cont c args; ({ st with cont := s }, o)
    | ["sess", c] => let (s, o) := Driver.Session.handle st.sess c args; ({ st with sess := s }, o)
    | ["sch", c] => let (s, o) := Driver.Schema.handle st.schema c args; ({ st with schema := s }, o)
    | ["sched", c] => let (s, o) := Driver.Sched.handle st.sched c args; ({ st with sched := s }, o)
    | ["lex", c] => let (s, o) := Driver.Lexical.handle st.lex c args; ({ st with lex := s }, o)
    | ["rst", c] => let (s, o) := Driver.Restart.handle st.rst c args; ({ st with rst := s }, o)
    | ["conc", c] => let (s, o) := Driver.Conc.handle st.conc c args; ({ st with conc := s }, o)
    | ["tst", c] => let (s, o) := Driver.Tester.handle st.tst c args; ({ st with tst := s }, o)
    | ["oo", c] => let (s, o) := Driver.OrderObj.handle st.ordobj c args; ({ st with ordobj := s }, o)
    | _ => (st, "bad-op")

partial def loop (hin hout : IO.FS.Stream) (st : DriverState) : IO Unit := do
  let line ← hin.getLine
  if line.isEmpty then return ()
  if line.trimAscii.toString == "sync" then
    hout.putStrLn "sync"
    hout.flush
    loop hin hout st
  else
    let (st', out) := step st line
    hout.putStrLn out
    loop hin hout st'

def main : IO Unit := do
  let hin ← IO.getStdin
  let hout ← IO.getStdout
  loop hin hout {}
