import Driver.Util
import Driver.Order

/-- One request line ↦ one reply line.  Families keep their state in `DriverState`. -/
structure DriverState where
  dummy : Unit := ()

def step (st : DriverState) (line : String) : DriverState × String :=
  match (line.trimAscii.toString.splitOn " ").filter (· ≠ "") with
  | "ord.cs" :: args => (st, Driver.Order.changeStatusCmd args)
  | "ping" :: _ => (st, "pong")
  | _ => (st, "bad-op")

partial def loop (hin hout : IO.FS.Stream) (st : DriverState) : IO Unit := do
  let line ← hin.getLine
  if line.isEmpty then return ()
  if line.trimAscii.toString == "sync" then
    hout.putStrLn "sync"
    hout.flush
    loop hin hout st
  else
    let (st', out) := step st line
    hout.putStrLn out
    loop hin hout st'

def main : IO Unit := do
  let hin ← IO.getStdin
  let hout ← IO.getStdout
  loop hin hout {}
