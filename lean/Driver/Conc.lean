import Driver.Util
import Driver.Session
import AsyncFix.Model.SchedRun

/-!
Line-protocol commands of the Sched family (`conc.*`).  Tokens as in `Driver/Session.lean`.

* task     `send <now> <stamp> <msg>` | `tick <now> <stamp>` | `recv <now> <stamp> <msg>`
* letter   `r<i>` | `pause` | `resume`

Commands
* `conc.sched <sr> <paused 0|1> <conn> T <task> T <task> … S <letter>*`
      stateless: initial state, tasks, whole schedule.  Reply: one record per letter joined by ` | `,
      each `<effects of the step, i:eff;…  or -> # <conn> # <task states> # <paused> <drainQ> <opened> <closed>`
      (task states: `new` | `fin` | the yield point's name; drainQ: `i+` woken / `i-` blocked, `-` empty)
* `conc.init …` (same arguments without `S …`) → `ok`, then `conc.step <letter>` → one record
* `conc.seq <sr> <conn> T <task>`  the task run never interleaved (`runSeq`) next to the sequential model:
      `<effects> # <conn> # <yields> # <same 0|1>`
-/
namespace Driver.Conc

open AsyncFix.Session AsyncFix.Sched Driver.Session

structure St where
  s : Option SState := none

def parseTask : List String → Option Task
  | ["send", now, stamp, m] => do pure (.send (← parseEnv now stamp) (← parseMsg m))
  | ["tick", now, stamp] => do pure (.tick (← parseEnv now stamp))
  | ["recv", now, stamp, m] => do pure (.recv (← parseEnv now stamp) (← parseMsg m))
  | _ => none

def parseLetter (t : String) : Option Letter :=
  if t == "pause" then some .pause
  else if t == "resume" then some .resume
  else match t.toList with
    | 'r' :: ds => (String.ofList ds).toNat?.map .run
    | _ => none

/-- split a token list at every `sep` -/
def splitAt (sep : String) (ts : List String) : List (List String) :=
  let rec go : List String → List String → List (List String) → List (List String)
    | [], cur, acc => (cur.reverse :: acc).reverse
    | t :: r, cur, acc => if t == sep then go r [] (cur.reverse :: acc) else go r (t :: cur) acc
  go ts [] []

def showTState : TState → String
  | .fin => "fin"
  | .live none _ => "new"
  | .live (some pt) _ => pt.name

def showLog (es : List (Nat × Effect)) : String :=
  if es.isEmpty then "-" else String.intercalate ";" (es.map fun p => toString p.1 ++ ":" ++ showEffect p.2)

def showQ (q : List (Nat × Bool)) : String :=
  if q.isEmpty then "-" else String.intercalate "," (q.map fun p => toString p.1 ++ (if p.2 then "+" else "-"))

/-- the record of one step: the effects it appended and the state it left -/
def record (before after : SState) : String :=
  showLog (after.log.drop before.log.length) ++ " # " ++ showConn after.conn ++ " # "
    ++ String.intercalate "," (after.tasks.map showTState) ++ " # "
    ++ (if after.paused then "1" else "0") ++ " " ++ showQ after.drainQ ++ " "
    ++ toString after.opened ++ " " ++ toString after.closed

/-- `<sr> <paused> <conn> T task T task …` (no `S` part) -/
def parseInit (args : List String) : Option SState :=
  match args with
  | srT :: pT :: rest => do
    let sr ← parseSr srT
    let paused ← parseBool pT
    let (c, rest) ← parseConn rest
    match rest with
    | "T" :: ts => do
      let tasks ← (splitAt "T" ts).mapM parseTask
      pure (SState.init sr c tasks paused)
    | [] => pure (SState.init sr c [] paused)
    | _ => none
  | _ => none

def runRecords : SState → List Letter → List String → List String
  | _, [], acc => acc.reverse
  | s, l :: r, acc =>
    let s' := s.step l
    runRecords s' r (record s s' :: acc)

def handle (st : St) (cmd : String) (args : List String) : St × String :=
  match cmd with
  | "sched" =>
    match splitAt "S" args with
    | [ini, letters] =>
      match parseInit ini, letters.mapM parseLetter with
      | some s, some ls => (st, String.intercalate " | " (runRecords s ls []))
      | _, _ => (st, "bad-op")
    | _ => (st, "bad-op")
  | "init" =>
    match parseInit args with
    | some s => ({ st with s := some s }, "ok")
    | none => (st, "bad-op")
  | "step" =>
    match st.s, args with
    | some s, [l] =>
      match parseLetter l with
      | some l => let s' := s.step l; ({ st with s := some s' }, record s s')
      | none => (st, "bad-op")
    | _, _ => (st, "bad-op")
  | "seq" =>
    match args with
    | srT :: rest =>
      match parseSr srT, parseConn rest with
      | some sr, some (c, "T" :: tk) =>
        match parseTask tk with
        | some t =>
          let r := t.body sr c
          let o := r.runSeq
          let (c1, e1) : Conn × List Effect :=
            match o with
            | ⟨.ok _, c1, e1⟩ => (c1, e1)
            | ⟨.error ex, c1, e1⟩ => (c1, e1 ++ [.raised ex])
          let (c2, e2) : Conn × List Effect :=
            match t with
            | .send env m => appSend env c m
            | .tick env => tick env c
            | .recv env m => recv sr env c m
          (st, showEffects e1 ++ " # " ++ showConn c1 ++ " # " ++ toString r.yieldsSeq ++ " # "
            ++ (if showEffects e1 == showEffects e2 && showConn c1 == showConn c2 then "1" else "0"))
        | none => (st, "bad-op")
      | _, _ => (st, "bad-op")
    | _ => (st, "bad-op")
  | _ => (st, "bad-op")

end Driver.Conc
