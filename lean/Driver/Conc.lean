import Driver.Util
/- line-protocol commands of the Conc family (stub: filled in by the family's build) -/
namespace Driver.Conc

structure St where
  unit : Unit := ()

def handle (st : St) (cmd : String) (args : List String) : St × String :=
  (st, "bad-op")

end Driver.Conc
