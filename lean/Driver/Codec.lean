import Driver.Util
import AsyncFix.Model.Codec.Decode
import AsyncFix.Model.Codec.Encode
import AsyncFix.Model.Codec.Reader
import AsyncFix.Model.Codec.ReaderProc
import AsyncFix.Generated.Proto
import AsyncFix.Lemmas.CodecSpec
/-!
`codec.*` commands.  Containers travel as comma separated prefix text:
  cont := `I,<k>,node…`      node := `L,<tag>,<val>` | `E,<tag>` | `G,<tag>,<n>,cont…`
(tags / values are `x<hex>` tokens).
-/
namespace Driver.Codec
open AsyncFix.Model.Codec

structure St where
  unit : Unit := ()

def strBytes (s : String) : Bytes := s.toUTF8.toList.map (·.toNat)

def beginString : Bytes := AsyncFix.Generated.Proto.beginStringBytes
def tbl : Tbl := AsyncFix.Generated.Proto.groupsBytes

mutual
def showNode : Node → List String
  | .leaf t v => ["L", Driver.bytesTok t, Driver.bytesTok v]
  | .err t => ["E", Driver.bytesTok t]
  | .group t items => ["G", Driver.bytesTok t, toString items.length] ++ showItems items
def showItems : List (List Node) → List String
  | [] => []
  | it :: rest => showCont it ++ showItems rest
def showNodes : List Node → List String
  | [] => []
  | n :: rest => showNode n ++ showNodes rest
def showCont (c : List Node) : List String := ["I", toString c.length] ++ showNodes c
end

def contTok (c : Cont) : String := ",".intercalate (showCont c)

/-- recursive-descent parser with fuel (token count bounds the depth) -/
def parseCont : Nat → List String → Option (Cont × List String)
  | 0, _ => none
  | fuel + 1, "I" :: k :: rest => do
    let n ← k.toNat?
    parseNodes fuel n rest
  | _, _ => none
where
  parseNodes : Nat → Nat → List String → Option (Cont × List String)
    | _, 0, toks => some ([], toks)
    | 0, _, _ => none
    | fuel + 1, n + 1, toks => do
      let (nd, rest) ← parseNode fuel toks
      let (nds, rest') ← parseNodes fuel n rest
      pure (nd :: nds, rest')
  parseNode : Nat → List String → Option (Node × List String)
    | _, "L" :: t :: v :: rest => do
      let t ← Driver.tokBytes t
      let v ← Driver.tokBytes v
      pure (.leaf t v, rest)
    | _, "E" :: t :: rest => do
      let t ← Driver.tokBytes t
      pure (.err t, rest)
    | fuel + 1, "G" :: t :: n :: rest => do
      let t ← Driver.tokBytes t
      let n ← n.toNat?
      let (items, rest') ← parseItems fuel n rest
      pure (.group t items, rest')
    | _, _ => none
  parseItems : Nat → Nat → List String → Option (List Cont × List String)
    | _, 0, toks => some ([], toks)
    | 0, _, _ => none
    | fuel + 1, n + 1, toks => do
      let (c, rest) ← parseCont fuel toks
      let (cs, rest') ← parseItems fuel n rest
      pure (c :: cs, rest')

def tokCont (t : String) : Option Cont :=
  let toks := t.splitOn ","
  match parseCont (2 * toks.length + 2) toks with
  | some (c, []) => some c
  | _ => none

def showDec : DecRes → String
  | .msg m n raw => s!"msg {n} {Driver.bytesTok raw} {Driver.bytesTok m.mtype} {contTok m.body}"
  | .none n => s!"none {n}"
  | .raised k => s!"raised {k.name}"

def handle (st : St) (cmd : String) (args : List String) : St × String :=
  match cmd, args with
  | "decode", [raw] =>
    match Driver.tokBytes raw with
    | some b => (st, showDec (decode beginString tbl b))
    | none => (st, "bad-op")
  | "wf", [c] =>
    -- the hypothesis of the round-trip theorem (C01), evaluated on a concrete container
    match tokCont c with
    | some c => (st, if wfTop tbl c then "wf" else "not-wf")
    | none => (st, "bad-op")
  | "pyint", [s] =>
    match Driver.tokBytes s with
    | some b => (st, match pyInt b with | some v => s!"some {v}" | none => "none")
    | none => (st, "bad-op")
  | "encode", [mt, c, snd, tgt, nout, raw, now] =>
    match Driver.tokBytes mt, tokCont c, Driver.tokBytes snd, Driver.tokBytes tgt, nout.toInt?, Driver.tokBytes now with
    | some mt, some c, some snd, some tgt, some nout, some now =>
      let (r, s') := encode beginString { mtype := mt, body := c } { sender := snd, target := tgt, nextOut := nout } (raw == "1") now
      match r with
      | .ok f => (st, s!"ok {Driver.bytesTok f} {s'.nextOut}")
      | .error k => (st, s!"err {k.name} {s'.nextOut}")
    | _, _, _, _, _, _ => (st, "bad-op")
  | "send", [mt, c, snd, tgt, nout, now] =>
    -- the encode + latin-1 step of send_msg
    match Driver.tokBytes mt, tokCont c, Driver.tokBytes snd, Driver.tokBytes tgt, nout.toInt?, Driver.tokBytes now with
    | some mt, some c, some snd, some tgt, some nout, some now =>
      let (r, s') := encodeWire beginString { mtype := mt, body := c } { sender := snd, target := tgt, nextOut := nout } now
      match r with
      | .ok f => (st, s!"ok {Driver.bytesTok f} {s'.nextOut}")
      | .error k => (st, s!"err {k.name} {s'.nextOut}")
    | _, _, _, _, _, _ => (st, "bad-op")
  | "feedp", chunks =>
    -- like `feed`, with a processing step that raises for messages carrying tag 9999 (C10)
    match chunks.mapM Driver.tokBytes with
    | none => (st, "bad-op")
    | some cs =>
      let rec goP (buf : Bytes) (acc : List (Msg × Bytes)) (exc : Nat) : List Bytes → Bytes × List (Msg × Bytes) × Nat × String
        | [] => (buf, acc, exc, "-")
        | c :: rest =>
          let r := feedP beginString tbl procTag9999 buf c
          match r.raised, r.stalled with
          | some k, _ => (r.buf, acc ++ r.delivered, exc, "raised:" ++ k.name)
          | none, true => (r.buf, acc ++ r.delivered, exc, "stalled")
          | none, false => goP r.buf (acc ++ r.delivered) (if r.procRaised then exc + 1 else exc) rest
      let (buf, del, exc, flag) := goP [] [] 0 cs
      let ds := del.map fun (m, raw) => s!" D {Driver.bytesTok m.mtype} {contTok m.body} {Driver.bytesTok raw}"
      (st, s!"buf {Driver.bytesTok buf} {flag} E{exc}" ++ String.join ds)
  | "feed", chunks =>
    match chunks.mapM Driver.tokBytes with
    | none => (st, "bad-op")
    | some cs =>
      -- feed chunk by chunk, stop at the first raise / stall
      let rec go (buf : Bytes) (acc : List (Msg × Bytes)) : List Bytes → Bytes × List (Msg × Bytes) × String
        | [] => (buf, acc, "-")
        | c :: rest =>
          let r := feed beginString tbl buf c
          match r.raised, r.stalled with
          | some k, _ => (r.buf, acc ++ r.delivered, "raised:" ++ k.name)
          | none, true => (r.buf, acc ++ r.delivered, "stalled")
          | none, false => go r.buf (acc ++ r.delivered) rest
      let (buf, del, flag) := go [] [] cs
      let ds := del.map fun (m, raw) => s!" D {Driver.bytesTok m.mtype} {contTok m.body} {Driver.bytesTok raw}"
      (st, s!"buf {Driver.bytesTok buf} {flag}" ++ String.join ds)
  | _, _ => (st, "bad-op")

end Driver.Codec
