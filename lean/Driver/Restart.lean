import Driver.Util
import Driver.Session
import AsyncFix.Model.Restart

/-!
Line-protocol commands of the Restart family (`rst.*`, property C09).  Tokens as in `Driver/Session.lean`
(`<conn>`, `<sr>`, `<event>`, `<msg>`).

* `rst.load <conn>`                                   store a connection                      → `ok`
* `rst.ev <sr> <event>`                               ordinary event on the stored connection → `<effects> # <conn>`
* `rst.restart <role>`                                rebuild the stored connection from its journal → `- # <conn>`
* `rst.killsend <k> <role> <now> <stamp> <msg>`       killed after segment k of `send_msg`, rebuilt
                                                      → `<effects before the kill> # <conn after restart>`
* `rst.killrecv <sr> <k> <role> <now> <stamp> <msg>`  killed after segment k of `_process_message`, rebuilt
* `rst.sendstates <role> <conn> E <now> <stamp> <msg>`      stateless: the restarted connection for k = 0..5
                                                            → `<conn> | <conn> | …`  (six entries)
* `rst.recvstates <sr> <role> <conn> E <now> <stamp> <msg>` same for inbound processing
* `rst.evstates <sr> <role> <conn> E <event>`          stateless: `restart c | restart (step c event)`
* `rst.segeq <sr> <conn> E <event>`                   `1` iff running all segments gives exactly the result
                                                      of the sequential model function (send / recv events)
-/
namespace Driver.Restart

open AsyncFix.Session AsyncFix.Restart Driver.Session

structure St where
  conn : Option Conn := none

def reply (es : List Effect) (c : Conn) : String := showEffects es ++ " # " ++ showConn c

def splitAtE : List String → List String → Option (List String × List String)
  | _, [] => none
  | acc, "E" :: rest => some (acc.reverse, rest)
  | acc, t :: rest => splitAtE (t :: acc) rest

def handle (st : St) (cmd : String) (args : List String) : St × String :=
  match cmd, args with
  | "load", rest =>
    match parseConn rest with
    | some (c, []) => ({ st with conn := some c }, "ok")
    | _ => (st, "bad-op")
  | "ev", srT :: evT =>
    match st.conn, parseSr srT, parseEvent evT with
    | some c, some sr, some ev =>
      let (c', es) := step sr c ev
      ({ st with conn := some c' }, reply es c')
    | _, _, _ => (st, "bad-op")
  | "restart", [role] =>
    match st.conn, role.toNat? with
    | some c, some r =>
      let c' := restart c r
      ({ st with conn := some c' }, reply [] c')
    | _, _ => (st, "bad-op")
  | "killsend", [k, role, now, stamp, m] =>
    match st.conn, k.toNat?, role.toNat?, parseEnv now stamp, parseMsg m with
    | some c, some k, some r, some env, some msg =>
      let (c1, es) := sendKilled k env c msg
      let c' := restart c1 r
      ({ st with conn := some c' }, reply es c')
    | _, _, _, _, _ => (st, "bad-op")
  | "killrecv", [srT, k, role, now, stamp, m] =>
    match st.conn, parseSr srT, k.toNat?, role.toNat?, parseEnv now stamp, parseMsg m with
    | some c, some sr, some k, some r, some env, some msg =>
      let (c1, es) := recvKilled k sr env c msg
      let c' := restart c1 r
      ({ st with conn := some c' }, reply es c')
    | _, _, _, _, _, _ => (st, "bad-op")
  | "sendstates", role :: rest =>
    match role.toNat?, parseConn rest with
    | some r, some (c, ["E", now, stamp, m]) =>
      match parseEnv now stamp, parseMsg m with
      | some env, some msg =>
        (st, " | ".intercalate ((List.range 6).map fun k => showConn (sendCrash k env c msg r)))
      | _, _ => (st, "bad-op")
    | _, _ => (st, "bad-op")
  | "recvstates", srT :: role :: rest =>
    match parseSr srT, role.toNat?, parseConn rest with
    | some sr, some r, some (c, ["E", now, stamp, m]) =>
      match parseEnv now stamp, parseMsg m with
      | some env, some msg =>
        (st, " | ".intercalate ((List.range 6).map fun k => showConn (recvCrash k sr env c msg r)))
      | _, _ => (st, "bad-op")
    | _, _, _ => (st, "bad-op")
  | "evstates", srT :: role :: rest =>
    match parseSr srT, role.toNat?, parseConn rest with
    | some sr, some r, some (c, "E" :: evT) =>
      match parseEvent evT with
      | some ev => (st, showConn (restart c r) ++ " | " ++ showConn (restart (step sr c ev).1 r))
      | none => (st, "bad-op")
    | _, _, _ => (st, "bad-op")
  | "segeq", srT :: rest =>
    match parseSr srT, parseConn rest with
    | some sr, some (c, "E" :: evT) =>
      match parseEvent evT with
      | some (.recv env m) =>
        let a := (recvSeq sr env m).run c
        let b := recv sr env c m
        (st, if a.1 == b.1 && a.2 == b.2 then "1" else "0")
      | some (.appSend env m) =>
        let a := (sendSeq env m).run c
        let b := appSend env c m
        (st, if a.1 == b.1 && a.2 == b.2 then "1" else "0")
      | _ => (st, "bad-op")
    | _, _ => (st, "bad-op")
  | _, _ => (st, "bad-op")

end Driver.Restart
