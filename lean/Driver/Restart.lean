import Driver.Util
/- line-protocol commands of the Restart family (stub: filled in by the family's build) -/
namespace Driver.Restart

structure St where
  unit : Unit := ()

def handle (st : St) (cmd : String) (args : List String) : St × String :=
  (st, "bad-op")

end Driver.Restart
