/- Line-protocol helpers: tokens are `x<hex>` (bytes / UTF-8 of a string), decimal ints, or bare words. -/
namespace Driver

def hexVal (c : Char) : Option Nat :=
  if '0' ≤ c ∧ c ≤ '9' then some (c.toNat - '0'.toNat)
  else if 'a' ≤ c ∧ c ≤ 'f' then some (c.toNat - 'a'.toNat + 10)
  else if 'A' ≤ c ∧ c ≤ 'F' then some (c.toNat - 'A'.toNat + 10)
  else none

def unhexList : List Char → Option (List Nat)
  | [] => some []
  | a :: b :: rest => do
      let x ← hexVal a
      let y ← hexVal b
      let r ← unhexList rest
      pure ((x * 16 + y) :: r)
  | _ => none

/-- `x4142` ↦ [0x41, 0x42] -/
def tokBytes (t : String) : Option (List Nat) :=
  match t.toList with
  | 'x' :: rest => unhexList rest
  | _ => none

def hexDigit (n : Nat) : Char := if n < 10 then Char.ofNat (48 + n) else Char.ofNat (87 + n)

def bytesTok (bs : List Nat) : String :=
  String.ofList ('x' :: bs.flatMap fun b => [hexDigit (b / 16 % 16), hexDigit (b % 16)])

/-- token ↦ String (token bytes are UTF-8) -/
def tokStr (t : String) : Option String := do
  let bs ← tokBytes t
  String.fromUTF8? (ByteArray.mk (bs.map (·.toUInt8)).toArray)

def strTok (s : String) : String := bytesTok (s.toUTF8.toList.map (·.toNat))

def tokInt (t : String) : Option Int := t.toInt?

end Driver
