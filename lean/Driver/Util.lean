/- Line-protocol helpers: tokens are `x<hex>` (bytes / UTF-8 of a string), decimal ints, or bare words. -/
namespace Driver

def hexVal (c : Char) : Option Nat :=
  if '0' ≤ c ∧ c ≤ '9' then some (c.toNat - '0'.toNat)
  else if 'a' ≤ c ∧ c ≤ 'f' then some (c.toNat - 'a'.toNat + 10)
  else if 'A' ≤ c ∧ c ≤ 'F' then some (c.toNat - 'A'.toNat + 10)
  else none

def unhexList : List Char → Option (List Nat)
  | [] => some []
  | a :: b :: rest => do
      let x ← hexVal a
      let y ← hexVal b
      let r ← unhexList rest
      pure ((x * 16 + y) :: r)
  | _ => none

def hexNat (cs : List Char) : Option Nat :=
  if cs.isEmpty then none else
  cs.foldl (fun acc c => match acc, hexVal c with
    | some a, some v => some (a * 16 + v)
    | _, _ => none) (some 0)

/-- `x4142` ↦ [0x41, 0x42];  `u41.20ac` ↦ [0x41, 0x20ac] (code points, `u` alone = empty) -/
def tokBytes (t : String) : Option (List Nat) :=
  match t.toList with
  | 'x' :: rest => unhexList rest
  | ['u'] => some []
  | 'u' :: rest => ((String.ofList rest).splitOn ".").mapM fun p => hexNat p.toList
  | _ => none

def hexDigit (n : Nat) : Char := if n < 10 then Char.ofNat (48 + n) else Char.ofNat (87 + n)

def hexOfNat (n : Nat) : String := String.ofList (Nat.toDigits 16 n)

def bytesTok (bs : List Nat) : String :=
  if bs.all (· < 256) then
    String.ofList ('x' :: bs.flatMap fun b => [hexDigit (b / 16 % 16), hexDigit (b % 16)])
  else "u" ++ ".".intercalate (bs.map hexOfNat)

/-- token ↦ String (token bytes are UTF-8) -/
def tokStr (t : String) : Option String := do
  let bs ← tokBytes t
  String.fromUTF8? (ByteArray.mk (bs.map (·.toUInt8)).toArray)

def strTok (s : String) : String := bytesTok (s.toUTF8.toList.map (·.toNat))

def tokInt (t : String) : Option Int := t.toInt?

end Driver
