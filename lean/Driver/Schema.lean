import Driver.Util
/- line-protocol commands of the Schema family (stub: filled in by the family's build) -/
namespace Driver.Schema

structure St where
  unit : Unit := ()

def handle (st : St) (cmd : String) (args : List String) : St × String :=
  (st, "bad-op")

end Driver.Schema
