import Driver.Util
import AsyncFix.Model.Schema
import AsyncFix.Model.SchemaResolve
/-!
Line-protocol commands of the Schema family (`sch.*`).  All strings (tags, names, values) are
`x<hex>` tokens; counts are decimal; flags are `0`/`1`.

  sch.reset                                   forget the dictionary
  sch.field  <tag> <name> <type> <hasEnum>    declare a field
  sch.header  <n> <members>                   member list: `f <tag> <req>` | `g <tag> <req> <k> <k members>`
  sch.trailer <n> <members>
  sch.msg <msgtype> <n> <members>
  sch.wf                                      evaluate `schemaWF` → `wf <0|1> fields=.. messages=..`
  sch.validate <msgtype> <n> <nodes>          node: `p <tag> <value> <verdict>` | `c <tag> <n|r|o>`
                                                    | `g <tag> <items> { <k> <k nodes> }`
                                              verdict = what the real `validate_value` said for
                                              (field, value); the model's `vv` is the set of pairs
                                              sent with verdict 1
  sch.rreset / sch.rdecl <name> <n> <decls>   abstract component declarations:
                                              `f <name> <req>` | `c <name>` | `g <name> <req> <k> <k decls>`
  sch.resolve                                 run the resolver model → `ok <n> {<name> <k> <members>}` |
                                              `runtime <names>` | `assertion`
  sch.rexpand <n> <decls>                     expand a message/header body in the resolved environment
-/
namespace Driver.Schema
open AsyncFix.Model.Schema AsyncFix.Model.SchemaResolve

structure St where
  sch : Schema := { fields := [], header := [], trailer := [], messages := [] }
  decls : List CDecl := []
  env : Env := []

def bit : String → Option Bool
  | "0" => some false
  | "1" => some true
  | _ => none

def parseMembers : Nat → Nat → List String → Option (List Member × List String)
  | 0, _, _ => none
  | _ + 1, 0, toks => some ([], toks)
  | fuel + 1, n + 1, "f" :: t :: r :: toks => do
    let t ← Driver.tokStr t
    let r ← bit r
    let (ms, rest) ← parseMembers fuel n toks
    pure (.field t r :: ms, rest)
  | fuel + 1, n + 1, "g" :: t :: r :: k :: toks => do
    let t ← Driver.tokStr t
    let r ← bit r
    let k ← k.toNat?
    let (gm, rest) ← parseMembers fuel k toks
    let (ms, rest') ← parseMembers fuel n rest
    pure (.group t r gm :: ms, rest')
  | _, _, _ => none

def parseMemberList (args : List String) : Option (List Member) :=
  match args with
  | n :: toks => do
    let n ← n.toNat?
    let (ms, rest) ← parseMembers (toks.length + 2) n toks
    if rest.isEmpty then some ms else none
  | [] => none

abbrev Pairs := List (Tag × String)

mutual
def parseNodes : Nat → Nat → List String → Option (List Node × Pairs × List String)
  | 0, _, _ => none
  | _ + 1, 0, toks => some ([], [], toks)
  | fuel + 1, n + 1, "p" :: t :: v :: b :: toks => do
    let t ← Driver.tokStr t
    let v ← Driver.tokStr v
    let b ← bit b
    let (ns, ps, rest) ← parseNodes fuel n toks
    pure (.plain t v :: ns, (if b then (t, v) :: ps else ps), rest)
  | fuel + 1, n + 1, "c" :: t :: k :: toks => do
    let t ← Driver.tokStr t
    let k ← (match k with | "n" => some ClsKind.notFound | "r" => some .repeating | "o" => some .other | _ => none)
    let (ns, ps, rest) ← parseNodes fuel n toks
    pure (.cls t k :: ns, ps, rest)
  | fuel + 1, n + 1, "g" :: t :: k :: toks => do
    let t ← Driver.tokStr t
    let k ← k.toNat?
    let (items, ps1, rest) ← parseItems fuel k toks
    let (ns, ps2, rest') ← parseNodes fuel n rest
    pure (.group t items :: ns, ps1 ++ ps2, rest')
  | _, _, _ => none
def parseItems : Nat → Nat → List String → Option (List (List Node) × Pairs × List String)
  | 0, _, _ => none
  | _ + 1, 0, toks => some ([], [], toks)
  | fuel + 1, n + 1, k :: toks => do
    let k ← k.toNat?
    let (it, ps1, rest) ← parseNodes fuel k toks
    let (its, ps2, rest') ← parseItems fuel n rest
    pure (it :: its, ps1 ++ ps2, rest')
  | _, _, _ => none
end

def parseDecls : Nat → Nat → List String → Option (List Decl × List String)
  | 0, _, _ => none
  | _ + 1, 0, toks => some ([], toks)
  | fuel + 1, n + 1, "f" :: t :: r :: toks => do
    let t ← Driver.tokStr t
    let r ← bit r
    let (ms, rest) ← parseDecls fuel n toks
    pure (.field t r :: ms, rest)
  | fuel + 1, n + 1, "c" :: t :: toks => do
    let t ← Driver.tokStr t
    let (ms, rest) ← parseDecls fuel n toks
    pure (.comp t :: ms, rest)
  | fuel + 1, n + 1, "g" :: t :: r :: k :: toks => do
    let t ← Driver.tokStr t
    let r ← bit r
    let k ← k.toNat?
    let (gm, rest) ← parseDecls fuel k toks
    let (ms, rest') ← parseDecls fuel n rest
    pure (.group t r gm :: ms, rest')
  | _, _, _ => none

def parseDeclList (args : List String) : Option (List Decl) :=
  match args with
  | n :: toks => do
    let n ← n.toNat?
    let (ms, rest) ← parseDecls (toks.length + 2) n toks
    if rest.isEmpty then some ms else none
  | [] => none

def b01 (b : Bool) : String := if b then "1" else "0"

mutual
def showRMems : List RMem → String
  | [] => ""
  | m :: rest => " " ++ showRMem m ++ showRMems rest
def showRMem : RMem → String
  | .field n r => "f " ++ Driver.strTok n ++ " " ++ b01 r
  | .group n r ms => "g " ++ Driver.strTok n ++ " " ++ b01 r ++ " " ++ toString ms.length ++ showRMems ms
end

def showEnv (env : Env) : String :=
  toString env.length ++ String.join (env.map fun (n, ms) =>
    " " ++ Driver.strTok n ++ " " ++ toString ms.length ++ showRMems ms)

def showOutcome : Outcome → String
  | .ok => "ok"
  | .raised .msgError => "raised msgError"
  | .raised .foreign => "raised foreign"

def handle (st : St) (cmd : String) (args : List String) : St × String :=
  match cmd, args with
  | "reset", [] => ({ st with sch := { fields := [], header := [], trailer := [], messages := [] } }, "ok")
  | "field", [t, n, ty, e] =>
    match Driver.tokStr t, Driver.tokStr n, Driver.tokStr ty, bit e with
    | some t, some n, some ty, some e =>
      ({ st with sch := { st.sch with fields := st.sch.fields ++ [{ tag := t, name := n, ftype := ty, hasEnum := e }] } }, "ok")
    | _, _, _, _ => (st, "bad-op")
  | "header", args =>
    match parseMemberList args with
    | some ms => ({ st with sch := { st.sch with header := ms } }, "ok")
    | none => (st, "bad-op")
  | "trailer", args =>
    match parseMemberList args with
    | some ms => ({ st with sch := { st.sch with trailer := ms } }, "ok")
    | none => (st, "bad-op")
  | "msg", ty :: args =>
    match Driver.tokStr ty, parseMemberList args with
    | some ty, some ms => ({ st with sch := { st.sch with messages := st.sch.messages ++ [(ty, ms)] } }, "ok")
    | _, _ => (st, "bad-op")
  | "wf", [] =>
    (st, "wf " ++ b01 (schemaWF st.sch) ++ " fields=" ++ toString st.sch.fields.length
      ++ " messages=" ++ toString st.sch.messages.length
      ++ " header=" ++ toString st.sch.header.length ++ " trailer=" ++ toString st.sch.trailer.length)
  | "validate", ty :: n :: toks =>
    match Driver.tokStr ty, n.toNat? with
    | some ty, some n =>
      match parseNodes (toks.length + 2) n toks with
      | some (ns, ps, []) =>
        let vv : Tag → String → Bool := fun t s => ps.any fun p => p.1 = t && p.2 = s
        (st, showOutcome (validate vv st.sch { msgType := ty, tags := ns }))
      | _ => (st, "bad-op")
    | _, _ => (st, "bad-op")
  | "rreset", [] => ({ st with decls := [], env := [] }, "ok")
  | "rdecl", n :: args =>
    match Driver.tokStr n, parseDeclList args with
    | some n, some body => ({ st with decls := st.decls ++ [(n, body)] }, "ok")
    | _, _ => (st, "bad-op")
  | "resolve", [] =>
    match resolve st.decls with
    | .ok env => ({ st with env := env }, "ok " ++ showEnv env)
    | .runtimeError names => (st, "runtime" ++ String.join (names.map fun n => " " ++ Driver.strTok n))
    | .assertion => (st, "assertion")
  | "rexpand", args =>
    match parseDeclList args with
    | some body =>
      match expandTop st.env body with
      | some ms => (st, "ok " ++ toString ms.length ++ showRMems ms)
      | none => (st, "fail")
    | none => (st, "bad-op")
  | _, _ => (st, "bad-op")

end Driver.Schema
