import Driver.Util
import AsyncFix.Model.Lexical
import AsyncFix.Model.LexSpec
import AsyncFix.Model.LexClass
/-
Line-protocol commands of the Lexical family (C19).  A value (Python `str`) is the token
`u` followed by six hex digits per code point (`u` alone = the empty string); `n` = a non-str object.
Type names are `x<hex of UTF-8>` tokens.

  lex.v <type> <tag16:0|1> <maxdigits> <value> [<enumerator> …]  ↦ ok | fme | raised:<kind>
  lex.d <type> <maxdigits> <value>                                 ↦ 1 | 0        (the `deviation` predicate)
  lex.s <dtype> <tag16:0|1> <value>                                ↦ 1 | 0        (the SPEC recogniser)
  lex.n <type> <maxdigits> <value>                                 ↦ <narrow marks,>
  lex.ml <value> [<enumerator> …]                                  ↦ 1 | 0        (SPEC: list of enumeration members)
  lex.int <maxdigits> <value>                                      ↦ none | <int>
  lex.float <value>                                                ↦ valueError | nonFinite | finite
  lex.strp <ymd|ym|hms|hmsf|ts|tsf> <value>                        ↦ ok y m d H M S f | noMatch | unconverted | badDate | badTime
  lex.cls <type>                                                   ↦ the dispatch branch
  lex.tables <digits|spaces>                                       ↦ the compiled Unicode tables
-/
namespace Driver.Lexical
open AsyncFix.Py AsyncFix.Model AsyncFix.Model.Lexical

structure St where
  unit : Unit := ()

def cpList : List Char → Option (List Nat)
  | [] => some []
  | a :: b :: c :: d :: e :: f :: rest => do
      let a ← Driver.hexVal a
      let b ← Driver.hexVal b
      let c ← Driver.hexVal c
      let d ← Driver.hexVal d
      let e ← Driver.hexVal e
      let f ← Driver.hexVal f
      let r ← cpList rest
      pure ((((((a * 16 + b) * 16 + c) * 16 + d) * 16 + e) * 16 + f) :: r)
  | _ => none

/-- `u…` ↦ code points -/
def tokCps (t : String) : Option Str :=
  match t.toList with
  | 'u' :: rest => cpList rest
  | _ => none

def tokVal (t : String) : Option PyVal :=
  if t == "n" then some .other else (tokCps t).map .str

def tokBool (t : String) : Option Bool :=
  if t == "1" then some true else if t == "0" then some false else none

def allSome {α : Type} : List (Option α) → Option (List α)
  | [] => some []
  | none :: _ => none
  | some a :: r => (allSome r).map (a :: ·)

def dtypeOf (s : String) : Option LexSpec.DType :=
  match s with
  | "int" => some .int | "posInt" => some .posInt | "dayOfMonth" => some .dayOfMonth
  | "float" => some .float | "string" => some .string | "char" => some .char
  | "boolean" => some .boolean | "code2" => some (.code 2) | "code3" => some (.code 3)
  | "code4" => some (.code 4) | "date" => some .date | "timestamp" => some .timestamp
  | "timeOnly" => some .timeOnly | "monthYear" => some .monthYear | "data" => some .data
  | "length" => some .length
  | _ => none

def fmtOf (s : String) : Option (List Dir) :=
  match s with
  | "ymd" => some fmtYmd | "ym" => some fmtYm | "hms" => some fmtHMS
  | "hmsf" => some (fmtHMS ++ [.lit 46, .f]) | "ts" => some fmtTimestamp
  | "tsf" => some (fmtTimestamp ++ [.lit 46, .f])
  | _ => none

def ftypeName : FType → String
  | .int => "int" | .posInt => "posInt" | .dayOfMonth => "dayOfMonth" | .float => "float"
  | .string => "string" | .char => "char" | .boolean => "boolean" | .code n => s!"code{n}"
  | .date => "date" | .timestamp => "timestamp" | .timeOnly => "timeOnly" | .monthYear => "monthYear"
  | .unchecked => "unchecked" | .unsupported => "unsupported"

def resStr : Res → String
  | .ok => "ok" | .fme => "fme" | .raised k => "raised:" ++ k

def b01 (b : Bool) : String := if b then "1" else "0"

def handle (st : St) (cmd : String) (args : List String) : St × String :=
  (st, match cmd, args with
  | "v", ty :: t16 :: md :: v :: enums =>
    match Driver.tokStr ty, tokBool t16, md.toNat?, tokVal v, allSome (enums.map tokCps) with
    | some ty, some t16, some md, some v, some es =>
      resStr (validateValue { maxStrDigits := md } { tag16 := t16, ftype := classify ty, multi := isMultiName ty, values := es } v)
    | _, _, _, _, _ => "bad-op"
  | "d", [ty, md, v] =>
    match Driver.tokStr ty, md.toNat?, tokCps v with
    | some ty, some md, some s => b01 (LexClass.deviation { maxStrDigits := md } (classify ty) s)
    | _, _, _ => "bad-op"
  | "s", [dt, t16, v] =>
    match dtypeOf dt, tokBool t16, tokCps v with
    | some dt, some t16, some s => b01 (LexSpec.fieldLexical t16 dt s)
    | _, _, _ => "bad-op"
  | "n", [ty, md, v] =>
    match Driver.tokStr ty, md.toNat?, tokCps v with
    | some ty, some md, some s =>
      "n=" ++ ",".intercalate (LexClass.narrowMarks { maxStrDigits := md } (classify ty) s)
    | _, _, _ => "bad-op"
  | "ml", v :: enums =>
    match tokCps v, allSome (enums.map tokCps) with
    | some s, some es => b01 (LexSpec.isMemberList es s)
    | _, _ => "bad-op"
  | "int", [md, v] =>
    match md.toNat?, tokCps v with
    | some md, some s => match pyInt md s with
      | some i => toString i
      | none => "none"
    | _, _ => "bad-op"
  | "float", [v] =>
    match tokCps v with
    | some s => match pyFloat s with
      | .valueError => "valueError" | .nonFinite => "nonFinite" | .finite => "finite"
    | none => "bad-op"
  | "strp", [f, v] =>
    match fmtOf f, tokCps v with
    | some f, some s => match strptime f s with
      | .ok t => s!"ok {t.year.getD 1900} {t.month} {t.day} {t.hour} {t.minute} {t.second} {t.micro}"
      | .noMatch => "noMatch" | .unconverted => "unconverted" | .badDate => "badDate" | .badTime => "badTime"
    | _, _ => "bad-op"
  | "cls", [ty] =>
    match Driver.tokStr ty with
    | some ty => ftypeName (classify ty)
    | none => "bad-op"
  | "tables", ["digits"] => " ".intercalate (AsyncFix.Generated.UniTables.decimalZeros.map toString)
  | "tables", ["spaces"] => " ".intercalate (AsyncFix.Generated.UniTables.spaces.map toString)
  | _, _ => "bad-op")

end Driver.Lexical
