import Driver.Util
import AsyncFix.Model.Session

/-!
Line-protocol commands of the Session family (`sess.*`).

Tokens
* message  `<mtype>,<tag>:<value>,<tag>:<value>…`   (`<mtype>`, `<value>` are `x<hex>` UTF-8 tokens)
* conn     `<state> <role> <wasActive> <sender> <target> <nextIn> <nextOut> <maxResend> <testReqId|none>
            <lastTime ms> <hb> <sock> <storedOut> <storedIn> <nOut> {<seq> <msg>}* <nIn> {<seq> <msg>}*`
* sr       `all` | `none` | `d<seq>,<seq>…` (should_replay declines exactly these MsgSeqNums)
* event    `recv <now> <stamp> <msg>` | `send <now> <stamp> <msg>` | `testreq <now> <stamp>` |
           `disc <now> <stamp> <dstate> <none|reason>` | `tick <now> <stamp>` | `eof <now> <stamp>` |
           `conn init|fail|acc` | `reset`

Commands
* `sess.step <sr> <conn> E <event>`   stateless single step
* `sess.load <conn>`                  store a connection            → `ok`
* `sess.ev <sr> <event>`              step the stored connection
* `sess.feed <sr> <now> <stamp> <n> <msg>*`  inner read loop over n frames on the stored connection
* `sess.pyint <x…>`                   `pyInt` of a string           → integer | `none`
Reply of a step: `<effects joined by ;  (or -)> # <conn>`; `feed` appends ` # <frames left>`.
-/
namespace Driver.Session

open AsyncFix.Session

structure St where
  conn : Option Conn := none

def parseMsg (t : String) : Option Msg :=
  match t.splitOn "," with
  | [] => none
  | ty :: fields => do
    let mtype ← tokStr ty
    let fs ← fields.mapM fun f =>
      match f.splitOn ":" with
      | [a, b] => do
        let tag ← a.toNat?
        let v ← tokStr b
        pure (tag, v)
      | _ => none
    pure { mtype := mtype, tags := fs }

def showMsg (m : Msg) : String :=
  String.intercalate "," (strTok m.mtype :: m.tags.map fun p => toString p.1 ++ ":" ++ strTok p.2)

def parseBool (t : String) : Option Bool :=
  if t == "1" then some true else if t == "0" then some false else none

/-- `n` rows `<seq> <msg>`; returns the rows (inserted in order, duplicates refused) and the rest -/
def parseRows : Nat → List String → Rows → Option (Rows × List String)
  | 0, rest, acc => some (acc, rest)
  | n + 1, s :: m :: rest, acc => do
    let seq ← tokInt s
    let msg ← parseMsg m
    let acc' ← Rows.insert seq msg acc
    parseRows n rest acc'
  | _, _, _ => none

def parseConn (ts : List String) : Option (Conn × List String) :=
  match ts with
  | st :: role :: wa :: snd :: tgt :: nin :: nout :: mr :: tr :: lt :: hb :: sock :: jo :: ji :: no :: rest => do
    let st ← st.toNat?
    let role ← role.toNat?
    let wa ← parseBool wa
    let snd ← tokStr snd
    let tgt ← tokStr tgt
    let nin ← tokInt nin
    let nout ← tokInt nout
    let mr ← tokInt mr
    let tr ← if tr == "none" then some none else (tokInt tr).map some
    let lt ← tokInt lt
    let hb ← tokInt hb
    let sock ← parseBool sock
    let jo ← tokInt jo
    let ji ← tokInt ji
    let no ← no.toNat?
    let (outRows, rest) ← parseRows no rest []
    match rest with
    | ni :: rest => do
      let ni ← ni.toNat?
      let (inRows, rest) ← parseRows ni rest []
      pure ({ state := st, role := role, wasActive := wa,
              sess := { sender := snd, target := tgt, nextIn := nin, nextOut := nout },
              maxResend := mr, testReqId := tr, lastTime := lt, hb := hb, sock := sock,
              journal := { out := outRows, inb := inRows, outSeq := jo, inSeq := ji } }, rest)
    | [] => none
  | _ => none

def showRows (rs : Rows) : List String :=
  toString rs.length :: rs.flatMap fun p => [toString p.1, showMsg p.2]

def showConn (c : Conn) : String :=
  String.intercalate " " <|
    [toString c.state, toString c.role, if c.wasActive then "1" else "0",
     strTok c.sess.sender, strTok c.sess.target, toString c.sess.nextIn, toString c.sess.nextOut,
     toString c.maxResend, match c.testReqId with | none => "none" | some n => toString n,
     toString c.lastTime, toString c.hb, if c.sock then "1" else "0",
     toString c.journal.outSeq, toString c.journal.inSeq]
    ++ showRows c.journal.out ++ showRows c.journal.inb

def showEffect : Effect → String
  | .write f => "W=" ++ showMsg f
  | .deliver m => "D=" ++ showMsg m
  | .onLogon h => "L=" ++ (if h then "1" else "0")
  | .onLogout m => "LO=" ++ showMsg m
  | .onDisconnect => "DC"
  | .onState s => "S=" ++ toString s
  | .onConnect => "CN"
  | .closeSocket => "CS"
  | .caught k => "C=" ++ k.name
  | .raised k => "R=" ++ k.name

def showEffects (es : List Effect) : String :=
  if es.isEmpty then "-" else String.intercalate ";" (es.map showEffect)

def parseSr (t : String) : Option (Msg → Bool) :=
  if t == "all" then some fun _ => true
  else if t == "none" then some fun _ => false
  else match t.toList with
    | 'd' :: r => do
      let ns ← ((String.ofList r).splitOn ",").mapM tokInt
      pure fun m => match (m.get? tMsgSeqNum).bind pyInt with
        | some n => !ns.contains n
        | none => true
    | _ => none

def parseEnv (now stamp : String) : Option Env := do
  let n ← tokInt now
  let s ← tokStr stamp
  pure { now := n, stamp := s }

def parseEvent : List String → Option Event
  | ["recv", now, stamp, m] => do pure (.recv (← parseEnv now stamp) (← parseMsg m))
  | ["send", now, stamp, m] => do pure (.appSend (← parseEnv now stamp) (← parseMsg m))
  | ["testreq", now, stamp] => do pure (.appTestReq (← parseEnv now stamp))
  | ["disc", now, stamp, d, l] => do
    let env ← parseEnv now stamp
    let d ← d.toNat?
    let l ← if l == "none" then some none else (tokStr l).map some
    pure (.appDisconnect env d l)
  | ["tick", now, stamp] => do pure (.tick (← parseEnv now stamp))
  | ["eof", now, stamp] => do pure (.eof (← parseEnv now stamp))
  | ["conn", "init"] => some (.connected .initiator)
  | ["conn", "fail"] => some (.connected .initiatorFailed)
  | ["conn", "acc"] => some (.connected .acceptor)
  | ["reset"] => some .resetSeq
  | _ => none

def stepReply (sr : Msg → Bool) (c : Conn) (ev : Event) : Conn × String :=
  let (c', es) := step sr c ev
  (c', showEffects es ++ " # " ++ showConn c')

/-- an event, or `feed <now> <stamp> <n> <msg>*` = one `read()` chunk of n frames (inner reader loop) -/
def runEv (sr : Msg → Bool) (c : Conn) (evT : List String) : Option (Conn × String) :=
  match evT with
  | "feed" :: now :: stamp :: n :: ms =>
    match parseEnv now stamp, n.toNat?, ms.mapM parseMsg with
    | some env, some n, some msgs =>
      if msgs.length != n then none
      else
        let (c', es, _) := feed sr env c msgs
        some (c', showEffects es ++ " # " ++ showConn c')
    | _, _, _ => none
  | _ => (parseEvent evT).map (stepReply sr c)

def handle (st : St) (cmd : String) (args : List String) : St × String :=
  match cmd, args with
  | "step", srT :: rest =>
    match parseSr srT, parseConn rest with
    | some sr, some (c, "E" :: evT) =>
      match runEv sr c evT with
      | some r => (st, r.2)
      | none => (st, "bad-op")
    | _, _ => (st, "bad-op")
  | "load", rest =>
    match parseConn rest with
    | some (c, []) => ({ st with conn := some c }, "ok")
    | _ => (st, "bad-op")
  | "ev", srT :: evT =>
    match st.conn, parseSr srT with
    | some c, some sr =>
      match runEv sr c evT with
      | some (c', r) => ({ st with conn := some c' }, r)
      | none => (st, "bad-op")
    | _, _ => (st, "bad-op")
  | "feed", srT :: now :: stamp :: n :: ms =>
    match st.conn, parseSr srT, parseEnv now stamp, n.toNat?, ms.mapM parseMsg with
    | some c, some sr, some env, some n, some msgs =>
      if msgs.length != n then (st, "bad-op")
      else
        let (c', es, rest) := feed sr env c msgs
        ({ st with conn := some c' }, showEffects es ++ " # " ++ showConn c' ++ " # " ++ toString rest.length)
    | _, _, _, _, _ => (st, "bad-op")
  | "pyint", [t] =>
    match tokStr t with
    | some s => (st, match pyInt s with | some n => toString n | none => "none")
    | none => (st, "bad-op")
  | _, _ => (st, "bad-op")

end Driver.Session
