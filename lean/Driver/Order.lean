import Driver.Util
import AsyncFix.Generated.OrderTable
namespace Driver.Order
open AsyncFix.Model.OrderTable

/-- `ord.cs <status> <kind> <exec> <rep> <0|1>` -/
def changeStatusCmd (args : List String) : String :=
  match args with
  | [s, k, e, r, m] =>
    match Driver.tokStr s, Driver.tokStr k, Driver.tokStr e, Driver.tokStr r with
    | some s, some k, some e, some r =>
      match changeStatus AsyncFix.Generated.OrderTable.spec s k e r (m == "1") with
      | .to x => "to " ++ Driver.strTok x
      | .none => "none"
      | .raised => "raised"
    | _, _, _, _ => "bad-op"
  | _ => "bad-op"

end Driver.Order
