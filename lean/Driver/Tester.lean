import Driver.Util
import Driver.Session
import AsyncFix.Model.TesterDict
import AsyncFix.Model.TesterWire

/-!
Line-protocol commands of the Tester family (`tst.*`).

Tokens
* num      `f<eighths>` (a Python float) | `i<eighths>` (a Python int) | `nan`
* ostr     `none` | `x<hex>`
* order    `<clord> <orig:ostr> <orderId:ostr> <qty> <price> <cum> <leaves> <avgPx:num|nan> <status> <side>
            <ticker> <ordType> <account:ostr>`                                   (13 tokens)
* tstate   `<orderCtr> <execCtr> <n> <registered key>* <k> {<ClOrdID root> <OrderID>}*`   (`_order_ids`)
* args     `<clord> <execType> <ordStatus> <cum> <leaves> <last> <price> <orderQty> <orig:ostr> <avgPrice>`
* schema   `0` (no schema) | `1` (the dictionary check of Model/TesterDict.lean)
* message  as in `sess.*` (`<mtype>,<tag>:<value>…`)

Commands
* `tst.fab <schema> <tstate> O <order> A <args>`
    → `<tstate'> # ok <message> # <proc>` | `<tstate'> # refused <kind>`
  where `<proc>` is the order object's `process_execution_report` on the fabricated report:
  `ok <0|1> <order'>` | `raised <kind>`
* `tst.cxlrej <schema> <request message> <ordStatus> O <order>`  → `ok <message> # <proc>` | `refused <kind>`
* `tst.cxlreq <schema> <tstate> O <order> <nextClord> <time>`    → `<tstate'> # <order'> # ok <message>|refused <kind>`
* `tst.repreq <schema> <tstate> O <order> <price> <qty> <nextClord> <time>`  → same
* `tst.reg <tstate> <clord>`  → `<tstate'>`
* `tst.msg logon <tag:value>*` | `logout` | `hb <ostr>` | `testreq <id>` | `seqreset <seq> <new> <0|1>` |
  `resend <b> <e>`   → `<message> # <dictCheck 0|1>`
* `tst.dict <message>` → `0|1`
* wiring (`conn`, `sr`, message tokens as in `sess.*`; `|` separates the parts):
  `tst.mkacc <conn>` / `tst.realacc <conn>`   → `<conn>` of the simulated / a real acceptor for that initiator
  `tst.tstep <srI> <srA> <fuel> <now> <stamp> <connI> | <connA> | <n> <queued frame>* OP <op>`
      → `<outcome> # <effects I> # <effects A> # <connI'> # <connA'> # <n> <queued frame>*`
  `tst.lstep <srI> <srA> <now> <stamp> <connI> | <connA> OP <op>`
      → `<quiet 0|1> # <effects I> # <effects A> # <connI'> # <connA'>`
  op: `isend <msg>` | `itestreq` | `asend <msg>` | `atestreq`.  On the tester's acceptor `on_message` shows as `SNI`
  (NotImplementedError swallowed).
-/
namespace Driver.Tester

open AsyncFix.Tester AsyncFix.Session

structure St where
  unit : Unit := ()

def parseNum (t : String) : Option (Option Num) :=
  if t == "nan" then some none
  else match t.toList with
    | 'f' :: r => (String.ofList r).toInt?.map fun e => some ⟨e, true⟩
    | 'i' :: r => (String.ofList r).toInt?.map fun e => some ⟨e, false⟩
    | _ => none

def parseNum1 (t : String) : Option Num := (parseNum t).bind id

def showNum (n : Num) : String := (if n.isFloat then "f" else "i") ++ toString n.e

def parseOStr (t : String) : Option (Option String) :=
  if t == "none" then some none else (Driver.tokStr t).map some

def showOStr : Option String → String
  | none => "none"
  | some s => Driver.strTok s

def parseOrder : List String → Option (OrderView × List String)
  | cl :: og :: oid :: qty :: px :: cum :: lv :: avg :: st :: side :: tk :: ot :: acc :: rest => do
    let cl ← Driver.tokStr cl
    let og ← parseOStr og
    let oid ← parseOStr oid
    let qty ← parseNum1 qty
    let px ← parseNum1 px
    let cum ← parseNum1 cum
    let lv ← parseNum1 lv
    let avg ← parseNum avg
    let st ← Driver.tokStr st
    let side ← Driver.tokStr side
    let tk ← Driver.tokStr tk
    let ot ← Driver.tokStr ot
    let acc ← parseOStr acc
    pure ({ clordId := cl, origClordId := og, orderId := oid, qty := qty, price := px, cumQty := cum,
            leavesQty := lv, avgPx := avg, status := st, side := side, ticker := tk, ordType := ot,
            account := acc }, rest)
  | _ => none

def showOrder (o : OrderView) : String :=
  String.intercalate " "
    [Driver.strTok o.clordId, showOStr o.origClordId, showOStr o.orderId, showNum o.qty, showNum o.price,
     showNum o.cumQty, showNum o.leavesQty, (match o.avgPx with | none => "nan" | some n => showNum n),
     Driver.strTok o.status, Driver.strTok o.side, Driver.strTok o.ticker, Driver.strTok o.ordType,
     showOStr o.account]

def takeN {α} : Nat → List α → Option (List α × List α)
  | 0, r => some ([], r)
  | n + 1, x :: r => (takeN n r).map fun p => (x :: p.1, p.2)
  | _ + 1, [] => none

def parsePairs : Nat → List String → Option (List (List Nat × Nat) × List String)
  | 0, r => some ([], r)
  | n + 1, a :: b :: r => do
    let root ← Driver.tokStr a
    let k ← b.toNat?
    let (ps, r) ← parsePairs n r
    pure ((root.toList.map Char.toNat, k) :: ps, r)
  | _ + 1, _ => none

def parseTState : List String → Option (TState × List String)
  | oc :: ec :: n :: rest => do
    let oc ← oc.toNat?
    let ec ← ec.toNat?
    let n ← n.toNat?
    let (ks, rest) ← takeN n rest
    let ks ← ks.mapM Driver.tokStr
    match rest with
    | k :: rest => do
      let k ← k.toNat?
      let (ps, rest) ← parsePairs k rest
      pure ({ orderCtr := oc, execCtr := ec, registered := ks, orderIds := ps }, rest)
    | [] => none
  | _ => none

def showTState (st : TState) : String :=
  String.intercalate " " ([toString st.orderCtr, toString st.execCtr, toString st.registered.length]
    ++ st.registered.map Driver.strTok ++ [toString st.orderIds.length]
    ++ st.orderIds.flatMap fun p => [Driver.strTok (String.ofList (p.1.map Char.ofNat)), toString p.2])

def parseArgs : List String → Option (Args × List String)
  | cl :: ex :: os :: cum :: lv :: last :: px :: oq :: og :: avg :: rest => do
    let cl ← Driver.tokStr cl
    let ex ← Driver.tokStr ex
    let os ← Driver.tokStr os
    let cum ← parseNum cum
    let lv ← parseNum lv
    let last ← parseNum last
    let px ← parseNum px
    let oq ← parseNum oq
    let og ← parseOStr og
    let avg ← parseNum1 avg
    pure ({ clordId := cl, execType := ex, ordStatus := os, cumQty := cum, leavesQty := lv, lastQty := last,
            price := px, orderQty := oq, origClordId := og, avgPrice := avg }, rest)
  | _ => none

def parseSchema (t : String) : Option (Option (RMsg → Bool)) :=
  if t == "0" then some none else if t == "1" then some (some dictSchema) else none

def showSite (s : Site) : String := (reprStr s).replace "AsyncFix.Tester.Site." ""

def showRefusal : Refusal → String
  | .assertion s => "assert:" ++ showSite s
  | .schema => "schema"
  | .tagNotFound => "TagNotFound"
  | .fixError => "FIXError"

def showPExc : PExc → String
  | .fixError => "FIXError"
  | .tagNotFound => "TagNotFound"
  | .value => "Value"

def showProc : Except PExc (OrderView × Bool) → String
  | .ok (o, b) => "ok " ++ (if b then "1" else "0") ++ " " ++ showOrder o
  | .error k => "raised " ++ showPExc k

def showRMsg (m : RMsg) : String := Driver.Session.showMsg m.render

def showReq (r : TState × OrderView × Except Refusal RMsg) : String :=
  showTState r.1 ++ " # " ++ showOrder r.2.1 ++ " # " ++
    (match r.2.2 with | .ok m => "ok " ++ showRMsg m | .error k => "refused " ++ showRefusal k)

def parseTagVal (f : String) : Option (Nat × String) :=
  match f.splitOn ":" with
  | [a, b] => do pure (← a.toNat?, ← Driver.tokStr b)
  | _ => none

def showMsgCheck (m : Msg) : String :=
  Driver.Session.showMsg m ++ " # " ++ (if dictCheck m then "1" else "0")

def handleFab (cmd : String) (args : List String) : Option String :=
  match cmd, args with
  | "fab", sc :: rest => do
    let sc ← parseSchema sc
    let (st, rest) ← parseTState rest
    match rest with
    | "O" :: rest => do
      let (o, rest) ← parseOrder rest
      match rest with
      | "A" :: rest => do
        let (a, rest) ← parseArgs rest
        if !rest.isEmpty then none
        else
          let (st', r) := fabricate sc st o a
          match r with
          | .ok m => pure (showTState st' ++ " # ok " ++ showRMsg m ++ " # " ++ showProc (processExecReport o m))
          | .error k => pure (showTState st' ++ " # refused " ++ showRefusal k)
      | _ => none
    | _ => none
  | "cxlrej", sc :: req :: os :: "O" :: rest => do
    let sc ← parseSchema sc
    let req ← Driver.Session.parseMsg req
    let os ← Driver.tokStr os
    let (o, rest) ← parseOrder rest
    if !rest.isEmpty then none
    else match cxlReject sc req os with
      | .ok m => pure ("ok " ++ showRMsg m ++ " # " ++ showProc (processCxlRej o m))
      | .error k => pure ("refused " ++ showRefusal k)
  | "cxlreq", sc :: rest => do
    let sc ← parseSchema sc
    let (st, rest) ← parseTState rest
    match rest with
    | "O" :: rest => do
      let (o, rest) ← parseOrder rest
      match rest with
      | [nc, tm] => do pure (showReq (cxlRequest sc st o (← Driver.tokStr nc) (← Driver.tokStr tm)))
      | _ => none
    | _ => none
  | "repreq", sc :: rest => do
    let sc ← parseSchema sc
    let (st, rest) ← parseTState rest
    match rest with
    | "O" :: rest => do
      let (o, rest) ← parseOrder rest
      match rest with
      | [px, q, nc, tm] => do
        pure (showReq (repRequest sc st o (← parseNum px) (← parseNum q) (← Driver.tokStr nc) (← Driver.tokStr tm)))
      | _ => none
    | _ => none
  | "reg", rest => do
    let (st, rest) ← parseTState rest
    match rest with
    | [cl] => do
      let cl ← Driver.tokStr cl
      pure (showTState (register st { clordId := cl, qty := ⟨0, true⟩, price := ⟨0, true⟩ }))
    | _ => none
  | "msg", "logon" :: fs => do pure (showMsgCheck (msgLogon (← fs.mapM parseTagVal)))
  | "msg", ["logout"] => pure (showMsgCheck msgLogout)
  | "msg", ["hb", t] => do pure (showMsgCheck (msgHeartbeat (← parseOStr t)))
  | "msg", ["testreq", t] => do pure (showMsgCheck (msgTestRequest (← Driver.tokStr t)))
  | "msg", ["seqreset", a, b, g] => do
    pure (showMsgCheck (msgSequenceReset (← Driver.tokStr a) (← Driver.tokStr b) (← Driver.Session.parseBool g)))
  | "msg", ["resend", a, b] => do pure (showMsgCheck (msgResendRequest (← Driver.tokStr a) (← Driver.tokStr b)))
  | "dict", [m] => do pure (if dictCheck (← Driver.Session.parseMsg m) then "1" else "0")
  | _, _ => none

/-! ### wiring -/

def parseOp : List String → Option Op
  | ["isend", m] => (Driver.Session.parseMsg m).map .iSend
  | ["itestreq"] => some .iTestReq
  | ["asend", m] => (Driver.Session.parseMsg m).map .aSend
  | ["atestreq"] => some .aTestReq
  | _ => none

def showAccEffects (es : List Effect) : String :=
  if es.isEmpty then "-" else String.intercalate ";" (es.map fun e =>
    match accView e with
    | .eff e => Driver.Session.showEffect e
    | .swallowedNotImplemented _ => "SNI")

def showOutcome (o : Outcome) : String := (reprStr o).replace "AsyncFix.Tester.Outcome." ""

def showQue (q : List Msg) : String :=
  String.intercalate " " (toString q.length :: q.map Driver.Session.showMsg)

def handleWire (cmd : String) (args : List String) : Option String :=
  match cmd, args with
  | "mkacc", rest => do
    let (c, rest) ← Driver.Session.parseConn rest
    if rest.isEmpty then pure (Driver.Session.showConn (mkAcceptor c)) else none
  | "realacc", rest => do
    let (c, rest) ← Driver.Session.parseConn rest
    if rest.isEmpty then pure (Driver.Session.showConn (realAcceptor c)) else none
  | "tstep", srI :: srA :: fuel :: now :: stamp :: rest => do
    let srI ← Driver.Session.parseSr srI
    let srA ← Driver.Session.parseSr srA
    let fuel ← fuel.toNat?
    let env ← Driver.Session.parseEnv now stamp
    let (ci, rest) ← Driver.Session.parseConn rest
    match rest with
    | "|" :: rest => do
      let (ca, rest) ← Driver.Session.parseConn rest
      match rest with
      | "|" :: n :: rest => do
        let n ← n.toNat?
        let (q, rest) ← takeN n rest
        let q ← q.mapM Driver.Session.parseMsg
        match rest with
        | "OP" :: opT => do
          let op ← parseOp opT
          let r := tStep srI srA env fuel ⟨ci, ca, q⟩ op
          pure (String.intercalate " # "
            [showOutcome r.out, Driver.Session.showEffects r.effI, showAccEffects r.effA,
             Driver.Session.showConn r.pair.ci, Driver.Session.showConn r.pair.ca, showQue r.pair.que])
        | _ => none
      | _ => none
    | _ => none
  | "lstep", srI :: srA :: now :: stamp :: rest => do
    let srI ← Driver.Session.parseSr srI
    let srA ← Driver.Session.parseSr srA
    let env ← Driver.Session.parseEnv now stamp
    let (ci, rest) ← Driver.Session.parseConn rest
    match rest with
    | "|" :: rest => do
      let (ca, rest) ← Driver.Session.parseConn rest
      match rest with
      | "OP" :: opT => do
        let op ← parseOp opT
        let r := lStep srI srA env ci ca op
        pure (String.intercalate " # "
          [if r.quiet then "1" else "0", Driver.Session.showEffects r.effI, Driver.Session.showEffects r.effA,
           Driver.Session.showConn r.ci, Driver.Session.showConn r.ca])
      | _ => none
    | _ => none
  | _, _ => none

def handle (st : St) (cmd : String) (args : List String) : St × String :=
  match handleFab cmd args with
  | some r => (st, r)
  | none =>
    match handleWire cmd args with
    | some r => (st, r)
    | none => (st, "bad-op")

end Driver.Tester
