import Driver.Util
/- line-protocol commands of the Tester family (stub: filled in by the family's build) -/
namespace Driver.Tester

structure St where
  unit : Unit := ()

def handle (st : St) (cmd : String) (args : List String) : St × String :=
  (st, "bad-op")

end Driver.Tester
