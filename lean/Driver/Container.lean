import Driver.Util
import AsyncFix.Model.Container
/-!
Line-protocol commands of the Container family (`cont.*`).  Stateful: a store of named containers
(`FIXContainer` / `FIXMessage` objects of the Python side); a reference is `name` or
`name/x<tag>:<idx>/…` (the idx-th item of the group under that tag, nested).

tokens   text      `x<hex>` (UTF-8, surrogates passed through)
         object    `i:<int>` `s:<text>` `f:<text>` (FTag member) `e:<text>` (other enum member)
                   `o:<text>:i<int>` / `o:<text>:E<Kind>` (any other object: str() and int() outcome)
         value     object | class;  class = `c:tnf` `c:rep` `c:exc:<text>` `c:oth:<text>`
         default   `d:<text>` | `ds:<text>` | class
         dict      `{ obj (value | [ item* ]) … }`,  item = dict | `@ref` (a copy) | `bad`
replies  `ok` / `err <Kind>` / values as documented at each command; `bad-op` if unparsable
-/
namespace Driver.Container
open AsyncFix.Py AsyncFix.Model.Container

structure Entry where
  mt : Option Str := none
  body : Cont := []

structure St where
  store : List (String × Entry) := []

/-! ### text tokens -/

def utf8Enc (c : Nat) : List Nat :=
  if c < 0x80 then [c]
  else if c < 0x800 then [0xC0 + c / 64, 0x80 + c % 64]
  else if c < 0x10000 then [0xE0 + c / 4096, 0x80 + c / 64 % 64, 0x80 + c % 64]
  else [0xF0 + c / 262144, 0x80 + c / 4096 % 64, 0x80 + c / 64 % 64, 0x80 + c % 64]

def utf8Dec : List Nat → Option (List Nat)
  | [] => some []
  | b :: rest =>
    if b < 0x80 then (utf8Dec rest).map (b :: ·)
    else if b < 0xC0 then none
    else if b < 0xE0 then
      match rest with
      | b1 :: r => (utf8Dec r).map (((b - 0xC0) * 64 + (b1 - 0x80)) :: ·)
      | _ => none
    else if b < 0xF0 then
      match rest with
      | b1 :: b2 :: r => (utf8Dec r).map (((b - 0xE0) * 4096 + (b1 - 0x80) * 64 + (b2 - 0x80)) :: ·)
      | _ => none
    else
      match rest with
      | b1 :: b2 :: b3 :: r =>
        (utf8Dec r).map (((b - 0xF0) * 262144 + (b1 - 0x80) * 4096 + (b2 - 0x80) * 64 + (b3 - 0x80)) :: ·)
      | _ => none

def tokText (t : String) : Option Str := do
  let bs ← Driver.tokBytes t
  utf8Dec bs

def textTok (s : Str) : String := Driver.bytesTok (s.flatMap utf8Enc)

def kindName : Kind → String
  | .fixMessageError => "FIXMessageError" | .tagNotFound => "TagNotFound" | .duplicated => "Duplicated"
  | .repeating => "Repeating" | .unmapped => "Unmapped" | .keyError => "Key"
  | .attributeError => "Attribute" | .valueError => "Value" | .typeError => "Type"
  | .indexError => "Index" | .overflowError => "Overflow"

def kindOf : String → Option Kind
  | "FIXMessageError" => some .fixMessageError | "TagNotFound" => some .tagNotFound
  | "Duplicated" => some .duplicated | "Repeating" => some .repeating | "Unmapped" => some .unmapped
  | "Key" => some .keyError | "Attribute" => some .attributeError | "Value" => some .valueError
  | "Type" => some .typeError | "Index" => some .indexError | "Overflow" => some .overflowError
  | _ => none

def tokCls (parts : List String) : Option Cls :=
  match parts with
  | ["c", "tnf"] => some .tagNotFound
  | ["c", "rep"] => some .repeating
  | ["c", "exc", x] => (tokText x).map .exc
  | ["c", "oth", x] => (tokText x).map .other
  | _ => none

def clsTok : Cls → String
  | .tagNotFound => "c:tnf" | .repeating => "c:rep"
  | .exc r => "c:exc:" ++ textTok r | .other r => "c:oth:" ++ textTok r

def tokObj (t : String) : Option PyObj :=
  match t.splitOn ":" with
  | ["i", n] => (Driver.tokInt n).map .int
  | ["s", x] => (tokText x).map .str
  | ["f", x] => (tokText x).map .ftag
  | ["e", x] => (tokText x).map .enum
  | ["o", x, r] =>
    match tokText x, r.toList with
    | some s, 'i' :: n => (Driver.tokInt (String.ofList n)).map fun n => .other s (.ok n)
    | some s, 'E' :: k => (kindOf (String.ofList k)).map fun k => .other s (.error k)
    | _, _ => none
  | _ => none

def tokVal (t : String) : Option PyVal :=
  match tokObj t with
  | some o => some (.obj o)
  | none => (tokCls (t.splitOn ":")).map .cls

/-- `d:<repr>` a non-str, non-class default; `ds:<text>` a str default (a returned str default is
indistinguishable from a stored str, so it is replied as `str`) -/
def tokDefault (t : String) : Option (Default × Bool) :=
  match t.splitOn ":" with
  | ["d", x] => (tokText x).map fun r => (.obj r, false)
  | ["ds", x] => (tokText x).map fun r => (.obj r, true)
  | parts => (tokCls parts).map fun k => (.cls k, false)

/-! ### canonical structure dump -/

mutual
def dumpVal : Val → String
  | .str s => "s" ++ textTok s
  | .cls k => clsTok k
  | .group items => "[" ++ dumpItems items ++ "]"
def dumpItems : List (List (Str × Val)) → String
  | [] => ""
  | g :: gs => "{" ++ dumpFields g ++ "}" ++ dumpItems gs
def dumpFields : List (Str × Val) → String
  | [] => ""
  | (t, v) :: rest => textTok t ++ "=" ++ dumpVal v ++ ";" ++ dumpFields rest
end

def dumpCont (c : Cont) : String := "{" ++ dumpFields c ++ "}"

def dumpEntry (e : Entry) : String :=
  match e.mt with
  | none => dumpCont e.body
  | some mt => "M" ++ textTok mt ++ dumpCont e.body

/-! ### references -/

def findEntry (st : St) (name : String) : Option Entry :=
  (st.store.find? (·.1 == name)).map (·.2)

def putEntry (st : St) (name : String) (e : Entry) : St :=
  if st.store.any (·.1 == name) then
    { st with store := st.store.map fun p => if p.1 == name then (name, e) else p }
  else { st with store := st.store ++ [(name, e)] }

def parsePath : List String → Option (List (Str × Nat))
  | [] => some []
  | seg :: rest =>
    match seg.splitOn ":" with
    | [t, i] => do
      let t ← tokText t
      let i ← i.toNat?
      let r ← parsePath rest
      pure ((t, i) :: r)
    | _ => none

def getPath (c : Cont) : List (Str × Nat) → Option Cont
  | [] => some c
  | (t, i) :: rest =>
    match lookup t c with
    | some (.group items) => match items[i]? with
      | some g => getPath g rest
      | none => none
    | _ => none

/-- replace the container at `path` inside `c` -/
def setPath (c : Cont) (path : List (Str × Nat)) (new : Cont) : Option Cont :=
  match path with
  | [] => some new
  | (t, i) :: rest =>
    match lookup t c with
    | some (.group items) => match items[i]? with
      | some g => match setPath g rest new with
        | some g' => some (dictSet t (.group (items.set i g')) c)
        | none => none
      | none => none
    | _ => none

structure Ref where
  name : String
  path : List (Str × Nat)

def parseRef (r : String) : Option Ref :=
  match r.splitOn "/" with
  | [] => none
  | name :: segs => (parsePath segs).map fun p => { name := name, path := p }

def resolve (st : St) (r : String) : Option (Ref × Entry × Cont) := do
  let ref ← parseRef r
  let e ← findEntry st ref.name
  let c ← getPath e.body ref.path
  pure (ref, e, c)

def writeBack (st : St) (ref : Ref) (e : Entry) (c' : Cont) : Option St := do
  let b ← setPath e.body ref.path c'
  pure (putEntry st ref.name { e with body := b })

/-! ### dict literals -/

mutual
/-- after `{`: entries up to the matching `}` -/
def parseEntries (st : St) : Nat → List String → Option (List DEntry × List String)
  | 0, _ => none
  | _ + 1, "}" :: rest => some ([], rest)
  | fuel + 1, k :: "[" :: rest => do
    let t ← tokObj k
    let (items, rest) ← parseItems st fuel rest
    let (es, rest) ← parseEntries st fuel rest
    pure (.mk t (.list items) :: es, rest)
  | fuel + 1, k :: v :: rest => do
    let t ← tokObj k
    let v ← tokVal v
    let (es, rest) ← parseEntries st fuel rest
    pure (.mk t (.plain v) :: es, rest)
  | _, _ => none
/-- after `[`: items up to the matching `]` -/
def parseItems (st : St) : Nat → List String → Option (List DItem × List String)
  | 0, _ => none
  | _ + 1, "]" :: rest => some ([], rest)
  | fuel + 1, "{" :: rest => do
    let (es, rest) ← parseEntries st fuel rest
    let (is, rest) ← parseItems st fuel rest
    pure (.dict es :: is, rest)
  | fuel + 1, "bad" :: rest => do
    let (is, rest) ← parseItems st fuel rest
    pure (.bad :: is, rest)
  | fuel + 1, tok :: rest =>
    match tok.toList with
    | '@' :: r => do
      let (_, _, c) ← resolve st (String.ofList r)
      let (is, rest) ← parseItems st fuel rest
      pure (.cont c :: is, rest)
    | _ => none
  | _, _ => none
end

/-- a complete dict literal `{ … }` with nothing after it -/
def parseDict (st : St) (toks : List String) : Option (List DEntry) :=
  match toks with
  | "{" :: rest =>
    match parseEntries st (toks.length + 1) rest with
    | some (es, []) => some es
    | _ => none
  | _ => none

def parseItemList (st : St) (toks : List String) : Option (List DItem) :=
  match toks with
  | "[" :: rest =>
    match parseItems st (toks.length + 1) rest with
    | some (is, []) => some is
    | _ => none
  | _ => none

def parseItem (st : St) (toks : List String) : Option DItem :=
  match parseItemList st (("[" :: toks) ++ ["]"]) with
  | some [i] => some i
  | _ => none

/-- plain dict `{ obj obj … }` for `==` -/
def parsePlainDict : List String → Option (List (PyObj × PyObj))
  | ["}"] => some []
  | k :: v :: rest => do
    let k ← tokObj k
    let v ← tokObj v
    let r ← parsePlainDict rest
    pure ((k, v) :: r)
  | _ => none

/-! ### replies -/

def errReply (k : Kind) : String := "err " ++ kindName k

def getResTok : GetRes → String
  | .str s => "str " ++ textTok s
  | .cls k => "cls " ++ clsTok k
  | .dflt r => "dflt " ++ textTok r

def getResTok1 : GetRes → String
  | .str s => "s" ++ textTok s
  | .cls k => clsTok k
  | .dflt r => "d" ++ textTok r

def boolTok (b : Bool) : String := if b then "True" else "False"

/-- run a mutator on the referenced container and write the result back -/
def mutate (st : St) (r : String) (f : Cont → Except Kind Cont) : St × String :=
  match resolve st r with
  | none => (st, "bad-op")
  | some (ref, e, c) =>
    match f c with
    | .error k => (st, errReply k)
    | .ok c' =>
      match writeBack st ref e c' with
      | some st' => (st', "ok")
      | none => (st, "bad-op")

def reader (st : St) (r : String) (f : Cont → String) : St × String :=
  match resolve st r with
  | none => (st, "bad-op")
  | some (_, _, c) => (st, f c)

/-- run-length summary of `pyIntOfString` on a context string for every code point of a range -/
def scanRange (lo hi ctx : Nat) : String :=
  let mk (c : Nat) : Str :=
    match ctx with
    | 0 => [c] | 1 => [c, 49] | 2 => [49, c] | _ => [49, c, 49]
  let show' (o : Option Int) : String := match o with | none => "n" | some i => toString i
  let rec go (n : Nat) (c : Nat) (cur : Option (String × Nat)) (acc : List String) : List String :=
    match n with
    | 0 => match cur with
      | some (s, k) => (s ++ "*" ++ toString k) :: acc
      | none => acc
    | n + 1 =>
      let s := show' (pyIntOfString (mk c))
      match cur with
      | some (s', k) =>
        if s' == s then go n (c + 1) (some (s, k + 1)) acc
        else go n (c + 1) (some (s, 1)) ((s' ++ "*" ++ toString k) :: acc)
      | none => go n (c + 1) (some (s, 1)) acc
  " ".intercalate (go (hi - lo) lo none []).reverse

def handle (st : St) (cmd : String) (args : List String) : St × String :=
  match cmd, args with
  | "reset", [] => ({}, "ok")
  | "new", [name] => (putEntry st name {}, "ok")
  | "init", name :: toks =>                         -- FIXContainer(dict)
    match parseDict st toks with
    | none => (st, "bad-op")
    | some d => match fromDict d with
      | .error k => (st, errReply k)
      | .ok c => (putEntry st name { body := c }, "ok")
  | "initmsg", name :: mt :: toks =>                -- FIXMessage(msg_type, dict)
    match tokText mt, parseDict st toks with
    | some mt, some d => match fromDict d with
      | .error k => (st, errReply k)
      | .ok c => (putEntry st name { mt := some mt, body := c }, "ok")
    | _, _ => (st, "bad-op")
  | "copy", [r, name] =>                            -- copy.deepcopy / pickle round trip into a new name
    match resolve st r with
    | some (ref, e, c) =>
      (putEntry st name { mt := if ref.path.isEmpty then e.mt else none, body := pickleRoundtrip c }, "ok")
    | none => (st, "bad-op")
  | "msgtype", [name] =>
    match findEntry st name with
    | some { mt := some mt, .. } => (st, textTok mt)
    | _ => (st, "bad-op")
  | "setmsgtype", [name, mt] =>
    match findEntry st name, tokText mt with
    | some e, some mt => (putEntry st name { e with mt := some mt }, "ok")
    | _, _ => (st, "bad-op")
  | "set", [r, t, v, rep] =>
    match tokObj t, tokVal v, rep with
    | some t, some v, "0" => mutate st r fun c => set c t v false
    | some t, some v, "1" => mutate st r fun c => set c t v true
    | _, _, _ => (st, "bad-op")
  | "del", [r, t] =>
    match tokObj t with
    | some t => mutate st r fun c => delItem c t
    | none => (st, "bad-op")
  | "addgroup", r :: t :: idx :: itemToks =>
    match tokObj t, Driver.tokInt idx, parseItem st itemToks with
    | some t, some i, some item => mutate st r fun c => addGroup c t item i
    | _, _, _ => (st, "bad-op")
  | "setgroup", r :: t :: listToks =>
    match tokObj t, parseItemList st listToks with
    | some t, some items => mutate st r fun c => setGroup c t items
    | _, _ => (st, "bad-op")
  | "get", [r, t, d] =>
    match tokObj t, tokDefault d with
    | some t, some (d, isStr) => reader st r fun c =>
        match get c t d with
        | .ok (.dflt x) => (if isStr then "str " else "dflt ") ++ textTok x
        | .ok x => getResTok x
        | .error k => errReply k
    | _, _ => (st, "bad-op")
  | "getitem", [r, t] =>
    match tokObj t with
    | some t => reader st r fun c =>
        match getItem c t with | .ok x => getResTok x | .error k => errReply k
    | _ => (st, "bad-op")
  | "isgroup", [r, t] =>
    match tokObj t with
    | some t => reader st r fun c =>
        match isGroup c t with | none => "None" | some b => boolTok b
    | _ => (st, "bad-op")
  | "contains", [r, t] =>
    match tokObj t with
    | some t => reader st r fun c => boolTok (contains c t)
    | _ => (st, "bad-op")
  | "grouplist", [r, t] =>
    match tokObj t with
    | some t => reader st r fun c =>
        match getGroupList c t with
        | .ok gs => "list " ++ " ".intercalate (gs.map dumpCont)
        | .error k => errReply k
    | _ => (st, "bad-op")
  | "byindex", [r, t, i] =>
    match tokObj t, Driver.tokInt i with
    | some t, some i => reader st r fun c =>
        match getGroupByIndex c t i with | .ok g => "cont " ++ dumpCont g | .error k => errReply k
    | _, _ => (st, "bad-op")
  | "bytag", [r, t, gt, gv] =>
    match tokObj t, tokObj gt, tokObj gv with
    | some t, some gt, some gv => reader st r fun c =>
        match getGroupByTag c t gt gv with | .ok g => "cont " ++ dumpCont g | .error k => errReply k
    | _, _, _ => (st, "bad-op")
  | "query", r :: ts =>
    match ts.mapM tokObj with
    | some ts => reader st r fun c =>
        match query c ts with
        | .ok d => "dict " ++ " ".intercalate (d.map fun p => textTok p.1 ++ "=" ++ getResTok1 p.2)
        | .error k => errReply k
    | none => (st, "bad-op")
  | "eq", [a, b] =>
    match resolve st a, resolve st b with
    | some (_, _, x), some (_, _, y) => (st, boolTok (eq x y))
    | _, _ => (st, "bad-op")
  | "eqdict", r :: "{" :: toks =>
    match parsePlainDict toks with
    | some d => reader st r fun c =>
        match eqDict c d with | .ok b => boolTok b | .error k => errReply k
    | none => (st, "bad-op")
  | "str", [r] => reader st r fun c => textTok (render c)
  | "repr", [r] =>
    match resolve st r with
    | some (ref, e, c) =>
      match ref.path, e.mt with
      | [], some mt => (st, textTok (Msg.repr { msgType := mt, body := c }))
      | _, _ => (st, textTok (render c))
    | none => (st, "bad-op")
  | "dump", [r] => reader st r dumpCont
  | "dumpall", [] => (st, " ".intercalate (st.store.map fun p => p.1 ++ "=" ++ dumpEntry p.2))
  | "pyint", [s] =>
    match tokText s with
    | some s => (st, match pyIntOfString s with | some n => "some " ++ toString n | none => "none")
    | none => (st, "bad-op")
  | "pyintcp", cps =>                                -- code points as decimals (lone surrogates etc.)
    match cps.mapM String.toNat? with
    | some s => (st, match pyIntOfString s with | some n => "some " ++ toString n | none => "none")
    | none => (st, "bad-op")
  | "pyintscan", [lo, hi, ctx] =>
    match lo.toNat?, hi.toNat?, ctx.toNat? with
    | some lo, some hi, some ctx => (st, scanRange lo hi ctx)
    | _, _, _ => (st, "bad-op")
  | "renderint", [n] =>
    match Driver.tokInt n with
    | some n => (st, textTok (renderInt n))
    | none => (st, "bad-op")
  | _, _ => (st, "bad-op")

end Driver.Container
