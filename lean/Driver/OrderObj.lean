import Driver.Util
import AsyncFix.Model.OrderLink
/-!
line-protocol commands of the OrderObj family (C17)

tokens: text (lists of code points) `u65.66` (`u` = empty, `-` = None); Lean strings (status,
ExecType, MsgType values) `x<hex of UTF-8>`; grid integers decimal; optional number `-`;
prices / quantities of built requests are printed as the text `str(float)` gives (`renderGrid`);
numeric report tags `-` (missing) | `bad` | `n<int>`.

  oo.init <root> <price> <qty> <ticker> <side> <ordtype> <account>
  oo.act  cNew | cCancel | cReplace <p|-> <q|-> | cRecv | xRecv <d> | xDecide <d> | xAck | xRejNew
          | xFill <q> <px> | xExpire | xSuspend | xResume          (d = accept | reject | pend)
  oo.actf raises|bumps|reenters cNew | cCancel | cReplace <p|-> <q|->    (builder whose overridden hook misbehaves)
  oo.recvomit <mask>   like `oo.act cRecv`, the report delivered without Price (1) / OrderQty (2)
  oo.feed <msgtype> <11> <41> <37> <150> <39> <14> <151> <6> <44> <38>   (report straight into the order)
  oo.push            remember the current link, reply its index
  oo.load <i>
  oo.root <text>     clord_root
  oo.render <int>    str(n/8)

reply of init/act/feed/load:  <outcome> | <order> | <#c2e> <#e2c> | <exchange>
-/
namespace Driver.OrderObj
open AsyncFix.Model.OrderObj AsyncFix.Model.Exchange AsyncFix.Model.OrderLink

structure St where
  cur : Option Link := none
  saved : Array Link := #[]

def strT (s : Str) : String := "u" ++ ".".intercalate (s.map toString)
def optStrT : Option Str → String
  | none => "-"
  | some s => strT s

def tokText (t : String) : Option Str :=
  match t.toList with
  | ['u'] => some []
  | 'u' :: rest => ((String.ofList rest).splitOn ".").mapM (·.toNat?)
  | _ => none

def tokOptText (t : String) : Option (Option Str) :=
  if t == "-" then some none else (tokText t).map some

def tokOptInt (t : String) : Option (Option Int) :=
  if t == "-" then some none else t.toInt?.map some

def tokOptString (t : String) : Option (Option String) :=
  if t == "-" then some none else (Driver.tokStr t).map some

def tokNum (t : String) : Option Num :=
  if t == "-" then some .missing
  else if t == "bad" then some .bad
  else match t.toList with
    | 'n' :: rest => (String.ofList rest).toInt?.map .val
    | _ => none

def numT : Num → String
  | .missing => "-"
  | .bad => "bad"
  | .val n => "n" ++ toString n

def optStringT : Option String → String
  | none => "-"
  | some s => Driver.strTok s

def excT : Exc → String
  | .fixError => "FIXError"
  | .assertion => "Assertion"
  | .value => "Value"
  | .tagNotFound => "TagNotFound"
  | .hook => "Hook"

def resBoolT : Res Bool → String
  | .ok true => "1"
  | .ok false => "0"
  | .raised e => "raise:" ++ excT e

def orderT (o : Order) : String :=
  " ".intercalate [
    "st=" ++ Driver.strTok o.status, "cl=" ++ strT o.clordId, "or=" ++ optStrT o.origClordId,
    "oid=" ++ optStrT o.orderId, "px=" ++ toString o.price, "qty=" ++ toString o.qty,
    "lv=" ++ toString o.leavesQty, "cum=" ++ toString o.cumQty,
    "avg=" ++ (match o.avgPx with | none => "nan" | some a => toString a),
    "cnt=" ++ toString o.clordCnt,
    "cc=" ++ resBoolT (canCancel o), "cr=" ++ resBoolT (canReplace o),
    "fin=" ++ (if isFinished o then "1" else "0")]

def valT : Val → String
  | .text s => strT s
  | .num n => strT (renderGrid n)

def msgT (m : Msg) : String :=
  Driver.strTok m.msgType ++ " " ++ ",".intercalate (m.tags.map fun (t, v) => toString t ++ "=" ++ valT v)

def reportT (r : Report) : String :=
  ":".intercalate [Driver.strTok r.msgType, optStrT r.clOrdId, optStrT r.origClOrdId, optStrT r.orderId,
    optStringT r.execType, optStringT r.ordStatus, numT r.cumQty, numT r.leavesQty, numT r.avgPx,
    numT r.price, numT r.orderQty]

def outT : StepOut → String
  | .built m => "built " ++ msgT m
  | .raised e => "raise " ++ excT e
  | .ret b => "ret " ++ (if b then "1" else "0")
  | .empty => "empty"
  | .emit rs => "emit " ++ ";".intercalate (rs.map reportT)

def exchT (e : Exch) : String :=
  " ".intercalate [
    if e.known then "known" else "unknown", Driver.strTok e.base, strT e.liveId,
    toString e.price, toString e.qty, toString e.cum, toString e.leaves, toString e.avgPx,
    Driver.strTok e.reported,
    match e.pending with
    | none => "-"
    | some p => Driver.strTok p.kind ++ "/" ++ strT p.clOrdId ++ "/" ++ toString p.price ++ "/" ++ toString p.qty]

def linkT (out : String) (l : Link) : String :=
  out ++ " | " ++ orderT l.order ++ " | " ++ toString l.c2e.length ++ " " ++ toString l.e2c.length ++
    " | " ++ exchT l.ex

def tokDecision : String → Option Decision
  | "accept" => some .accept
  | "reject" => some .reject
  | "pend" => some .pend
  | _ => none

def tokAction : List String → Option Action
  | ["cNew"] => some .cNew
  | ["cCancel"] => some .cCancel
  | ["cReplace", p, q] => do
      let p ← tokOptInt p
      let q ← tokOptInt q
      pure (.cReplace p q)
  | ["cRecv"] => some .cRecv
  | ["xRecv", d] => (tokDecision d).map .xRecv
  | ["xDecide", d] => (tokDecision d).map .xDecide
  | ["xAck"] => some .xAck
  | ["xRejNew"] => some .xRejNew
  | ["xFill", q, px] => do
      let q ← q.toInt?
      let px ← px.toInt?
      pure (.xFill q px)
  | ["xExpire"] => some .xExpire
  | ["xSuspend"] => some .xSuspend
  | ["xResume"] => some .xResume
  | _ => none

def tokReport : List String → Option Report
  | [mt, cl, orig, oid, ex, st, cum, lv, avg, px, qty] => do
      let mt ← Driver.tokStr mt
      let cl ← tokOptText cl
      let orig ← tokOptText orig
      let oid ← tokOptText oid
      let ex ← tokOptString ex
      let st ← tokOptString st
      let cum ← tokNum cum
      let lv ← tokNum lv
      let avg ← tokNum avg
      let px ← tokNum px
      let qty ← tokNum qty
      pure { msgType := mt, clOrdId := cl, origClOrdId := orig, orderId := oid, execType := ex,
             ordStatus := st, cumQty := cum, leavesQty := lv, avgPx := avg, price := px, orderQty := qty }
  | _ => none

def handle (st : St) (cmd : String) (args : List String) : St × String :=
  match cmd, args with
  | "init", [root, price, qty, ticker, side, ordType, account] =>
    match tokText root, price.toInt?, qty.toInt?, tokText ticker, tokText side, tokText ordType, tokText account with
    | some root, some price, some qty, some ticker, some side, some ordType, some account =>
      match Order.init root price qty ticker side ordType account with
      | .ok o => let l : Link := { order := o }; ({ st with cur := some l }, linkT "ok" l)
      | .raised e => ({ st with cur := none }, "raise " ++ excT e)
    | _, _, _, _, _, _, _ => (st, "bad-op")
  | "act", toks =>
    match st.cur, tokAction toks with
    | some l, some a =>
      let (l', out) := stepFull l a
      ({ st with cur := some l' }, linkT (outT out) l')
    | _, _ => (st, "bad-op")
  | "actf", h :: toks =>
    -- a builder action with a misbehaving hook: raises | bumps | reenters
    let hk : Option Hook := match h with
      | "raises" => some .raises | "bumps" => some .bumps | "reenters" => some .reenters | _ => none
    match st.cur, hk, tokAction toks with
    | some l, some hk, some a =>
      let isNew := a == .cNew
      let seen := if hk == .reenters then
          let v := hookView l.order isNew
          " seen=" ++ resBoolT v.1 ++ "," ++ resBoolT v.2
        else ""
      let (l', out) := stepHook l a hk
      -- the hook only gets to look when the builder reaches it
      let seen := match out with | .built _ => seen | _ => ""
      ({ st with cur := some l' }, linkT (outT out ++ seen) l')
    | _, _, _ => (st, "bad-op")
  | "recvomit", [mask] =>
    -- the client processes the next report, delivered WITHOUT the optional Price (bit 1) / OrderQty (bit 2) tags
    match st.cur, mask.toNat? with
    | some l, some k =>
      match l.e2c with
      | [] => (st, linkT (outT .empty) l)
      | r :: rest =>
        let r1 := if k % 2 == 1 then { r with price := .missing } else r
        let r2 := if k / 2 % 2 == 1 then { r1 with orderQty := .missing } else r1
        let (o, res) := feed l.order r2
        let l' := { l with order := o, e2c := rest }
        let out := match res with
          | .ok b => StepOut.ret b
          | .raised e => StepOut.raised e
        ({ st with cur := some l' }, linkT (outT out) l')
    | _, _ => (st, "bad-op")
  | "feed", toks =>
    match st.cur, tokReport toks with
    | some l, some r =>
      let (o, res) := feed l.order r
      let l' := { l with order := o }
      let out := match res with
        | .ok b => StepOut.ret b
        | .raised e => StepOut.raised e
      ({ st with cur := some l' }, linkT (outT out) l')
    | _, _ => (st, "bad-op")
  | "push", [] =>
    match st.cur with
    | some l => ({ st with saved := st.saved.push l }, toString st.saved.size)
    | none => (st, "bad-op")
  | "load", [i] =>
    match i.toNat? with
    | some i =>
      match st.saved[i]? with
      | some l => ({ st with cur := some l }, linkT "ok" l)
      | none => (st, "bad-op")
    | none => (st, "bad-op")
  | "root", [s] =>
    match tokText s with
    | some s => (st, strT (clordRoot s))
    | none => (st, "bad-op")
  | "render", [n] =>
    match n.toInt? with
    | some n => (st, strT (renderGrid n))
    | none => (st, "bad-op")
  | _, _ => (st, "bad-op")

end Driver.OrderObj
