import Driver.Util
import Driver.Session
import AsyncFix.Model.LinkInv
import AsyncFix.Model.LinkX
import Std.Data.HashSet

/-!
Line-protocol commands of the Sched family (`sched.*`).  Link part (`sched.link-*`, property C07; `Main` routes two-part command names only); every
command is stateless: the whole event list is on the request line, the reply is the canonical trace.

Events (separated by a `/` token), `<side>` = `I` | `A`, `<now>` = clock in ms, `<stamp>` = SendingTime token:
  `s <side> <now> <stamp> <msg>`   application send_msg(msg) on that side
  `d <side> <now> <stamp>`         the next frame in flight TOWARDS that side arrives
  `b <now> <stamp>`                connection break
  `r <now> <stamp>`                reconnect + initiator's Logon
  `o <side> <now> <stamp> <text>`  graceful logout by that side's application (extended alphabet, `Model/LinkX.lean`)
  `x <side>`                       restart of that side's endpoint over the same journal (no-op while it has a transport)

* `sched.link-run <k> <hb> <events>` — run from `Link.init hb`.  Reply: one segment per event, joined by ` | `:
    `<effects> # <scalars I> # <scalars A> # <len toA> <len toI> <quiescent 0|1>`
  and, after every k-th event and after the last one (k = 0: only the last), additionally
    ` # FULL <conn I> ## <conn A> ## <n> <frames toA> ## <n> <frames toI>`
  effects: `-` or `;`-joined `<side>:<effect>` (effect tokens of `sess.*`); scalars:
  `<state> <role> <wasActive> <nextIn> <nextOut> <maxResend> <sock> <storedOut> <storedIn> <rows out> <rows in>`.
* `sched.link-final <hb> <events>` — only the final summary:
    `<quiescent> # <nextIn I> <nextOut I> <nextIn A> <nextOut A> # <n> <delivered I> # <n> <delivered A>
     # <n> <accepted I> # <n> <accepted A>`   (messages as `sess.*` message tokens)
* `sched.link-explore <depth> <hb>` — model-only breadth-first exploration over the 6-event alphabet with state
  hashing; on every transition it checks `absLink (step l ev) = astep (absLink l) (absEv ev)`, `SafeInv`, `SyncInv`
  and the property's clauses (delivered is a prefix of accepted; at quiescence counters match and nothing is lost).
  Reply: `levels <new states per level> bad <n> <first failures: reason@path>`.
-/
namespace Driver.Sched

open AsyncFix.Session AsyncFix.Link
open Driver.Session (parseMsg showMsg showConn showEffect parseEnv)

structure St where
  unit : Unit := ()

def parseSide (t : String) : Option Side :=
  if t == "I" then some .I else if t == "A" then some .A else none

def showSide : Side → String
  | .I => "I"
  | .A => "A"

def parseBaseEv : List String → Option Ev
  | ["s", s, now, stamp, m] => do pure (.appSend (← parseSide s) (← parseEnv now stamp) (← parseMsg m))
  | ["d", s, now, stamp] => do pure (.deliverNext (← parseSide s) (← parseEnv now stamp))
  | ["b", now, stamp] => do pure (.breakConn (← parseEnv now stamp))
  | ["r", now, stamp] => do pure (.reconnect (← parseEnv now stamp))
  | _ => none

/-- extended alphabet: `o <side> <now> <stamp> <text>` graceful logout, `x <side>` restart over the same journal -/
def parseEv : List String → Option EvX
  | ["o", s, now, stamp, text] => do pure (.logout (← parseSide s) (← parseEnv now stamp) (← tokStr text))
  | ["x", s] => do pure (.restart (← parseSide s))
  | ts => (parseBaseEv ts).map .base

/-- split a token list at the `/` tokens -/
def splitEvents (ts : List String) : List (List String) :=
  let rec go : List String → List String → List (List String) → List (List String)
    | [], cur, acc => (cur.reverse :: acc).reverse
    | t :: r, cur, acc => if t == "/" then go r [] (cur.reverse :: acc) else go r (t :: cur) acc
  if ts.isEmpty then [] else go ts [] []

def parseEvents (ts : List String) : Option (List EvX) := (splitEvents ts).mapM parseEv

def b01 (b : Bool) : String := if b then "1" else "0"

def showScalars (c : Conn) : String :=
  String.intercalate " " [toString c.state, toString c.role, b01 c.wasActive, toString c.sess.nextIn,
    toString c.sess.nextOut, toString c.maxResend, b01 c.sock, toString c.journal.outSeq,
    toString c.journal.inSeq, toString c.journal.out.length, toString c.journal.inb.length]

def showMsgs (ms : List Msg) : String :=
  String.intercalate " " (toString ms.length :: ms.map showMsg)

def showLinkEffects (es : List (Side × Effect)) : String :=
  if es.isEmpty then "-" else String.intercalate ";" (es.map fun p => showSide p.1 ++ ":" ++ showEffect p.2)

def showLite (l : Link) : String :=
  showLinkEffects l.eff ++ " # " ++ showScalars l.i ++ " # " ++ showScalars l.a ++ " # "
    ++ toString l.toA.length ++ " " ++ toString l.toI.length ++ " " ++ b01 l.quiescent

def showFull (l : Link) : String :=
  "FULL " ++ showConn l.i ++ " ## " ++ showConn l.a ++ " ## " ++ showMsgs l.toA ++ " ## " ++ showMsgs l.toI

def traceRun (k : Nat) : Link → Nat → List EvX → List String → List String
  | _, _, [], acc => acc.reverse
  | l, idx, ev :: rest, acc =>
    let l1 := stepX l ev
    let full := rest.isEmpty || (k != 0 && (idx + 1) % k == 0)
    let seg := if full then showLite l1 ++ " # " ++ showFull l1 else showLite l1
    traceRun k l1 (idx + 1) rest (seg :: acc)

def showFinal (l : Link) : String :=
  String.intercalate " # " [b01 l.quiescent,
    String.intercalate " " [toString l.i.sess.nextIn, toString l.i.sess.nextOut, toString l.a.sess.nextIn,
      toString l.a.sess.nextOut],
    showMsgs l.delI, showMsgs l.delA, showMsgs l.accI, showMsgs l.accA]

/-! ### model-only exhaustive exploration (state hashing), used to test candidate invariants -/

def exploreEnv : Env := { now := 0, stamp := "20240102-00:00:00.000" }

/-- the event alphabet at a state: the k-th payload of a side is determined by how many it has had accepted -/
def alphabet (l : Link) : List (String × Ev) :=
  [("sI", .appSend .I exploreEnv (Msg.mk' "D" [(58, "i" ++ toString l.accI.length)])),
   ("sA", .appSend .A exploreEnv (Msg.mk' "D" [(58, "a" ++ toString l.accA.length)])),
   ("dA", .deliverNext .A exploreEnv), ("dI", .deliverNext .I exploreEnv),
   ("b", .breakConn exploreEnv), ("r", .reconnect exploreEnv)]

def stateKey (l : Link) : String :=
  showFull l ++ " ## " ++ showMsgs l.delI ++ " ## " ++ showMsgs l.delA ++ " ## " ++ showMsgs l.accI ++ " ## "
    ++ showMsgs l.accA

/-- the property's conclusion and the safety clauses, evaluated on a model state -/
def checkState (l : Link) : Option String :=
  let pI := l.delI.map payloadOf
  let pA := l.delA.map payloadOf
  let aI := l.accI.map payloadOf
  let aA := l.accA.map payloadOf
  if !(pI.isPrefixOf aA) then some "delivered-I-not-prefix"
  else if !(pA.isPrefixOf aI) then some "delivered-A-not-prefix"
  else if l.quiescent then
    if l.i.sess.nextIn != l.a.sess.nextOut || l.a.sess.nextIn != l.i.sess.nextOut then some "quiescent-counters"
    else if pI != aA || pA != aI then some "quiescent-lost"
    else none
  else none

/-- hook evaluated on every explored transition: commutation of the abstraction with the step functions -/
def checkAbs (l : Link) (ev : Ev) (l1 : Link) : Option String :=
  if !(absLink l1 == astep (absLink l) (absEv ev)) then some "abs-commute"
  else if !decide (SafeInv (absLink l1)) then some "safe-inv"
  else if !decide (SyncInv (absLink l1)) then some "sync-inv"
  else none

def exploreLevel (seen : Std.HashSet String) (frontier : List (Link × List String)) :
    Std.HashSet String × List (Link × List String) × List String :=
  frontier.foldl (init := (seen, [], [])) fun (seen, next, bad) (l, path) =>
    (alphabet l).foldl (init := (seen, next, bad)) fun (seen, next, bad) (name, ev) =>
      let l1 := step l ev
      let k := stateKey l1
      if seen.contains k then (seen, next, bad)
      else
        let p := name :: path
        let bad := match checkState l1 with
          | some why => (why ++ "@" ++ String.intercalate "," p.reverse) :: bad
          | none => bad
        let bad := match checkAbs l ev l1 with
          | some why => (why ++ "@" ++ String.intercalate "," p.reverse) :: bad
          | none => bad
        (seen.insert k, (l1, p) :: next, bad)

def explore : Nat → Std.HashSet String → List (Link × List String) → List String → List Nat → List String × List Nat
  | 0, _, _, bad, sizes => (bad, sizes.reverse)
  | d + 1, seen, frontier, bad, sizes =>
    let (seen, next, bad1) := exploreLevel seen frontier
    explore d seen next (bad ++ bad1) (next.length :: sizes)

def handle (st : St) (cmd : String) (args : List String) : St × String :=
  match cmd, args with
  | "link-run", k :: hb :: evT =>
    match k.toNat?, tokInt hb, parseEvents evT with
    | some k, some hb, some evs => (st, String.intercalate " | " (traceRun k (Link.init hb) 0 evs []))
    | _, _, _ => (st, "bad-op")
  | "link-final", hb :: evT =>
    match tokInt hb, parseEvents evT with
    | some hb, some evs => (st, showFinal (runX (Link.init hb) evs))
    | _, _ => (st, "bad-op")
  | "link-explore", [d, hb] =>
    match d.toNat?, tokInt hb with
    | some d, some hb =>
      let l0 := Link.init hb
      let (bad, sizes) := explore d (Std.HashSet.emptyWithCapacity.insert (stateKey l0)) [(l0, [])] [] []
      (st, "levels " ++ String.intercalate "," (sizes.map toString) ++ " bad " ++ toString bad.length ++ " "
        ++ String.intercalate " " (bad.take 5))
    | _, _ => (st, "bad-op")
  | _, _ => (st, "bad-op")

end Driver.Sched
