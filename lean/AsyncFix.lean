import AsyncFix.Model.OrderTable
import AsyncFix.Generated.OrderTable
import AsyncFix.Generated.Proto
import AsyncFix.Generated.ConnEnum
import AsyncFix.Lemmas.OrderTable
