#!/usr/bin/env python3
"""Regenerates /verif/MANIFEST.json from the table below (claimed checks) + properties.jsonl
(everything not claimed is listed under not_applicable with its reason)."""
import json, os
HERE = os.path.dirname(os.path.dirname(os.path.abspath(__file__)))
ENGINE = "lean4-proof+correspondence"
DEFAULT_NOTE = ("Trusted: Lean 4.33 kernel (axioms audited per theorem: propext, Classical.choice, Quot.sound only); the hand-written "
                "model is tied to /repo by the differential correspondence run of this check (and generated tables by tools/gen_lean.py); "
                "CPython/sqlite3/asyncio semantics are modelled, not verified (DESIGN.md §3).")
CHECKS = {
 "C16": dict(
  technique="Lean 4 proof (finite-abstraction lemma + decide +kernel on the table generated from the source) + exhaustive extensional correspondence",
  text="Theorems over all strings for status/kind/ExecType/reported status about the interpreter applied to the transition tables regenerated from order_single.py on every run: closed result set (partial: kinds with a table), finished statuses absorbing, never back to CREATED, only CREATED becomes PENDING_NEW (partial: execution reports; kind 9 is a pinned known finding), CREATED accepts only PENDING_NEW/REJECTED, cancel/replace gate exactly NEW/PARTIALLY_FILLED/SUSPENDED. The hand-modelled interpreter is compared with change_status on the complete 92,160-point domain each run.",
  ref="DESIGN.md §6 C16",
  note="Trusted: Lean kernel; translator (AST walk) and interpreter model, both checked extensionally against the implementation on the whole finite domain every run; Python objects other than enum members/strings are modelled as non-key strings."),
 "C02": dict(
  technique="Lean 4 proof (structural, all messages/sessions) over a hand-written encoder model + byte-level differential correspondence + independent reference parser as oracle",
  text="encode_refframe / wire_refframe / encodeWire_refframe: for every message tree, session, clock value and encoding mode, every successful result of the model encoder (and of the encode+latin-1 step of send_msg) is a RefFrame: 8=…|9=n|35=…|…|10=ddd| with n the exact byte count and ddd the byte sum mod 256 in three digits; encodeWire_refused_unchanged: text outside latin-1 is refused with the number handed back. The model is compared byte for byte with Codec.encode and with the bytes a real connection hands to its transport; all transport writes of scripted session histories are parsed by an independent reference parser.",
  ref="DESIGN.md §6 C02",
  note=DEFAULT_NOTE + " History part ('all frames emitted during arbitrary session histories'): by the single call site of transport.write in send_msg plus dynamic capture of all writes in scripted histories; not a theorem over the session model yet."),
 "C01": dict(
  technique="Lean 4 proof (structural induction over the container tree; framing, encoder-shape and group-reconstruction layers composed) over hand-written encoder/decoder models + bidirectional differential correspondence; hypothesis wfTop evaluated by the compiled model on every generated message",
  text="encode_decode: for every message, session, clock value and encoding mode (allocate / PossDup / SequenceReset / raw: selectSeq), if the container the decoder is expected to rebuild (8, 9, 35, 49, 56, 34, 52, then the message's own entries) satisfies the explicit decidable predicate wfTop w.r.t. the group table (tag is a group iff it is a table key, SOH-free values incl. '=', '10=', '8=FIX.' text, >= 1 item per group, item boundaries recognisable, no tag after a group that an open group could claim), then encode succeeds with exactly mkFrame(header ++ wire-order fields), and decode of those bytes returns exactly that container plus its CheckSum entry, consumed = frame length, raw bytes unchanged; no bound on sizes or nesting depth. Header clauses (CompIDs, allocated or carried number, session counter) are expected_header / selectSeq_alloc / selectSeq_raw; side conditions (BeginString starts the marker, no table member is 10 or 35, table keys distinct) are kernel-checked on the table regenerated from protocol_fix44.py each run. Model tied to Codec.encode/decode in both directions on messages over all 29 group tags.",
  ref="DESIGN.md §6 C01",
  note=DEFAULT_NOTE + " BodyLength is assumed to have at most 4300 digits (CPython int() limit)."),
 "C03": dict(
  technique="Lean 4 proof (invariant over the chunk list, all chunkings, no bounds) over hand-written models of Codec.decode and the socket_read_task inner loop + differential correspondence against the real reader task + implementation-only oracle",
  text="reader_chunk_independent: for every BeginString with the marker prefix, every group table, every list of structurally valid frames (WFFrame) that decode on their own, every list of marker-free junk blocks between and around them, and every partition of the byte stream into reads (any sizes incl. 1 byte and empty, boundaries anywhere incl. inside the marker, BodyLength or CheckSum), the model reader hands over exactly those frames in order with the messages the decoder gives for each frame alone, never raises or stalls, and ends with a buffer that is a proper prefix of '8=FIX.' and a suffix of the last junk block (reader_residual_buffer); corollaries: any two chunkings agree, 1-byte reads. The model is compared with the real socket_read_task on ~12k (quick) / ~67k (thorough) chunkings per run.",
  ref="DESIGN.md §6 C03",
  note=DEFAULT_NOTE + " The hypothesis that each WFFrame decodes on its own is discharged by decode_mkFrame (C01) + fieldLoop_no_raise (C10) for frames whose field loop ends with ckPassed; the connection-state test inside the loop and EOF (empty read) are outside the model."),
 "C15": dict(
  technique="Lean 4 proof (mutual structural induction over the nested message tree; sweep-loop invariants for the component resolver) + differential correspondence on schema-directed instances and single-fault mutants of all 133 message types + independent XML reference reader",
  text="validate_iff_allowed: for every dictionary satisfying the decidable schemaWF (evaluated by the compiled model on FIX44.xml and TT-FIX44.xml every run), every value verdict and every message tree at any depth, validate = ok iff Allowed (spec written independently: type known, required members incl. groups present, every tag known and allowed incl. header/trailer, plain vs group kind, valid values, per group item: members only, dictionary order, first member, required members, recursively); validate_error_kind: every rejection is FIXMessageError, no hypotheses; single-fault corollaries per mutation class at any depth; resolve_perm: component resolution gives the same result for every permutation of the declaration list (no acyclicity hypothesis). The library's XML parser is compared with an independent reference reader, also under permuted <components>.",
  ref="DESIGN.md §6 C15",
  note=DEFAULT_NOTE + " Value validity is an abstract parameter here (C19 decides it); parse-time KeyError/ValueError on malformed dictionaries and the header-before-components order are not modelled; CheckSum(10) is exempt as in the code."),
 "C19": dict(
  technique="Lean 4 proof over hand-written models of validate_value and CPython int()/float()/re/_strptime + exhaustive small-scope differential correspondence + independent Python lexical-space oracle",
  text="impl_iff: for all strings (lists of code points) and every dispatch branch with a FIX datatype (int, SeqNum/NumInGroup, DayOfMonth, the six float types, String/MultipleValueString, char, Boolean, Country/Currency/Exchange, UTCDateOnly/LocalMktDate, UTCTimestamp, UTCTimeOnly, MonthYear): accepted <-> (in the FIX 4.4 lexical space AND not in the explicit too-narrow set) OR explicit deviation (six fraction digits); Boolean, codes and data exact; enum_exact: enumerated fields accept exactly their enumerators; error_kind / rejection_is_fme: only FIXMessageError escapes, no hypothesis; length_accepts_everything: LENGTH is unvalidated (pinned finding). The narrow/deviation sets are the 8 open known findings (int() 4300-digit limit, float overflow, '=' in String [pinned], year 0000, second 60, six fraction digits [pinned], LENGTH [pinned]), each refuted for the full statement by a kernel-checked witness. Model compared with the implementation on all strings of length <= 3 (quick) / <= 4 (thorough) per datatype over a 16-character alphabet, all single-edit neighbours of 43 date/time exemplars, every enumerated field of both dictionaries (1.6M / 9.5M evaluations).",
  ref="DESIGN.md §6 C19",
  note=DEFAULT_NOTE + " Trusted: the SPEC recognisers (choices: '.5' and '5.' are floats; codes are 1..n ASCII alphanumerics; Length positive int; year 0000 is a leap year; MultipleValueString = String), the CPython models of int()/float()/re/_strptime (compared one level down with the interpreter), generated Unicode digit/space tables checked against the interpreter on all code points each run."),
 "C17": dict(
  technique="Lean 4 proof (inductive invariant over order + FIFO queues + reference exchange; local invariants over arbitrary call sequences; regex model; table facts by decide +kernel on the generated table) + step-by-step differential correspondence of the real FIXNewOrderSingle against the compiled model (random interleavings, arbitrary reports, exhaustive bounded interleavings)",
  text="Theorems for all call sequences / all interleavings and all grid prices and quantities: status always an enum member; orig_clord_id only while a request is pending (or canceled) and no second request can be built meanwhile; can_cancel/can_replace imply the builder succeeds (replace: when price or qty changes); ClOrdIDs never repeat for any root and are root--k for every non-empty root not ending in --digits (clord_root characterised exactly: unchanged iff not of the chain form, chained ids always cut back to the root); convergence at every quiescent point (status, cum, leaves, price, qty equal the reference exchange's; finished exchange order => is_finished and requests refused), no report ever raises, at most one request in flight whose OrigClOrdID is the exchange's live id - for every interleaving that does not expire a suspended order or accept a replace on one (partial: those two races are pinned known findings, refuted for the full statement by kernel-evaluated witnesses that the harness replays on the real object).",
  ref="DESIGN.md §6 C17",
  note="Trusted: Lean kernel; the reference exchange as spec (exists twice, Lean and Python, compared report by report); hand model of the five methods, the regex and str(float)/str(int), tied by correspondence every run; float arithmetic only on the 1/8 grid below 2^46; FIXMessage/Enum/float() semantics assumed; translators for the transition table and the \\d code points."),
 "C10": dict(
  technique="Lean 4 proof (loop invariant over the field loop, list-surgery lemmas on find/split/join, well-founded read loop) over a hand-written decoder/reader model + differential correspondence with Codec.decode and the real socket_read_task + independent CheckSum/BodyLength recomputation as oracle",
  text="For every byte string, group table and BeginString: decode never raises (decode_no_raise: invariant that group-tag entries are group nodes), consumed <= len, a message consumes > 0 bytes, the read loop never stalls or raises and terminates (well-founded definition; readLoop_never_stalls); a returned frame is pre||SOH 10=ddd SOH with ddd exactly three digits = byte sum mod 256 (checksum_sound); no single-byte substitution anywhere in a returned frame, and no sum-changing or CheckSum-value edit, is ever returned (no_substitution_returned, edit_in_summed_region_rejected); decode consumes nothing only in four characterised waiting states and, once a complete CheckSum field is buffered, the wait ends at the declared length for every continuation (no_permanent_stall, closed_frame_wait_bounded, following_frame_unblocks). BodyLength consistency is NOT guaranteed: C10_full is refuted by the frame of the existing unit test test_decode_custom_msg_type (9=82, 84 body bytes) and by a NUL insertion - open pinned finding C10-bodylength-not-verified.",
  ref="DESIGN.md §6 C10",
  note=DEFAULT_NOTE + " 57k (thorough 451k) differential evaluations per run incl. live-reader runs; CPython int()/str.split/find semantics modelled and compared every run."),
 "C11": dict(
  technique="Lean 4 proof over a hand-written executable model of connection.py/session.py (compositional trace relations, Hoare-style specs, induction over histories) + exhaustive single-step correspondence (48k steps, whole post-state) and lock-step random histories against the real AsyncFIXConnection",
  text="For all counters, journals, CompIDs, message contents and histories: sends other than Logon/Logout before the Logon exchange are refused with the connection exactly unchanged (prelogon_send_refused); in NETWORK_CONN_ESTABLISHED / LOGON_INITIAL_SENT no frame is delivered and a first non-Logon frame drops the connection with nothing written and counters/journal untouched (prelogon_no_delivery, prelogon_first_frame_dropped); each integrity defect (BeginString wrong, CompIDs missing / wrong / swapped, MsgSeqNum missing / non-numeric / too low) leads to no delivery, unchanged inbound counter, DISCONNECTED_BROKEN_CONN, and exactly one Logout carrying the reason iff the counterparty is identifiable (integrity_defect_logout / _unidentifiable); after any disconnect no frame, callback or state change until the next connect, for every history (after_disconnect_silent); every transition into a disconnected state emits exactly one onDisconnect (disconnect_once_step; history version under the hypothesis that connect() is only called when disconnected). Documented tolerance in the statements: SequenceReset and PossDup duplicates while awaiting a resend are exempt from 'too low'.",
  ref="DESIGN.md §6 C11",
  note=DEFAULT_NOTE + " Uniformity of the code in the counter values is sampled (5 counter pairs incl. >= 2^32); application hooks return normally and do not re-enter."),
}
NOT_YET = "check under construction in this build round (model and theorems planned in DESIGN.md §6); not yet claimed"

def main():
    props = [json.loads(l) for l in open(os.path.join(HERE, "properties.jsonl"))]
    man = {
     "version": 1,
     "setup_cmd": "./setup.sh",
     "hooks": {"guard": "ASYNCFIX_VERIF", "enable": "no hooks are needed: checks import /repo's working tree unmodified (PYTHONPATH=/repo)",
               "baseline_off_cmd": "cd /repo && /venv/bin/python -m pytest -ra -q -p no:cacheprovider --timeout=900",
               "source_commits": [], "add_only": True},
     "engines": [{"name": ENGINE, "path": "check", "serves_properties": sorted(CHECKS),
                  "kind_free_text": "Lean 4 theorems over executable models (lean/AsyncFix), translator tools/gen_lean.py, differential correspondence harness/*.py against the compiled Lean driver, implementation-only oracles for replays"}],
     "checks": [], "not_applicable": [],
     "notes": "See DESIGN.md. Every check: translator -> lake build of the property's theorems -> axiom audit -> correspondence (model vs /repo) -> oracle / failing-input search -> evidence.",
    }
    for p in props:
        pid = p["id"]
        if pid in CHECKS:
            c = CHECKS[pid]
            man["checks"].append({
             "property_id": pid, "quick_cmd": f"./check {pid} --tier quick", "thorough_cmd": f"./check {pid} --tier thorough",
             "evidence_file": f"evidence/{pid}.json", "replay_cmd_template": f"./check {pid} --replay {{path}}",
             "engine": ENGINE, "technique": c["technique"],
             "level_claimed": {"category": "proof", "text": c["text"], "design_ref": c["ref"]},
             "level_note": c["note"]})
        else:
            man["not_applicable"].append({"property_id": pid, "reason": NOT_YET})
    json.dump(man, open(os.path.join(HERE, "MANIFEST.json"), "w"), indent=1, ensure_ascii=False)
    print("MANIFEST.json:", len(man["checks"]), "checks,", len(man["not_applicable"]), "not claimed")

if __name__ == "__main__":
    main()
