#!/usr/bin/env python3
"""Regenerates /verif/MANIFEST.json from the table below (claimed checks) + properties.jsonl
(everything not claimed is listed under not_applicable with its reason)."""
import json, os
HERE = os.path.dirname(os.path.dirname(os.path.abspath(__file__)))
ENGINE = "lean4-proof+correspondence"
DEFAULT_NOTE = ("Trusted: Lean 4.33 kernel (axioms audited per theorem: propext, Classical.choice, Quot.sound only); the hand-written "
                "model is tied to /repo by the differential correspondence run of this check (and generated tables by tools/gen_lean.py); "
                "CPython/sqlite3/asyncio semantics are modelled, not verified (DESIGN.md §3).")
CHECKS = {
 "C16": dict(
  technique="Lean 4 proof (finite-abstraction lemma + decide +kernel on the table generated from the source) + exhaustive extensional correspondence",
  text="Theorems over all strings for status/kind/ExecType/reported status about the interpreter applied to the transition tables regenerated from order_single.py on every run: closed result set (partial: kinds with a table), finished statuses absorbing, never back to CREATED, only CREATED becomes PENDING_NEW (partial: execution reports; kind 9 is a pinned known finding), CREATED accepts only PENDING_NEW/REJECTED, cancel/replace gate exactly NEW/PARTIALLY_FILLED/SUSPENDED. The hand-modelled interpreter is compared with change_status on the complete 92,160-point domain each run.",
  ref="DESIGN.md §6 C16",
  note="Trusted: Lean kernel; translator (AST walk) and interpreter model, both checked extensionally against the implementation on the whole finite domain every run; Python objects other than enum members/strings are modelled as non-key strings."),
 "C02": dict(
  technique="Lean 4 proof (structural, all messages/sessions) over a hand-written encoder model + byte-level differential correspondence + independent reference parser as oracle",
  text="encode_refframe / wire_refframe / encodeWire_refframe: for every message tree, session, clock value and encoding mode, every successful result of the model encoder (and of the encode+latin-1 step of send_msg) is a RefFrame: 8=…|9=n|35=…|…|10=ddd| with n the exact byte count and ddd the byte sum mod 256 in three digits; encodeWire_refused_unchanged: text outside latin-1 is refused with the number handed back. The model is compared byte for byte with Codec.encode and with the bytes a real connection hands to its transport; all transport writes of scripted session histories are parsed by an independent reference parser.",
  ref="DESIGN.md §6 C02",
  note=DEFAULT_NOTE + " History part ('all frames emitted during arbitrary session histories'): by the single call site of transport.write in send_msg plus dynamic capture of all writes in scripted histories; not a theorem over the session model yet."),
 "C01": dict(
  technique="Lean 4 proof (structural induction over the container tree; framing, encoder-shape and group-reconstruction layers composed) over hand-written encoder/decoder models + bidirectional differential correspondence; hypothesis wfTop evaluated by the compiled model on every generated message",
  text="encode_decode: for every message, session, clock value and encoding mode (allocate / PossDup / SequenceReset / raw: selectSeq), if the container the decoder is expected to rebuild (8, 9, 35, 49, 56, 34, 52, then the message's own entries) satisfies the explicit decidable predicate wfTop w.r.t. the group table (tag is a group iff it is a table key, SOH-free values incl. '=', '10=', '8=FIX.' text, >= 1 item per group, item boundaries recognisable, no tag after a group that an open group could claim), then encode succeeds with exactly mkFrame(header ++ wire-order fields), and decode of those bytes returns exactly that container plus its CheckSum entry, consumed = frame length, raw bytes unchanged; no bound on sizes or nesting depth. Header clauses (CompIDs, allocated or carried number, session counter) are expected_header / selectSeq_alloc / selectSeq_raw; side conditions (BeginString starts the marker, no table member is 10 or 35, table keys distinct) are kernel-checked on the table regenerated from protocol_fix44.py each run. Model tied to Codec.encode/decode in both directions on messages over all 29 group tags.",
  ref="DESIGN.md §6 C01",
  note=DEFAULT_NOTE + " BodyLength is assumed to have at most 4300 digits (CPython int() limit)."),
 "C03": dict(
  technique="Lean 4 proof (invariant over the chunk list, all chunkings, no bounds) over hand-written models of Codec.decode and the socket_read_task inner loop + differential correspondence against the real reader task + implementation-only oracle",
  text="reader_chunk_independent: for every BeginString with the marker prefix, every group table, every list of structurally valid frames (WFFrame) that decode on their own, every list of marker-free junk blocks between and around them, and every partition of the byte stream into reads (any sizes incl. 1 byte and empty, boundaries anywhere incl. inside the marker, BodyLength or CheckSum), the model reader hands over exactly those frames in order with the messages the decoder gives for each frame alone, never raises or stalls, and ends with a buffer that is a proper prefix of '8=FIX.' and a suffix of the last junk block (reader_residual_buffer); corollaries: any two chunkings agree, 1-byte reads. The model is compared with the real socket_read_task on ~12k (quick) / ~67k (thorough) chunkings per run.",
  ref="DESIGN.md §6 C03",
  note=DEFAULT_NOTE + " The hypothesis that each WFFrame decodes on its own is discharged by decode_mkFrame (C01) + fieldLoop_no_raise (C10) for frames whose field loop ends with ckPassed; the connection-state test inside the loop and EOF (empty read) are outside the model."),
 "C15": dict(
  technique="Lean 4 proof (mutual structural induction over the nested message tree; sweep-loop invariants for the component resolver) + differential correspondence on schema-directed instances and single-fault mutants of all 133 message types + independent XML reference reader",
  text="validate_iff_allowed: for every dictionary satisfying the decidable schemaWF (evaluated by the compiled model on FIX44.xml and TT-FIX44.xml every run), every value verdict and every message tree at any depth, validate = ok iff Allowed (spec written independently: type known, required members incl. groups present, every tag known and allowed incl. header/trailer, plain vs group kind, valid values, per group item: members only, dictionary order, first member, required members, recursively); validate_error_kind: every rejection is FIXMessageError, no hypotheses; single-fault corollaries per mutation class at any depth; resolve_perm: component resolution gives the same result for every permutation of the declaration list (no acyclicity hypothesis). The library's XML parser is compared with an independent reference reader, also under permuted <components>.",
  ref="DESIGN.md §6 C15",
  note=DEFAULT_NOTE + " Value validity is an abstract parameter here (C19 decides it); parse-time KeyError/ValueError on malformed dictionaries and the header-before-components order are not modelled; CheckSum(10) is exempt as in the code."),
}
NOT_YET = "check under construction in this build round (model and theorems planned in DESIGN.md §6); not yet claimed"

def main():
    props = [json.loads(l) for l in open(os.path.join(HERE, "properties.jsonl"))]
    man = {
     "version": 1,
     "setup_cmd": "./setup.sh",
     "hooks": {"guard": "ASYNCFIX_VERIF", "enable": "no hooks are needed: checks import /repo's working tree unmodified (PYTHONPATH=/repo)",
               "baseline_off_cmd": "cd /repo && /venv/bin/python -m pytest -ra -q -p no:cacheprovider --timeout=900",
               "source_commits": [], "add_only": True},
     "engines": [{"name": ENGINE, "path": "check", "serves_properties": sorted(CHECKS),
                  "kind_free_text": "Lean 4 theorems over executable models (lean/AsyncFix), translator tools/gen_lean.py, differential correspondence harness/*.py against the compiled Lean driver, implementation-only oracles for replays"}],
     "checks": [], "not_applicable": [],
     "notes": "See DESIGN.md. Every check: translator -> lake build of the property's theorems -> axiom audit -> correspondence (model vs /repo) -> oracle / failing-input search -> evidence.",
    }
    for p in props:
        pid = p["id"]
        if pid in CHECKS:
            c = CHECKS[pid]
            man["checks"].append({
             "property_id": pid, "quick_cmd": f"./check {pid} --tier quick", "thorough_cmd": f"./check {pid} --tier thorough",
             "evidence_file": f"evidence/{pid}.json", "replay_cmd_template": f"./check {pid} --replay {{path}}",
             "engine": ENGINE, "technique": c["technique"],
             "level_claimed": {"category": "proof", "text": c["text"], "design_ref": c["ref"]},
             "level_note": c["note"]})
        else:
            man["not_applicable"].append({"property_id": pid, "reason": NOT_YET})
    json.dump(man, open(os.path.join(HERE, "MANIFEST.json"), "w"), indent=1, ensure_ascii=False)
    print("MANIFEST.json:", len(man["checks"]), "checks,", len(man["not_applicable"]), "not claimed")

if __name__ == "__main__":
    main()
