#!/usr/bin/env python3
"""Verify a seeded defect and run our check against it.

  tools/seed_verify.py <PROP> <seed_dir> <seed_id> [--tier quick] [--props C01,C10 (extra checks to run)]

1. fresh scratch worktree of /repo HEAD; demo passes on it
2. apply patch.diff; unit tests still pass (192); demo fails
3. VERIF_REPO=<worktree> ./check <PROP>  -> expect exit 1 + VIOLATION
4. store under /verif/seeded/<seed_id>/ (patch.diff, demo.py, meta.json incl. what we ran / what caught it)
The worktree is removed afterwards; /repo itself is never touched.
"""
import json, os, shutil, subprocess, sys, time

VERIF = os.path.dirname(os.path.dirname(os.path.abspath(__file__)))


def sh(cmd, cwd=None, env=None, timeout=3600):
    p = subprocess.run(cmd, shell=True, cwd=cwd, env=env, capture_output=True, text=True, timeout=timeout)
    return p.returncode, p.stdout + p.stderr


def main():
    prop, seed_dir, seed_id = sys.argv[1:4]
    tier = "quick"
    extra = []
    args = sys.argv[4:]
    for i, a in enumerate(args):
        if a == "--tier":
            tier = args[i + 1]
        if a == "--props":
            extra = args[i + 1].split(",")
    wt = f"/root/scratch/sv-{seed_id}"
    sh(f"git -C /repo worktree remove --force {wt}")
    rc, out = sh(f"git -C /repo worktree add -q {wt} HEAD")
    assert rc == 0, out
    res = {"seed_id": seed_id, "property": prop}
    try:
        env = dict(os.environ, PYTHONPATH=wt)
        rc, out = sh(f"/venv/bin/python {seed_dir}/demo.py", cwd=wt, env=env)
        res["demo_clean_rc"] = rc
        rc, out = sh(f"git apply {seed_dir}/patch.diff", cwd=wt)
        if rc != 0:
            rc, out = sh(f"git apply --3way {seed_dir}/patch.diff || patch -p1 < {seed_dir}/patch.diff", cwd=wt)
        res["patch_applies"] = rc == 0
        if rc != 0:
            print("PATCH DOES NOT APPLY to /repo HEAD:", out[-500:])
            print(json.dumps(res))
            mp = os.path.join(VERIF, "seeded", seed_id, "meta.json")
            if os.path.exists(mp):
                meta = json.load(open(mp))
                meta["no_longer_applicable"] = {"patch_applies": False}
                json.dump(meta, open(mp, "w"), indent=1)
            return 2
        rc, out = sh("/venv/bin/python -m pytest -q -p no:cacheprovider 2>&1 | tail -1", cwd=wt, env=env)
        res["tests"] = out.strip()
        rc, out = sh(f"/venv/bin/python {seed_dir}/demo.py", cwd=wt, env=env)
        res["demo_patched_rc"] = rc
        res["demo_output_tail"] = out[-400:]
        checks = {}
        for p in [prop] + extra:
            t0 = time.time()
            rc, out = sh(f"VERIF_REPO={wt} VERIF_EVIDENCE_DIR=/root/scratch/sv-evidence ./check {p} --tier {tier}", cwd=VERIF)
            lines = [l for l in out.split("\n") if l.startswith("VIOLATION") or l.startswith(p + " ")]
            sigs = []
            for l in lines:
                if "replay=" in l:
                    path = l.split("replay=")[1].split()[0]
                    try:
                        r = json.load(open(os.path.join(VERIF, path)))
                        sigs.append(r.get("signature") or r.get("kind"))
                    except Exception:
                        pass
            checks[p] = {"rc": rc, "lines": lines[:8], "signatures": sigs[:8], "s": round(time.time() - t0, 1)}
        res["checks"] = checks
    finally:
        sh(f"git -C /repo worktree remove --force {wt}")
        # regenerate Generated/*.lean from the real /repo again
        sh(f"/venv/bin/python {VERIF}/tools/gen_lean.py", env=dict(os.environ, PYTHONPATH="/repo"))
    ok = res.get("demo_clean_rc") == 0 and "192 passed" in res.get("tests", "") and res.get("demo_patched_rc") not in (0, None)
    res["confirmed"] = ok
    dst = os.path.join(VERIF, "seeded", seed_id)
    if ok:
        os.makedirs(dst, exist_ok=True)
        if os.path.realpath(seed_dir) != os.path.realpath(dst):
            shutil.copy(os.path.join(seed_dir, "patch.diff"), dst)
            shutil.copy(os.path.join(seed_dir, "demo.py"), dst)
        meta = {}
        try:
            meta = json.load(open(os.path.join(seed_dir, "meta.json")))
        except Exception:
            pass
        meta.update({"property": prop, "verified": {k: res[k] for k in ("demo_clean_rc", "tests", "demo_patched_rc")},
                     "our_checks": res.get("checks"), "ran": f"tools/seed_verify.py {prop} <seed> {seed_id} --tier {tier}"})
        json.dump(meta, open(os.path.join(dst, "meta.json"), "w"), indent=1)
    elif os.path.exists(os.path.join(dst, "meta.json")):
        # a stored seed that can no longer be confirmed on the current /repo HEAD (the patch does not apply any more,
        # or a later fix: commit made the change behaviour-preserving so that its demonstration passes)
        meta = json.load(open(os.path.join(dst, "meta.json")))
        meta["no_longer_applicable"] = {k: res.get(k) for k in ("patch_applies", "demo_clean_rc", "tests", "demo_patched_rc")}
        json.dump(meta, open(os.path.join(dst, "meta.json"), "w"), indent=1)
    print(json.dumps(res, indent=1))
    return 0


if __name__ == "__main__":
    sys.exit(main())
