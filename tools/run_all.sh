#!/bin/sh
# run every claimed check (quick) on the real tree; regenerates evidence/*.json
cd "$(dirname "$0")/.." || exit 2
for p in $(python3 -c "import json;print(' '.join(c['property_id'] for c in json.load(open('MANIFEST.json'))['checks']))"); do
  s=$(date +%s)
  ./check $p --tier ${1:-quick} > /tmp/runall_$p.log 2>&1
  rc=$?
  echo "$p rc=$rc $(( $(date +%s) - s ))s $(tail -1 /tmp/runall_$p.log | cut -c1-150)"
done
