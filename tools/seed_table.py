#!/usr/bin/env python3
"""seeded/SEED_TABLE.md: one row per seeded change - what it is, what its own check said on the first run
(seeded/FIRST_RUN.json, rounds 3+) and what it says now (seeded/<id>/meta.json, written by tools/seed_verify.py)."""
import glob
import json
import os

HERE = os.path.dirname(os.path.dirname(os.path.abspath(__file__)))


def main():
    first = {}
    p = os.path.join(HERE, "seeded", "FIRST_RUN.json")
    if os.path.exists(p):
        first = json.load(open(p))
    rows, stats = [], {"total": 0, "caught_replay": 0, "caught_nfi": 0, "missed": 0, "not_applicable": 0}
    for d in sorted(glob.glob(os.path.join(HERE, "seeded", "C*"))):
        sid = os.path.basename(d)
        try:
            m = json.load(open(os.path.join(d, "meta.json")))
        except Exception:
            continue
        own = sid.split("-")[0]
        c = (m.get("our_checks") or {}).get(own) or {}
        v = m.get("verified") or {}
        sigs = c.get("signatures") or []
        applies = v.get("demo_patched_rc") not in (0, None) and "192 passed" in (v.get("tests") or "") \
            and not m.get("no_longer_applicable")
        stats["total"] += 1
        if not applies:
            now = "no longer applicable on the current /repo HEAD (patch does not apply / a later fix made the change behaviour-preserving); earlier: " + ", ".join((c.get("signatures") or [])[:2])
            stats["not_applicable"] += 1
        elif c.get("rc") == 1 and sigs and sigs != ["correspondence-broken"]:
            now = "exit 1: " + ", ".join(s.replace(own + "-", "") for s in sigs[:3])
            stats["caught_replay"] += 1
        elif c.get("rc") == 1:
            now = "exit 1: no-failing-input-found (" + ", ".join(sigs or ["broken"]) + ")"
            stats["caught_nfi"] += 1
        else:
            now = f"MISSED (exit {c.get('rc')})"
            stats["missed"] += 1
        f = first.get(sid)
        if f is None:
            was = "-"
        elif f["rc"] == 0:
            was = "missed"
        elif f["signatures"] == ["correspondence-broken"]:
            was = "no-failing-input-found"
        else:
            was = "caught"
        summ = " ".join((m.get("summary") or "").split())[:170]
        rows.append(f"| {sid} | {m.get('family') or ''} | {summ} | {was} | {now} |")
    out = ["# Seeded changes and what the checks say about them", "",
           f"{stats['total']} seeds: {stats['caught_replay']} reported with a concrete replay, "
           f"{stats['caught_nfi']} reported as no-failing-input-found, {stats['missed']} missed, "
           f"{stats['not_applicable']} no longer applicable to the current /repo HEAD.", "",
           "| seed | family | change | own check, first run | own check, now |", "|---|---|---|---|---|"] + rows
    open(os.path.join(HERE, "seeded", "SEED_TABLE.md"), "w").write("\n".join(out) + "\n")
    print(stats)


if __name__ == "__main__":
    main()
