#!/venv/bin/python
"""Translator: regenerates lean/AsyncFix/Generated/*.lean from /repo's working tree.

Everything in asyncfix that is *data* (tables, enum values, literal sets) is
re-read from the source on every run, so the theorems that mention those tables
are re-checked by Lean's kernel against what the code says now.

  Proto.lean       FIXProtocol44: beginstring, repeating_groups, session_message_types
  ConnEnum.lean    ConnectionState ordinals, ConnectionRole, noreply set of _process_resend
  OrderTable.lean  the transition dictionaries of FIXNewOrderSingle.change_status (AST walk),
                   FOrdStatus / FExecType values

A file is rewritten only when its content changes (lake is hash based).
Exit status: 0 ok, 3 = the source no longer has the shape the translator
understands (the tie between model and code is broken; the caller treats this
like a failed proof obligation and searches for a failing input).
"""
import ast
import importlib
import os
import sys

REPO = os.environ.get("VERIF_REPO", "/repo")
HERE = os.path.dirname(os.path.dirname(os.path.abspath(__file__)))
OUT = os.path.join(HERE, "lean", "AsyncFix", "Generated")


class TranslatorError(Exception):
    pass

# --------------------------------------------------------------------------
# AST helpers shared by the generators: the SHAPE in which the source spells a literal table may change
# (annotated assignment, literal moved to a module / class constant, frozenset(...) around it) without the
# table changing - the generators read the table, not the spelling.
# --------------------------------------------------------------------------
class _DropAnnotations(ast.NodeTransformer):
    def visit_AnnAssign(self, node):
        self.generic_visit(node)
        if node.value is None:
            return node
        return ast.copy_location(ast.Assign(targets=[node.target], value=node.value), node)


def parse_source(src):
    """ast of the source with `x: T = v` read as `x = v`"""
    tree = _DropAnnotations().visit(ast.parse(src))
    ast.fix_missing_locations(tree)
    return tree


def _as_set_literal(value):
    """ast.Set behind `{...}`, `frozenset({...})`, `set([...])`, `frozenset((...))`; else None"""
    if isinstance(value, ast.Set):
        return value
    if isinstance(value, ast.Call) and isinstance(value.func, ast.Name) and value.func.id in ("set", "frozenset") \
            and len(value.args) == 1 and not value.keywords:
        a = value.args[0]
        if isinstance(a, ast.Set):
            return a
        if isinstance(a, (ast.List, ast.Tuple)):
            return ast.Set(elts=a.elts)
    return None


def _named_constants(tree, cls=None):
    """module level (and, when given, class level) `NAME = <expr>` assignments"""
    out = {}
    bodies = [tree.body]
    if cls is not None:
        bodies.append(cls.body)
    for body in bodies:
        for n in body:
            if isinstance(n, ast.Assign) and len(n.targets) == 1 and isinstance(n.targets[0], ast.Name):
                out[n.targets[0].id] = n.value
    return out


def find_set_literal(tree, fn, var, elt_ok, cls=None):
    """the set literal the function `fn` uses under the local name `var` - assigned in the function directly, or
    through a module / class constant; when the local name is gone: the one module / class level set constant that
    the function refers to and whose elements all satisfy elt_ok.  Returns an ast.Set or None."""
    consts = _named_constants(tree, cls)

    def resolve(value, depth=0):
        lit = _as_set_literal(value)
        if lit is not None or depth > 3:
            return lit
        if isinstance(value, ast.Name) and value.id in consts:
            return resolve(consts[value.id], depth + 1)
        if isinstance(value, ast.Attribute) and value.attr in consts:          # self.X / Cls.X
            return resolve(consts[value.attr], depth + 1)
        return None

    for node in ast.walk(fn):
        if isinstance(node, ast.Assign) and len(node.targets) == 1 and isinstance(node.targets[0], ast.Name) \
                and node.targets[0].id == var:
            return resolve(node.value)
    used = {n.id for n in ast.walk(fn) if isinstance(n, ast.Name)} | {n.attr for n in ast.walk(fn) if isinstance(n, ast.Attribute)}
    cands = []
    for name, value in consts.items():
        if name in used:
            lit = resolve(value)
            if lit is not None and lit.elts and all(elt_ok(e) for e in lit.elts):
                cands.append(lit)
    return cands[0] if len(cands) == 1 else None




def lstr(s: str) -> str:
    out = ['"']
    for ch in s:
        o = ord(ch)
        if ch == '"':
            out.append('\\"')
        elif ch == "\\":
            out.append("\\\\")
        elif 32 <= o < 127:
            out.append(ch)
        else:
            out.append("\\u{%x}" % o)
    out.append('"')
    return "".join(out)


def llist(items, per_line=6, indent="  "):
    items = list(items)
    if not items:
        return "[]"
    lines = []
    for i in range(0, len(items), per_line):
        lines.append(indent + ", ".join(items[i : i + per_line]))
    return "[\n" + ",\n".join(lines) + "]"


def write_if_changed(path, text):
    os.makedirs(os.path.dirname(path), exist_ok=True)
    try:
        with open(path) as f:
            if f.read() == text:
                return False
    except FileNotFoundError:
        pass
    with open(path, "w") as f:
        f.write(text)
    return True


HEADER = "-- GENERATED by tools/gen_lean.py from {src}; do not edit.\n"


# --------------------------------------------------------------------------
# Proto
# --------------------------------------------------------------------------
def gen_proto():
    sys.path.insert(0, REPO)
    from asyncfix.protocol.protocol_fix44 import FIXProtocol44

    p = FIXProtocol44
    groups = []
    for k, members in p.repeating_groups.items():
        ks = str(k)
        ms = [str(m) for m in members]
        if not ks.isdigit() or not all(m.isdigit() for m in ms):
            raise TranslatorError(f"repeating_groups: non-numeric tag in {ks}: {ms}")
        groups.append((ks, ms))
    sess = sorted(str(m) for m in p.session_message_types)
    t = HEADER.format(src="asyncfix/protocol/protocol_fix44.py")
    t += "namespace AsyncFix.Generated.Proto\n\n"
    t += f"def beginString : String := {lstr(p.beginstring)}\n\n"
    t += "/-- `FIXProtocol44.repeating_groups`: group tag ↦ member tags (dict order). -/\n"
    t += "def groups : List (Nat × List Nat) := [\n"
    t += ",\n".join(
        "  (%s, [%s])" % (k, ", ".join(ms)) for k, ms in groups
    )
    t += "]\n\n"
    def bl(x):
        return "[" + ", ".join(str(ord(ch)) for ch in x) + "]"
    t += "/-- the same table keyed by the tag STRINGS (code points) the decoder compares: `str(tag)` -/\n"
    t += "def groupsBytes : List (List Nat × List (List Nat)) := [\n"
    t += ",\n".join("  (%s, [%s])" % (bl(k), ", ".join(bl(m) for m in ms)) for k, ms in groups)
    t += "]\n\n"
    t += "def beginStringBytes : List Nat := " + bl(p.beginstring) + "\n\n"
    t += "def sessionTypes : List String := " + llist([lstr(s) for s in sess]) + "\n\n"
    t += "end AsyncFix.Generated.Proto\n"
    return t


# --------------------------------------------------------------------------
# ConnEnum
# --------------------------------------------------------------------------
def gen_connenum():
    sys.path.insert(0, REPO)
    from asyncfix import FMsg
    from asyncfix.connection import ConnectionRole, ConnectionState

    src = open(os.path.join(REPO, "asyncfix", "connection.py")).read()
    tree = parse_source(src)
    noreply = None

    def fmsg_elt(e):
        return (isinstance(e, ast.Attribute) and isinstance(e.value, ast.Name) and e.value.id == "FMsg"
                and hasattr(FMsg, e.attr)) or (isinstance(e, ast.Constant) and isinstance(e.value, str))

    for cls in [n for n in ast.walk(tree) if isinstance(n, ast.ClassDef)]:
        for node in cls.body:
            if isinstance(node, ast.AsyncFunctionDef) and node.name == "_process_resend":
                lit = find_set_literal(tree, node, "noreply_msgs", fmsg_elt, cls)
                if lit is None:
                    raise TranslatorError("noreply_msgs: no set literal of FMsg members found for _process_resend")
                noreply = []
                for e in lit.elts:
                    if not fmsg_elt(e):
                        raise TranslatorError("noreply_msgs: unsupported element")
                    noreply.append(str(getattr(FMsg, e.attr).value) if isinstance(e, ast.Attribute) else e.value)
    if noreply is None:
        raise TranslatorError("noreply_msgs literal not found in _process_resend")

    t = HEADER.format(src="asyncfix/connection.py")
    t += "namespace AsyncFix.Generated.ConnEnum\n\n"
    t += "/-- `ConnectionState` members with the ordinals the code compares with `<`/`<=`. -/\n"
    t += "def states : List (String × Nat) := " + llist(
        ["(%s, %d)" % (lstr(s.name), int(s.value)) for s in ConnectionState], 3
    ) + "\n\n"
    for s in ConnectionState:
        t += f"def st_{s.name} : Nat := {int(s.value)}\n"
    t += "\n"
    t += "def roles : List (String × Nat) := " + llist(
        ["(%s, %d)" % (lstr(r.name), int(r.value)) for r in ConnectionRole], 3
    ) + "\n\n"
    t += "/-- message types `_process_resend` never retransmits (`noreply_msgs`). -/\n"
    t += "def noReplay : List String := " + llist([lstr(s) for s in sorted(noreply)]) + "\n\n"
    t += "end AsyncFix.Generated.ConnEnum\n"
    return t


# --------------------------------------------------------------------------
# OrderTable
# --------------------------------------------------------------------------
def gen_ordertable():
    sys.path.insert(0, REPO)
    from asyncfix import FMsg
    from asyncfix.protocol.common import FExecType, FOrdStatus

    path = os.path.join(REPO, "asyncfix", "protocol", "order_single.py")
    tree = parse_source(open(path).read())
    fn = None
    for node in ast.walk(tree):
        if isinstance(node, ast.FunctionDef) and node.name == "change_status":
            fn = node
    if fn is None:
        raise TranslatorError("change_status not found")
    argnames = [a.arg for a in fn.args.args]
    if argnames != ["status", "fix_msg_type", "msg_exec_type", "msg_status", "raise_on_err"]:
        raise TranslatorError(f"change_status signature changed: {argnames}")

    # locate:  status_transitions = {}   followed by   if fix_msg_type == ...: elif ...
    body = [s for s in fn.body if not (isinstance(s, ast.Expr) and isinstance(s.value, ast.Constant))]
    if not (
        isinstance(body[0], ast.Assign)
        and isinstance(body[0].targets[0], ast.Name)
        and body[0].targets[0].id == "status_transitions"
        and isinstance(body[0].value, ast.Dict)
        and not body[0].value.keys
    ):
        raise TranslatorError("expected `status_transitions = {}` first")
    if not isinstance(body[1], ast.If):
        raise TranslatorError("expected if/elif chain selecting the table")

    def kind_of(expr):
        # fix_msg_type == FMsg.X
        if (
            isinstance(expr, ast.Compare)
            and len(expr.ops) == 1
            and isinstance(expr.ops[0], ast.Eq)
            and isinstance(expr.left, ast.Name)
            and expr.left.id == "fix_msg_type"
        ):
            c = expr.comparators[0]
            if isinstance(c, ast.Attribute) and isinstance(c.value, ast.Name) and c.value.id == "FMsg":
                return [str(getattr(FMsg, c.attr).value)]
            if isinstance(c, ast.Constant) and isinstance(c.value, str):
                return [c.value]
        if isinstance(expr, ast.BoolOp) and isinstance(expr.op, ast.Or):
            r = []
            for v in expr.values:
                r += kind_of(v)
            return r
        raise TranslatorError("unsupported table selector: " + ast.dump(expr))

    def key_of(k):
        if isinstance(k, ast.Constant) and k.value is None:
            return None
        if isinstance(k, ast.Constant) and k.value == "exec_type":
            return "exec_type"
        if isinstance(k, ast.Attribute) and isinstance(k.value, ast.Name):
            if k.value.id == "FOrdStatus":
                return ("S", str(getattr(FOrdStatus, k.attr).value))
            if k.value.id == "FExecType":
                return ("E", str(getattr(FExecType, k.attr).value))
        raise TranslatorError("unsupported key: " + ast.dump(k))

    def cell_of(v):
        if isinstance(v, ast.Constant) and v.value is None:
            return "stay"
        if isinstance(v, ast.Constant) and v.value is True:
            return "go"
        if isinstance(v, ast.Name) and v.id == "FIXError":
            return "err"
        raise TranslatorError("unsupported cell: " + ast.dump(v))

    def row_of(d, env):
        """{msg_status: cell, None: cell} -> (cells, default)"""
        d = resolve(d, env)
        cells, dflt = [], None
        for k, v in zip(d.keys, d.values):
            kk = key_of(k)
            if kk is None:
                dflt = cell_of(v)
            elif isinstance(kk, tuple) and kk[0] == "S":
                cells.append((kk[1], cell_of(v)))
            else:
                raise TranslatorError("row key must be FOrdStatus or None")
        if dflt is None:
            raise TranslatorError("row without None default")
        return (cells, dflt)

    def resolve(v, env):
        if isinstance(v, ast.Name) and v.id in env:
            return env[v.id]
        if isinstance(v, ast.Dict):
            return v
        raise TranslatorError("expected dict literal: " + ast.dump(v))

    def rowspec_of(d, env):
        d = resolve(d, env)
        keys = [key_of(k) for k in d.keys]
        if "exec_type" in keys:
            if len(keys) != 1:
                raise TranslatorError("exec_type row with other keys")
            sub = resolve(d.values[0], env)
            subs, dflt = [], None
            for k, v in zip(sub.keys, sub.values):
                kk = key_of(k)
                if kk is None:
                    dflt = row_of(v, env)
                elif isinstance(kk, tuple) and kk[0] == "E":
                    subs.append((kk[1], row_of(v, env)))
                else:
                    raise TranslatorError("exec_type sub-table key must be FExecType or None")
            if dflt is None:
                raise TranslatorError("exec_type sub-table without None default")
            return ("byExec", subs, dflt)
        return ("plain", row_of(d, env))

    def table_of(stmts):
        env = {}
        table = None
        for s in stmts:
            if not (isinstance(s, ast.Assign) and len(s.targets) == 1 and isinstance(s.targets[0], ast.Name)):
                raise TranslatorError("unsupported statement in table branch: " + ast.dump(s)[:80])
            name = s.targets[0].id
            if not isinstance(s.value, ast.Dict):
                raise TranslatorError("table branch assigns a non-dict")
            if name == "status_transitions":
                table = s.value
            else:
                env[name] = s.value
        if table is None:
            raise TranslatorError("branch does not assign status_transitions")
        rows, dflt = [], None
        for k, v in zip(table.keys, table.values):
            kk = key_of(k)
            if kk is None:
                dflt = rowspec_of(v, env)
            elif isinstance(kk, tuple) and kk[0] == "S":
                rows.append((kk[1], rowspec_of(v, env)))
            else:
                raise TranslatorError("table key must be FOrdStatus or None")
        if dflt is None:
            raise TranslatorError("table without None default row")
        return rows, dflt

    kinds = []
    node = body[1]
    while True:
        ks = kind_of(node.test)
        tbl = table_of(node.body)
        kinds.append((ks, tbl))
        if len(node.orelse) == 1 and isinstance(node.orelse[0], ast.If):
            node = node.orelse[0]
        elif not node.orelse:
            break
        else:
            raise TranslatorError("unexpected else branch in table selection")

    def lrow(r):
        cells, dflt = r
        return "⟨[%s], .%s⟩" % (", ".join("(%s, .%s)" % (lstr(k), c) for k, c in cells), dflt)

    def lspec(rs):
        if rs[0] == "plain":
            return ".plain " + lrow(rs[1])
        return ".byExec [%s] %s" % (
            ", ".join("(%s, %s)" % (lstr(k), lrow(r)) for k, r in rs[1]),
            lrow(rs[2]),
        )

    t = HEADER.format(src="asyncfix/protocol/order_single.py (change_status) and protocol/common.py")
    t += "import AsyncFix.Model.OrderTable\n"
    t += "namespace AsyncFix.Generated.OrderTable\nopen AsyncFix.Model.OrderTable\n\n"
    t += "/-- `FOrdStatus` members (name, value). -/\n"
    t += "def ordStatus : List (String × String) := " + llist(
        ["(%s, %s)" % (lstr(s.name), lstr(str(s.value))) for s in FOrdStatus], 3
    ) + "\n\n"
    t += "/-- `FExecType` members (name, value). -/\n"
    t += "def execType : List (String × String) := " + llist(
        ["(%s, %s)" % (lstr(s.name), lstr(str(s.value))) for s in FExecType], 3
    ) + "\n\n"
    for i, (ks, (rows, dflt)) in enumerate(kinds):
        t += f"def table{i} : Table :=\n  {{ rows := [\n"
        t += ",\n".join("      (%s, %s)" % (lstr(k), lspec(rs)) for k, rs in rows)
        t += "],\n    dflt := %s }\n\n" % lspec(dflt)
    t += "/-- message kind value ↦ transition table, in the order of the if/elif chain. -/\n"
    t += "def spec : Spec := [\n"
    ents = []
    for i, (ks, _) in enumerate(kinds):
        for k in ks:
            ents.append("  (%s, table%d)" % (lstr(k), i))
    t += ",\n".join(ents) + "]\n\n"
    t += "end AsyncFix.Generated.OrderTable\n"
    return t


GENERATORS = {
    "Proto.lean": gen_proto,
    "ConnEnum.lean": gen_connenum,
    "OrderTable.lean": gen_ordertable,
}


def family_generators():
    """tools/gen_<family>.py modules expose GENERATORS = {"File.lean": fn} (fn() -> Lean source text)"""
    import glob
    import importlib.util

    gens = {}
    for path in sorted(glob.glob(os.path.join(HERE, "tools", "gen_*.py"))):
        if os.path.basename(path) == "gen_lean.py":
            continue
        spec = importlib.util.spec_from_file_location(os.path.basename(path)[:-3], path)
        mod = importlib.util.module_from_spec(spec)
        spec.loader.exec_module(mod)
        gens.update(getattr(mod, "GENERATORS", {}))
    return gens


def main():
    rc = 0
    sys.path.insert(0, REPO)
    gens = dict(GENERATORS)
    try:
        gens.update(family_generators())
    except Exception as e:
        print(f"gen_lean: family generators: TRANSLATOR-REFUSED: {type(e).__name__}: {e}")
        rc = 3
    for name, g in gens.items():
        try:
            text = g()
        except TranslatorError as e:
            print(f"gen_lean: {name}: TRANSLATOR-REFUSED: {e}")
            rc = 3
            continue
        except Exception as e:  # import error etc: the source does not even load
            print(f"gen_lean: {name}: TRANSLATOR-REFUSED: {type(e).__name__}: {e}")
            rc = 3
            continue
        changed = write_if_changed(os.path.join(OUT, name), text)
        print(f"gen_lean: {name}: {'rewritten' if changed else 'unchanged'}")
    return rc


if __name__ == "__main__":
    sys.exit(main())
