#!/usr/bin/env python3
"""Merge notes/findings_<family>.json entries into known_findings.json 'open' (dedupe by property+signature)."""
import glob, json, os
HERE = os.path.dirname(os.path.dirname(os.path.abspath(__file__)))
kf = json.load(open(os.path.join(HERE, "known_findings.json")))
seen = {(e["property"], e["signature"]) for e in kf["open"]}
n = 0
for p in sorted(glob.glob(os.path.join(HERE, "notes", "findings_*.json"))):
    for e in json.load(open(p)):
        k = (e["property"], e["signature"])
        if k not in seen:
            seen.add(k); kf["open"].append(e); n += 1
json.dump(kf, open(os.path.join(HERE, "known_findings.json"), "w"), indent=1, ensure_ascii=False)
print("merged", n, "entries; open =", len(kf["open"]))
