import subprocess, sys, os, re, json
W="/root/scratch/sess-mut"
def sh(cmd, **kw): return subprocess.run(cmd, shell=True, capture_output=True, text=True, **kw)
def reset():
    sh(f"git -C /repo worktree remove --force {W}")
    r=sh(f"git -C /repo worktree add --detach {W} HEAD"); assert r.returncode==0, r.stderr
def edit(path, old, new, count=1):
    p=os.path.join(W,path); s=open(p).read(); assert old in s, (path, old[:60]); s=s.replace(old,new,count); open(p,'w').write(s)
MUTS={}
def mut(name):
    def d(f): MUTS[name]=f; return f
    return d
@mut("M1-revert-F11-initiator-prelogon-guard")
def _(): 
    r=sh(f"git -C {W} revert --no-edit -n bafdff0"); assert r.returncode==0, r.stderr+r.stdout
@mut("M2-revert-F6-below-expected-redelivery")
def _():
    r=sh(f"git -C {W} revert --no-edit -n 11cd821"); assert r.returncode==0, r.stderr+r.stdout
@mut("M3-send_msg-no-established-guard")
def _():
    edit("asyncfix/connection.py","if self._connection_state < ConnectionState.NETWORK_CONN_ESTABLISHED:\n            raise FIXConnectionError(","if self._connection_state < ConnectionState.UNKNOWN:\n            raise FIXConnectionError(")
@mut("M4-validate_comp_ids-swapped")
def _():
    edit("asyncfix/session.py","self.sender_comp_id == sender_comp_id\n            and self.target_comp_id == target_comp_id","self.sender_comp_id == target_comp_id\n            and self.target_comp_id == sender_comp_id")
@mut("M5-too-low-not-an-error")
def _():
    edit("asyncfix/connection.py","            _is_err = True\n            if msg.msg_type == FMsg.SEQUENCERESET:","            _is_err = False\n            if msg.msg_type == FMsg.SEQUENCERESET:")
@mut("M6-on_disconnect-only-with-socket")
def _():
    edit("asyncfix/connection.py","            self._socket_writer = None\n            self._socket_reader = None\n            await self._state_set(disconn_state)\n            await self.on_disconnect()",
         "            had_socket = self._socket_writer is not None\n            self._socket_writer = None\n            self._socket_reader = None\n            await self._state_set(disconn_state)\n            if had_socket:\n                await self.on_disconnect()")
@mut("M7-revert-10275ed-nonnumeric-seq")
def _():
    r=sh(f"git -C {W} revert --no-edit -n 10275ed"); assert r.returncode==0, r.stderr+r.stdout
@mut("M8-revert-29469a0-logon-without-98-108")
def _():
    r=sh(f"git -C {W} revert --no-edit -n 29469a0"); assert r.returncode==0, r.stderr+r.stdout
@mut("M9-revert-1c8bf2b-too-low-while-awaiting")
def _():
    r=sh(f"git -C {W} revert --no-edit -n 1c8bf2b"); assert r.returncode==0, r.stderr+r.stdout
@mut("M10-disconnect-guard-removed-reports-twice")
def _():
    edit("asyncfix/connection.py","        if self._connection_state > ConnectionState.DISCONNECTED_BROKEN_CONN:\n            assert disconn_state","        if self._connection_state >= ConnectionState.UNKNOWN:\n            assert disconn_state")
@mut("M11-logout-also-when-compids-missing")
def _():
    edit("asyncfix/connection.py","            # this will drop connection without a message\n            return True","            # this will drop connection without a message\n            return \"SenderCompID / TargetCompID missing\"")
@mut("M12-logout-sent-after-socket-close-order")
def _():
    edit("asyncfix/connection.py","            await self._state_set(disconn_state)\n            await self.on_disconnect()","            await self.on_disconnect()\n            await self._state_set(disconn_state)")
names=sys.argv[1:] or list(MUTS)
res={}
for n in names:
    reset(); MUTS[n]()
    t=sh(f"cd {W} && PYTHONPATH={W} /venv/bin/python -m pytest -q -p no:cacheprovider 2>&1 | tail -1")
    c=sh(f"cd /root/scratch/wt-sess && rm -rf replays && VERIF_REPO={W} ./check C11 2>&1 | tail -12")
    lines=c.stdout.strip().split("\n")
    sigs=[]
    for f in sorted(os.listdir("/root/scratch/wt-sess/replays")) if os.path.isdir("/root/scratch/wt-sess/replays") else []:
        d=json.load(open("/root/scratch/wt-sess/replays/"+f)); sigs.append(d.get("signature") or d.get("kind"))
    res[n]={"unit_tests":t.stdout.strip(),"check":lines[-1],"violations":[l for l in lines if l.startswith("VIOLATION")],"replay_signatures":sigs}
    print(n, json.dumps(res[n],indent=1), flush=True)
sh(f"git -C /repo worktree remove --force {W}")
json.dump(res,open("/tmp/mutation_results.json","w"),indent=1)
