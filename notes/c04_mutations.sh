#!/bin/sh
# C04 mutation experiments: creates scratch worktrees of /repo under /root/scratch/c04mut/<name>, applies one mutation each,
# runs the unedited unit tests; then: VERIF_REPO=/root/scratch/c04mut/<name> ./check C04
mkdir -p /root/scratch/c04mut; cat > /root/scratch/c04mut/mk.sh <<'MKEOF'
#!/bin/sh
# usage: mk.sh name  (python patch script on stdin)
n=$1
git -C /repo worktree remove --force /root/scratch/c04mut/$n 2>/dev/null
git -C /repo worktree add --detach /root/scratch/c04mut/$n HEAD >/dev/null 2>&1
cd /root/scratch/c04mut/$n && python3 - && git diff --stat | tail -1 && PYTHONPATH=$PWD /venv/bin/python -m pytest -q -p no:cacheprovider 2>&1 | tail -1
MKEOF
chmod +x /root/scratch/c04mut/mk.sh
cd /root/scratch/c04mut
./mk.sh m1_revert_f6 <<'EOF'
p='asyncfix/connection.py'; s=open(p).read()
a="                if is_valid_msg_num and msg_seq_num == self._session.next_num_in:\n"
assert s.count(a)==1
open(p,'w').write(s.replace(a,"                if is_valid_msg_num:\n"))
EOF
./mk.sh m2_revert_f7 <<'EOF'
p='asyncfix/connection.py'; s=open(p).read()
a='''            msg_seq_num = int(seqreset_msg[FTag.MsgSeqNum])
            if (
                msg_seq_num != self._session.next_num_in
                or int(seqreset_msg[FTag.NewSeqNo]) <= msg_seq_num
            ):
                # GapFill is a sequenced message: numbered too high -> missing
                #   messages have to be requested, too low -> duplicate, ignored;
                #   and it can only move the expected number forward
                return False
'''
assert s.count(a)==1
open(p,'w').write(s.replace(a,""))
EOF
./mk.sh m3_gaps_ge <<'EOF'
p='asyncfix/connection.py'; s=open(p).read()
a="        if msg_seq_num > self._session.next_num_in:\n"
assert s.count(a)==1
open(p,'w').write(s.replace(a,"        if msg_seq_num >= self._session.next_num_in:\n"))
EOF
./mk.sh m4_no_awaiting_test <<'EOF'
p='asyncfix/connection.py'; s=open(p).read()
a="            if self._connection_state != ConnectionState.RESENDREQ_AWAITING:\n                resend_req = FIXMessage("
assert s.count(a)==1
open(p,'w').write(s.replace(a,"            if True:\n                resend_req = FIXMessage("))
EOF
./mk.sh m5_setnext_ge <<'EOF'
p='asyncfix/session.py'; s=open(p).read()
a="            if seq_no != self.next_num_in:\n"
assert s.count(a)==1
open(p,'w').write(s.replace(a,"            if seq_no < self.next_num_in:\n"))
EOF
./mk.sh m6_watermark_gt <<'EOF'
p='asyncfix/connection.py'; s=open(p).read()
a="            if msg_sec_no >= self._max_seq_num_resend:\n"
assert s.count(a)==1
open(p,'w').write(s.replace(a,"            if msg_sec_no > self._max_seq_num_resend:\n"))
EOF
./mk.sh m7_rr_begin_seq <<'EOF'
p='asyncfix/connection.py'; s=open(p).read()
a="{FTag.BeginSeqNo: self._session.next_num_in, FTag.EndSeqNo: \"0\"},"
assert s.count(a)==1
open(p,'w').write(s.replace(a,"{FTag.BeginSeqNo: msg_seq_num, FTag.EndSeqNo: \"0\"},"))
EOF
./mk.sh m8_seqreset_falls_to_app_branch <<'EOF'
p='asyncfix/connection.py'; s=open(p).read()
a="            elif msg.msg_type == FMsg.SEQUENCERESET:\n                pass\n"
assert s.count(a)==1
open(p,'w').write(s.replace(a,""))
EOF
