import warnings; warnings.simplefilter("ignore")
from asyncfix import FIXMessage, FMsg, FTag, FIXTester
from asyncfix.protocol import FIXNewOrderSingle, FOrdStatus, FExecType, FIXSchema
from asyncfix.errors import FIXError
S=FOrdStatus; E=FExecType
cs=FIXNewOrderSingle.change_status
# C16 probes
def t(*a,**k):
    try: return cs(*a,**k)
    except FIXError as e: return "FIXError"
    except Exception as e: return "EXC "+type(e).__name__
print("filled + cxlrej reporting NEW:", t(S.FILLED, FMsg.ORDERCANCELREJECT, 0, S.NEW))
print("new + cxlrej reporting PENDING_NEW:", t(S.NEW, FMsg.ORDERCANCELREJECT, 0, S.PENDING_NEW))
print("pending_cancel + cxlrej reporting junk 'q':", t(S.PENDING_CANCEL, FMsg.ORDERCANCELREJECT, 0, "q"))
print("new + execrep reporting junk 'q':", t(S.NEW, FMsg.EXECUTIONREPORT, E.NEW, "q"))
print("new + execrep reporting DONE_FOR_DAY:", t(S.NEW, FMsg.EXECUTIONREPORT, E.NEW, S.DONE_FOR_DAY))
print("pending_cancel + execrep PENDING_NEW:", t(S.PENDING_CANCEL, FMsg.EXECUTIONREPORT, E.NEW, S.PENDING_NEW))
print("pending_replace + execrep PENDING_NEW (replaced):", t(S.PENDING_REPLACE, FMsg.EXECUTIONREPORT, E.REPLACED, S.PENDING_NEW))
print("suspended + execrep FILLED:", t(S.SUSPENDED, FMsg.EXECUTIONREPORT, E.TRADE, S.FILLED))
print("unsupported kind:", t(S.NEW, FMsg.NEWORDERSINGLE, 0, S.NEW), t(S.NEW, FMsg.NEWORDERSINGLE, 0, S.NEW, raise_on_err=False))
print("DONE_FOR_DAY cur + F:", t(S.DONE_FOR_DAY, FMsg.ORDERCANCELREQUEST, 0, S.PENDING_CANCEL))
print("NEW->PARTIALLY->NEW:", t(S.PARTIALLY_FILLED, FMsg.EXECUTIONREPORT, E.NEW, S.NEW))
print("NEW cur + report CREATED raise=False:", t(S.NEW, FMsg.EXECUTIONREPORT, E.NEW, S.CREATED, raise_on_err=False))
# C17 cancel reject then cancel again
ft=FIXTester()
o=FIXNewOrderSingle("ord","TICK","1",10.0,5.0)
m=o.new_req(); ft.order_register_single(o)
o.process_execution_report(ft.fix_exec_report_msg(o,o.clord_id,E.PENDING_NEW,S.PENDING_NEW))
o.process_execution_report(ft.fix_exec_report_msg(o,o.clord_id,E.NEW,S.NEW,leaves_qty=5.0, cum_qty=0.0))
print(o, o.can_cancel())
cx=ft.fix_cxl_request(o); print(o, o.clord_id, o.orig_clord_id)
rej=ft.fix_cxlrep_reject_msg(cx,S.NEW); print(o.process_cancel_rej_report(rej), type(o.status), repr(o.status), o.clord_id,o.orig_clord_id)
print("can_cancel after reject:",o.can_cancel())
try: o.cancel_req()
except BaseException as e: print("cancel_req after reject ->",type(e).__name__,e)
try: print(repr(o))
except BaseException as e: print("repr fails:",type(e).__name__,e)
print("is_finished",o.is_finished())
# clord root with suffix
o2=FIXNewOrderSingle("abc--7","T","1",1.0,1.0); print(o2.new_req()[11])
o2=FIXNewOrderSingle("a\nb--7","T","1",1.0,1.0); print(repr(o2.clord_id_root))
