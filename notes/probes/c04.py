from harness import *
async def main():
    # initiator conn logs on against raw peer
    c=Conn("I","A"); c.attach()
    p=Peer("A","I")
    await c.send_msg(FIXMessage(FMsg.LOGON,{98:0,108:30}))
    d,raw=p.frame(FMsg.LOGON,{98:0,108:30}); await c._process_message(d,raw)
    print("state",c.connection_state.name, c._session.next_num_in, c.events); c.sent()
    # app msgs 2,3
    for i in range(2):
        d,raw=p.frame(FMsg.NEWS,{58:f"n{i}"}); await c._process_message(d,raw)
    print(c.events[-2:], c._session.next_num_in)
    # gap: send seq 6 (skip 4,5)
    d,raw=p.frame(FMsg.NEWS,{58:"gap6"},seq=6); await c._process_message(d,raw)
    print("after gap:",c.connection_state.name,[short(m) for m in c.sent()], c._session.next_num_in)
    # (a) now low-numbered frame 2 again while RESENDREQ_AWAITING
    n=len(c.events)
    d,raw=p.frame(FMsg.NEWS,{58:"dup2"},seq=2, possdup=True); await c._process_message(d,raw)
    print("low during awaiting -> events:",c.events[n:], c.connection_state.name, c._session.next_num_in)
    # another too-high 8 while awaiting: no second resend request
    d,raw=p.frame(FMsg.NEWS,{58:"gap8"},seq=8); await c._process_message(d,raw)
    print("second high:",[short(m) for m in c.sent()], c._max_seq_num_resend)
    # fill 4,5,6
    for s in (4,5,6):
        d,raw=p.frame(FMsg.NEWS,{58:f"r{s}"},seq=s,possdup=True); await c._process_message(d,raw)
    print("after refill:",c.connection_state.name,c._session.next_num_in,c.events[-4:])
    # now ACTIVE and expecting 7 while 7 never arrives; peer sends 8
    d,raw=p.frame(FMsg.NEWS,{58:"x8"},seq=8); await c._process_message(d,raw)
    print("8:",c.connection_state.name,[short(m) for m in c.sent()])
    # (b) gap fill numbered above expected: expected 7, gapfill msgseq 9 -> newseq 12
    d,raw=p.frame(FMsg.SEQUENCERESET,{123:"Y",36:12},seq=9); await c._process_message(d,raw)
    print("gapfill above expected:",c.connection_state.name,c._session.next_num_in,[short(m) for m in c.sent()])
asyncio.run(main())
