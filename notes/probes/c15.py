import warnings; warnings.simplefilter("ignore")
import xml.etree.ElementTree as ET
from asyncfix import FIXMessage, FMsg, FTag
from asyncfix.protocol import FIXSchema
from asyncfix.protocol.schema import SchemaField, SchemaGroup
from asyncfix.errors import FIXMessageError
S=FIXSchema("/repo/tests/FIX44.xml"); T=FIXSchema("/repo/tests/TT-FIX44.xml")
print(len(S._messages), len(T._messages), sorted(S._types), sorted(T._types - S._types))
def v(f,val):
    try: return f.validate_value(val)
    except FIXMessageError as e: return "MsgErr"
    except BaseException as e: return "EXC:"+type(e).__name__
fi=SchemaField("1","x","INT")
for val in ["1_0"," 5","5 ","+5","-0","٣","1e3","0x1","--1","-","007",""]:
    print("INT",repr(val),v(fi,val))
ff=SchemaField("1","x","PRICE")
for val in ["1e3","1_0.5"," .5","nan","inf","-.5","5.",".","1.2.3","٣.٥","+1.0","Infinity"]:
    print("PRICE",repr(val),v(ff,val))
for tname,vals in {"UTCTIMESTAMP":["20230101-1:2:3","20230101-01:02:03","20230101-01:02:03.123","20230101-01:02:03.1234567","2023011-01:02:03","20230101-24:00:00","20230101-23:59:60","00010101-00:00:00"],
   "LOCALMKTDATE":["2023011","20230230","202311","20231301"],"UTCTIMEONLY":["1:2:3","01:02:03.5"],"MONTHYEAR":["202301","20230132","202301w1","202301w6","2023w1","20231","2023010"],
   "BOOLEAN":["Y","N","y","YN"],"CHAR":["a","ab"," ","\x01"],"CURRENCY":["USD","US","USDX","U$D","ÜSD","US_"],"COUNTRY":["US","U","USA"],"EXCHANGE":["XLON","X","XLONX"],
   "SEQNUM":["0","1","-1","1_0"],"NUMINGROUP":["0","2"],"DAYOFMONTH":["0","1","31","32","+7"," 7"],"STRING":["a=b","a\x01","ok"],"LENGTH":["abc","-1"],"DATA":["\x01"], "TZTIMEONLY":["x"]}.items():
    f=SchemaField("2","y",tname)
    print(tname,[(val,v(f,val)) for val in vals])
f16=SchemaField("16","EndSeqNo","SEQNUM"); print("EndSeqNo 0:",v(f16,"0"), v(f16,"x"))
# C15: missing required group
m=FIXMessage(FMsg.MARKETDATAREQUEST,{262:"r",263:"1",264:"0"})
try: print("MDReq without required groups:",S.validate(m))
except Exception as e: print("rej",type(e).__name__,e)
# group member given as plain / plain given as group
m=FIXMessage(FMsg.NEWORDERSINGLE,{11:"c",54:"1",60:"20230101-00:00:00",40:"1",55:"S"})
print("valid NOS:",S.validate(m))
m2=FIXMessage(FMsg.NEWORDERSINGLE,{11:"c",54:"1",60:"20230101-00:00:00",40:"1",55:"S"}); m2.set_group(58,[{1:"a"}])
try: print(S.validate(m2))
except Exception as e: print("plain given as group:",type(e).__name__)
m2=FIXMessage(FMsg.NEWORDERSINGLE,{11:"c",54:"1",60:"20230101-00:00:00",40:"1",55:"S",453:"1"})
try: print(S.validate(m2))
except Exception as e: print("group given as plain:",type(e).__name__)
m2=FIXMessage(FMsg.NEWORDERSINGLE,{11:"c",54:"1",60:"20230101-00:00:00",40:"1",55:"S"}); m2.set_group(453,[])
try: print("empty group list:",S.validate(m2))
except Exception as e: print("empty group:",type(e).__name__)
m2=FIXMessage(FMsg.NEWORDERSINGLE,{11:"c",54:"1",60:"20230101-00:00:00",40:"1",55:"S"}); m2.set_group(453,[{448:"a",447:"D",452:"1",802:"1"}])
try: print("nested group as plain inside item:",S.validate(m2))
except Exception as e: print("nested as plain:",type(e).__name__, e)
m2=FIXMessage(FMsg.NEWORDERSINGLE,{11:"c",54:"1",60:"20230101-00:00:00",40:"1",55:"S"}); m2.set_group(453,[{448:"a",447:"D",452:"1"}]); m2.get_group_by_index(453,0).set_group(448+0,[]) if False else None
m2.tags["55"]=FIXMessageError  # err class value
try: print("err-class value:",S.validate(m2))
except Exception as e: print("errclass:",type(e).__name__, e)
m2=FIXMessage(FMsg.NEWORDERSINGLE,{11:"c",54:"1",60:"20230101-00:00:00",40:"1",55:""})
try: print("empty value:",S.validate(m2))
except BaseException as e: print("empty value:",type(e).__name__, e)
m2=FIXMessage("ZZZ",{11:"c"})
try: print(S.validate(m2))
except BaseException as e: print("unknown type:",type(e).__name__)
