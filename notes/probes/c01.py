import warnings; warnings.simplefilter("ignore")
from asyncfix import FIXMessage, FMsg, FTag
from asyncfix.codec import Codec
from asyncfix.protocol import FIXProtocol44
from asyncfix.journaler import Journaler
j = Journaler()
s = j.create_or_load("T","S")
c = Codec(FIXProtocol44())
def rt(m, **kw):
    e = c.encode(m, s, **kw)
    b = e.encode("latin-1")
    try:
        d, n, raw = c.decode(b)
    except Exception as ex:
        return ("EXC", repr(ex))
    return (d, n, len(b), raw == b)
# C01: value containing 8=FIX.
m = FIXMessage(FMsg.NEWORDERSINGLE, {58: "abc8=FIX.zz", 55: "X"})
print("8=FIX. in value:", rt(m))
m = FIXMessage(FMsg.NEWORDERSINGLE, {58: "a=b", 55: "10=000"})
print("= and 10= in value:", rt(m))
# value equal to empty?
m = FIXMessage(FMsg.NEWORDERSINGLE, {58: "", 55: "X"})
print("empty value:", rt(m))
# groups
m = FIXMessage(FMsg.NEWORDERSINGLE, {55:"X"})
m.set_group(FTag.NoPartyIDs, [{FTag.PartyID:"a", FTag.PartyRole: "1", FTag.NoPartySubIDs:[{FTag.PartySubID:"s1"},{FTag.PartySubID:"s2", FTag.PartySubIDType:"3"}]}, {FTag.PartyID:"b"}])
m[58]="after"
print("nested:", rt(m))
# group item not starting with first member; members out of order
m = FIXMessage(FMsg.NEWORDERSINGLE, {55:"X"})
m.set_group(FTag.NoPartyIDs, [{FTag.PartyRole:"1", FTag.PartyID:"a"}, {FTag.PartyRole:"2"}, {FTag.PartyRole:"3"}])
print("out of order items:", rt(m))
# tag after group that is member of parent group
m = FIXMessage(FMsg.NEWORDERSINGLE, {55:"X"})
m.set_group(FTag.NoAllocs, [{FTag.AllocAccount:"a", FTag.NoNestedPartyIDs:[{FTag.NestedPartyID:"p"}], FTag.AllocText:"t"},{FTag.AllocAccount:"b"}])
print("nested with trailing parent member:", rt(m))
# body tag that is a member tag of a group but outside group, placed after group
m = FIXMessage(FMsg.NEWORDERSINGLE, {55:"X"})
m.set_group(FTag.NoPartyIDs, [{FTag.PartyID:"a"}])
m[FTag.PartyRole] = "7"
print("member tag after group at top-level:", rt(m))
# empty group list
m = FIXMessage(FMsg.NEWORDERSINGLE, {55:"X"})
m.set_group(FTag.NoPartyIDs, [])
m[58]="z"
print("empty group:", rt(m))
# custom msg type
m = FIXMessage("ZZ", {55:"X"})
print("custom:", rt(m))
# header tags in body e.g. 8, 9, 35, 10
for t in (8,9,35,10,49,56,34,52):
    m = FIXMessage(FMsg.NEWORDERSINGLE, {55:"X"})
    m[t]="1"
    print("body has tag",t, rt(m))
