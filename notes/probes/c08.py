import warnings; warnings.simplefilter("ignore")
import os, sqlite3, subprocess, sys, tempfile
from asyncfix.journaler import Journaler
from asyncfix.message import MessageDirection as D
f=tempfile.mktemp(suffix=".db")
j=Journaler(f); s=j.create_or_load("T","S")
def fr(n): return b"8=FIX.4.4\x019=5\x0135=0\x0134=%d\x0110=000\x01"%n
for n in (1,2,3): j.persist_msg(fr(n),s,D.OUTBOUND)
j.persist_msg(fr(1),s,D.INBOUND)
j.set_seq_num(s,next_num_out=10,next_num_in=7)
print("same conn:", j.create_or_load("T","S"), {k:(v.next_num_in,v.next_num_out) for k,v in j.sessions().items()})

del j  # normal close
j3=Journaler(f); print("after close:", j3.create_or_load("T","S"), {k:(v.next_num_in,v.next_num_out) for k,v in j3.sessions().items()})
# duplicate
try: j3.persist_msg(fr(2),j3.create_or_load("T","S"),D.OUTBOUND)
except Exception as e: print("dup:",type(e).__name__)
print(j3.create_or_load("T","S"))
# mirror sessions
a=j3.create_or_load("S","T"); print("mirror:",a, a.key)
# descending store: store 5 then 4: counter?
s3=j3.create_or_load("T","S")
j3.persist_msg(fr(9),s3,D.OUTBOUND); j3.persist_msg(fr(5),s3,D.OUTBOUND)
print("after storing 9 then 5:", j3.create_or_load("T","S"))
print(j3.recover_messages(s3,D.OUTBOUND,5,3), len(j3.recover_messages(s3,D.OUTBOUND,0,10**30)) if True else None)
# string bounds
print(len(j3.recover_messages(s3,D.OUTBOUND,"2","10")))
# persist: session object counters not updated?
print("session obj:", s3)
# find_seq_no with 34 inside value earlier?
try: print(Journaler.find_seq_no(b"8=FIX.4.4\x019=5\x0135=0\x0158=x\x0134=7\x0134=9\x0110=000\x01"))
except Exception as e: print(e)
# non-bytes / big seq
try: j3.persist_msg(fr(2**70),s3,D.OUTBOUND); print("big ok", j3.create_or_load("T","S"))
except Exception as e: print("big:",type(e).__name__,e)
os.remove(f)
