from harness import *
import asyncfix.connection as cm
from c14 import Suspend, step, run_all   # runs c14.main() on import; fine
class Clock: t=1_700_000_000.25
clk=Clock()
cm.time.time=lambda: clk.t
async def fake_sleep(d): 
    await Suspend(("sleep",d))
cm.asyncio.sleep=fake_sleep
def scenario(hb, answer_delay=None, silent=True):
    clk.t=1_700_000_000.25
    c=Conn("I","A"); c.attach(); c._heartbeat_period=hb
    p=Peer("A","I")
    run_all(c.send_msg(FIXMessage(FMsg.LOGON,{98:0,108:hb})))
    d,raw=p.frame(FMsg.LOGON,{98:0,108:hb}); run_all(c._process_message(d,raw)); c.w.out=[]
    t0=clk.t; hbtask=c.heartbeat_timer_task(); log=[]; pending=None
    C=Codec(FIXProtocol44())
    for i in range(int(hb*4+5)):
        r=step(hbtask)
        for b in c.w.out:
            m=C.decode(b)[0]; log.append((round(clk.t-t0,2),str(m.msg_type),m.get(112,None)))
            if str(m.msg_type)=="1" and answer_delay is not None: pending=(clk.t+answer_delay, m[112])
        c.w.out=[]
        if c.connection_state<=3: log.append((round(clk.t-t0,2),"DISCONNECTED")); break
        clk.t+=1.0
        if pending and clk.t>=pending[0]:
            d,raw=p.frame(FMsg.HEARTBEAT,{112:pending[1]}); run_all(c._process_message(d,raw)); pending=None
    return log
for hb in (1,2,5,30):
    print("hb",hb,"silent:",scenario(hb))
print("hb 5 answer delay 3:",scenario(5,answer_delay=3))
print("hb 5 answer delay 9:",scenario(5,answer_delay=9))
print("hb 5 answer delay 11:",scenario(5,answer_delay=11))
