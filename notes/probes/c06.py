from harness import *
async def setup(n_app=4):
    c=Conn("I","A"); c.attach(); p=Peer("A","I")
    await c.send_msg(FIXMessage(FMsg.LOGON,{98:0,108:30}))
    d,raw=p.frame(FMsg.LOGON,{98:0,108:30}); await c._process_message(d,raw)
    for i in range(n_app):
        await c.send_msg(FIXMessage(FMsg.NEWS,{58:f"app{i}"}))
    await c.send_msg(FIXMessage(FMsg.HEARTBEAT))
    await c.send_msg(FIXMessage(FMsg.NEWS,{58:"last"}))
    c.sent()
    return c,p
def journal(c):
    return [(r[0], short(Codec(FIXProtocol44()).decode(r[1])[0])) for r in c._journaler.get_all_msgs(direction=MessageDirection.OUTBOUND)]
async def req(c,p,b,e):
    d,raw=p.frame(FMsg.RESENDREQUEST,{7:b,16:e}); await c._process_message(d,raw)
    out=[short(m) for m in c.sent()]
    print(f"  Resend({b},{e}) ->", out)
    print("  state",c.connection_state.name,"next_out",c._session.next_num_out, "stored", c._journaler.create_or_load("A","I").next_num_out)
async def main():
    c,p=await setup()
    print("journal:",journal(c)); print("next_out",c._session.next_num_out)
    print("first full request")
    await req(c,p,1,0)
    print("journal after:",journal(c))
    print("second request same range")
    await req(c,p,1,0)
    print("journal after:",journal(c))
    c,p=await setup()
    print("bounded request 2..3")
    await req(c,p,2,3)
    print("journal after:",journal(c))
    c,p=await setup()
    print("begin beyond last sent")
    await req(c,p,50,0)
    c,p=await setup()
    print("begin 0")
    await req(c,p,0,0)
    c,p=await setup()
    print("end<begin")
    await req(c,p,5,2)
    print("journal after:",journal(c))
asyncio.run(main())
