import warnings; warnings.simplefilter("ignore")
import asyncio, logging, sys
from asyncfix import FIXMessage, FMsg, FTag
from asyncfix.connection import AsyncFIXConnection, ConnectionRole, ConnectionState
from asyncfix.journaler import Journaler
from asyncfix.message import MessageDirection
from asyncfix.protocol import FIXProtocol44
from asyncfix.codec import Codec
logging.disable(logging.CRITICAL)

class W:
    def __init__(self): self.out=[]; self.closed=False
    def write(self,b): self.out.append(b)
    async def drain(self): pass
    def close(self): self.closed=True
    async def wait_closed(self): pass

class Conn(AsyncFIXConnection):
    def __init__(self, sender, target, j=None, role=None):
        super().__init__(FIXProtocol44(), sender, target, j or Journaler(), "h", 1, 30)
        self.events=[]
        if role: self._connection_role=role
    async def on_message(self,msg): self.events.append(("msg", str(msg.msg_type), msg.get(34), msg.get(58,None)))
    async def on_connect(self): self.events.append(("connect",))
    async def on_disconnect(self): self.events.append(("disconnect",))
    async def on_logon(self,h): self.events.append(("logon",h))
    async def on_logout(self,m): self.events.append(("logout",))
    def attach(self):
        self.w=W(); self._socket_writer=self.w; self._socket_reader=object()
        self._connection_state=ConnectionState.NETWORK_CONN_ESTABLISHED
    def sent(self):
        c=Codec(FIXProtocol44()); r=[]
        for b in self.w.out:
            m,_,_=c.decode(b); r.append(m)
        self.w.out=[]
        return r

class Peer:
    """raw counterparty that fabricates frames"""
    def __init__(self, sender, target):
        self.j=Journaler(); self.s=self.j.create_or_load(target,sender); self.c=Codec(FIXProtocol44())
    def frame(self, mtype, tags=None, seq=None, possdup=False):
        m=FIXMessage(mtype, tags or {})
        if possdup: m[43]="Y"
        if seq is not None:
            m[34]=seq
            raw=self.c.encode(m,self.s,raw_seq_num=True).encode()
        else:
            raw=self.c.encode(m,self.s).encode()
        d,_,_=self.c.decode(raw)
        return d,raw

def short(m): 
    return (str(m.msg_type), m.get(34), {k:v for k,v in m.tags.items() if k in ('7','16','36','123','43','58','112','122')})
