import warnings; warnings.simplefilter("ignore")
import sys, itertools, logging
logging.disable(logging.CRITICAL)
from asyncfix import FIXMessage, FMsg, FTag
from asyncfix.codec import Codec
from asyncfix.protocol import FIXProtocol44
from asyncfix.journaler import Journaler
import asyncfix; print(asyncfix.__file__)
c=Codec(FIXProtocol44()); s=Journaler().create_or_load("T","S")
def feed(chunks):
    buf=b""; out=[]
    for ch in chunks:
        buf+=ch
        while True:
            try: m,n,raw=c.decode(buf)
            except Exception as e: return ("EXC",type(e).__name__)
            if n>0: buf=buf[n:]
            if m is None: break
            out.append(raw)
    return out
frames=[c.encode(FIXMessage(FMsg.NEWS,{58:t}),s).encode() for t in ("a","FIX.4.4 hello","c")]
frames[1]=c.encode(FIXMessage(FMsg.NEWS,{58:"FIX.4.4 hello", 18:"FIX.x"}),s).encode()
for garbage in (b"", b"xx8=F\x0110=1\x01yy8=FIX"):
    stream=garbage+frames[0]+garbage+frames[1]+frames[2]
    whole=feed([stream]); bad1=[];bad2=0
    print("whole ->",len(whole), whole==frames)
    for i in range(1,len(stream)):
        r=feed([stream[:i],stream[i:]])
        if r!=frames: bad1.append(i)
    print("1-cut failures:",len(bad1), bad1[:40])
    r=feed([bytes([b]) for b in stream]); print("1-byte reads ok:", r==frames)
    n=0
    for i in range(1,len(stream),3):
        for j in range(i+1,len(stream),3):
            n+=1
            if feed([stream[:i],stream[i:j],stream[j:]])!=frames: bad2+=1
    print("2-cut failures:",bad2,"of",n)
