from harness import *
class Suspend:
    def __init__(self,tag): self.tag=tag
    def __await__(self):
        yield self.tag
class W2(W):
    async def drain(self): await Suspend("drain")
class C2(Conn):
    async def should_replay(self,m):
        await Suspend("should_replay"); return True
def step(coro):
    try: return coro.send(None)
    except StopIteration: return "DONE"
    except Exception as e: return "EXC:"+type(e).__name__
def run_all(coro):
    while True:
        r=step(coro)
        if r=="DONE" or str(r).startswith("EXC"): return r
async def noop(): pass
def main():
    c=C2("I","A"); c.attach(); c.w=W2(); c._socket_writer=c.w
    p=Peer("A","I")
    print(run_all(c.send_msg(FIXMessage(FMsg.LOGON,{98:0,108:30}))))
    d,raw=p.frame(FMsg.LOGON,{98:0,108:30}); print(run_all(c._process_message(d,raw)))
    for i in range(3): run_all(c.send_msg(FIXMessage(FMsg.NEWS,{58:f"a{i}"})))
    c.w.out=[]
    print("state",c.connection_state.name,"next_out",c._session.next_num_out)
    d,raw=p.frame(FMsg.RESENDREQUEST,{7:2,16:0})
    reader=c._process_message(d,raw)
    print("reader ->",step(reader))   # suspends in should_replay for msg 2, counter rewound
    print("  next_out during window:",c._session.next_num_out)
    sender=c.send_msg(FIXMessage(FMsg.NEWS,{58:"concurrent"}))
    print("sender ->",step(sender), "next_out",c._session.next_num_out)
    print("sender ->",step(sender))
    r=run_all(reader); print("reader finish ->",r)
    C=Codec(FIXProtocol44())
    print([short(C.decode(b)[0]) for b in c.w.out])
    print("final next_out",c._session.next_num_out,"stored",c._journaler.create_or_load("A","I").next_num_out, c.connection_state.name)
main()
