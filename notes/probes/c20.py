from harness import *
from asyncfix import FIXTester
from asyncfix.protocol import FIXNewOrderSingle, FOrdStatus as S, FExecType as E, FIXSchema
sch=FIXSchema("/repo/tests/FIX44.xml")
ft=FIXTester(schema=sch)
o=FIXNewOrderSingle("ord","TICK","1",10.0,5.0); o.new_req(); ft.order_register_single(o)
r1=ft.fix_exec_report_msg(o,o.clord_id,E.PENDING_NEW,S.PENDING_NEW)
r2=ft.fix_exec_report_msg(o,o.clord_id,E.NEW,S.NEW)
print("OrderID stable before processing?", r1[37], r2[37])
async def main():
    c=Conn("I","A"); c.attach()
    await c.send_msg(FIXMessage(FMsg.NEWS,{58:"é"})) if False else None
    await c.send_msg(FIXMessage(FMsg.LOGON,{98:0,108:30,58:"héllo€"}))
    b=c.w.out[-1]; import re
    bl=int(re.search(rb"\x019=(\d+)\x01",b).group(1)); start=b.index(b"\x0135="); end=b.rindex(b"10=")
    print("C02 non-ascii: BodyLength",bl,"actual",end-(start+1), "cksum field",b[end+3:end+6],"actual",sum(b[:end])%256)
asyncio.run(main())
