from harness import *
async def main():
    # initiator LOGON_INITIAL_SENT receives app message / resend request
    c=Conn("I","A",role=ConnectionRole.INITIATOR); c.attach(); p=Peer("A","I")
    await c.send_msg(FIXMessage(FMsg.LOGON,{98:0,108:30})); c.sent()
    print(c.connection_state.name)
    d,raw=p.frame(FMsg.NEWS,{58:"early"}); await c._process_message(d,raw)
    print("app msg before logon reply:",c.events,c.connection_state.name,c._session.next_num_in)
    d,raw=p.frame(FMsg.RESENDREQUEST,{7:1,16:0}); await c._process_message(d,raw)
    print("resend req before logon reply:",c.connection_state.name,[short(m) for m in c.sent()])
    # try sending app now
    try:
        await c.send_msg(FIXMessage(FMsg.NEWS,{58:"x"})); print("app send accepted in", c.connection_state.name)
    except Exception as e: print("send refused",e)
    # acceptor: first message not logon
    c=Conn("A","I",role=ConnectionRole.ACCEPTOR); c.attach(); p=Peer("I","A")
    d,raw=p.frame(FMsg.NEWS,{58:"early"}); await c._process_message(d,raw)
    print("acceptor first non-logon:",c.events,c.connection_state.name,c.w.closed,c.w.out)
    # after disconnect further input
    d,raw=p.frame(FMsg.LOGON,{98:0,108:30}); 
    try:
        await c._process_message(d,raw); print("after disc:",c.events,c.connection_state.name)
    except Exception as e: print("exc",repr(e))
    # acceptor sending before logon
    c=Conn("A","I",role=ConnectionRole.ACCEPTOR); c.attach()
    for mt in (FMsg.NEWS,FMsg.HEARTBEAT,FMsg.LOGON,FMsg.LOGOUT):
        c=Conn("A","I",role=ConnectionRole.ACCEPTOR); c.attach()
        try:
            await c.send_msg(FIXMessage(mt,{})); print("acceptor pre-logon send",mt.name,"accepted ->",c.connection_state.name,c.connection_role.name, c._session.next_num_out)
        except Exception as e: print("acceptor pre-logon send",mt.name,"refused", c._session.next_num_out)
    # acceptor after LOGON_INITIAL_RECV (during process logon) fine. Acceptor in RECV_SEQNUM_TOO_HIGH etc
    # wrong compids
    c=Conn("I","A",role=ConnectionRole.INITIATOR); c.attach(); p=Peer("X","I")
    await c.send_msg(FIXMessage(FMsg.LOGON,{98:0,108:30})); c.sent()
    d,raw=p.frame(FMsg.LOGON,{98:0,108:30}); await c._process_message(d,raw)
    print("wrong sender:",c.events,c.connection_state.name,[short(m) for m in c.sent()] if False else c.w.out[-1][:80])
    # too low seq in ACTIVE
    c=Conn("I","A",role=ConnectionRole.INITIATOR); c.attach(); p=Peer("A","I")
    await c.send_msg(FIXMessage(FMsg.LOGON,{98:0,108:30}))
    d,raw=p.frame(FMsg.LOGON,{98:0,108:30}); await c._process_message(d,raw)
    d,raw=p.frame(FMsg.NEWS,{58:"a"}); await c._process_message(d,raw)
    d,raw=p.frame(FMsg.NEWS,{58:"low"},seq=1); await c._process_message(d,raw)
    print("too low:",c.events,c.connection_state.name)
    n=len(c.events)
    d,raw=p.frame(FMsg.NEWS,{58:"after"}); 
    try:
        await c._process_message(d,raw); print("after disconnect events:",c.events[n:],c.connection_state.name)
    except Exception as e: print("exc after disconnect",repr(e))
    # second disconnect
    await c.disconnect(ConnectionState.DISCONNECTED_BROKEN_CONN); print("disc count",c.events.count(("disconnect",)))
asyncio.run(main())
