namespace Spike

def render (n : Nat) : List Nat :=
  if h : n < 10 then [48 + n] else render (n / 10) ++ [48 + n % 10]
termination_by n
decreasing_by omega

def isDigit (c : Nat) : Bool := 48 ≤ c && c ≤ 57

def parseAux (acc : Nat) : List Nat → Option Nat
  | [] => some acc
  | c :: cs => if isDigit c then parseAux (acc * 10 + (c - 48)) cs else none

def parse : List Nat → Option Nat
  | [] => none
  | cs => parseAux 0 cs

theorem parseAux_append (a : Nat) (xs ys : List Nat) :
    parseAux a (xs ++ ys) = (parseAux a xs).bind (fun b => parseAux b ys) := by
  induction xs generalizing a with
  | nil => simp [parseAux]
  | cons c cs ih =>
    simp only [List.cons_append, parseAux]
    split
    · exact ih _
    · simp

/-- value read from a rendered number with `a` already accumulated: digits shift `a` left. -/
def shift (a n : Nat) : Nat := if n < 10 then a * 10 + n else shift a (n / 10) * 10 + n % 10
termination_by n
decreasing_by omega

theorem parseAux_render (n a : Nat) : parseAux a (render n) = some (shift a n) := by
  induction n using Nat.strongRecOn generalizing a with
  | _ n ih =>
    unfold render shift
    by_cases h : n < 10
    · have hd : isDigit (48 + n) = true := by simp [isDigit]; omega
      simp [h, parseAux, hd]
    · have hd : isDigit (48 + n % 10) = true := by simp [isDigit]; omega
      simp [h, parseAux_append, ih (n / 10) (by omega), parseAux, hd]

theorem shift_zero (n : Nat) : shift 0 n = n := by
  induction n using Nat.strongRecOn with
  | _ n ih =>
    unfold shift
    by_cases h : n < 10
    · simp [h]
    · simp [h, ih (n / 10) (by omega)]; omega

theorem render_ne_nil (n : Nat) : render n ≠ [] := by
  unfold render; split <;> simp

theorem parse_render (n : Nat) : parse (render n) = some n := by
  have h := parseAux_render n 0
  rw [shift_zero] at h
  unfold parse
  split
  · next heq => exact absurd heq (render_ne_nil n)
  · exact h
end Spike
