import warnings; warnings.simplefilter("ignore")
from asyncfix.protocol import FIXProtocol44
from asyncfix import FTag
T={str(k):[str(x) for x in v] for k,v in FIXProtocol44.repeating_groups.items()}
print(len(T),"groups")
# nested groups: member that is itself a key
def chain_members(g, seen=()):
    """members of g and of last-chain nested groups reachable (any nested, conservative)"""
    out=set(T[g])
    for m in T[g]:
        if m in T and m not in seen: out|=chain_members(m, seen+(g,))
    return out
bad=[]
for g,ms in T.items():
    for i,m in enumerate(ms):
        if m in T:
            inner=chain_members(m)
            later=set(ms[i+1:])
            # also first member (item delimiter) of g: next item starts with ms[0]
            clash=inner & (later | {ms[0]})
            if clash: bad.append((g,m,clash))
            if m==ms[0]: bad.append((g,m,"group is first member"))
print("clashes:",bad)
# keys that are members of more than one group / self
for g,ms in T.items():
    if g in ms: print("self-nesting",g)
# depth
def depth(g): return 1+max([depth(m) for m in T[g] if m in T]+[0])
print("max depth",max(depth(g) for g in T), {FTag(g).name:depth(g) for g in T if depth(g)>1})
# member tags shared between different groups (matters for top-level following-sibling rule)
from collections import Counter
c=Counter(m for ms in T.values() for m in set(ms)); print("members in >1 group:",[(FTag(k).name,v) for k,v in c.items() if v>1])
# header/trailer tags in any member list?
print("framing tags inside groups:", [(g,m) for g,ms in T.items() for m in ms if m in {"8","9","10","34","35","49","52","56"}])
