from harness import *
from collections import deque
class Link:
    def __init__(self):
        self.ji=Journaler(); self.ja=Journaler()
        self.new_objs()
    def new_objs(self):
        self.I=Conn("I","A",self.ji,ConnectionRole.INITIATOR); self.A=Conn("A","I",self.ja,ConnectionRole.ACCEPTOR)
        self.I.log_all=[]; self.A.log_all=[]
    def connect(self):
        self.I.attach(); self.A.attach()
    async def pump(self, max_steps=1000, trace=False):
        c=Codec(FIXProtocol44()); steps=0
        while steps<max_steps:
            moved=False
            for src,dst,name in ((self.I,self.A,"I->A"),(self.A,self.I,"A->I")):
                while src.w.out:
                    b=src.w.out.pop(0)
                    m,_,_=c.decode(b)
                    if trace: print("   ",name,short(m))
                    if dst.connection_state>ConnectionState.DISCONNECTED_BROKEN_CONN:
                        await dst._process_message(m,b)
                    moved=True; steps+=1
            if not moved: break
    async def drop(self):
        # lose everything in flight, both see EOF
        self.I.w.out.clear(); self.A.w.out.clear()
        await self.I.disconnect(ConnectionState.DISCONNECTED_BROKEN_CONN)
        await self.A.disconnect(ConnectionState.DISCONNECTED_BROKEN_CONN)
    async def logon(self):
        self.connect()
        await self.I.send_msg(FIXMessage(FMsg.LOGON,{98:0,108:30}))
    def status(self):
        return dict(I=(self.I.connection_state.name,self.I._session.next_num_in,self.I._session.next_num_out),
                    A=(self.A.connection_state.name,self.A._session.next_num_in,self.A._session.next_num_out))
def got(c): return [e[3] for e in c.events if e[0]=="msg"]
