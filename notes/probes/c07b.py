from pair import *
C=Codec(FIXProtocol44())
async def deliver(L, d):
    src,dst=(L.I,L.A) if d=="IA" else (L.A,L.I)
    b=src.w.out.pop(0); m,_,_=C.decode(b); print("   ",d,short(m))
    if dst.connection_state>ConnectionState.DISCONNECTED_BROKEN_CONN: await dst._process_message(m,b)
def inflight(L): return [short(C.decode(b)[0]) for b in L.I.w.out],[short(C.decode(b)[0]) for b in L.A.w.out]
async def main():
    L=Link(); await L.logon(); await L.pump()
    for i in range(2): await L.I.send_msg(FIXMessage(FMsg.NEWS,{58:f"i{i}"}))
    await L.pump()
    for i in range(2,4): await L.I.send_msg(FIXMessage(FMsg.NEWS,{58:f"i{i}"}))
    await L.drop(); print("dropped", L.status())
    await L.logon()
    await deliver(L,"IA")  # logon -> A replies logon + resendreq
    print(inflight(L), L.status())
    await deliver(L,"AI")  # logon reply
    await deliver(L,"AI")  # resend request -> I replays into flight
    print(inflight(L), L.status())
    await deliver(L,"IA")  # first replay arrives (i2)
    print(got(L.A), L.status())
    await L.drop(); print("second drop (rest of replay lost)", L.status())
    print("I journal:", [(r[0], short(C.decode(r[1])[0])) for r in L.ji.get_all_msgs(direction=MessageDirection.OUTBOUND)])
    await L.logon(); await L.pump(trace=True); print("after:",got(L.A), L.status())
    await L.I.send_msg(FIXMessage(FMsg.NEWS,{58:"i4"})); await L.pump(trace=True)
    print("final:",got(L.A), L.status())
asyncio.run(main())
