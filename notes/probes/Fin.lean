namespace Spike
inductive St | created | new | partial_ | filled | canceled | pendingCancel | rejected | other
  deriving DecidableEq, Repr
inductive Res | to (s : St) | none | err
  deriving DecidableEq, Repr
def St.all : List St := [.created, .new, .partial_, .filled, .canceled, .pendingCancel, .rejected, .other]
theorem St.mem_all (s : St) : s ∈ St.all := by cases s <;> simp [St.all]
def step (cur rep : St) : Res :=
  match cur with
  | .filled | .canceled | .rejected => .none
  | .created => if rep = .new ∨ rep = .rejected then .to rep else .err
  | _ => if rep = .created then .err else .to rep
def St.finished : St → Bool | .filled | .canceled | .rejected => true | _ => false
theorem finished_absorbing_tbl :
    (St.all.all fun c => St.all.all fun r => !c.finished || step c r == .none) = true := by decide +kernel
theorem finished_absorbing (c r : St) (h : c.finished = true) : step c r = .none := by
  have := finished_absorbing_tbl
  simp only [List.all_eq_true] at this
  have h2 := this c (St.mem_all c) r (St.mem_all r)
  simpa [h] using h2
example (a b c : Nat) (h : a < b) (h2 : b ≤ c) : a + 1 ≤ c := by grind
end Spike
