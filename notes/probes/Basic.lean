namespace Spike

/-- split a list on a separator (Python `str.split(sep)` for a single char). -/
def splitOn (sep : Nat) : List Nat → List (List Nat)
  | [] => [[]]
  | c :: cs =>
    if c = sep then [] :: splitOn sep cs
    else match splitOn sep cs with
      | [] => [[c]]
      | f :: fs => (c :: f) :: fs

def join (sep : Nat) : List (List Nat) → List Nat
  | [] => []
  | [f] => f
  | f :: fs => f ++ sep :: join sep fs

theorem splitOn_ne_nil (sep : Nat) (l : List Nat) : splitOn sep l ≠ [] := by
  induction l with
  | nil => simp [splitOn]
  | cons c cs ih =>
    unfold splitOn
    split
    · simp
    · split <;> simp

theorem splitOn_append_sep (sep : Nat) (f : List Nat) (rest : List Nat) (h : sep ∉ f) :
    splitOn sep (f ++ sep :: rest) = f :: splitOn sep rest := by
  induction f with
  | nil => simp [splitOn]
  | cons c cs ih =>
    have hc : c ≠ sep := by intro e; apply h; simp [e]
    have hcs : sep ∉ cs := by intro e; apply h; simp [e]
    simp only [List.cons_append, splitOn, hc, if_false, ih hcs]

theorem splitOn_nosep (sep : Nat) (f : List Nat) (h : sep ∉ f) : splitOn sep f = [f] := by
  induction f with
  | nil => simp [splitOn]
  | cons c cs ih =>
    have hc : c ≠ sep := by intro e; apply h; simp [e]
    have hcs : sep ∉ cs := by intro e; apply h; simp [e]
    simp only [splitOn, hc, if_false, ih hcs]

theorem split_join (sep : Nat) (fs : List (List Nat)) (hne : fs ≠ []) (h : ∀ f ∈ fs, sep ∉ f) :
    splitOn sep (join sep fs) = fs := by
  induction fs with
  | nil => contradiction
  | cons f fs ih =>
    cases fs with
    | nil => simpa [join] using splitOn_nosep sep f (h f (by simp))
    | cons g gs =>
      simp only [join]
      rw [splitOn_append_sep sep f _ (h f (by simp))]
      rw [ih (by simp) (fun x hx => h x (by simp [hx]))]

def cksum (l : List Nat) : Nat := l.foldl (· + ·) 0 % 256
end Spike
