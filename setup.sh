#!/bin/sh
# MANIFEST.setup_cmd: offline cold build of the Lean project (models, proofs, driver) from files on disk.
cd "$(dirname "$0")" || exit 2
export VERIF_REPO="${VERIF_REPO:-/repo}"
export PYTHONPATH="$VERIF_REPO:$(pwd)" PYTHONDONTWRITEBYTECODE=1
/venv/bin/python tools/gen_lean.py || echo "setup: translator refused the current source (checks will report it)"
cd lean || exit 2
lake build AsyncFix driver 2>&1 | tail -5
# non-gating counter-example modules of the open findings (failures here are reported by the checks, not by setup)
for f in AsyncFix/Findings/*.lean; do
  [ -f "$f" ] || continue
  m=$(echo "${f%.lean}" | tr / .)
  lake build "$m" 2>&1 | tail -1
done
test -x .lake/build/bin/driver
