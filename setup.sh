#!/bin/sh
# MANIFEST.setup_cmd: offline cold build of the Lean project (models, proofs, driver) from files on disk.
cd "$(dirname "$0")" || exit 2
export VERIF_REPO="${VERIF_REPO:-/repo}"
export PYTHONPATH="$VERIF_REPO:$(pwd)" PYTHONDONTWRITEBYTECODE=1
/venv/bin/python tools/gen_lean.py || echo "setup: translator refused the current source (checks will report it)"
cd lean || exit 2
mods=""
for f in AsyncFix/Props/*.lean; do
  [ -f "$f" ] || continue
  mods="$mods $(echo "${f%.lean}" | tr / .)"
done
# all property theorems + the model driver (16 cores; a failing proof is reported by its check, not here)
lake build driver $mods 2>&1 | tail -5
# non-gating counter-example modules of the open findings
for f in AsyncFix/Findings/*.lean; do
  [ -f "$f" ] || continue
  m=$(echo "${f%.lean}" | tr / .)
  lake build "$m" 2>&1 | tail -1
done
test -x .lake/build/bin/driver
