"""C02 – every frame put on the wire is a well-formed FIX frame.  DESIGN.md §6 C02.

proof:  Props/C02.lean (encode_refframe, wire_refframe, encodeWire_refframe, encodeWire_refused_unchanged)
tie:    model encode / encodeWire vs Codec.encode / AsyncFIXConnection.send_msg (bytes at a fake transport)
oracle: independent frame parser `ref_parse` on every byte string the real code produces, incl. all
        transport writes of scripted session histories (logon, heartbeats, resend replays, gap fills, logout)
"""
from __future__ import annotations

import asyncio
import logging

from . import codec_common as K
from . import common as C

PROP = "C02"
PROPS_MODULES = ["AsyncFix.Props.C02", "AsyncFix.Props.C02Hist"]
ASSUMPTIONS = [
    "strings are lists of code points; `.encode('latin-1')` is the identity on code points < 256 and fails otherwise",
    "history part: write_effects_refframe (Props/C02Hist.lean) is about the session model's write effects rendered to bytes "
    "(`render`); session strings are Lean Strings whose code points are the Python str code points; the rendering is tied to the "
    "transport bytes by harness/bridge_check.py on sampled steps of the real connection every run",
]
MODELLED_NOT_VERIFIED = [
    "C02: Codec.encode/_addTag and the latin-1 step of send_msg are hand-modelled (Model/Codec/Encode.lean) and compared "
    "byte for byte with the implementation on generated messages (all 29 group tags, nesting, non-ASCII values, every encoding mode)",
]

NOW = "20240101-00:00:00.000"
NONASCII = ["\x7f", "\x80", "\xe9", "\xff", "Ā", "€", "\U0001f600", "h\xe9llo€"]


def gen_case(rng, i):
    keep = rng.random() < 0.25
    grp = None
    tbl = sorted(K.table())
    if i < 3 * len(tbl):
        grp = tbl[i % len(tbl)]
    mtype, tree = K.gen_wf_msg(rng, group=grp, keep_seq=keep)
    mode = "alloc"
    raw = False
    if keep:
        r = rng.random()
        if r < 0.4:
            tree = tree + [("L", "43", "Y")]
            mode = "possdup"
        elif r < 0.7:
            mtype = "4"
            mode = "seqreset"
        else:
            raw = True
            mode = "raw"
    if mode == "alloc" and rng.random() < 0.12:
        # a NEW message that nevertheless carries header-ish tags: PossDupFlag with a value other than "Y"
        # and / or a stale MsgSeqNum – the encoder must still allocate the session's next number
        extra = []
        if rng.random() < 0.8:
            extra.append(("L", "43", rng.choice(["N", "N", "y", "YES", ""])))
        if rng.random() < 0.8 and not any(n[1] == "34" for n in tree):
            extra.append(("L", "34", str(rng.choice([1, 12, 99999]))))
        if rng.random() < 0.4:
            extra.append(("L", "97", rng.choice(["Y", "Y", "N"])))          # PossResend: still a NEW number
        if rng.random() < 0.3:
            extra.append(("L", "122", "20231231-23:59:59"))
        if K.wf_msg(mtype, tree + extra, True) or True:
            tree = tree + extra
            mode = "alloc-stale"
    if rng.random() < 0.3 and tree:
        # non-ASCII / non-latin-1 text in a value
        j = rng.randrange(len(tree))
        if tree[j][0] == "L" and tree[j][1] not in ("34", "43"):
            tree = list(tree)
            tree[j] = ("L", tree[j][1], tree[j][2] + rng.choice(NONASCII))
    if rng.random() < 0.05:
        tree = tree + [("E", "9001")]          # RepeatingTagError value: encode raises after allocating
    sender = rng.choice(["SND", "S\xe9", "A=B", "S€"]) if rng.random() < 0.2 else "SND"
    nxt = rng.choice([1, 2, 9, 10, 99, 100, 12345, 2**31, 2**63 + 5])
    # one node per top-level tag (a container cannot hold two), then the encoding mode is read off the final
    # message by the encoder's documented rule - the generator's intention above is only a bias
    seen, dedup = set(), []
    for nd in tree:
        if nd[1] in seen:
            continue
        seen.add(nd[1])
        dedup.append(nd)
    tree = dedup
    return (mtype, tree, sender, "TGT", nxt, raw, NOW), classify_mode(mtype, tree, raw)


def classify_mode(mtype, tree, raw):
    """which MsgSeqNum the encoder must use: raw -> the message's own; SequenceReset -> its own; PossDupFlag exactly
    "Y" -> its own; otherwise the session's next number (alloc-stale: although the message carries a 34 and / or
    other header-ish tags of its own)"""
    top = {nd[1]: nd for nd in tree}
    if raw:
        return "raw"
    if mtype == "4":
        return "seqreset"
    pd = top.get("43")
    if pd is not None and pd[0] == "L" and pd[2] == "Y":
        return "possdup"
    return "alloc-stale" if ("34" in top or "43" in top or "97" in top or "122" in top) else "alloc"


class _W:
    def __init__(self):
        self.out = []

    def write(self, b):
        self.out.append(bytes(b))

    async def drain(self):
        pass

    def close(self):
        pass

    async def wait_closed(self):
        pass


def make_conn(sender="SND", target="TGT"):
    from asyncfix.connection import AsyncFIXConnection, ConnectionState
    from asyncfix.journaler import Journaler

    logging.disable(logging.CRITICAL)

    class Conn(AsyncFIXConnection):
        async def on_message(self, msg):
            pass

        async def on_connect(self):
            pass

    c = Conn(K.proto(), sender, target, Journaler(), "h", 1, 30)
    c.w = _W()
    c._socket_writer = c.w
    c._socket_reader = object()
    c._connection_state = ConnectionState.ACTIVE
    c._codec.current_datetime = lambda: NOW
    return c


def impl_send(case):
    """real send_msg; reply comparable with driver `codec.send`"""
    mtype, tree, sender, target, nxt, raw, now = case
    c = make_conn(sender, target)
    c._session.next_num_out = nxt
    try:
        msg = K.build_container(tree, mtype=mtype)
    except Exception as e:  # noqa
        return "err build", []
    if mtype == "1":
        c._test_req_id = 1
    try:
        asyncio.run(c.send_msg(msg))
    except Exception as e:  # noqa
        return "err %s %s" % (K.exc_kind(e), c._session.next_num_out), c.w.out
    if len(c.w.out) != 1:
        return "err writes=%d" % len(c.w.out), c.w.out
    return "ok %s %s" % (C.cp(c.w.out[0]), c._session.next_num_out), c.w.out


def correspondence(ctx):
    drv = C.Driver()
    impl = K.Impl()
    n = ctx.n(2500, 25000)
    cases = [gen_case(ctx.rng, i) for i in range(n)]
    lines, exp, kinds = [], [], {}
    for (case, mode) in cases:
        lines.append(K.enc_line(*case))
        r, _ = impl.encode(*case)
        exp.append(r)
        kinds[mode + ":" + r.split()[0] + (":" + r.split()[1] if r.startswith("err") else "")] = kinds.get(
            mode + ":" + r.split()[0] + (":" + r.split()[1] if r.startswith("err") else ""), 0) + 1
    # send_msg path (no raw mode there)
    scases = [c for (c, mode) in cases if mode != "raw" and c[4] < 2**62][: ctx.n(800, 8000)]  # SQLite INTEGER: counters < 2^63
    for case in scases:
        mtype, tree, sender, target, nxt, raw, now = case
        lines.append("codec.send %s %s %s %s %d %s" % (C.cp(mtype), K.tok_tree(tree), C.cp(sender), C.cp(target), nxt, C.cp(now)))
        r, _ = impl_send(case)
        exp.append(r)
        k = "send:" + " ".join(r.split()[:2] if r.startswith("err") else r.split()[:1])
        kinds[k] = kinds.get(k, 0) + 1
    out = drv.batch(lines)
    dis = [{"input": l[:2000], "model": o[:600], "impl": e[:600]} for l, o, e in zip(lines, out, exp) if o != e]
    # session-model write effects rendered to bytes == bytes at the real transport (bridge to C02Hist)
    from . import bridge_check
    br = bridge_check.run(ctx.n(300, 1500), ctx.seed, ctx.rng)
    for d in br["differences"]:
        dis.append({"input": str(d.get("input"))[:2000], "model": str(d.get("model"))[:600], "impl": str(d.get("impl"))[:600], "level": "render"})
    kinds["bridge:frames"] = br["frames"]
    distinct = len({l for l in lines})
    groups_hit = set()
    for (case, _) in cases:
        for nd in case[1]:
            if nd[0] == "G":
                groups_hit.add(nd[1])
    return {
        "evaluations": len(lines) + br["frames"],
        "distinct_nontrivial": distinct,
        "rule": "messages generated over the implementation's own repeating-group table (every group tag forced at least 3 times, "
        "1..3 items, optional members, nesting to depth 3), values incl. framing-like text and non-ASCII / non-latin-1 characters, "
        "modes allocate / PossDup / SequenceReset / raw, counters up to 2^63; each through Codec.encode and (non-raw) through the real "
        "send_msg with a fake transport; distinct = distinct request lines (all non-trivial: every one encodes a message)",
        "samples": [{"request": lines[i][:300], "reply": out[i][:300]} for i in (0, len(lines) // 2, len(lines) - 1)],
        "exhaustive": False,
        "distribution": {"outcomes": kinds, "group_tags_hit": len(groups_hit), "group_tags_total": len(K.table())},
        "disagreements": dis,
    }


# ------------------------------------------------------------------ oracle
def classify(raw: bytes, where: str):
    fields, why = K.ref_parse(raw)
    if fields is None:
        return {"signature": f"C02-illformed-frame:{where}:{why}", "what": f"frame rejected by the reference parser: {why}",
                "input": {"where": where, "frame": C.cp(raw)}, "observed": why}
    return None


def history(rng):
    """one scripted session history on a real initiator connection; returns all transport writes"""
    from asyncfix import FIXMessage, FMsg
    from asyncfix.connection import ConnectionState
    from asyncfix.codec import Codec
    from asyncfix.journaler import Journaler

    c = make_conn()
    c._connection_state = ConnectionState.NETWORK_CONN_ESTABLISHED
    peer_j = Journaler()
    peer_s = peer_j.create_or_load("SND", "TGT")
    pc = Codec(K.proto())

    def frame(mtype, tags=None, seq=None):
        m = FIXMessage(mtype, tags or {})
        if seq is not None:
            m[34] = seq
            raw = pc.encode(m, peer_s, raw_seq_num=True).encode("latin-1")
        else:
            raw = pc.encode(m, peer_s).encode("latin-1")
        d, _, _ = pc.decode(raw)
        return d, raw

    async def run():
        await c.send_msg(FIXMessage(FMsg.LOGON, {98: 0, 108: 30}))
        d, raw = frame(FMsg.LOGON, {98: 0, 108: 30})
        await c._process_message(d, raw)
        for _ in range(rng.randint(3, 12)):
            r = rng.random()
            try:
                if r < 0.4:
                    mt, tree = K.gen_wf_msg(rng)
                    if rng.random() < 0.3 and tree and tree[0][0] == "L":
                        tree[0] = ("L", tree[0][1], tree[0][2] + rng.choice(NONASCII))
                    await c.send_msg(K.build_container(tree, mtype=mt))
                elif r < 0.55:
                    d, raw = frame(FMsg.TESTREQUEST, {112: "T%d" % rng.randint(1, 9)})
                    await c._process_message(d, raw)
                elif r < 0.75:
                    b = rng.randint(1, max(1, c._session.next_num_out))
                    e = rng.choice([0, 0, b, b + 1])
                    d, raw = frame(FMsg.RESENDREQUEST, {7: b, 16: e})
                    await c._process_message(d, raw)
                elif r < 0.85:
                    d, raw = frame(FMsg.HEARTBEAT, {}, seq=peer_s.next_num_out + 3)   # gap -> ResendRequest
                    await c._process_message(d, raw)
                    peer_s.next_num_out = c._session.next_num_in
                    c._connection_state = ConnectionState.ACTIVE
                else:
                    await c.send_test_req() if c._test_req_id is None else None
            except Exception:  # noqa  (refusals are fine: only what reaches the transport matters)
                pass
        try:
            await c.disconnect(ConnectionState.DISCONNECTED_WCONN_TODAY, logout_message="bye")
        except Exception:  # noqa
            pass

    asyncio.run(run())
    return c.w.out


def oracle(ctx, disagreements, broken):
    impl = K.Impl()
    failures, n_frames = [], 0
    n = ctx.n(1500, 15000) * (3 if broken else 1)
    rng = ctx.rng
    for i in range(n):
        case, mode = gen_case(rng, i)
        r, f = impl.encode(*case)
        if f is not None:
            try:
                raw = f.encode("latin-1")
            except UnicodeEncodeError:
                raw = None
            if raw is not None:
                n_frames += 1
                x = classify(raw, "encode")
                if x:
                    x["input"]["case"] = [case[0], K.tok_tree(case[1]), case[2], case[3], case[4], case[5]]
                    failures.append(x)
        if mode != "raw" and case[4] < 2**62:
            r2, writes = impl_send(case)
            for w in writes:
                n_frames += 1
                x = classify(w, "send_msg")
                if x:
                    x["input"]["case"] = [case[0], K.tok_tree(case[1]), case[2], case[3], case[4], case[5]]
                    failures.append(x)
            if f is not None and any(ord(ch) > 255 for ch in f):
                # not representable: must be refused, number given back
                if not r2.startswith("err EncodingError %d" % case[4]):
                    failures.append({"signature": "C02-unrepresentable-not-refused", "what": "non latin-1 text was not refused "
                                     "with EncodingError / number not given back", "input": {"case": [case[0], K.tok_tree(case[1]), case[2], case[3], case[4], case[5]]},
                                     "observed": r2[:200]})
    nh = ctx.n(150, 1500)
    for _ in range(nh):
        for w in history(rng):
            n_frames += 1
            x = classify(w, "history")
            if x:
                failures.append(x)
    ctx.oracle_stats = {"frames_parsed_by_reference_parser": n_frames, "histories": nh, "failures": len(failures)}
    return failures


def replay(ctx, rp):
    raw = C.uncp(rp["input"]["frame"]).encode("latin-1") if "frame" in rp["input"] else None
    if raw is not None:
        # re-derive: re-run the generating case when present, else judge the recorded frame
        case = rp["input"].get("case")
        if case:
            impl = K.Impl()
            # the tree is stored in token form; rebuild through the driver-independent parser below
            tree = parse_tok_tree(case[1])
            r, f = impl.encode(case[0], tree, case[2], case[3], case[4], case[5], NOW)
            print("replay encode ->", r[:200])
            if f is not None:
                try:
                    fields, why = K.ref_parse(f.encode("latin-1"))
                except UnicodeEncodeError:
                    fields, why = [], None
                return fields is None
        fields, why = K.ref_parse(raw)
        print("recorded frame:", why)
        return fields is None
    return True


def parse_tok_tree(tok):
    toks = tok.split(",")
    pos = [0]

    def cont():
        assert toks[pos[0]] == "I"
        k = int(toks[pos[0] + 1])
        pos[0] += 2
        return [node() for _ in range(k)]

    def node():
        kind = toks[pos[0]]
        if kind == "L":
            n = ("L", C.uncp(toks[pos[0] + 1]), C.uncp(toks[pos[0] + 2]))
            pos[0] += 3
            return n
        if kind == "E":
            n = ("E", C.uncp(toks[pos[0] + 1]))
            pos[0] += 2
            return n
        t = C.uncp(toks[pos[0] + 1])
        k = int(toks[pos[0] + 2])
        pos[0] += 3
        return ("G", t, [cont() for _ in range(k)])

    return cont()
