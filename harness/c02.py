"""C02 – every frame put on the wire is a well-formed FIX frame.  DESIGN.md §6 C02.

proof:  Props/C02.lean (encode_refframe, wire_refframe, encodeWire_refframe, encodeWire_refused_unchanged)
tie:    model encode / encodeWire vs Codec.encode / AsyncFIXConnection.send_msg (bytes at a fake transport)
oracle: independent frame parser `ref_parse_strict` on every byte string the real code produces on ANY transport through ANY
        entry point (send_msg, the dummy server's accept path with further clients connecting, the client's connect()
        path, disconnect(logout_message) texts of every value class, the tester's mock sockets), incl. all
        transport writes of scripted session histories (logon, heartbeats, resend replays - also repeated and
        overlapping ones -, gap fills, logout, reconnect; initiator and acceptor), ONE write call per frame, and the
        transport's byte stream cut into frames by BodyLength while several coroutines send concurrently

dimensions (round 4): value classes `codec_common.UNICODE_CLASSES` (combining sequences, singleton / compatibility
characters, case-mapping specials, surrogates, NUL / controls, utf-8 vs latin-1 width, format characters) in values,
comp ids and message types; sizes `codec_common.FRAME_SIZES` (4 KiB, 64 KiB +-1, 128 KiB +-1, 1 MiB; thousands of
group items / fields); write-call granularity and interleaving at drain(); longer histories.
"""
from __future__ import annotations

import asyncio
import logging

from . import codec_common as K
from . import common as C

PROP = "C02"
PROPS_MODULES = ["AsyncFix.Props.C02", "AsyncFix.Props.C02Hist"]
ASSUMPTIONS = [
    "strings are lists of code points; `.encode('latin-1')` is the identity on code points < 256 and fails otherwise",
    "history part: write_effects_refframe (Props/C02Hist.lean) is about the session model's write effects rendered to bytes "
    "(`render`); session strings are Lean Strings whose code points are the Python str code points; the rendering is tied to the "
    "transport bytes by harness/bridge_check.py on sampled steps of the real connection every run",
]
MODELLED_NOT_VERIFIED = [
    "C02 sizes: the theorems hold for messages of every size; the model-vs-code correspondence runs frames up to 128 KiB "
    "(quick) / 1 MiB (thorough) through the compiled model, the implementation-only oracle frames up to 1 MiB",
    "C02 transport: the model hands a frame to the transport as ONE effect (`Effect.write` / the result of encodeWire); that the "
    "code issues exactly one `write` call per frame and that frames of concurrently sending coroutines are not interleaved "
    "is covered by correspondence (`err writes=n`) and the oracle's byte-stream splitter only - coroutine scheduling is C14's model",
    "C02 value classes: Lean `String` cannot hold lone surrogates; surrogate code points are exercised through the codec "
    "model (code-point lists) and the oracle, not through the session-model bridge",
    "C02: Codec.encode/_addTag and the latin-1 step of send_msg are hand-modelled (Model/Codec/Encode.lean) and compared "
    "byte for byte with the implementation on generated messages (all 29 group tags, nesting, non-ASCII values, every encoding mode)",
]

NOW = "20240101-00:00:00.000"
NONASCII = ["\x7f", "\x80", "\xe9", "\xff", "\u0100", "\u20ac", "\U0001f600", "h\xe9llo\u20ac"]
STATS = {}      # value-class / size distribution of the generated inputs (printed into the evidence)


def _count(key):
    STATS[key] = STATS.get(key, 0) + 1


def special(rng, surrogates=True):
    """non-ASCII text: the legacy pool or one of the Unicode value classes (a comp id with a lone surrogate is refused
    by the connection's constructor - SQLite text - before anything could be sent: not generated there)"""
    if rng.random() < 0.35:
        _count("value:legacy")
        return rng.choice(NONASCII)
    cls, t = K.gen_special_value(rng, surrogates)
    _count("value:" + cls)
    return t


def gen_case(rng, i, wide=False):
    """`wide` (C02's own runs): Unicode value classes also in the comp ids and the message type (C01 shares this
    generator and judges round trips of messages whose type / target are latin-1)"""
    keep = rng.random() < 0.25
    grp = None
    tbl = sorted(K.table())
    if i < 3 * len(tbl):
        grp = tbl[i % len(tbl)]
    mtype, tree = K.gen_wf_msg(rng, group=grp, keep_seq=keep)
    mode = "alloc"
    raw = False
    if keep:
        r = rng.random()
        if r < 0.4:
            tree = tree + [("L", "43", "Y")]
            mode = "possdup"
        elif r < 0.7:
            mtype = "4"
            mode = "seqreset"
        else:
            raw = True
            mode = "raw"
    if mode == "alloc" and rng.random() < 0.12:
        # a NEW message that nevertheless carries header-ish tags: PossDupFlag with a value other than "Y"
        # and / or a stale MsgSeqNum – the encoder must still allocate the session's next number
        extra = []
        if rng.random() < 0.8:
            extra.append(("L", "43", rng.choice(["N", "N", "y", "YES", ""])))
        if rng.random() < 0.8 and not any(n[1] == "34" for n in tree):
            extra.append(("L", "34", str(rng.choice([1, 12, 99999]))))
        if rng.random() < 0.4:
            extra.append(("L", "97", rng.choice(["Y", "Y", "N"])))          # PossResend: still a NEW number
        if rng.random() < 0.3:
            extra.append(("L", "122", "20231231-23:59:59"))
        if K.wf_msg(mtype, tree + extra, True) or True:
            tree = tree + extra
            mode = "alloc-stale"
    if rng.random() < 0.3 and tree:
        # non-ASCII / non-latin-1 text in a value
        j = rng.randrange(len(tree))
        if tree[j][0] == "L" and tree[j][1] not in ("34", "43"):
            tree = list(tree)
            tree[j] = ("L", tree[j][1], tree[j][2] + special(rng))
    if rng.random() < 0.05:
        tree = tree + [("E", "9001")]          # RepeatingTagError value: encode raises after allocating
    sender = rng.choice(["SND", "S\xe9", "A=B", "S\u20ac"]) if rng.random() < 0.2 else "SND"
    target = "TGT"
    r = rng.random() if wide else 1.0
    if r < 0.04:
        sender = "S" + special(rng, False)
        _count("where:sender")
    elif r < 0.08:
        target = special(rng, False) + "T"
        _count("where:target")
    elif r < 0.11:
        mtype = mtype + special(rng)
        _count("where:mtype")
    nxt = rng.choice([1, 2, 9, 10, 99, 100, 12345, 2**31, 2**63 + 5])
    # one node per top-level tag (a container cannot hold two), then the encoding mode is read off the final
    # message by the encoder's documented rule - the generator's intention above is only a bias
    seen, dedup = set(), []
    for nd in tree:
        if nd[1] in seen:
            continue
        seen.add(nd[1])
        dedup.append(nd)
    tree = dedup
    return (mtype, tree, sender, target, nxt, raw, rng.choice(K.CLOCK_POOL) if rng.random() < 0.4 else NOW), classify_mode(mtype, tree, raw)


def size_specs(rng, tier, model=True):
    """specs for `K.sized_case`: frames at the sizes of K.FRAME_SIZES with ASCII / latin-1 / framing-like filler,
    a non-representable tail at size (must be refused, not truncated), thousands of group items / plain fields.
    `model`: the list that also runs through the compiled Lean model (quick tier: up to 64 KiB + 1, the driver needs
    about a second per 64 KiB); the implementation-only oracle always gets every size up to 1 MiB."""
    full = tier == "thorough" or not model
    big = [n for n in K.FRAME_SIZES if n < (1 << 20) and (full or n <= 65537)]
    specs = [{"shape": "value", "frame_len": n, "fill": rng.choice(["x", "\xe9", "=", "\xff"]),
              "mtype": rng.choice(["B", "D", "8"]), "tag": rng.choice(["58", "96", "355"]), "seq": rng.choice([7, 99999, 2**40])}
             for n in big]
    specs.append({"shape": "value", "frame_len": rng.choice([65536, 65537] + ([131073] if full else [])),
                  "tail": rng.choice(["\u20ac", "e\u0301", "\u212a"])})
    specs.append({"shape": "items", "group": "453", "n": rng.choice([1500, 3000]) if full else 1000})
    specs.append({"shape": "fields", "n": rng.choice([1000, 2000]) if full else 700})
    if full:
        specs.append({"shape": "value", "frame_len": 1 << 20, "fill": "x"})
        if not model:
            # beyond 1 MiB: implementation-only (the compiled model needs ~1 s per 64 KiB)
            specs += [{"shape": "value", "frame_len": n, "fill": "z"} for n in K.FRAME_SIZES if n > (1 << 20)]
        if tier == "thorough":
            specs += [{"shape": "value", "frame_len": n + d, "fill": "y"} for n in (65536, 131072, 262144) for d in (-2, 2)]
    for sp in specs:
        _count("size:%s:%s" % (sp["shape"], sp.get("frame_len", sp.get("n"))))
    return specs


def classify_mode(mtype, tree, raw):
    """which MsgSeqNum the encoder must use: raw -> the message's own; SequenceReset -> its own; PossDupFlag exactly
    "Y" -> its own; otherwise the session's next number (alloc-stale: although the message carries a 34 and / or
    other header-ish tags of its own)"""
    top = {nd[1]: nd for nd in tree}
    if raw:
        return "raw"
    if mtype == "4":
        return "seqreset"
    pd = top.get("43")
    if pd is not None and pd[0] == "L" and pd[2] == "Y":
        return "possdup"
    return "alloc-stale" if ("34" in top or "43" in top or "97" in top or "122" in top) else "alloc"


class _W:
    """fake transport: records every write() call; drain() yields to the event loop `yields` times (a real
    StreamWriter.drain() suspends once the buffer is above the high-water mark)"""

    def __init__(self, yields=1):
        self.out = []
        self.yields = yields

    def write(self, b):
        self.out.append(bytes(b))

    async def drain(self):
        for _ in range(self.yields):
            await asyncio.sleep(0)

    def close(self):
        pass

    async def wait_closed(self):
        pass


def make_conn(sender="SND", target="TGT"):
    from asyncfix.connection import AsyncFIXConnection, ConnectionState
    from asyncfix.journaler import Journaler

    logging.disable(logging.CRITICAL)

    class Conn(AsyncFIXConnection):
        async def on_message(self, msg):
            pass

        async def on_connect(self):
            pass

    c = Conn(K.proto(), sender, target, Journaler(), "h", 1, 30)
    c.w = _W()
    c._socket_writer = c.w
    c._socket_reader = object()
    c._connection_state = ConnectionState.ACTIVE
    return c


def impl_send(case):
    """real send_msg; reply comparable with driver `codec.send`"""
    mtype, tree, sender, target, nxt, raw, now = case
    c = make_conn(sender, target)
    c._session.next_num_out = nxt
    try:
        msg = K.build_container(tree, mtype=mtype)
    except Exception as e:  # noqa
        return "err build", []
    if mtype == "1":
        c._test_req_id = 1
    try:
        with K.clock(now):
            asyncio.run(c.send_msg(msg))
    except Exception as e:  # noqa
        return "err %s %s" % (K.exc_kind(e), c._session.next_num_out), c.w.out
    if len(c.w.out) != 1:
        return "err writes=%d" % len(c.w.out), c.w.out
    return "ok %s %s" % (C.cp(c.w.out[0]), c._session.next_num_out), c.w.out


def send_line(case):
    mtype, tree, sender, target, nxt, raw, now = case
    return "codec.send %s %s %s %s %d %s" % (C.cp(mtype), K.tok_tree(tree), C.cp(sender), C.cp(target), nxt, C.cp(now))


def correspondence(ctx):
    drv = C.Driver()
    impl = K.Impl()
    STATS.clear()
    n = ctx.n(2500, 25000)
    cases = [gen_case(ctx.rng, i, wide=True) for i in range(n)]
    lines, exp, kinds, src = [], [], {}, []
    for (case, mode) in cases:
        lines.append(K.enc_line(*case))
        src.append(("case", case))
        r, _ = impl.encode(*case)
        exp.append(r)
        kinds[mode + ":" + r.split()[0] + (":" + r.split()[1] if r.startswith("err") else "")] = kinds.get(
            mode + ":" + r.split()[0] + (":" + r.split()[1] if r.startswith("err") else ""), 0) + 1
    # send_msg path (no raw mode there)
    scases = [c for (c, mode) in cases if mode != "raw" and c[4] < 2**62][: ctx.n(800, 8000)]  # SQLite INTEGER: counters < 2^63
    for case in scases:
        lines.append(send_line(case))
        src.append(("case", case))
        r, _ = impl_send(case)
        exp.append(r)
        k = "send:" + " ".join(r.split()[:2] if r.startswith("err") else r.split()[:1])
        kinds[k] = kinds.get(k, 0) + 1
    # size dimension: both paths
    for sp in size_specs(ctx.rng, ctx.tier):
        case = K.sized_case(sp)
        pairs = [(send_line(case), impl_send(case)[0])]
        if ctx.tier == "thorough" or sp.get("frame_len") == 65536:
            pairs.append((K.enc_line(*case), impl.encode(*case)[0]))
        for line, r in pairs:
            lines.append(line)
            src.append(("sized", sp))
            exp.append(r)
            k = "sized:" + " ".join(r.split()[:2] if r.startswith("err") else r.split()[:1])
            kinds[k] = kinds.get(k, 0) + 1
    out = drv.batch(lines)
    dis, first = [], {"cases": [], "sized": [], "bridge": []}
    for l, o, e, (kind, what) in zip(lines, out, exp, src):
        if o != e:
            dis.append({"input": l[:2000], "model": o[:600], "impl": e[:600]})
            (first["cases"] if kind == "case" else first["sized"]).append(what)
    # session-model write effects rendered to bytes == bytes at the real transport (bridge to C02Hist)
    from . import bridge_check
    br = bridge_check.run(ctx.n(300, 1500), ctx.seed, ctx.rng, tier=ctx.tier)
    for d in br["differences"]:
        dis.append({"input": str(d.get("input"))[:2000], "model": str(d.get("model"))[:600], "impl": str(d.get("impl"))[:600], "level": "render"})
        if d.get("case") is not None:
            first["bridge"].append(d["case"])
    ctx.c02_first = first          # the oracle replays the disagreeing inputs first
    kinds["bridge:frames"] = br["frames"]
    distinct = len({l for l in lines})
    groups_hit = set()
    for (case, _) in cases:
        for nd in case[1]:
            if nd[0] == "G":
                groups_hit.add(nd[1])
    return {
        "evaluations": len(lines) + br["frames"],
        "distinct_nontrivial": distinct,
        "rule": "messages generated over the implementation's own repeating-group table (every group tag forced at least 3 times, "
        "1..3 items, optional members, nesting to depth 3), values incl. framing-like text and the Unicode value classes of "
        "codec_common.UNICODE_CLASSES (also in comp ids and message types), modes allocate / PossDup / SequenceReset / raw, counters "
        "up to 2^63, frames of 4 KiB .. 128 KiB (+-1 around 64 KiB multiples; 1 MiB in the thorough tier) and thousands of items / fields; "
        "each through Codec.encode and (non-raw) through the real send_msg with a fake transport whose drain() yields; distinct = "
        "distinct request lines (all non-trivial: every one encodes a message); plus the session-model bridge (bridge_check: single "
        "steps incl. journals that already hold replayed copies, and multi-step chains with repeated ResendRequests)",
        "samples": [{"request": lines[i][:300], "reply": out[i][:300]} for i in (0, len(lines) // 2, len(lines) - 1)],
        "exhaustive": False,
        "distribution": {"outcomes": kinds, "group_tags_hit": len(groups_hit), "group_tags_total": len(K.table()),
                         "value_classes_and_sizes": dict(sorted(STATS.items())), "bridge": br.get("kinds", {})},
        "disagreements": dis,
    }


# ------------------------------------------------------------------ oracle
def case_input(case):
    return [case[0], K.tok_tree(case[1]), case[2], case[3], case[4], case[5]]


def classify(raw: bytes, where: str):
    fields, why = K.ref_parse_strict(raw)
    if fields is None:
        why_sig = why.split(" occurs")[0] if "occurs" in why else why
        return {"signature": f"C02-illformed-frame:{where}:{why_sig}", "what": f"frame rejected by the reference parser: {why}",
                "input": {"where": where, "frame": C.cp(raw[:4000])}, "observed": why}
    return None


def check_case(impl, case, inp, failures):
    """implementation-only judgement of one message: Codec.encode result and send_msg transport writes"""
    mode = classify_mode(case[0], case[1], case[5])
    n_frames = 0
    r, f = impl.encode(*case)
    if f is not None:
        try:
            raw = f.encode("latin-1")
        except UnicodeEncodeError:
            raw = None
        if raw is not None:
            n_frames += 1
            x = classify(raw, "encode")
            if x:
                x["input"].update(inp)
                failures.append(x)
    if mode != "raw" and case[4] < 2**62:
        r2, writes = impl_send(case)
        for w in writes:
            n_frames += 1
            x = classify(w, "send_msg")
            if x:
                x["input"].update(inp)
                failures.append(x)
        if r2.startswith("ok") is False and r2.startswith("err writes="):
            failures.append({"signature": "C02-frame-not-one-write:send_msg", "what": "send_msg handed one frame to the transport in "
                             "%s write() calls" % r2.split("=")[1], "input": dict(inp, where="send_msg"), "observed": r2[:80]})
        unrepresentable = any(not K.fits_latin1(x) for x in [case[0], case[2], case[3]]) or any(
            not K.fits_latin1(v) for _, v in K.flatten_values(case[1]))
        if unrepresentable and not r2.startswith("err"):
            failures.append({"signature": "C02-unrepresentable-not-refused", "what": "text outside latin-1 was not refused but transmitted",
                             "input": dict(inp, where="send_msg"), "observed": r2[:200]})
        elif f is not None and any(ord(ch) > 255 for ch in f):
            # not representable: must be refused, number given back
            if not r2.startswith("err EncodingError %d" % case[4]):
                failures.append({"signature": "C02-unrepresentable-not-refused", "what": "non latin-1 text was not refused "
                                 "with EncodingError / number not given back", "input": dict(inp, where="send_msg"), "observed": r2[:200]})
    return n_frames


def peer_tools(sender="SND", target="TGT"):
    from asyncfix import FIXMessage
    from asyncfix.codec import Codec
    from asyncfix.journaler import Journaler

    peer_j = Journaler()
    peer_s = peer_j.create_or_load(sender, target)
    pc = Codec(K.proto())

    def frame(mtype, tags=None, seq=None):
        m = FIXMessage(mtype, tags or {})
        if seq is not None:
            m[34] = seq
            raw = pc.encode(m, peer_s, raw_seq_num=True).encode("latin-1")
        else:
            raw = pc.encode(m, peer_s).encode("latin-1")
        d, _, _ = pc.decode(raw)
        return d, raw

    return peer_s, frame


def history(hseed):
    """one scripted session history on a real connection (initiator or acceptor), derived from `hseed` alone;
    returns all transport writes.  Steps: application sends (incl. Unicode value classes), TestRequests, ResendRequests -
    fresh, REPEATED over the same range, overlapping, after a previous resend -, sequence gaps, test requests, logout, and
    (sometimes) a reconnect of the same object followed by a second logon and more traffic."""
    import random
    from asyncfix import FIXMessage, FMsg
    from asyncfix.connection import ConnectionState

    rng = random.Random("c02-history:%s" % hseed)
    c = make_conn()
    c.w.yields = rng.choice([0, 1, 1, 2])
    c._connection_state = ConnectionState.NETWORK_CONN_ESTABLISHED
    peer_s, frame = peer_tools()
    acceptor = rng.random() < 0.35
    last_resend = [None]

    async def logon():
        if acceptor:
            d, raw = frame(FMsg.LOGON, {98: 0, 108: 30})
            await c._process_message(d, raw)
        else:
            await c.send_msg(FIXMessage(FMsg.LOGON, {98: 0, 108: 30}))
            d, raw = frame(FMsg.LOGON, {98: 0, 108: 30})
            await c._process_message(d, raw)

    async def traffic(k):
        for _ in range(k):
            r = rng.random()
            try:
                if r < 0.35:
                    mt, tree = K.gen_wf_msg(rng)
                    if rng.random() < 0.3 and tree and tree[0][0] == "L":
                        tree[0] = ("L", tree[0][1], tree[0][2] + special(rng))
                    if rng.random() < 0.1:
                        tree.append(("L", "122", "20231231-23:59:59"))      # application-set OrigSendingTime
                    await c.send_msg(K.build_container(tree, mtype=mt))
                elif r < 0.45:
                    d, raw = frame(FMsg.TESTREQUEST, {112: "T%d" % rng.randint(1, 9)})
                    await c._process_message(d, raw)
                elif r < 0.75:
                    hi = max(1, c._session.next_num_out - 1)
                    if last_resend[0] is not None and rng.random() < 0.6:
                        b, e = last_resend[0]                     # the peer lost the replay: same range again …
                        if rng.random() < 0.4:                    # … or an overlapping one
                            b = max(1, b + rng.choice([-1, 0, 1]))
                            e = 0 if e == 0 else e + rng.choice([0, 1, 2])
                    else:
                        b = rng.randint(1, hi)
                        e = rng.choice([0, 0, b, b + 1, hi])
                    last_resend[0] = (b, e)
                    d, raw = frame(FMsg.RESENDREQUEST, {7: b, 16: e})
                    await c._process_message(d, raw)
                elif r < 0.83:
                    d, raw = frame(FMsg.HEARTBEAT, {}, seq=peer_s.next_num_out + 3)   # gap -> ResendRequest
                    await c._process_message(d, raw)
                    peer_s.next_num_out = c._session.next_num_in
                    c._connection_state = ConnectionState.ACTIVE
                else:
                    await c.send_test_req() if c._test_req_id is None else None
            except Exception:  # noqa  (refusals are fine: only what reaches the transport matters)
                pass

    async def run():
        try:
            await logon()
        except Exception:  # noqa
            pass
        await traffic(rng.randint(3, 14))
        try:
            await c.disconnect(ConnectionState.DISCONNECTED_WCONN_TODAY,
                               logout_message=rng.choice(["bye", "", "r\xe9son"]) if rng.random() < 0.6 else special(rng, False))
        except Exception:  # noqa
            pass
        if rng.random() < 0.3:
            # the same connection object comes up again (new transport session, journal and counters continue)
            c._socket_writer = c.w
            c._socket_reader = object()
            c._connection_state = ConnectionState.NETWORK_CONN_ESTABLISHED
            try:
                await logon()
            except Exception:  # noqa
                pass
            await traffic(rng.randint(2, 8))

    with K.clock(NOW):
        asyncio.run(run())
    return c.w.out


def check_history(hseed, failures):
    writes = history(hseed)
    for w in writes:
        x = classify(w, "history")
        if x:
            x["input"]["history_seed"] = hseed
            failures.append(x)
    frames, why = K.split_stream(b"".join(writes))
    if why is not None and not any(f["input"].get("history_seed") == hseed for f in failures):
        failures.append({"signature": "C02-stream-not-frames:history", "what": "the transport's byte stream is not a sequence of "
                         "well-formed frames: " + why, "input": {"history_seed": hseed}, "observed": why})
    return len(writes)


def interleave(iseed):
    """several coroutines send on ONE connection at the same time (application tasks, as the library's own heartbeat
    task would); drain() yields.  Message sizes 10 B .. 2 MiB + 1.  Returns (writes, number of successful sends)."""
    import random
    from asyncfix import FIXMessage

    rng = random.Random("c02-interleave:%s" % iseed)
    c = make_conn()
    c.w.yields = rng.choice([1, 1, 2, 3])
    sent = [0]

    def msg():
        size = rng.choice([10, 10, 300, 4096, 65400, 65536, 70000, 131072, 200000, 1048500, 1048577, 1572864, 2097153]) if rng.random() < 0.5 else rng.randint(1, 200)
        return FIXMessage(rng.choice(["B", "D", "0"]), {58: rng.choice(["x", "\xe9", "="]) * size, 11: "id%d" % rng.randint(1, 999)})

    async def sender(k):
        for _ in range(k):
            try:
                await c.send_msg(msg())
                sent[0] += 1
            except Exception:  # noqa
                pass
            for _ in range(rng.randint(0, 2)):
                await asyncio.sleep(0)

    async def run():
        await asyncio.gather(*[sender(rng.randint(1, 4)) for _ in range(rng.randint(2, 4))])

    with K.clock(NOW):
        asyncio.run(run())
    return c.w.out, sent[0]


def check_interleave(iseed, failures):
    writes, sent = interleave(iseed)
    bad = None
    for w in writes:
        fields, why = K.ref_parse_strict(w)
        if fields is None:
            bad = ("C02-frame-not-one-write:interleave", "a write() call does not carry exactly one frame: " + why)
            break
    if bad is None:
        frames, why = K.split_stream(b"".join(writes))
        if why is not None:
            bad = ("C02-stream-not-frames:interleave", "the byte stream of concurrently sending coroutines is not a sequence of frames: " + why)
        elif len(frames) != sent:
            bad = ("C02-stream-not-frames:interleave", "%d successful sends but %d frames in the stream" % (sent, len(frames)))
    else:
        frames, why2 = K.split_stream(b"".join(writes))
        if why2 is not None:
            bad = ("C02-stream-not-frames:interleave", "frames of concurrently sending coroutines are spliced into each other: " + why2)
    if bad:
        failures.append({"signature": bad[0], "what": bad[1], "input": {"interleave_seed": iseed},
                         "observed": "writes=%d sizes=%s" % (len(writes), [len(w) for w in writes][:12])})
    return len(writes)


class _W2(_W):
    """fake StreamWriter of an accepted / opened connection"""

    def __init__(self, name, yields=1):
        super().__init__(yields)
        self.name = name
        self.closed = False

    def close(self):
        self.closed = True

    def get_extra_info(self, *_a, **_k):
        return ("127.0.0.1", 1)


def entry_points(eseed):
    """every byte the library writes to ANY transport through ANY entry point: returns [(entry point, raw write)].
    Derived from `eseed` alone.  Scenarios:
      server  - AsyncFIXDummyServer._handle_accept with fake reader/writer pairs: first client, logon, traffic, then a
                SECOND (and third) connection accepted while a client is connected, more traffic, logout;
      client  - AsyncFIXClient.connect() with a patched asyncio.open_connection (success / refusal / second connect
                while connected / reconnect after disconnect), an on_connect hook that sends the Logon, traffic,
                disconnect(logout_message=<text of any value class>);
      tester  - FIXTester's mock sockets around an initiator connection (logon exchange, application messages,
                TestRequest / Heartbeat), every write() of both mock writers."""
    import random
    import types
    import asyncfix.connection as cm
    import asyncfix.connection_client as cc
    import asyncfix.connection_server as csrv
    from asyncfix import FIXMessage, FMsg
    from asyncfix.connection import ConnectionState
    from asyncfix.journaler import Journaler

    rng = random.Random("c02-entry:%s" % eseed)
    logging.disable(logging.CRITICAL)
    scen = rng.choice(["server", "server", "client", "client", "tester"])
    writers = []
    out = []

    def new_writer(name):
        w = _W2(name, rng.choice([0, 1, 2]))
        writers.append(w)
        return w

    def text():
        r = rng.random()
        return rng.choice(["bye", "", "r\xe9son", "a=b", "10=000"]) if r < 0.4 else special(rng, False)

    def app_msg():
        mt, tree = K.gen_wf_msg(rng)
        if rng.random() < 0.4 and tree and tree[0][0] == "L":
            tree[0] = ("L", tree[0][1], tree[0][2] + special(rng))
        return K.build_container(tree, mtype=mt)

    class Hooks:
        logon_on_connect = False

        async def on_message(self, msg):
            pass

        async def on_connect(self):
            if self.logon_on_connect:
                await self.send_msg(FIXMessage(FMsg.LOGON, {98: 0, 108: 30}))

    async def no_tasks(self_):
        return None

    saved_connect = cm.AsyncFIXConnection.connect
    cm.AsyncFIXConnection.connect = no_tasks          # no background reader / heartbeat tasks
    try:
        if scen == "server":
            class Srv(Hooks, csrv.AsyncFIXDummyServer):
                pass

            c = Srv(K.proto(), "SND", "TGT", Journaler(), "h", 1, 30)
            c._codec.current_datetime = lambda: NOW
            peer_s, frame = peer_tools()

            async def guard(coro):
                try:
                    await coro
                except Exception:  # noqa  refusals are fine: only what reaches a transport matters
                    pass

            async def run():
                await guard(c._handle_accept(object(), new_writer("server-accept:first")))
                if rng.random() < 0.85:
                    d, raw = frame(FMsg.LOGON, {98: 0, 108: 30})
                    await guard(c._process_message(d, raw))
                for _ in range(rng.randint(0, 3)):
                    await guard(c.send_msg(app_msg()))
                for k in range(rng.choice([1, 1, 2])):
                    # another client connects while one is connected
                    await guard(c._handle_accept(object(), new_writer("server-accept:extra%d" % (k + 1))))
                    for _ in range(rng.randint(0, 2)):
                        await guard(c.send_msg(app_msg()))
                    if rng.random() < 0.5:
                        d, raw = frame(FMsg.TESTREQUEST, {112: "T"})
                        await guard(c._process_message(d, raw))
                await guard(c.disconnect(ConnectionState.DISCONNECTED_WCONN_TODAY, logout_message=text()))

            asyncio.run(run())
        elif scen == "client":
            class Cli(Hooks, cc.AsyncFIXClient):
                pass

            c = Cli(K.proto(), "SND", "TGT", Journaler(), "h", 1, 30)
            c._codec.current_datetime = lambda: NOW
            c.logon_on_connect = rng.random() < 0.7
            peer_s, frame = peer_tools()
            fail_next = [rng.random() < 0.2]

            async def open_connection(host, port):
                if fail_next[0]:
                    fail_next[0] = False
                    raise OSError("refused")
                return object(), new_writer("client-connect:%d" % (len(writers) + 1))

            saved_async = cc.asyncio
            proxy = types.SimpleNamespace(open_connection=open_connection)
            cc.asyncio = proxy

            async def guard(coro):
                try:
                    await coro
                except Exception:  # noqa
                    pass

            async def session():
                await guard(c.connect())
                if c._socket_writer is None:
                    await guard(c.connect())             # retry after the refusal
                if not c.logon_on_connect:
                    await guard(c.send_msg(FIXMessage(FMsg.LOGON, {98: 0, 108: 30})))
                if rng.random() < 0.85:
                    d, raw = frame(FMsg.LOGON, {98: 0, 108: 30})
                    await guard(c._process_message(d, raw))
                if rng.random() < 0.3:
                    await guard(c.connect())             # already connected: must raise, nothing written
                for _ in range(rng.randint(0, 3)):
                    await guard(c.send_msg(app_msg()))
                await guard(c.disconnect(ConnectionState.DISCONNECTED_WCONN_TODAY, logout_message=text()))

            async def run():
                await session()
                if rng.random() < 0.4:
                    await session()                      # reconnect of the same object

            try:
                asyncio.run(run())
            finally:
                cc.asyncio = saved_async
        else:
            from asyncfix.fix_tester import FIXTester

            class Cli(Hooks, cm.AsyncFIXConnection):
                pass

            c = Cli(K.proto(), "SND", "TGT", Journaler(), "h", 1, 30)
            c._codec.current_datetime = lambda: NOW
            c._connection_state = ConnectionState.NETWORK_CONN_ESTABLISHED
            ft = FIXTester(connection=c)
            for conn, name in ((c, "tester:initiator-mock"), (ft.conn_accept, "tester:acceptor-mock")):
                w = new_writer(name)
                orig = conn._socket_writer.write.side_effect

                def rec(data, w=w, orig=orig):
                    w.out.append(bytes(data))
                    return orig(data)

                conn._socket_writer.write.side_effect = rec

            async def guard(coro):
                try:
                    await coro
                except BaseException as e:  # noqa  (the tester asserts on what it cannot decode)
                    if isinstance(e, (KeyboardInterrupt, SystemExit)):
                        raise

            async def run():
                await guard(c.send_msg(ft.msg_logon()))
                await guard(ft.process_msg_acceptor())
                for _ in range(rng.randint(1, 4)):
                    r = rng.random()
                    if r < 0.6:
                        await guard(c.send_msg(FIXMessage("D", {11: "id%d" % rng.randint(1, 99), 58: text()})))
                        if ft.acceptor_rcv_que:
                            await guard(ft.process_msg_acceptor())
                    elif r < 0.8:
                        await guard(ft.reply(ft.msg_test_request("T%d" % rng.randint(1, 9))))
                        if ft.acceptor_rcv_que:
                            await guard(ft.process_msg_acceptor())
                    else:
                        await guard(ft.conn_accept.send_msg(FIXMessage("8", {37: "o1", 58: text()})))
                await guard(c.disconnect(ConnectionState.DISCONNECTED_WCONN_TODAY, logout_message=text()))

            asyncio.run(run())
    finally:
        cm.AsyncFIXConnection.connect = saved_connect
    for w in writers:
        for raw in w.out:
            out.append((w.name, raw))
    return scen, out


def check_entry_points(eseed, failures):
    scen, writes = entry_points(eseed)
    _count("entry:" + scen)
    for name, raw in writes:
        x = classify(raw, name.rstrip("0123456789").rstrip(":"))
        if x:
            x["input"]["entry_seed"] = eseed
            x["input"]["writer"] = name
            failures.append(x)
    return len(writes)


def check_bridge_case(simpl, bcase, failures):
    """implementation-only re-run of a session-level step / chain on which model and code disagreed"""
    from . import bridge_check
    n = 0
    for w, unrep in bridge_check.impl_writes(simpl, bcase):
        n += 1
        x = classify(w, "session-step")
        if x:
            x["input"]["bridge_case"] = bridge_check.case_to_json(bcase)
            failures.append(x)
        elif unrep:
            failures.append({"signature": "C02-unrepresentable-not-refused", "what": "text outside latin-1 was not refused but transmitted",
                             "input": {"bridge_case": bridge_check.case_to_json(bcase), "where": "session-step"}, "observed": C.cp(w[:300])})
    return n


def oracle(ctx, disagreements, broken):
    impl = K.Impl()
    failures, n_frames = [], 0
    rng = ctx.rng
    first = getattr(ctx, "c02_first", {"cases": [], "sized": [], "bridge": []})
    # 0. the inputs on which model and code disagreed
    for case in first["cases"][:200]:
        n_frames += check_case(impl, case, {"case": case_input(case)}, failures)
    for sp in first["sized"][:20]:
        n_frames += check_case(impl, K.sized_case(sp), {"sized": sp}, failures)
    if first["bridge"]:
        from . import sess_common as S
        simpl = S.Impl()
        try:
            for bcase in first["bridge"][:50]:
                n_frames += check_bridge_case(simpl, bcase, failures)
        finally:
            simpl.close()
    # 1. generated messages
    n = ctx.n(1500, 15000) * (3 if broken else 1)
    for i in range(n):
        case, mode = gen_case(rng, i, wide=True)
        n_frames += check_case(impl, case, {"case": case_input(case)}, failures)
    # 2. sizes (incl. 1 MiB: implementation only)
    specs = size_specs(rng, ctx.tier, model=False)
    for sp in specs:
        n_frames += check_case(impl, K.sized_case(sp), {"sized": sp}, failures)
    # 3. histories, 4. concurrent senders
    nh = ctx.n(120, 1500) * (2 if broken else 1)
    for _ in range(nh):
        n_frames += check_history(rng.randrange(1 << 40), failures)
    ni = ctx.n(25, 250) * (2 if broken else 1)
    for _ in range(ni):
        n_frames += check_interleave(rng.randrange(1 << 40), failures)
    # 5. other entry points / other transports: server accept path, client connect path, the tester's mock sockets
    ne = ctx.n(80, 800) * (2 if broken else 1)
    for _ in range(ne):
        n_frames += check_entry_points(rng.randrange(1 << 40), failures)
    ctx.oracle_stats = {"frames_parsed_by_reference_parser": n_frames, "histories": nh, "interleavings": ni, "sized": len(specs),
                        "entry_point_scenarios": ne,
                        "replayed_disagreements": sum(len(v) for v in first.values()), "failures": len(failures),
                        "value_classes_and_sizes": dict(sorted(STATS.items()))}
    return failures


def replay(ctx, rp):
    inp = rp["input"]
    failures = []
    if "history_seed" in inp:
        check_history(inp["history_seed"], failures)
    elif "interleave_seed" in inp:
        check_interleave(inp["interleave_seed"], failures)
    elif "entry_seed" in inp:
        check_entry_points(inp["entry_seed"], failures)
    elif "bridge_case" in inp:
        from . import bridge_check
        from . import sess_common as S
        simpl = S.Impl()
        try:
            check_bridge_case(simpl, bridge_check.case_from_json(inp["bridge_case"]), failures)
        finally:
            simpl.close()
    elif "sized" in inp:
        check_case(K.Impl(), K.sized_case(inp["sized"]), {"sized": inp["sized"]}, failures)
    elif "case" in inp:
        case = inp["case"]
        tree = parse_tok_tree(case[1])
        check_case(K.Impl(), (case[0], tree, case[2], case[3], case[4], case[5], NOW), {"case": case}, failures)
    elif "frame" in inp:
        raw = C.uncp(inp["frame"]).encode("latin-1")
        fields, why = K.ref_parse_strict(raw)
        print("recorded frame:", why)
        return fields is None
    for f in failures[:3]:
        print("replay ->", f["signature"], "|", str(f.get("observed"))[:200])
    return bool(failures)


def parse_tok_tree(tok):
    toks = tok.split(",")
    pos = [0]

    def cont():
        assert toks[pos[0]] == "I"
        k = int(toks[pos[0] + 1])
        pos[0] += 2
        return [node() for _ in range(k)]

    def node():
        kind = toks[pos[0]]
        if kind == "L":
            n = ("L", C.uncp(toks[pos[0] + 1]), C.uncp(toks[pos[0] + 2]))
            pos[0] += 3
            return n
        if kind == "E":
            n = ("E", C.uncp(toks[pos[0] + 1]))
            pos[0] += 2
            return n
        t = C.uncp(toks[pos[0] + 1])
        k = int(toks[pos[0] + 2])
        pos[0] += 3
        return ("G", t, [cont() for _ in range(k)])

    return cont()
