"""Codec family: shared by C01 C02 C03 C10.

Tree form of a container (harness side):  list of nodes
    ("L", tag:str, value:str) | ("E", tag:str) | ("G", tag:str, [items: list of node lists])
"""
from __future__ import annotations

import os
import random

from . import common as C

HEADER_TAGS = {"8", "9", "10", "34", "35", "49", "52", "56"}
SKIP_TAGS = {"34", "52", "49", "56"}


def proto():
    from asyncfix.protocol import FIXProtocol44

    return FIXProtocol44()


_TBL = None


def table():
    """repeating group table as {tag str: [member tag str]} from the implementation"""
    global _TBL
    if _TBL is None:
        _TBL = {str(k): [str(m) for m in v] for k, v in proto().repeating_groups.items()}
    return _TBL


# ------------------------------------------------------------------ canonical text
def tree_of(cont):
    from asyncfix.message import _FIXRepeatingGroupContainer

    out = []
    for t, v in cont.tags.items():
        if isinstance(v, _FIXRepeatingGroupContainer):
            out.append(("G", t, [tree_of(g) for g in v.groups]))
        elif isinstance(v, str):
            out.append(("L", t, v))
        elif isinstance(v, type):
            out.append(("E", t))
        else:
            out.append(("L", t, "<%s>" % type(v).__name__))
    return out


def tok_tree(tree):
    toks = ["I", str(len(tree))]
    for n in tree:
        if n[0] == "L":
            toks += ["L", C.cp(n[1]), C.cp(n[2])]
        elif n[0] == "E":
            toks += ["E", C.cp(n[1])]
        else:
            toks += ["G", C.cp(n[1]), str(len(n[2]))]
            for it in n[2]:
                toks.append(tok_tree(it))
    return ",".join(toks)


def build_container(tree, cls=None, mtype=None):
    """real FIXContainer / FIXMessage from a tree (values as given strings)"""
    from asyncfix.message import FIXContainer, FIXMessage, RepeatingTagError

    c = FIXMessage(mtype) if mtype is not None else FIXContainer()
    for n in tree:
        if n[0] == "L":
            c.set(n[1], n[2])
        elif n[0] == "E":
            c.set(n[1], RepeatingTagError)
        else:
            c.set_group(n[1], [build_container(it) for it in n[2]])
    return c


def exc_kind(e):
    return type(e).__name__


# ------------------------------------------------------------------ the same message, reached through a history
def has_dup_tags(tree) -> bool:
    seen = set()
    for n in tree:
        if n[1] in seen:
            return True
        seen.add(n[1])
        if n[0] == "G" and any(has_dup_tags(it) for it in n[2]):
            return True
    return False


def _canon_dec(v: str) -> bool:
    return v.isascii() and v.isdigit() and (v == "0" or v[0] != "0") and len(v) < 18


class HistoryBuilder:
    """Builds the message (mtype, tree) through a pseudo-random HISTORY of container operations that ends in exactly
    that content: tags set / overwritten / deleted and set again, junk tags and junk groups (with several items)
    added and removed, groups given at once (set_group) or item by item (add_group, with and without index), items
    given as dicts or as FIXContainer instances, ONE instance attached wherever an equal block occurs again, tags
    spelled as str / int / FTag, the message type spelled as str or FMsg member and possibly set after
    construction, a final pickle / deepcopy.  Deterministic in (mtype, tree, seed); `log` records the operations."""

    def __init__(self, mtype, tree, seed, spell="str"):
        self.mtype, self.tree, self.seed, self.spell = mtype, tree, seed, spell
        self.log = []
        self.stats = {}

    def _cnt(self, k):
        self.stats[k] = self.stats.get(k, 0) + 1

    def tagspell(self, t):
        from asyncfix import FTag
        r = self.r.random()
        if r < 0.5 or not _canon_dec(t):
            return t
        if r < 0.75:
            return int(t)
        return FTag._value2member_map_.get(t, t)

    def val(self, v):
        if _canon_dec(v) and self.r.random() < 0.3:
            return int(v)
        return v

    def mt_obj(self, mt=None):
        from asyncfix import FMsg
        mt = self.mtype if mt is None else mt
        if self.spell == "fmsg" and mt in FMsg._value2member_map_:
            return FMsg._value2member_map_[mt]
        return mt

    def junk_items(self, gtag):
        tbl = table()
        ms = tbl.get(gtag) or ["58"]
        return [{self.tagspell(ms[0]): "j%d" % k} for k in range(self.r.choice([1, 2, 2, 3]))]

    # -- one container's content -------------------------------------------------------------------
    def fill(self, c, nodes, name):
        from asyncfix.message import RepeatingTagError
        r = self.r
        tbl = table()
        final = {n[1] for n in nodes}
        junk = []        # junk tags currently present in c

        def drop(t):
            del c[self.tagspell(t)]
            junk.remove(t)
            self.log.append(f"del {name}[{t}]")

        for i, n in enumerate(nodes):
            t = n[1]
            if t in junk:
                drop(t)
            # junk first?
            x = r.random()
            if x < 0.18:
                later = [m[1] for m in nodes[i + 1:]]
                pool = [g for g in sorted(tbl) if g not in final or g in later]
                if x < 0.1 and pool:
                    g = r.choice(pool)
                    if g not in junk and g not in c:
                        items = self.junk_items(g)
                        if r.random() < 0.5:
                            c.set_group(self.tagspell(g), items)
                        else:
                            for it in items:
                                c.add_group(self.tagspell(g), it)
                        junk.append(g)
                        self._cnt("junk_group_%d_items" % len(items))
                        self.log.append(f"junk group {name}[{g}] x{len(items)}")
                else:
                    g = r.choice(["58", "1", "9999", "5001"] + later[:2])
                    if g not in junk and g not in c and g not in tbl and g not in HEADER_TAGS:
                        c.set(self.tagspell(g), "junk")
                        junk.append(g)
                        self._cnt("junk_tag")
                        self.log.append(f"junk tag {name}[{g}]")
            if t in junk:
                drop(t)
            if n[0] == "L":
                v = n[2]
                y = r.random()
                if y < 0.45:
                    c.set(self.tagspell(t), self.val(v))
                    self.log.append(f"set {name}[{t}]")
                elif y < 0.6:
                    c[self.tagspell(t)] = self.val(v)
                    self.log.append(f"setitem {name}[{t}]")
                elif y < 0.8:
                    c.set(self.tagspell(t), v + "~old")
                    c.set(self.tagspell(t), self.val(v), replace=True)
                    self._cnt("overwrite")
                    self.log.append(f"set+replace {name}[{t}]")
                else:
                    c.set(self.tagspell(t), "old")
                    del c[self.tagspell(t)]
                    c.set(self.tagspell(t), self.val(v))
                    self._cnt("del_and_set_again")
                    self.log.append(f"set,del,set {name}[{t}]")
            elif n[0] == "E":
                c.set(self.tagspell(t), RepeatingTagError)
                self.log.append(f"set-err {name}[{t}]")
            else:
                if r.random() < 0.15:
                    # a first version of the group (several items) that is thrown away again
                    items = self.junk_items(t)
                    c.set_group(self.tagspell(t), items)
                    del c[self.tagspell(t)]
                    self._cnt("group_rebuilt_after_del_%d_items" % len(items))
                    self.log.append(f"group {name}[{t}] x{len(items)} set and deleted")
                items = [self.item(it, f"{name}/{t}:{k}") for k, it in enumerate(n[2])]
                y = r.random()
                if y < 0.4:
                    c.set_group(self.tagspell(t), items)
                    self.log.append(f"set_group {name}[{t}] x{len(items)}")
                elif y < 0.7:
                    for it in items:
                        c.add_group(self.tagspell(t), it)
                    self.log.append(f"add_group* {name}[{t}] x{len(items)}")
                else:
                    order = list(range(len(items)))
                    r.shuffle(order)
                    done = []
                    for p in order:
                        idx = sum(1 for q in done if q < p)
                        if idx == len(done) and r.random() < 0.5:
                            c.add_group(self.tagspell(t), items[p])
                        else:
                            c.add_group(self.tagspell(t), items[p], idx)
                        done.append(p)
                    self._cnt("add_group_with_index")
                    self.log.append(f"add_group(index) {name}[{t}] order {order}")
            # remove some junk now
            for g in list(junk):
                if r.random() < 0.4:
                    drop(g)
        for g in list(junk):
            drop(g)

    def as_dict(self, nodes, name):
        from asyncfix.message import RepeatingTagError
        d = {}
        for n in nodes:
            k = self.tagspell(n[1])
            if n[0] == "L":
                d[k] = self.val(n[2])
            elif n[0] == "E":
                d[k] = RepeatingTagError
            else:
                d[k] = [self.item(it, f"{name}/{n[1]}:{j}") for j, it in enumerate(n[2])]
        return d

    def item(self, nodes, name):
        """an item for add_group / set_group: a dict, or a FIXContainer (new, or THE instance already built for an
        equal block)"""
        from asyncfix.message import FIXContainer
        r = self.r
        key = tok_tree(nodes)
        if key in self.pool and r.random() < 0.7:
            self._cnt("shared_instance")
            self.log.append(f"{name}: same object as {self.pool[key][1]}")
            return self.pool[key][0]
        y = r.random()
        if y < 0.3:
            self._cnt("item_as_dict")
            return self.as_dict(nodes, name)
        if y < 0.5:
            c = FIXContainer(self.as_dict(nodes, name))
            self._cnt("item_container_from_dict")
        else:
            c = FIXContainer()
            self.fill(c, nodes, name)
            self._cnt("item_container_by_ops")
        self.pool[key] = (c, name)
        return c

    def build(self):
        import copy
        import pickle

        from asyncfix.message import FIXMessage
        self.r = r = random.Random(self.seed)
        self.pool = {}
        self.log = []
        k = r.choice([0, 0, 1, 2, len(self.tree)]) if self.tree else 0
        y = r.random()
        if y < 0.2:
            m = FIXMessage(self.mt_obj(r.choice(["0", "D", "XX", self.mtype + " "])),
                           self.as_dict(self.tree[:k], "m") if k else None)
            m.msg_type = self.mt_obj()
            self._cnt("msg_type_set_later")
            self.log.append("msg_type assigned after construction")
        else:
            m = FIXMessage(self.mt_obj(), self.as_dict(self.tree[:k], "m") if k else None)
        self.log.append(f"FIXMessage(<{self.spell}>, dict of first {k})")
        self.fill(m, self.tree[k:], "m")
        y = r.random()
        if y < 0.08:
            m = pickle.loads(pickle.dumps(m))
            self._cnt("pickled")
            self.log.append("pickle round trip")
        elif y < 0.16:
            m = copy.deepcopy(m)
            self._cnt("deepcopied")
            self.log.append("deepcopy")
        return m


# ------------------------------------------------------------------ implementation wrappers
class Impl:
    def __init__(self):
        from asyncfix.codec import Codec

        self.codec = Codec(proto())

    def decode(self, raw: bytes) -> str:
        try:
            m, n, enc = self.codec.decode(raw)
        except Exception as e:  # noqa
            return "raised " + exc_kind(e)
        if m is None:
            return f"none {n}"
        return "msg %d %s %s %s" % (n, C.cp(enc), C.cp(str(m.msg_type)), tok_tree(tree_of(m)))

    def encode(self, mtype, tree, sender, target, next_out, raw, now, builder=None):
        """returns (reply string, frame str or None); builder: callable returning the message object
        (e.g. the same content reached through a history of container operations)"""
        from asyncfix.session import FIXSession

        s = FIXSession(1, target, sender)
        s.next_num_out = next_out
        s.next_num_in = 1
        try:
            msg = builder() if builder is not None else build_container(tree, mtype=mtype)
            self.last_msg = msg
            with clock(now):
                f = self.codec.encode(msg, s, raw_seq_num=raw)
        except Exception as e:  # noqa
            return "err %s %s" % (exc_kind(e), s.next_num_out), None
        return "ok %s %s" % (C.cp(f), s.next_num_out), f



# ------------------------------------------------------------------ the clock the encoder reads
CLOCK_POOL = ["20240101-00:00:00.000", "20231231-23:59:59.999", "20240229-12:00:00.500", "21000228-23:59:59.999",
              "19700101-00:00:00.000", "99991231-23:59:59.999", "20240630-23:59:59.999", "20240101-00:00:59.999",
              "20240101-00:59:59.999", "20240331-01:59:59.999", "19991231-23:59:59.000", "20240101-12:34:56.001"]


class clock:
    """`with clock(text):` - asyncfix.codec reads THIS instant from datetime.utcnow() / now(); the method under test
    (Codec.current_datetime) is left alone, so whatever it does with the instant is executed.  `text` is the FIX
    text with milliseconds; the instant additionally carries sub-millisecond microseconds (0 / 499 / 500 / 999,
    derived from the text) which the FIX text truncates."""

    def __init__(self, text):
        from datetime import datetime

        base = datetime.strptime(text + "000", "%Y%m%d-%H:%M:%S.%f")
        extra = (0, 499, 500, 999)[sum(text.encode()) % 4]
        inst = base.replace(microsecond=base.microsecond + extra)

        class _DT(datetime):
            @classmethod
            def utcnow(cls):
                return inst

            @classmethod
            def now(cls, tz=None):
                return inst

        self.dt = _DT

    def __enter__(self):
        import asyncfix.codec as cm

        self.cm, self.old = cm, cm.datetime
        cm.datetime = self.dt
        return self

    def __exit__(self, *exc):
        self.cm.datetime = self.old
        return False


def enc_line(mtype, tree, sender, target, next_out, raw, now):
    return "codec.encode %s %s %s %s %d %d %s" % (
        C.cp(mtype), tok_tree(tree), C.cp(sender), C.cp(target), next_out, 1 if raw else 0, C.cp(now))


# ------------------------------------------------------------------ reference framing (independent of the codec)
def ref_frame(fields: list[str], begin="FIX.4.4") -> bytes:
    """frame for 'tag=value' body fields starting with 35=…; BodyLength/CheckSum computed here"""
    body = "".join(f + "\x01" for f in fields)
    head = "8=%s\x019=%d\x01" % (begin, len(body))
    s = head + body
    ck = sum(s.encode("latin-1")) % 256
    return (s + "10=%03d\x01" % ck).encode("latin-1")


def ref_parse(raw: bytes):
    """Independent FIX frame parser (the spec `RefFrame` of C02): returns (fields, None) or (None, reason).
    8=…|9=n|35=…|…|10=ddd| with n = byte count between the BodyLength field and the CheckSum field,
    ddd = sum of all preceding bytes mod 256, exactly three digits."""
    if not raw.startswith(b"8="):
        return None, "no BeginString first"
    i = raw.find(b"\x01")
    if i < 0:
        return None, "unterminated BeginString"
    j = raw.find(b"\x01", i + 1)
    if j < 0 or not raw[i + 1 :].startswith(b"9="):
        return None, "BodyLength not second"
    bl = raw[i + 3 : j]
    if not bl or not all(48 <= b <= 57 for b in bl) or (len(bl) > 1 and bl[0] == 48):
        return None, "BodyLength not a canonical decimal"
    n = int(bl)
    body = raw[j + 1 : j + 1 + n]
    if len(body) != n:
        return None, "truncated body"
    if not body.startswith(b"35="):
        return None, "MsgType not third"
    if not body.endswith(b"\x01"):
        return None, "body does not end at a field boundary"
    tail = raw[j + 1 + n :]
    if len(tail) != 7 or not tail.startswith(b"10=") or tail[-1:] != b"\x01":
        return None, "CheckSum field malformed / trailing bytes"
    ck = tail[3:6]
    if not all(48 <= b <= 57 for b in ck):
        return None, "CheckSum not three digits"
    if int(ck) != sum(raw[: j + 1 + n]) % 256:
        return None, "CheckSum mismatch"
    fields = []
    for f in (raw[:j + 1 + n]).split(b"\x01")[:-1]:
        if b"=" not in f:
            return None, "field without '='"
        t, v = f.split(b"=", 1)
        fields.append((t.decode("latin-1"), v.decode("latin-1")))
    return fields, None


# ------------------------------------------------------------------ well-formedness (the property's WFMsg), harness side
def is_canon_tag(t: str) -> bool:
    return t.isascii() and t.isdigit() and (t == "0" or t[0] != "0")


def wf_value(v: str) -> bool:
    return all(ord(c) != 1 and ord(c) < 256 for c in v)


def wf_items(gtag, items, tbl, open_members) -> bool:
    members = tbl[gtag]
    if not items:
        return False
    prev = None
    for it in items:
        if not it:
            return False
        first = it[0]
        if first[0] != "L":
            return False
        if prev is not None and first[1] not in {n[1] for n in prev}:
            return False
        if not wf_cont(it, tbl, members, open_members, in_group=True):
            return False
        prev = it
    return True


def last_chain_members(node, tbl):
    """member sets of the groups open along the last-item chain of a group node"""
    out = []
    while node is not None and node[0] == "G":
        out.append(set(tbl[node[1]]))
        last_item = node[2][-1]
        node = last_item[-1] if last_item and last_item[-1][0] == "G" else None
    return out


def wf_cont(nodes, tbl, members, open_members, in_group) -> bool:
    seen = set()
    for i, n in enumerate(nodes):
        t = n[1]
        if n[0] == "E" or not is_canon_tag(t) or t in seen:
            return False
        seen.add(t)
        if members is not None and t not in members:
            return False
        if (n[0] == "G") != (t in tbl):
            return False
        if n[0] == "L" and not wf_value(n[2]):
            return False
        if n[0] == "G" and not wf_items(t, n[2], tbl, open_members):
            return False
        # the tag following a group must not be a member of any group still open along its last-item chain
        if i > 0 and nodes[i - 1][0] == "G":
            for ms in last_chain_members(nodes[i - 1], tbl):
                if t in ms:
                    return False
    return True


def wf_msg(mtype: str, tree, keep_seq: bool) -> bool:
    tbl = table()
    if not mtype or not wf_value(mtype):
        return False
    for n in tree:
        if n[1] in HEADER_TAGS and not (n[1] == "34" and keep_seq):
            return False
    # what goes on the wire: 34/52/49/56 are taken from the session, not from the message
    tree = [n for n in tree if n[1] not in SKIP_TAGS]
    if not wf_cont(tree, tbl, None, [], in_group=False):
        return False
    # the CheckSum tag closes everything: 10 must not be a member of a group open at the end
    if tree and tree[-1][0] == "G":
        for ms in last_chain_members(tree[-1], tbl):
            if "10" in ms:
                return False
    return True


# ------------------------------------------------------------------ generators
VALUE_ALPHABET = "ABCxyz019 =.|-+_/:FIX8" + "\xe9\xff\x7f\x80"
FRAMING_LIKE = ["10=", "9=", "8=FIX.", "8=FIX.4.4", "35=", "=", "10=000", "8=FIX.4.4\u00019=5".replace("\u0001", "|")]
MTYPES = ["D", "8", "0", "A", "AE", "U1", "j", "XYZ", "5", "F"]
CUSTOM_MTYPES = ["U1", "U9", "ASD", "A B", " ", "  ", "=", "D=", "35=D", "\xe9", "10", "8=FIX.4.4", "d", "ae", "00", "08",
                 "D|", "UNKNOWN", "None", "XYZXYZXYZXYZXYZXYZXYZ", "\t", "\xa0"]
PADS = [(" ", ""), ("", " "), (" ", " "), ("", "\t"), ("\t", ""), ("", "\n"), ("", "\xa0"), ("  ", ""), ("", "\r"), ("\x0b", ""),
        ("", "\x1c"), ("0", ""), ("", "\x00")]


def mtype_class(mt: str) -> str:
    std = set(tag_families()["mtypes"])
    if mt in std:
        return "standard"
    mg = magic_texts()
    if mt in mg["fmsg_names"] or mt in mg["enum_names"]:
        return "enum-member-name"
    if mt in mg["py"]:
        return "python-text"
    if mt.strip() in std or mt.strip("\x00 \t\r\n\x0b\x0c\x1c\x1d\x1e\x1f\xa0\x85") in std:
        return "padded-standard"
    if mt.lower() in {x.lower() for x in std} or mt.lstrip("0") in std:
        return "respelled-standard"
    return "custom"


PY_TEXTS = ["None", "True", "False", "nan", "inf", "-inf", "NaN", "null", "NULL", "nil", "NotImplemented", "Ellipsis", "...",
            "[]", "{}", "()", "b'x'", "b''", "''", '""', "0", "0.0", "-0", "-0.0", "00", "1e3", "none", "NONE", " None", "None ",
            "undefined", "<class 'str'>", "#err#", "%s", "%d", "{}=", "{0}", "\\x01", "\\n", "N/A", "-", "?", " ", "  ", "\t",
            "\n", "\xa0", "\x00", "\r\n", " a", "a ", "a  b"]
_MAGIC = None


def magic_texts():
    """texts that mean something to Python or to the library itself: the NAME (and value) of every member of every
    Enum the asyncfix package defines (FMsg / FTag / FOrdStatus / ConnectionState ... names), the names of its
    exception classes, and repr-like / empty-looking / whitespace texts.  {"fmsg_names", "enum_names", "py"}"""
    global _MAGIC
    if _MAGIC is not None:
        return _MAGIC
    import enum
    import importlib
    import pkgutil
    fmsg, names = [], set()
    try:
        import asyncfix
        mods = [asyncfix]
        for mi in pkgutil.walk_packages(asyncfix.__path__, "asyncfix."):
            try:
                mods.append(importlib.import_module(mi.name))
            except Exception:
                pass
        for m in mods:
            for nm, obj in vars(m).items():
                if isinstance(obj, type) and issubclass(obj, enum.Enum) and obj.__module__.startswith("asyncfix"):
                    for mem in obj.__members__:
                        (fmsg if obj.__name__ == "FMsg" else names).add(mem) if obj.__name__ != "FMsg" else fmsg.append(mem)
                    names.add(obj.__name__)
                elif isinstance(obj, type) and issubclass(obj, Exception) and obj.__module__.startswith("asyncfix"):
                    names.add(nm)
    except Exception:
        pass
    _MAGIC = {"fmsg_names": sorted(set(fmsg)) or ["LOGON", "IOI", "NEWS", "EMAIL"], "enum_names": sorted(names) or ["Symbol", "Text"],
              "py": PY_TEXTS}
    return _MAGIC


def gen_magic(rng: random.Random, for_mtype=False) -> str:
    mg = magic_texts()
    r = rng.random()
    if r < (0.5 if for_mtype else 0.15):
        v = rng.choice(mg["fmsg_names"])
    elif r < (0.65 if for_mtype else 0.4):
        v = rng.choice(mg["enum_names"])
    else:
        v = rng.choice(mg["py"][:12] if rng.random() < 0.5 else mg["py"])
    if rng.random() < 0.08:
        v = rng.choice([v.lower(), v.capitalize(), v + " ", "FMsg." + v, "FTag." + v])
    return v


def gen_mtype(rng: random.Random) -> str:
    """MsgType text: the small fixed list, any type the repository's FMsg declares, a standard type padded with
    blanks / control characters or respelled (case, leading zero), and custom types"""
    fam = tag_families()
    r = rng.random()
    if r < 0.08:
        v = gen_magic(rng, True)
        if v and wf_value(v):
            return v
    if r < 0.45:
        return rng.choice(MTYPES)
    if r < 0.65:
        return rng.choice(fam["mtypes"])
    if r < 0.85:
        v = rng.choice(fam["mtypes"] if rng.random() < 0.5 else MTYPES)
        x = rng.random()
        if x < 0.75:
            a, b = rng.choice(PADS)
            return a + v + b
        return v.swapcase() if x < 0.9 and v.swapcase() != v else v + v
    return rng.choice(CUSTOM_MTYPES)

_FAM = None


def tag_families():
    """Tag vocabulary taken from the repository itself: every tag number asyncfix.fixtags declares, every message
    type asyncfix.msgtype declares, and - from tests/FIX44.xml - the Length/Data field pairs and the optional
    standard header / trailer fields.  Only used to choose WHICH tags generated messages carry."""
    global _FAM
    if _FAM is not None:
        return _FAM
    import xml.etree.ElementTree as ET
    allt, mts = set(), set()
    try:
        from asyncfix import FTag, FMsg
        for m in FTag:
            allt.add(str(m.value))
        for m in FMsg:
            mts.add(str(m.value))
    except Exception:
        pass
    pairs, hopt, topt = [], [], []
    try:
        repo = os.environ.get("VERIF_REPO", "/repo")
        root = ET.parse(os.path.join(repo, "tests", "FIX44.xml")).getroot()
        num, typ = {}, {}
        for f in root.find("fields"):
            num[f.get("name")] = f.get("number")
            typ[f.get("name")] = f.get("type")
        for name, ty in typ.items():
            if ty == "DATA":
                for suf in ("Len", "Length"):
                    if typ.get(name + suf) == "LENGTH":
                        pairs.append((num[name + suf], num[name]))
        for sec, dst in (("header", hopt), ("trailer", topt)):
            for f in root.find(sec):
                n = num.get(f.get("name"))
                if f.tag == "field" and n and n not in HEADER_TAGS:
                    dst.append(n)
        allt.update(num.values())
    except Exception:
        pass
    if not pairs:
        pairs = [("95", "96"), ("93", "89"), ("90", "91"), ("212", "213")]
    if not hopt:
        hopt = ["43", "97", "122", "115", "128", "50", "57", "369"]
    if not topt:
        topt = ["93", "89"]
    allt.update(str(t) for t in (1, 11, 55, 58, 5001, 9999, 20000))
    _FAM = {"all": sorted(allt, key=int), "mtypes": sorted(mts) or MTYPES, "pairs": sorted(pairs),
            "header_opt": sorted(hopt, key=int), "trailer_opt": sorted(topt, key=int)}
    return _FAM


def gen_value(rng: random.Random) -> str:
    r = rng.random()
    if r < 0.09:
        return gen_magic(rng)
    if r < 0.15:
        return rng.choice(FRAMING_LIKE) + "".join(rng.choice(VALUE_ALPHABET) for _ in range(rng.randint(0, 4)))
    if r < 0.2:
        return ""
    return "".join(rng.choice(VALUE_ALPHABET) for _ in range(rng.randint(1, 8)))


def gen_item(rng, gtag, tbl, depth, force_first, opt_p):
    members = tbl[gtag]
    item = []
    for idx, m in enumerate(members):
        take = (idx == 0 and force_first) or rng.random() < opt_p
        if idx == 0 and m in tbl:
            take = False  # first member must be plain
        if not take:
            continue
        if m in tbl:
            if depth > 0 and rng.random() < 0.6:
                item.append(gen_group(rng, m, tbl, depth - 1))
        else:
            item.append(("L", m, gen_value(rng)))
    if not item or item[0][0] != "L":
        item.insert(0, ("L", members[0], gen_value(rng)))
    return item


def gen_group(rng, gtag, tbl, depth):
    n = rng.choice([1, 1, 2, 2, 3])
    opt_p = rng.choice([0.1, 0.3, 0.6])
    return ("G", gtag, [gen_item(rng, gtag, tbl, depth, True, opt_p) for _ in range(n)])


def near_miss_tag(rng, member_tags, forbidden):
    cands = set()
    ms = [str(m) for m in member_tags]
    for m in ms:
        for i in range(len(m)):
            for j in range(i + 1, len(m) + 1):
                cands.add(m[i:j])
        cands.add(str(int(m) + 1))
        cands.add(str(max(1, int(m) - 1)))
        cands.add(m + m[-1])
        cands.add(m[0] + m)
    for a in ms[:4]:
        for b in ms[:4]:
            cands.add(a + b)
    cands = sorted(c for c in cands if c and c not in forbidden and not c.startswith("0") and 0 < int(c) < 100000)
    return rng.choice(cands) if cands else None


def all_member_tags(tbl):
    s = set()
    for ms in tbl.values():
        s.update(ms)
    return s


def gen_wf_msg(rng: random.Random, group=None, keep_seq=False):
    """(mtype, tree) satisfying wf_msg; group: force this group tag to be present"""
    tbl = table()
    members = all_member_tags(tbl)
    free_tags = [str(t) for t in (1, 11, 15, 21, 38, 40, 44, 54, 55, 58, 59, 60, 100, 150, 1000, 5001, 9999)
                 if str(t) not in tbl]
    fam = tag_families()
    any_tags = [t for t in fam["all"] if t not in tbl and t not in HEADER_TAGS]
    for _ in range(50):
        mtype = gen_mtype(rng)
        tree, used = [], set()
        n_plain = rng.randint(0, 6)
        groups = [group] if group else []
        groups += [g for g in rng.sample(sorted(tbl), rng.choice([0, 0, 1, 1, 2])) if g not in groups]
        parts = [("P", None)] * n_plain + [("G", g) for g in groups]
        rng.shuffle(parts)
        if keep_seq:
            parts.insert(rng.randint(0, len(parts)), ("S", None))
        for kind, g in parts:
            if kind == "G":
                if g in used:
                    continue
                used.add(g)
                tree.append(gen_group(rng, g, tbl, depth=3))
                if rng.random() < 0.35:
                    # right behind the group: a plain tag that is a NEAR MISS of one of its member tags (a substring,
                    # prefix or suffix of the member's digits, the member +-1, two members glued) - it is not a
                    # member, so it closes the group; a membership test by text containment would swallow it
                    t = near_miss_tag(rng, tbl.get(g, []), set(tbl) | members | used | HEADER_TAGS | SKIP_TAGS)
                    if t is not None:
                        used.add(t)
                        tree.append(("L", t, gen_value(rng)))
            elif kind == "S":
                tree.append(("L", "34", str(rng.choice([1, 7, 42, 99999, 2**40]))))
            else:
                r = rng.random()
                pool = free_tags if r < 0.6 else sorted(members - set(tbl)) if r < 0.75 else any_tags
                t = rng.choice(pool)
                if t in used or t in HEADER_TAGS:
                    continue
                used.add(t)
                tree.append(("L", t, gen_value(rng)))
        if rng.random() < 0.3:
            # a bundle of tags that belong together in the FIX dictionary: a Length/Data pair, or optional
            # standard-header / standard-trailer fields an application may set itself (to the codec they are
            # ordinary body fields and must stay where the container has them)
            r = rng.random()
            if r < 0.45 and fam["pairs"]:
                a, b = rng.choice(fam["pairs"])
                data = gen_value(rng)
                bundle = [(a, str(len(data)) if rng.random() < 0.8 else gen_value(rng)), (b, data)]
                if rng.random() < 0.15:
                    bundle.reverse()
                if rng.random() < 0.2:
                    bundle = bundle[:1] if rng.random() < 0.5 else bundle[1:]
            else:
                src = fam["header_opt"] if r < 0.8 or not fam["trailer_opt"] else fam["trailer_opt"]
                bundle = [(t, rng.choice(["Y", "N", "1", gen_value(rng)]))
                          for t in rng.sample(src, min(len(src), rng.randint(1, 3)))]
            at = rng.randint(0, len(tree))
            adjacent = rng.random() < 0.7
            for t, v in bundle:
                if t in used or t in HEADER_TAGS or t in tbl:
                    continue
                used.add(t)
                tree.insert(at, ("L", t, v))
                at = at + 1 if adjacent else rng.randint(at + 1, len(tree))
        if wf_msg(mtype, tree, keep_seq):
            if rng.random() < 0.3:
                t2 = dup_blocks(rng, tree)
                if wf_msg(mtype, t2, keep_seq):
                    tree = t2
            return mtype, tree
    return "D", [("L", "55", "X")]


def dup_blocks(rng, tree):
    """equal blocks at several places: a group item repeated in its group, or a second item that differs only in
    its first value (so nested blocks are equal although the outer items are not) - what an application gets when
    it attaches one prebuilt block to several items"""
    def walk(nodes):
        out = []
        for n in nodes:
            if n[0] != "G":
                out.append(n)
                continue
            items = [walk(it) for it in n[2]]
            if items and rng.random() < 0.6:
                j = rng.randrange(len(items))
                cp_ = list(items[j])
                if rng.random() < 0.6 and cp_ and cp_[0][0] == "L":
                    cp_[0] = ("L", cp_[0][1], cp_[0][2] + rng.choice(["2", "-b", ""]))
                items.insert(rng.choice([j + 1, len(items)]), cp_)
            out.append(("G", n[1], items))
        return out
    return walk(tree)


def flatten(tree):
    """body fields 'tag=value' in wire order (the property's reading of a container)"""
    out = []
    for n in tree:
        if n[0] == "L":
            out.append(f"{n[1]}={n[2]}")
        elif n[0] == "G":
            out.append(f"{n[1]}={len(n[2])}")
            for it in n[2]:
                out += flatten(it)
    return out


def depth_of(tree):
    d = 0
    for n in tree:
        if n[0] == "G":
            d = max(d, 1 + max((depth_of(it) for it in n[2]), default=0))
    return d


def gen_frames(rng, k, with_groups=True):
    """k valid frames (bytes) built by the reference framer from WF messages"""
    frames = []
    for i in range(k):
        mtype, tree = gen_wf_msg(rng) if with_groups or rng.random() < 0.5 else ("0", [])
        fields = [f"35={mtype}", "49=SND", "56=TGT", f"34={i + 1}", "52=20240101-00:00:00.000"] + flatten(tree)
        frames.append(ref_frame(fields))
    return frames


# ------------------------------------------------------------------ the real reader task
class _ChunkReader:
    def __init__(self, chunks):
        self.chunks = list(chunks)

    async def read(self, n):
        import asyncio

        if not self.chunks:
            raise asyncio.CancelledError()
        return self.chunks.pop(0)


def run_reader(chunks, max_steps=100000):
    """Run the REAL AsyncFIXConnection.socket_read_task over the given reads (bytes objects;
    must be non-empty: an empty read means EOF to the task).  Returns the canonical reply
    `buf <hex> <flag> D <mtype> <cont> <raw> …` comparable with the driver's `codec.feed`."""
    import asyncio
    import logging

    from asyncfix.connection import AsyncFIXConnection, ConnectionState
    from asyncfix.journaler import Journaler

    logging.disable(logging.CRITICAL)
    delivered = []
    flag = ["-"]

    class Conn(AsyncFIXConnection):
        async def _process_message(self, msg, raw):
            delivered.append((str(msg.msg_type), tok_tree(tree_of(msg)), raw))
            if len(delivered) > max_steps:
                flag[0] = "stalled"
                raise asyncio.CancelledError()

    conn = Conn(proto(), "S", "T", Journaler(), "h", 1, 30)
    conn._connection_state = ConnectionState.ACTIVE
    conn._socket_reader = _ChunkReader(chunks)

    class _Log(C.LogBase):
        def exception(self, *a, **k):
            import sys
            e = sys.exc_info()[1]
            if flag[0] == "-":
                flag[0] = "raised:" + type(e).__name__
            conn._socket_reader.chunks.clear()

        def debug(self, *a, **k):
            pass
        info = warning = error = debug

    conn.log = _Log()
    asyncio.run(conn.socket_read_task())
    ds = "".join(" D %s %s %s" % (C.cp(mt), ct, C.cp(raw)) for mt, ct, raw in delivered)
    return "buf %s %s%s" % (C.cp(conn._msg_buffer), flag[0], ds)


def partitions_1cut(n):
    return [[i] for i in range(1, n)]


def split_at(stream: bytes, cuts):
    out, prev = [], 0
    for c in list(cuts) + [len(stream)]:
        if c > prev:
            out.append(stream[prev:c])
            prev = c
    return out


# ------------------------------------------------------------------ round 4: value classes, sizes, strict framing
# Unicode value classes (dimension V).  Every text is SOH-free.  "fits" says whether the text is representable in
# latin-1 AS GIVEN (code points < 256) - that alone decides whether a frame may carry it; what a normaliser,
# case-folder or a different codec would turn it into is irrelevant to the wire.
UNICODE_CLASSES = {
    "latin1-precomposed": ["caf\xe9", "Z\xfcrich", "\xc5ngstr\xf6m", "\xb5s", "Stra\xdfe", "\xff\xfe"],
    # base letter + combining mark whose COMPOSED form is a latin-1 character (the text itself is not latin-1)
    "combining->latin1": ["cafe\u0301", "Zu\u0308rich", "A\u030a", "n\u0303", "c\u0327a", "e\u0301e\u0300"],
    # combining sequences without a latin-1 composed form, a lone mark, two marks
    "combining-other": ["x\u0301", "e\u0304", "\u0301", "a\u0328", "q\u0307\u0323"],
    # singletons: canonically equivalent to an ASCII / latin-1 character
    "singleton-decomposable": ["300\u212a", "5\u212b", "a\u037e", "\u0387", "\u1fef", "\u1ffd", "50\u2126"],
    # compatibility characters (NFKC changes them; NFC does not)
    "compatibility": ["\ufb01n", "\uff11\uff12", "\u2460", "x\u00b2", "\u2122", "\u33a1", "\u00bd"],
    # case mapping specials (upper/lower/casefold change length or leave latin-1)
    "case-special": ["\u0130stanbul", "\u0131", "\u017f", "\u1e9e", "\u01c5", "\u03a3\u03c2", "\xdf", "\xff"],
    "surrogate": ["\ud800", "a\udfffb", "\ud83d\ude00"],
    "nul-control": ["\x00", "a\x00b", "\x1c\x1d", "\x85", "\x7f", "\r\n", "\t"],
    # utf-8 and latin-1 encodings differ in length (or latin-1 has none)
    "width-differs": ["\xe9", "\xa0", "\xad", "\u20ac", "\u0100", "\U0001f600", "\u4e2d\u6587", "\u043f\u0440"],
    "format-bidi": ["\u200b", "a\u200db", "\u2028", "\ufeff", "\u202eabc"],
}


def flatten_values(tree, top=True):
    """(tag, value) of every plain entry the encoder puts on the wire (top-level 34/52/49/56 are replaced by it)"""
    out = []
    for n in tree:
        if n[0] == "L":
            if not (top and n[1] in SKIP_TAGS):
                out.append((n[1], n[2]))
        elif n[0] == "G":
            for it in n[2]:
                out += flatten_values(it, top=False)
    return out


def fits_latin1(s: str) -> bool:
    return all(ord(ch) < 256 for ch in s)


def gen_special_value(rng, surrogates=True):
    """(class name, text) from UNICODE_CLASSES, optionally embedded in ASCII"""
    cls = rng.choice(sorted(k for k in UNICODE_CLASSES if surrogates or k != "surrogate"))
    t = rng.choice(UNICODE_CLASSES[cls])
    r = rng.random()
    if r < 0.3:
        t = "ab" + t
    elif r < 0.5:
        t = t + "yz"
    return cls, t


def ref_parse_strict(raw: bytes):
    """`ref_parse` plus what a peer that scans for fields relies on: BeginString(8), BodyLength(9), MsgType(35)
    occur exactly once and no CheckSum(10) field occurs before the trailer - i.e. the frame ends at the FIRST
    `SOH 10=` a parser meets."""
    fields, why = ref_parse(raw)
    if fields is None:
        return None, why
    tags = [t for t, _ in fields]
    for t in ("8", "9", "35"):
        if tags.count(t) != 1:
            return None, "tag %s occurs %d times" % (t, tags.count(t))
    if "10" in tags:
        return None, "CheckSum(10) field inside the body"
    for t in tags:
        if not t or not all("0" <= ch <= "9" for ch in t):
            return None, "field tag is not a decimal number"
    return fields, None


def split_stream(stream: bytes, begin=b"FIX.4.4"):
    """what the peer does with the transport's byte stream: cut it into frames by BodyLength, check every frame
    with `ref_parse_strict`.  Returns (frames, None) or (frames so far, reason)."""
    frames, pos = [], 0
    head = b"8=" + begin + b"\x019="
    while pos < len(stream):
        if not stream.startswith(head, pos):
            return frames, "offset %d: no BeginString/BodyLength" % pos
        p = pos + len(head)
        q = stream.find(b"\x01", p)
        if q < 0 or not stream[p:q].isdigit():
            return frames, "offset %d: bad BodyLength" % pos
        end = q + 1 + int(stream[p:q]) + 7
        if end > len(stream):
            return frames, "offset %d: frame runs past the end of the stream" % pos
        fr = stream[pos:end]
        fields, why = ref_parse_strict(fr)
        if fields is None:
            return frames, "offset %d: %s" % (pos, why)
        frames.append(fr)
        pos = end
    return frames, None


# frame sizes (dimension S): 4 KiB, the 64 KiB stream high-water mark +-1, twice that +-1, 1 MiB
FRAME_SIZES = [4096, 65535, 65536, 65537, 70000, 131071, 131073, 1 << 20, (1 << 20) + 1, 3 << 19, (1 << 21) + 1]


def sized_case(spec):
    """deterministic big message from a small JSON-able spec (so that a replay file stays small):
      {"shape": "value", "frame_len": n, "mtype": "B", "tag": "58", "fill": "x", "tail": "", "seq": 7}
          one value padded so that the WHOLE frame (computed by `ref_frame`, not by the codec) has n bytes
      {"shape": "items", "group": "453", "n": 3000}     one repeating group with n one-member items
      {"shape": "fields", "n": 2000}                     n distinct plain (user-defined) tags
    returns the case tuple of gen_case: (mtype, tree, sender, target, next_out, raw, now)"""
    now = spec.get("now", "20240101-00:00:00.000")
    seq = spec.get("seq", 7)
    sender, target = spec.get("sender", "SND"), spec.get("target", "TGT")
    mtype = spec.get("mtype", "B")
    shape = spec["shape"]
    if shape == "value":
        tag, fill, tail = spec.get("tag", "58"), spec.get("fill", "x"), spec.get("tail", "")
        pre = [("L", "148", "headline")]

        def flen(k):
            fs = ["35=" + mtype, "49=" + sender, "56=" + target, "34=%d" % seq, "52=" + now, "148=headline",
                  tag + "=" + fill * k + (tail if fits_latin1(tail) else "?" * len(tail))]
            return len(ref_frame(fs))
        k = max(0, spec["frame_len"] - flen(0))
        for _ in range(4):   # BodyLength digits may change
            k += spec["frame_len"] - flen(k)
            k = max(0, k)
        tree = pre + [("L", tag, fill * k + tail)]
    elif shape == "items":
        g = spec.get("group", "453")
        first = table()[g][0]
        tree = [("L", "55", "X"), ("G", g, [[("L", first, "P%d" % i)] for i in range(spec["n"])])]
    elif shape == "fields":
        tree = [("L", str(20000 + i), "v%d" % i) for i in range(spec["n"])]
    else:
        raise ValueError(spec)
    return (mtype, tree, sender, target, seq, False, now)
