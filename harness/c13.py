"""C13 – the journal is a faithful per-session, per-direction message store.  DESIGN.md §6 C13.

tie:    random operation sequences on the real `Journaler` (in-memory, and file-backed with
        close/reopen) and on the compiled Lean model (`jrn.*`), compared call by call: return
        value / exception kind / the mutated FIXSession / conn.in_transaction, and – at observed
        steps – the full observable state (sessions(), create_or_load of every pair, get_all_msgs)
oracle: a pure-Python reference map (independent of Lean) + the property clauses, evaluated on the
        implementation alone
"""
from __future__ import annotations

import glob
import json
import os
import shutil
import tempfile

from . import common as C

PROP = "C13"
PROPS_MODULES = ["AsyncFix.Props.C13"]
ASSUMPTIONS = [
    "CompIDs are Python str without lone surrogates, message arguments are bytes, FIXSession counters are ints, "
    "directions are MessageDirection members (other argument types are outside the model)",
    "text range bounds that SQLite converts to a floating point number ('5.5', '1e3', '-99999999999999999999') are "
    "outside the model (the driver answers `unmodelled`, the call is still executed on both sides)",
    "at most 128 distinct SQL texts per connection (CPython statement cache never evicts)",
    "the model has one parameter order per method (the documented one); the calling convention (positional / keyword / "
    "mixed / shortest call) is a dimension of the correspondence and of the oracle only",
    "collaborator faults: the j-th execute()/commit() of a call raising sqlite3.OperationalError / DataError (once, instead of "
    "the call) is modelled (Prog.runInj, SRes.fault, Op.commitFail) and compared in the correspondence, but no theorem "
    "quantifies over faults; the clause 'a call that raised changed nothing observable, now or after the next commit' is "
    "checked by the reference-map oracle only; real DataError (connection length limit + oversized frames) is oracle only",
]
MODELLED_NOT_VERIFIED = [
    "C13: CPython int(bytes) (whitespace, sign, single underscores, 4300-digit limit), bytes.index; sqlite3 module "
    "(implicit BEGIN before DML and before binding, IntegrityError leaves the transaction open, OverflowError outside "
    "64 bits and its mis-reporting as IntegrityError through a stale sqlite3_errcode); SQLite (UNIQUE / PRIMARY KEY, "
    "AUTOINCREMENT, rowid = max+1, ORDER BY, INTEGER column compared with TEXT parameter) – hand-modelled in "
    "Model/Journal.lean + Model/JournalDB.lean, compared on every run",
]

SOH = b"\x01"
PAIRS = [("T", "S"), ("S", "T"), ("A", "B"), ("", ""), ("a", "B"), ("é", "ü"), ("T ", "S"), ("B", "A"),
         ("t", "s"), ("É", "Ü"), ("T", "S\x00"), ("a", "b")]
# families of CompID pairs that are equal only under some looser comparison (letter case, trailing blanks,
# embedded NUL, Unicode case / normalisation): the journal must keep them apart
NEAR = [
    [("broker", "client"), ("BROKER", "CLIENT"), ("Broker", "client"), ("broker", "CLIENT")],
    [("T", "S"), ("t", "s"), ("T", "s")],
    [("T", "S"), ("T ", "S"), ("T", "S "), (" T", "S")],
    [("T", "S"), ("T\x00", "S"), ("T", "S\x00x")],
    [("é", "ü"), ("É", "Ü"), ("e\u0301", "u\u0308")],
    [("ß", "x"), ("ss", "x"), ("ẞ", "x"), ("SS", "x")],
    [("ı", "K"), ("i", "K"), ("I", "K"), ("İ", "K")],
    [("1", "2"), ("01", "2"), ("1.0", "2"), ("١", "2")],
]
I63 = 2**63


# ----------------------------------------------------------------------------------------------
# canonical text (same as Driver/Journal.lean `resStr`)
# ----------------------------------------------------------------------------------------------
def hstr(h):
    return f"{h.key}:{C.hx(h.target_comp_id)}:{C.hx(h.sender_comp_id)}:{h.next_num_out}:{h.next_num_in}"


def exc_kind(e):
    import sqlite3

    from asyncfix.errors import DuplicateSeqNoError, FIXMessageError

    if isinstance(e, DuplicateSeqNoError):
        return "DuplicateSeqNo"
    if isinstance(e, FIXMessageError):
        return "FIXMessage"
    if isinstance(e, AssertionError):
        return "Assertion"
    if isinstance(e, OverflowError):
        return "Overflow"
    if isinstance(e, sqlite3.IntegrityError):
        return "Integrity"
    if isinstance(e, StopIteration):
        return "StopIteration"
    if isinstance(e, sqlite3.OperationalError):
        return "Operational"
    if isinstance(e, sqlite3.DataError):
        return "Data"
    return "Other:" + type(e).__name__


# ----------------------------------------------------------------------------------------------
# collaborator faults: a wrapper around the journal's sqlite3 connection / cursor (installed from outside, on the
# attributes) that makes the j-th execute()/commit() of the next method call raise a chosen sqlite3 error – once,
# instead of performing the call; rollback() is never faulted
# ----------------------------------------------------------------------------------------------
FAULT_KINDS = ["Operational", "Data"]


def fault_exc(kind):
    import sqlite3

    return sqlite3.DataError("string or blob too big") if kind == "Data" else \
        sqlite3.OperationalError("database or disk is full")


class Injector:
    def __init__(self):
        self.n, self.at, self.kind, self.fired = 0, None, None, None

    def arm(self, at, kind):
        self.n, self.at, self.kind, self.fired = 0, at, kind, None

    def disarm(self):
        self.at = None

    def hit(self, what):
        if self.at is not None:
            if self.n == self.at:
                self.at, self.fired = None, (self.n, what)
                raise fault_exc(self.kind)
            self.n += 1


class FaultCursor:
    def __init__(self, cur, inj):
        self._c, self._i = cur, inj

    def execute(self, sql, *a, **kw):
        self._i.hit(str(sql).split(" ")[0].upper())
        return self._c.execute(sql, *a, **kw)

    def __iter__(self):
        return iter(self._c)

    def __next__(self):
        return next(self._c)

    def __getattr__(self, name):
        return getattr(self._c, name)


class FaultConn:
    def __init__(self, conn, inj):
        self._c, self._i = conn, inj

    def commit(self):
        self._i.hit("COMMIT")
        return self._c.commit()

    def __getattr__(self, name):
        return getattr(self._c, name)


def wrap_faults(j, inj):
    j.conn = FaultConn(j.conn, inj)
    j.cursor = FaultCursor(j.cursor, inj)
    return j


def btok(b):
    if isinstance(b, bool) or not isinstance(b, (int, str)):
        raise TypeError("bound outside the model")
    return f"n{b}" if isinstance(b, int) else C.hx(b)


# ----------------------------------------------------------------------------------------------
# calling conventions: every public method is called in several ways (the model has one parameter order – the
# documented one; an implementation whose positional order or keyword names differ must show up)
#   std  what the library's own callers do (set_seq_num with keywords, everything else positional)
#   pos  every argument positional        kw   every argument by keyword
#   mix  leading arguments positional, the rest by keyword
#   min  the shortest call: trailing arguments that are None are left out (one positional value, …)
# An op carries its convention as an optional last element "@<conv>".
# ----------------------------------------------------------------------------------------------
CONVS = ["pos", "kw", "mix", "min"]


def conv_of(op):
    if len(op) and isinstance(op[-1], str) and op[-1].startswith("@"):
        return op[-1][1:], tuple(op[:-1])
    return "std", tuple(op)


def with_conv(rng, op, p=0.5):
    """attach a random calling convention to an op with probability p"""
    return tuple(op) + (("@" + rng.choice(CONVS),) if rng.random() < p else ())


def call_col(j, t, s, conv):
    if conv == "kw":
        return j.create_or_load(sender_comp_id=s, target_comp_id=t)
    if conv == "mix":
        return j.create_or_load(t, sender_comp_id=s)
    return j.create_or_load(t, s)


def call_persist(j, msg, h, dirv, conv):
    if conv == "kw":
        return j.persist_msg(direction=dirv, session=h, msg=msg)
    if conv == "mix":
        return j.persist_msg(msg, h, direction=dirv)
    return j.persist_msg(msg, h, dirv)


def call_set(j, h, o, i, conv):
    if conv == "pos":
        return j.set_seq_num(h, o, i)
    if conv == "mix":
        return j.set_seq_num(h, o, next_num_in=i)
    if conv == "min":
        if o is None and i is None:
            return j.set_seq_num(h)
        if i is None:
            return j.set_seq_num(h, o)          # one positional value
        if o is None:
            return j.set_seq_num(h, next_num_in=i)
        return j.set_seq_num(h, o, i)
    if conv == "kw":
        return j.set_seq_num(next_num_in=i, session=h, next_num_out=o)
    return j.set_seq_num(h, next_num_out=o, next_num_in=i)


def call_rec(j, h, dirv, lo, hi, conv):
    if conv == "kw":
        return j.recover_messages(end_seq_no=hi, start_seq_no=lo, direction=dirv, session=h)
    if conv == "mix":
        return j.recover_messages(h, dirv, start_seq_no=lo, end_seq_no=hi)
    return j.recover_messages(h, dirv, lo, hi)


def call_rec1(j, h, dirv, b, conv):
    if conv == "kw":
        return j.recover_msg(seq_no=b, direction=dirv, session=h)
    if conv == "mix":
        return j.recover_msg(h, dirv, seq_no=b)
    return j.recover_msg(h, dirv, b)


def call_getall(j, arg, dirv, conv):
    if conv == "kw":
        return j.get_all_msgs(direction=dirv, sessions=arg)
    if conv == "mix":
        return j.get_all_msgs(arg, direction=dirv)
    if conv == "min":
        if dirv is None and arg is None:
            return j.get_all_msgs()
        if dirv is None:
            return j.get_all_msgs(arg)
        if arg is None:
            return j.get_all_msgs(direction=dirv)
    return j.get_all_msgs(arg, dirv)


class Impl:
    """Runs an op list on the real Journaler; produces driver lines and canonical replies."""

    def __init__(self, path=None):
        from asyncfix.journaler import Journaler

        self.J = Journaler
        self.path = path
        self.inj = Injector()
        self.fired = []     # (index of the driver line, SQL verb) of every injected fault that was raised
        self.j = wrap_faults(Journaler(path), self.inj)
        self.pool = []
        self.lines = ["jrn.start -"]
        self.out = ["none tx=0"]
        self.convs = {}

    def close(self):
        self.j = None  # refcount drops to zero: Journaler.__del__ closes cursor and connection

    def h(self, ref):
        from asyncfix.session import FIXSession

        if not self.pool:
            s = FIXSession(77, "X", "Y")
            s.next_num_out = s.next_num_in = 1
            self.pool.append(s)
        return self.pool[ref] if ref < len(self.pool) else self.pool[ref % len(self.pool)]

    def tx(self):
        return " tx=1" if self.j.conn.in_transaction else " tx=0"

    def emit(self, line, fn, fmt):
        self.lines.append(line)
        try:
            r = fmt(fn())
        except Exception as e:  # noqa
            r = "e " + exc_kind(e)
        self.note_fault()
        self.out.append(r + self.tx())
        return r

    def note_fault(self):
        if self.inj.fired is not None:
            self.fired.append((len(self.lines) - 1, self.inj.fired[1]))
            self.inj.fired = None
        self.inj.disarm()

    def step(self, op):
        from asyncfix.message import MessageDirection as D
        from asyncfix.session import FIXSession

        conv, op = conv_of(op)
        self.convs[conv] = self.convs.get(conv, 0) + 1
        k = op[0]
        dname = lambda d: "out" if d == 1 else "in"  # noqa
        dval = lambda d: D.OUTBOUND if d == 1 else D.INBOUND  # noqa
        if k == "col":
            _, t, s = op

            def f():
                h = call_col(self.j, t, s, conv)
                self.pool.append(h)
                return h

            return self.emit(f"jrn.col {C.hx(t)} {C.hx(s)}", f, lambda h: "h " + hstr(h))
        if k == "sessions":

            def f():
                d = self.j.sessions()
                self.pool.extend(d.values())
                return d

            return self.emit(
                "jrn.sessions", f,
                lambda d: "d " + ",".join(f"{C.hx(kk[0])}/{C.hx(kk[1])}={hstr(v)}" for kk, v in d.items()))
        if k == "fault":
            _, at, kind = op
            self.inj.arm(at, kind)
            self.lines.append(f"jrn.fault {at} {kind}")
            self.out.append("ok")
            return None
        if k == "limit":
            import sqlite3

            # a real storage limit on this connection (not part of the model: used by the oracles only)
            self.j.conn.setlimit(sqlite3.SQLITE_LIMIT_LENGTH, op[1])
            return None
        if k == "fab":
            _, key, o, i = op
            s = FIXSession(key, "F", "F")
            s.next_num_out, s.next_num_in = o, i
            self.pool.append(s)
            return None
        if k == "persist":
            _, ref, d, mhex = op[:4]
            h = self.h(ref)
            msg = bytes.fromhex(mhex)
            return self.emit(
                f"jrn.persist {h.key} {h.next_num_out} {h.next_num_in} {dname(d)} {C.hx(msg)}",
                lambda: call_persist(self.j, msg, h, dval(d), conv), lambda r: "none" if r is None else repr(r))
        if k == "set":
            _, ref, o, i = op
            h = self.h(ref)
            line = f"jrn.set {h.key} {h.next_num_out} {h.next_num_in} {'-' if o is None else o} {'-' if i is None else i}"
            self.lines.append(line)
            try:
                call_set(self.j, h, o, i, conv)
                r = "ok"
            except Exception as e:  # noqa
                r = exc_kind(e)
            self.note_fault()
            r = f"s {h.next_num_out}:{h.next_num_in} {r}"
            self.out.append(r + self.tx())
            return r
        if k == "rec":
            _, ref, d, lo, hi = op
            h = self.h(ref)
            return self.emit(
                f"jrn.rec {h.key} {dname(d)} {btok(lo)} {btok(hi)}",
                lambda: call_rec(self.j, h, dval(d), lo, hi, conv), lambda ms: "m " + ",".join(C.hx(m) for m in ms))
        if k == "rec1":
            _, ref, d, b = op
            h = self.h(ref)
            return self.emit(
                f"jrn.rec1 {h.key} {dname(d)} {btok(b)}",
                lambda: call_rec1(self.j, h, dval(d), b, conv), lambda m: "o none" if m is None else "o " + C.hx(m))
        if k == "getall":
            _, keys, d = op
            if keys is None:
                arg, tok = None, "-"
            else:
                # even refs are passed as FIXSession objects, odd ones as raw keys
                hs = [self.h(r) for r in keys]
                arg = [h if (r % 2 == 0) else h.key for r, h in zip(keys, hs)]
                tok = ",".join(str(h.key) for h in hs) if hs else "[]"
            return self.emit(
                f"jrn.getall {tok} {'-' if d is None else dname(d)}",
                lambda: call_getall(self.j, arg, None if d is None else dval(d), conv),
                lambda rs: "r " + ",".join(f"{a}:{C.hx(m)}:{dd}:{s}" for a, m, dd, s in rs))
        if k == "restart":
            if self.path is None:
                return None
            self.close()
            self.j = wrap_faults(self.J(self.path), self.inj)
            self.lines.append("jrn.restart -")
            self.out.append("none" + self.tx())
            return None
        if k == "obs":
            # full observable state: both load paths for every session, and every row
            box = {}

            def f():
                box["d"] = self.j.sessions()
                return box["d"]

            self.emit("jrn.sessions", f,
                      lambda d: "d " + ",".join(f"{C.hx(kk[0])}/{C.hx(kk[1])}={hstr(v)}" for kk, v in d.items()))
            for (t, s) in list(box.get("d", {}).keys()):
                self.emit(f"jrn.col {C.hx(t)} {C.hx(s)}", lambda: self.j.create_or_load(t, s), lambda h: "h " + hstr(h))
            self.step(("getall", None, None))
            return None
        raise ValueError(op)


# ----------------------------------------------------------------------------------------------
# generators
# ----------------------------------------------------------------------------------------------
def num_text(rng, n):
    """a byte rendering of n that int() accepts"""
    s = str(abs(n))
    v = rng.random()
    if v < 0.08:
        s = "0" * rng.randint(1, 3) + s
    elif v < 0.14 and len(s) > 1:
        p = rng.randint(1, len(s) - 1)
        s = s[:p] + "_" + s[p:]
    s = ("-" if n < 0 else ("+" if rng.random() < 0.06 else "")) + s
    if rng.random() < 0.08:
        s = rng.choice([" ", "\t", "\n", "\x0b", "\x0c\r"]) + s
    if rng.random() < 0.08:
        s = s + rng.choice([" ", "\t ", "\r\n"])
    return s.encode()


BAD_NUM = [b"", b" ", b"abc", b"1__0", b"_1", b"1_", b"0x10", b"1.0", b"1e3", b"+ 1", b"--1", b"\xd9\xa3", b"1\x00",
           b"\x001", b"\x1c5", b"5\x85", b"+", b"-", b"1 2", b"\xb2"]


SESSION_TYPES = [b"0", b"1", b"2", b"4", b"5", b"A"]          # Heartbeat TestRequest ResendRequest SequenceReset Logout Logon
APP_TYPES = [b"D", b"8", b"F", b"G", b"9", b"AE", b"j"]
CONTENT_FLAGS = ["possdup", "possdup_n", "possresend", "origtime", "gapfill", "newseq", "second34", "large", "testreq",
                 "resendreq", "binary"]


def frame_content(rng):
    """what a stored frame carries besides its number (the journal must not care): message type (session level
    and application), PossDupFlag 43=Y/N, PossResend 97=Y, OrigSendingTime 122, GapFillFlag / NewSeqNo, a data
    field with a second `34=` after a SOH, a large body, raw binary data.  Returns (msg type, set of flags)."""
    mtype = rng.choice(SESSION_TYPES) if rng.random() < 0.45 else rng.choice(APP_TYPES)
    flags = set()
    v = rng.random()
    if v < 0.30:
        flags.add("possdup")
        if rng.random() < 0.7:
            flags.add("origtime")
    elif v < 0.36:
        flags.add("possdup_n")
    if rng.random() < 0.10:
        flags.add("possresend")
    if mtype == b"4":
        flags.add("newseq")
        if rng.random() < 0.6:
            flags.add("gapfill")
    if mtype == b"1" or (mtype == b"0" and rng.random() < 0.4):
        flags.add("testreq")
    if mtype == b"2":
        flags.add("resendreq")
    if rng.random() < 0.15:
        flags.add("second34")
    if rng.random() < 0.04:
        flags.add("large")
    if rng.random() < 0.06:
        flags.add("binary")
    return mtype, flags


def frame(rng, numtext, kind="ok", content=None):
    """a FIX-looking message around `34=<numtext>` with realistic, varied content (see `frame_content`);
    kind: ok | nopat (no 34 field) | nosoh (nothing after the number) | bare (no SOH before 34=)"""
    mtype, flags = content if content is not None else frame_content(rng)
    head = b"8=FIX.4.4\x019=" + str(rng.randint(5, 999)).encode() + b"\x0135=" + mtype
    comp = b"\x0149=" + rng.choice([b"S", b"SENDER", b"T"]) + b"\x0156=" + rng.choice([b"T", b"TARGET", b"S"])
    opt = b""
    if "possdup" in flags:
        opt += b"\x0143=Y"
    if "possdup_n" in flags:
        opt += b"\x0143=N"
    if "possresend" in flags:
        opt += b"\x0197=Y"
    opt += b"\x0152=20260922-01:02:03.456"
    if "origtime" in flags:
        opt += b"\x01122=20260922-01:02:00.000"
    body = b""
    if "gapfill" in flags:
        body += b"\x01123=Y"
    if "newseq" in flags:
        body += b"\x0136=" + str(rng.randint(1, 99)).encode()
    if "testreq" in flags:
        body += b"\x01112=TEST" + str(rng.randint(0, 9)).encode()
    if "resendreq" in flags:
        body += b"\x017=" + str(rng.randint(1, 9)).encode() + b"\x0116=" + rng.choice([b"0", b"12"])
    if mtype in APP_TYPES:
        body += b"\x0111=clord" + str(rng.randint(1, 99)).encode() + b"\x0155=SYM\x0154=1\x0138=10"
    body += b"\x0158=" + bytes(rng.choice([b"x", b"\x00\xff", b"34=9", b"=", b" ", b"43=Y", b"text 43=Y 34=7"]))
    if "second34" in flags:
        # a data field whose value contains SOH 34= : must be ignored (the first occurrence is the header's)
        body += b"\x0195=6\x0196=a\x0134=" + str(rng.randint(1, 9)).encode() + b"\x01b"
    if "binary" in flags:
        body += b"\x0195=8\x0196=" + bytes(rng.randrange(256) for _ in range(8))
    if "large" in flags:
        body += b"\x01354=" + str(4000).encode() + b"\x01355=" + bytes(rng.choice(b"abc \xe9") for _ in range(rng.randint(2000, 6000)))
    tail = b"\x0110=" + str(rng.randint(0, 255)).zfill(3).encode() + b"\x01"
    if kind == "nopat":
        return head + comp + b"\x0135=" + numtext + opt + body + tail
    if kind == "nosoh":
        return head + comp + b"\x0134=" + numtext
    if kind == "bare":  # no leading SOH before 34=
        return b"34=" + numtext + opt + body + tail
    # header order varies: 34 before or after the CompIDs
    if rng.random() < 0.5:
        m = head + b"\x0134=" + numtext + comp + opt + body + tail
    else:
        m = head + comp + b"\x0134=" + numtext + opt + body + tail
    if rng.random() < 0.05:
        m += bytes(rng.randrange(256) for _ in range(rng.randint(1, 6)))
    return m


def content_class(msg, d):
    """coarse content class of a stored frame, for the measured distribution"""
    i = msg.find(b"\x0135=")
    t = msg[i + 4:msg.find(b"\x01", i + 1)] if i >= 0 else b"?"
    k = "session" if t in SESSION_TYPES else "app"
    if b"\x0143=Y\x01" in msg:
        k += "+possdup"
    if b"\x0197=Y\x01" in msg:
        k += "+possresend"
    if len(msg) > 1500:
        k += "+large"
    return ("out:" if d == 1 else "in:") + k


def pick_num(rng, st):
    v = rng.random()
    if v < 0.34:
        return rng.randint(1, 6)
    if v < 0.40:
        return rng.choice([8, 9, 10, 11, 12, 98, 99, 100, 101, 999, 1000])   # digit-count boundaries
    if v < 0.52:
        return rng.choice([7, 12, 40, 99, 250, 1000, 31337])
    if v < 0.62:
        st["desc"] -= rng.randint(1, 3)
        return st["desc"]
    if v < 0.72:
        return 2**31 + rng.randint(-2, 2)
    if v < 0.82:
        return 2**62 + rng.randint(-2, 2)
    if v < 0.88:
        return rng.choice([I63 - 1, I63 - 2, -I63, -I63 + 1])
    if v < 0.93:
        return rng.choice([0, -1, -5])
    return rng.choice([I63, I63 + 1, -I63 - 1, 2**64, 10**30])


TEXT_BOUNDS = ["5", " 5", "5 ", "+5", "05", "-3", "0", "9", "11", "8", "100", "99", "1000", "10", "12", "abc", "", "5abc", "0x5", "-", "- 3", "1_0", "9223372036854775807",
               "9223372036854775808", "99999999999999999999999", "5\x00", "٥", ".", "e5", "5e", "5 5", "+", "3", "2", "1",
               "4611686018427387904", "\t7\n", "-0", "00"]
TEXT_UNMODELLED = ["5.5", "1e1", "5.", ".5e1", "-9223372036854775809", "2.0"]


def pick_bound(rng, st):
    v = rng.random()
    if v < 0.62:
        return pick_num(rng, st)
    if v < 0.72:
        return rng.choice([I63 - 1, 0, 1, -I63])
    if v < 0.96:
        return rng.choice(TEXT_BOUNDS)
    return rng.choice(TEXT_UNMODELLED)


def gen_sequence(rng, maxlen, file_backed=False):
    n = rng.randint(max(3, maxlen // 3), maxlen)
    pairs = rng.sample(PAIRS[2:], 2) + [("T", "S"), ("S", "T")]
    rng.shuffle(pairs)
    st = {"desc": rng.choice([20, 50, 2**31 + 5, 2**62 + 5])}
    ops = [("col",) + p for p in pairs[: rng.randint(2, 4)]]
    stored = []  # (ref, dir, hex) candidates for duplicates
    every = rng.random() < 0.25
    refs = [0, 0, 0, 1, 1, 2, 3, 5, 7]
    while len(ops) < n:
        v = rng.random()
        if v < 0.10:
            ops.append(("col",) + rng.choice(pairs))
        elif v < 0.50:
            ref, d = rng.choice(refs), rng.randint(0, 1)
            w = rng.random()
            if stored and w < 0.25:
                ops.append(("persist",) + rng.choice(stored)[:3])  # duplicate (same handle slot, direction, bytes)
                continue
            if w < 0.30:
                kind = rng.choice(["nopat", "nosoh", "bare", "ok"])
                m = frame(rng, rng.choice(BAD_NUM) if kind == "ok" else b"5", kind)
                num = None
            else:
                num = pick_num(rng, st)
                m = frame(rng, num_text(rng, num))
            stored.append((ref, d, m.hex(), num))
            ops.append(("persist", ref, d, m.hex()))
        elif v < 0.62:
            o = None if rng.random() < 0.4 else rng.choice([1, 1, 2, 3, 5, rng.randint(1, 60), 2**31, 2**62, 0, -1, I63, I63 + 1])
            i = None if rng.random() < 0.5 else rng.choice([1, 1, 2, 3, 5, rng.randint(1, 60), 2**31, 2**62, 0, -2, I63, I63 + 1])
            ops.append(("set", rng.choice(refs), o, i))
        elif v < 0.78:
            w = rng.random()
            known = [e for e in stored if e[3] is not None and -I63 <= e[3] < I63]
            if known and w < 0.45:
                # a query around a number that was stored (same slot; same or the other direction)
                ref, d, _, num = rng.choice(known)
                lo = rng.choice([num, num - 1, num - rng.randint(0, 50), -I63, str(num), str(num - rng.randint(0, 3))])
                hi = rng.choice([num, num + 1, num + rng.randint(0, 50), I63 - 1, str(num), "x",
                                 str(num + rng.randint(0, 95)), str(num * 10 + 1)])
                ops.append(("rec", ref, d if rng.random() < 0.8 else 1 - d, max(lo, -I63) if isinstance(lo, int) else lo,
                            min(hi, I63 - 1) if isinstance(hi, int) else hi))
            elif w < 0.6:
                ops.append(("rec", rng.choice(refs), rng.randint(0, 1), rng.choice([-I63, 0, 1, "0", " 1"]),
                            rng.choice([I63 - 1, "abc", 2**62 + 9, "9223372036854775808"])))
            else:
                ops.append(("rec", rng.choice(refs), rng.randint(0, 1), pick_bound(rng, st), pick_bound(rng, st)))
        elif v < 0.83:
            ops.append(("rec1", rng.randrange(8), rng.randint(0, 1), pick_bound(rng, st)))
        elif v < 0.89:
            keys = None if rng.random() < 0.4 else [rng.randrange(8) for _ in range(rng.randint(0, 3))]
            ops.append(("getall", keys, rng.choice([None, 0, 1])))
        elif v < 0.93:
            ops.append(("sessions",))
        elif v < 0.96:
            ops.append(("fab", rng.choice([99, 3, -1, 0, I63, 2**64]), rng.choice([1, 5, I63]), rng.choice([1, 2])))
        elif file_backed:
            ops.append(("restart",))
        if every or rng.random() < 0.45:
            ops.append(("obs",))
    if rng.random() < 0.5:
        # a tail that makes the sequence non-trivial whatever happened before: store, store again (duplicate),
        # query across sessions/directions, renumber just above / at / below the stored number
        ref, d = rng.choice([0, 1]), rng.randint(0, 1)
        num = rng.choice([3, 41, 2**31 + 7, 2**62 + 7, st["desc"] - 1])
        m = frame(rng, num_text(rng, num)).hex()
        tail = [("persist", ref, d, m), ("obs",), ("persist", ref, d, m), ("rec", ref, d, -I63, I63 - 1),
                ("rec", 1 - ref, d, -I63, I63 - 1), ("rec", ref, 1 - d, num, num), ("sessions",),
                ("set", len(ops) + 50, *rng.choice([(num + 1, num + 1), (num, None), (None, num), (1, 1)])),
                ("rec", ref, d, -I63, I63 - 1)]
        ops += tail
    ops.append(("obs",))
    out = []
    for op in ops:
        if op[0] in ("col", "persist", "set", "rec", "rec1", "getall", "sessions") and rng.random() < 0.05:
            # collaborator fault: the j-th execute()/commit() of this call raises an sqlite3 error, once
            out.append(("fault", rng.choice([0, 0, 1, 1, 2, 3]), rng.choice(FAULT_KINDS)))
        out.append(with_conv(rng, op) if op[0] in ("col", "persist", "set", "rec", "rec1", "getall") else op)
    return out


def mktmp(prefix):
    """scratch directory for SQLite files (a tmpfs when there is one: fsync on a disk dominates the run time)"""
    shm = "/dev/shm"
    return tempfile.mkdtemp(prefix=prefix, dir=shm if os.path.isdir(shm) and os.access(shm, os.W_OK) else None)


CONV_COUNT = {}


def run_impl(ops, file_backed=False):
    d = mktmp("verif-c13-") if file_backed else None
    try:
        im = Impl(os.path.join(d, "j.db") if d else None)
        kinds = []
        for op in ops:
            r = im.step(op)
            kinds.append((op[0], r))
        im.close()
        for k, v in im.convs.items():
            CONV_COUNT[k] = CONV_COUNT.get(k, 0) + v
        return im.lines, im.out, kinds
    finally:
        if d:
            shutil.rmtree(d, ignore_errors=True)


def load_corpus():
    out = []
    for p in sorted(glob.glob(os.path.join(C.VERIF, "corpus", "journal", "c13_*.json"))):
        with open(p) as f:
            for case in json.load(f):
                out.append((os.path.basename(p) + ":" + case["name"], [tuple(o) for o in case["ops"]], case.get("file", False)))
    return out


def nontrivial(kinds):
    """rule: the sequence contains a reported duplicate, a set_seq_num that completed, and a range query that returned rows"""
    dup = any(k == "persist" and r and r.startswith("e DuplicateSeqNo") for k, r in kinds)
    st = any(k == "set" and r and r.endswith(" ok") for k, r in kinds)
    q = any(k == "rec" and r and r.startswith("m x") for k, r in kinds)
    return dup and st and q


def find_first_diff(lines, impl, model):
    for i, (a, b) in enumerate(zip(impl, model)):
        if b.startswith("unmodelled"):
            continue
        if a != b:
            return i
    return None


def correspondence(ctx):
    drv = C.Driver()
    CONV_COUNT.clear()
    cases = [(n, ops, fb) for n, ops, fb in load_corpus()]
    ncorp = len(cases)
    nseq = ctx.n(3000, 30000)
    maxlen = ctx.n(25, 60)
    for i in range(nseq):
        fb = (i % 10 == 0)
        cases.append((f"gen:{ctx.seed}:{i}", gen_sequence(ctx.rng, maxlen, fb), fb))
    # unit stream for find_seq_no / int(bytes) and the text-bound classification
    unit = unit_cases(ctx.rng, ctx.n(4000, 40000))

    dis, branches, nontriv, evals, skipped = [], {}, 0, 0, 0
    distinct = set()
    content = {}
    opcount = {}
    all_lines, spans, impl_all = [], [], []
    kept_kinds = []
    for name, ops, fb in cases:
        lines, out, kinds = run_impl(ops, fb)
        spans.append((len(all_lines), len(lines)))
        all_lines += lines
        impl_all += out
        kept_kinds.append(kinds)
    model_all = drv.batch(all_lines)
    samples = []
    for (name, ops, fb), (a, n), kinds in zip(cases, spans, kept_kinds):
        lines, impl, model = all_lines[a:a + n], impl_all[a:a + n], model_all[a:a + n]
        evals += n
        for l, r, m in zip(lines, impl, model):
            if m.startswith("unmodelled"):
                skipped += 1
            if l.startswith("jrn.persist "):
                t = l.split(" ")
                cl = content_class(C.unhx(t[5]), 1 if t[4] == "out" else 0) + (":stored" if r.startswith("none") else ":refused")
                content[cl] = content.get(cl, 0) + 1
            key = l.split(" ")[0][4:] + ":" + (r.split(" ")[0] if not r.startswith("e ") and not r.startswith("s ") else
                                               (r.split(" ")[1] if r.startswith("e ") else "set-" + r.split(" ")[2]))
            branches[key] = branches.get(key, 0) + 1
        if nontrivial(kinds):
            distinct.add(json.dumps([list(o) for o in ops]))
            nontriv = len(distinct)
        for k, _ in kinds:
            opcount[k] = opcount.get(k, 0) + 1
        i = find_first_diff(lines, impl, model)
        if i is not None:
            dis.append({"input": {"case": name, "ops": [list(o) for o in ops], "file": fb, "at_line": lines[i]},
                        "model": model[i], "impl": impl[i]})
        if len(samples) < 3 and name.startswith("gen") and nontrivial(kinds):
            samples.append({"case": name, "ops": [list(o) for o in ops][:12], "lines": lines[:10], "replies": impl[:10]})
    # unit stream
    ulines = [u[0] for u in unit]
    umodel = drv.batch(ulines)
    ub = {}
    for (l, want), m in zip(unit, umodel):
        evals += 1
        ub[want.split(" ")[0]] = ub.get(want.split(" ")[0], 0) + 1
        if m not in want.split("|"):
            dis.append({"input": {"case": "unit", "line": l}, "model": m, "impl": want})
    branches.update({"unit:" + k: v for k, v in ub.items()})
    return {
        "evaluations": evals,
        "distinct_nontrivial": nontriv,
        "rule": "op sequences (in-memory; every 10th file-backed with close/reopen) over 2-4 CompID pairs incl. the mirror "
        "pair (T,S)/(S,T), both directions, numbers from {small, sparse, descending, 2^31, 2^62, int64 limits, beyond}, "
        "frames with lenient int() spellings / embedded \\x0134= / garbage; every call compared (result, exception kind, "
        "mutated session, in_transaction), full state (both load paths, all rows) at observed steps and at the end; "
        "non-trivial = sequence with a reported duplicate, a completed set_seq_num and a range query returning rows; "
        "plus a unit stream for find_seq_no and SQLite's text-bound comparison",
        "samples": samples,
        "exhaustive": False,
        "branches": dict(sorted(branches.items())),
        "distribution": {"sequences": len(cases), "corpus": ncorp, "ops": opcount, "unmodelled_skipped": skipped,
                         "calling_conventions": dict(sorted(CONV_COUNT.items())),
                         "stored_frame_content": dict(sorted(content.items())),
                         "max_len": maxlen},
        "disagreements": dis,
    }


def unit_cases(rng, n):
    """(driver line, expected reply from the implementation)"""
    import sqlite3

    from asyncfix.journaler import Journaler

    out = []
    alphabet = [b"0", b"1", b"9", b"_", b"+", b"-", b" ", b"\t", b"\x0b", b"\x00", b"a", b"\x01", b"34=", b"\x0134=", b".", b"e",
                b"\xd9", b"\x1c", b"\r"]
    special = [b"\x0134=" + b"0" * 4300 + b"\x01", b"\x0134=" + b"0" * 4300 + b"1\x01", b"\x0134=1" + b"0" * 4299 + b"\x01",
               b"\x0134=" + b"0_" * 2150 + b"1\x01", b"\x0134=-" + b"9" * 4300 + b"\x01", b"\x0134=-" + b"9" * 4301 + b"\x01"]
    for k in range(n):
        if k < len(special):
            m = special[k]
        elif k % 3 == 0:
            m = frame(rng, rng.choice(BAD_NUM) if rng.random() < 0.3 else num_text(rng, rng.choice([0, 5, -5, 10**5, 2**70])),
                      rng.choice(["ok", "ok", "nopat", "nosoh", "bare"]))
        else:
            m = b"".join(rng.choice(alphabet) for _ in range(rng.randint(0, 12)))
            if rng.random() < 0.7:
                m = b"\x0134=" + m + (b"\x01" if rng.random() < 0.8 else b"")
        try:
            want = f"some {Journaler.find_seq_no(m)}"
        except Exception as e:  # noqa
            want = "none" if exc_kind(e) == "FIXMessage" else "exc:" + type(e).__name__
        out.append((f"jrn.findseq {C.hx(m)}", want))
    # text bounds: classify by probing SQLite directly with an INTEGER column holding sentinels
    conn = sqlite3.connect(":memory:")
    conn.execute("create table t(v INTEGER)")
    sent = [-I63, -I63 + 1, -7, -1, 0, 1, 2, 3, 4, 5, 6, 7, 9, 10, 11, 100, 2**53, 2**53 + 1, 2**62, I63 - 2, I63 - 1]
    conn.executemany("insert into t values(?)", [(x,) for x in sent])
    talpha = ["0", "1", "5", "9", " ", "+", "-", ".", "e", "E", "_", "a", "\t", "\x00", "x", "٥", "\n"]
    for k in range(n // 2):
        if k < len(TEXT_BOUNDS) + len(TEXT_UNMODELLED):
            t = (TEXT_BOUNDS + TEXT_UNMODELLED)[k]
        elif k % 4 == 0:
            t = num_text(rng, pick_num(rng, {"desc": 50})).decode("latin-1")
        else:
            t = "".join(rng.choice(talpha) for _ in range(rng.randint(0, 7)))
        ge = [r[0] for r in conn.execute("select v from t where v >= ? order by v", (t,))]
        le = [r[0] for r in conn.execute("select v from t where v <= ? order by v", (t,))]
        # expected classification from the two answers
        if _is_int_text(t):
            x = int(t.strip(" \t\n\x0b\x0c\r"))
            if -I63 <= x < I63:
                ok = ge == [v for v in sent if v >= x] and le == [v for v in sent if v <= x]
                want = f"val {x}" if ok else "sqlite-disagrees-with-int-reading"
            elif x >= I63:
                want = "posinf" if (not ge and le == sent) else "sqlite-disagrees-with-posinf"
            else:
                want = "unmodelled"
        elif not ge and le == sent:
            want = "posinf|unmodelled"   # a non-number, or a real beyond every int64 (the model does not read reals)
        else:
            want = "unmodelled"          # a real number
        out.append((f"jrn.textval {C.hx(t)}", want))
    conn.close()
    return out


def _is_int_text(t):
    s = t.strip(" \t\n\x0b\x0c\r")
    if s[:1] in "+-":
        s = s[1:]
    return s.isascii() and s.isdigit()


# ----------------------------------------------------------------------------------------------
# oracle: reference map + property clauses, implementation only
# ----------------------------------------------------------------------------------------------
class Ref:
    """the abstract store of the property text"""

    def __init__(self):
        self.store = {}     # (sid, dir, seq) -> bytes, insertion ordered
        self.counters = {}  # sid -> [out, in]  (last numbers)
        self.ids = {}       # (t, s) -> sid


def bound_value(b):
    """the reference reading of a range bound: an int, or text that spells an integer (ASCII digits, optional
    sign, surrounding blanks) – compared NUMERICALLY, whatever the digit counts; None = not judged by the oracle"""
    if isinstance(b, bool):
        return None
    if isinstance(b, int):
        return b if -I63 <= b < I63 else None
    if isinstance(b, str) and _is_int_text(b):
        v = int(b.strip(" \t\n\x0b\x0c\r"))
        return v if -I63 <= v < I63 else None
    return None


def render_bound(rng, n):
    """an int bound as it is, or as one of the str spellings the `int | str` signature allows"""
    v = rng.random()
    if v < 0.55:
        return n
    t = str(abs(n))
    if v < 0.62:
        t = "0" * rng.randint(1, 2) + t
    t = ("-" if n < 0 else ("+" if v > 0.95 else "")) + t
    if 0.62 <= v < 0.70:
        t = rng.choice([" ", "\t"]) + t
    if 0.70 <= v < 0.76:
        t = t + rng.choice([" ", "\n"])
    return t


DIGIT_EDGES = [8, 9, 10, 11, 12, 98, 99, 100, 101, 999, 1000, 1001]


def oracle_sequence(rng, maxlen):
    """clean ops only: valid frames with known in-range numbers, handles from the journal"""
    if rng.random() < 0.5:
        fam = rng.choice(NEAR)
        pairs = rng.sample(fam, rng.randint(2, min(4, len(fam)))) + [("S", "T")]
    else:
        pairs = [("T", "S"), ("S", "T"), rng.choice(PAIRS[2:])]
    ops = [("col",) + p for p in pairs]
    st = {"desc": rng.choice([30, 2**31 + 9, 2**62 + 9])}
    limit = rng.random() < 0.12
    if limit:
        # a real storage limit on the journal's connection: frames above it make SQLite raise DataError itself
        ops.append(("limit", 1500))
    for _ in range(rng.randint(4, maxlen)):
        v = rng.random()
        sid = rng.randint(1, len(pairs))
        if rng.random() < 0.12:
            # collaborator fault on the next call: its j-th execute()/commit() raises an sqlite3 error, once
            ops.append(("fault", rng.choice([0, 0, 1, 1, 2, 3]), rng.choice(FAULT_KINDS)))
        if v < 0.5:
            n = rng.choice(DIGIT_EDGES) if rng.random() < 0.3 else pick_num(rng, st)
            while not (-I63 <= n < I63):
                n = pick_num(rng, st)
            content = frame_content(rng)
            if limit and rng.random() < 0.4:
                content[1].add("large")
            ops.append(("persist", sid, rng.randint(0, 1), n, frame(rng, num_text(rng, n), content=content).hex()))
        elif v < 0.62:
            ops.append(("set", sid, rng.choice([None, 1, 2, 3, 6, 9, 11, 2**31, 2**62, 0, I63 + 1]),
                        rng.choice([None, 1, 2, 4, 10, 2**31, -1, I63 + 7])))
        elif v < 0.9:
            if rng.random() < 0.35:
                lo, hi = rng.choice(DIGIT_EDGES), rng.choice(DIGIT_EDGES)
            else:
                lo, hi = pick_num(rng, st), pick_num(rng, st)
            if rng.random() < 0.6:
                lo, hi = min(lo, hi), max(lo, hi)
            lo, hi = max(-I63, min(I63 - 1, lo)), max(-I63, min(I63 - 1, hi))
            # int and str bounds, independently (so also mixed), str in several spellings
            ops.append(("rec", sid, rng.randint(0, 1), render_bound(rng, lo), render_bound(rng, hi)))
        else:
            # re-load an existing pair, or (sometimes) create a new one in the middle of the history
            ops.append(("col",) + (rng.choice(pairs) if rng.random() < 0.7 else ("N%d" % rng.randint(0, 3), "X")))
    ops.append(("col",) + rng.choice(pairs))   # every sequence re-loads at least one existing pair
    return [with_conv(rng, op) if op[0] not in ("fault", "limit") else op for op in ops]


def strict_seq(msg):
    """the number of a frame by the strictest reading (first \\x0134=, plain ASCII digits with optional '-', SOH);
    None when the frame needs any leniency – such frames are left out of converted sequences"""
    i = msg.find(b"\x0134=")
    if i < 0:
        return None
    j = msg.find(b"\x01", i + 1)
    if j < 0:
        return None
    t = msg[i + 4:j]
    body = t[1:] if t[:1] == b"-" else t
    if not body or not body.isdigit() or not body.isascii() or (len(body) > 1 and body[:1] == b"0"):
        return None
    n = int(t)
    return n if -I63 <= n < I63 else None


def convert(ops):
    """a sequence of the correspondence generator (as found in a disagreement) -> the clean vocabulary of the oracle:
    handle slots are resolved to the session they *should* denote (exact CompID pair -> id in creation order);
    calls the reference cannot judge (lenient / invalid frames, fabricated or foreign handles, text or out-of-range
    bounds that do not spell an integer, numbers beyond 64 bits) are dropped; calling conventions are kept.  The create/load structure – all CompID pairs, in order – is kept."""
    ids, pool, out = {}, [], []

    def slot(ref):
        if not pool:
            return None
        return pool[ref] if ref < len(pool) else pool[ref % len(pool)]

    rng_ok = lambda x: isinstance(x, int) and not isinstance(x, bool) and -I63 <= x < I63  # noqa
    pending = []
    for op0 in ops:
        conv, op = conv_of(op0)
        tag = () if conv == "std" else ("@" + conv,)
        k = op[0]
        n_before = len(out)
        if k == "fault":
            pending = [tuple(op)]
            continue
        if k == "col":
            pair = (op[1], op[2])
            ids.setdefault(pair, len(ids) + 1)
            pool.append(ids[pair])
            out.append(("col", op[1], op[2]) + tag)
        elif k == "sessions":
            pool.extend(ids.values())
        elif k == "fab":
            pool.append(None)
        elif k == "persist":
            sid, n = slot(op[1]), strict_seq(bytes.fromhex(op[3]))
            if sid is not None and n is not None:
                out.append(("persist", sid, op[2], n, op[3]) + tag)
        elif k == "set":
            sid = slot(op[1])
            if sid is not None and all(v is None or (rng_ok(v) and 0 < v and rng_ok(v - 1)) for v in op[2:4]):
                out.append(("set", sid, op[2], op[3]) + tag)
        elif k == "rec":
            sid = slot(op[1])
            if sid is not None and bound_value(op[3]) is not None and bound_value(op[4]) is not None:
                out.append(("rec", sid, op[2], op[3], op[4]) + tag)
        elif k == "rec1":
            sid = slot(op[1])
            if sid is not None and bound_value(op[3]) is not None:
                out.append(("rec", sid, op[2], op[3], op[3]) + tag)
        if len(out) > n_before and pending:
            out[n_before:n_before] = pending      # the fault stays in front of the call it was armed for
        if k not in ("obs",):
            pending = []
    return out


def oracle_run(ops):
    """run clean ops on the implementation and check the property clauses against the reference map.
    Returns list of (signature, what, detail)."""
    from asyncfix.errors import DuplicateSeqNoError
    from asyncfix.journaler import Journaler
    from asyncfix.message import MessageDirection as D

    import sqlite3

    inj = Injector()
    j = wrap_faults(Journaler(None), inj)
    ref = Ref()
    handles = {}
    fails = []
    half = {"seen": False}
    fault = {"ctx": None, "limit": None}
    METHOD = {"col": "create_or_load", "persist": "persist_msg", "set": "set_seq_num", "rec": "recover_messages"}

    def dirv(d):
        return D.OUTBOUND if d == 1 else D.INBOUND

    def check_state(where):
        # both load paths report the reference counters
        ses = j.sessions()
        for (t, s), sid in ref.ids.items():
            o, i = ref.counters[sid]
            a = ses.get((t, s))
            b = j.create_or_load(t, s)
            if a is None or (a.next_num_out, a.next_num_in) != (b.next_num_out, b.next_num_in) or a.key != b.key:
                fails.append(("C13-load-paths-disagree", "sessions() and create_or_load() report a different session / different numbers for the same CompID pair",
                              {"where": where, "pair": [t, s], "sessions": a and [a.key, a.next_num_out, a.next_num_in],
                               "create_or_load": [b.key, b.target_comp_id, b.sender_comp_id, b.next_num_out, b.next_num_in]}))
            if (b.next_num_out, b.next_num_in) != (o + 1, i + 1):
                fails.append(("C13-counter-mismatch", "stored next numbers differ from the reference counters",
                              {"where": where, "pair": [t, s], "expected": [o + 1, i + 1], "observed": [b.next_num_out, b.next_num_in]}))
        if set(ses.keys()) != set(ref.ids.keys()):
            fails.append(("C13-sessions-mismatch", "sessions() lists other CompID pairs than were created",
                          {"where": where, "expected": sorted(map(list, ref.ids)), "observed": sorted(map(list, ses))}))
        rows = j.get_all_msgs()
        want = [(k[2], m, k[1], k[0]) for k, m in ref.store.items()]
        if sorted(rows) != sorted(want):
            fails.append(("C13-rows-mismatch", "stored rows differ from the reference map", {"where": where, "expected": len(want), "observed": len(rows)}))

    for idx, op0 in enumerate(ops):
        conv, op = conv_of(op0)
        k = op[0]
        if k == "fault":
            inj.arm(op[1], op[2])
            continue
        if k == "limit":
            j.conn.setlimit(sqlite3.SQLITE_LIMIT_LENGTH, op[1])
            fault["limit"] = op[1]
            continue
        try:
            if k == "col":
                h = call_col(j, op[1], op[2], conv)
                if (op[1], op[2]) not in ref.ids:
                    ref.ids[(op[1], op[2])] = h.key
                    ref.counters[h.key] = [0, 0]
                elif ref.ids[(op[1], op[2])] != h.key:
                    fails.append(("C13-session-identity", "a CompID pair was loaded under another id", {"at": idx}))
                handles[h.key] = h
            elif k == "persist":
                _, sid, d, n, mhex = op
                h = handles.get(sid) or handles[min(handles)]
                sid = h.key
                msg = bytes.fromhex(mhex)
                dup = (sid, d, n) in ref.store
                try:
                    call_persist(j, msg, h, dirv(d), conv)
                    if dup:
                        fails.append(("C13-dup-not-reported", "storing a number twice did not fail", {"at": idx}))
                    ref.store[(sid, d, n)] = msg
                    ref.counters[sid][0 if d == 1 else 1] = n
                except DuplicateSeqNoError:
                    if not dup:
                        fails.append(("C13-dup-spurious", "duplicate error for a number that is not stored", {"at": idx, "n": n}))
            elif k == "set":
                _, sid, o, i = op
                h = handles.get(sid) or handles[min(handles)]
                sid = h.key
                eo = h.next_num_out if o is None else o
                ei = h.next_num_in if i is None else i
                if I63 in (eo, ei):
                    half["seen"] = True
                try:
                    call_set(j, h, o, i, conv)
                except (AssertionError, OverflowError):
                    pass  # a call that raises must change nothing (checked by check_state against the unchanged reference)
                else:
                    o2, i2 = h.next_num_out, h.next_num_in
                    if (o is not None and o2 != o) or (i is not None and i2 != i):
                        fails.append(("C13-set-session-object", "set_seq_num did not set the session object", {"at": idx}))
                    ref.counters[sid] = [o2 - 1, i2 - 1]
                    for key in [key for key in ref.store if key[0] == sid and key[2] >= (o2 if key[1] == 1 else i2)]:
                        del ref.store[key]
            elif k == "rec":
                _, sid, d, lo, hi = op
                h = handles.get(sid) or handles[min(handles)]
                sid = h.key
                lov, hiv = bound_value(lo), bound_value(hi)
                if lov is None or hiv is None:
                    continue
                got = call_rec(j, h, dirv(d), lo, hi, conv)
                want = [m for (kk, m) in sorted(((key[2], m) for key, m in ref.store.items() if key[0] == sid and key[1] == d and lov <= key[2] <= hiv))]
                if got != want:
                    fails.append(("C13-recover-mismatch", "range query differs from the reference map (bytes, order, isolation or bounds; "
                                  "bounds are compared numerically also when given as str)",
                                  {"at": idx, "bounds": [lo, hi], "expected": [m.hex()[:60] for m in want][:4],
                                   "observed": [m.hex()[:60] for m in got][:4], "expected_count": len(want), "observed_count": len(got)}))
                one = call_rec1(j, h, dirv(d), lo, conv)
                if one != ref.store.get((sid, d, lov)):
                    fails.append(("C13-recover-msg-mismatch", "recover_msg differs from the reference map", {"at": idx, "seq": lo}))
        except (sqlite3.OperationalError, sqlite3.DataError) as e:
            # a failing collaborator: the injected fault, or SQLite's own DataError under the length limit.
            # Clause: a call that raised changed nothing observable – now (check_state below, reference unchanged)
            # or after the next commit (every later check_state)
            if inj.fired is not None:
                fault["ctx"] = f"{METHOD.get(k, k)}:{inj.fired[1]}"
            elif fault["limit"] is not None and isinstance(e, sqlite3.DataError):
                fault["ctx"] = f"{METHOD.get(k, k)}:oversized"
            else:
                fails.append((f"C13-foreign-exception:{type(e).__name__}", "an unexpected exception on a clean operation",
                              {"at": idx, "op": list(op)[:4]}))
                break
        except Exception as e:  # noqa
            fails.append((f"C13-foreign-exception:{type(e).__name__}", "an unexpected exception on a clean operation", {"at": idx, "op": list(op)[:4]}))
            break
        inj.disarm()
        inj.fired = None
        n0 = len(fails)
        check_state(idx)
        if len(fails) > n0 or fails:
            break
    del j
    if fault["ctx"] and fails:
        # input class: after a call that failed because its collaborator (the SQLite connection) failed
        fails = [(f"C13-fault:{fault['ctx']}:{f[0][4:]}", "after a call that raised because a statement failed "
                  f"({fault['ctx']}) – a failed call must change nothing, now or after the next commit: " + f[1], f[2]) for f in fails]
    if half["seen"]:
        # input class of the former finding (fixed by 493a9a7): a set_seq_num whose effective next number is 2**63
        fails = [("C13-set-seq-num-overflow-half-applied", "set_seq_num raised OverflowError after changing the counters "
                  "and before deleting the messages: " + f[1], f[2]) for f in fails]
    return fails


def shrink(ops, sig):
    """delta-debug the op list while the same signature still fails"""
    cur = list(ops)
    changed = True
    while changed and len(cur) > 1:
        changed = False
        for i in range(len(cur) - 1, -1, -1):
            cand = cur[:i] + cur[i + 1:]
            try:
                if any(f[0] == sig for f in oracle_run(cand)):
                    cur, changed = cand, True
            except Exception:  # noqa
                pass
    return cur


WITNESS = [("col", "T", "S"), ("persist", 1, 1, 1, (b"\x0134=1\x01").hex()), ("set", 1, 1, I63)]


def oracle(ctx, disagreements, broken):
    n = ctx.n(300, 1500) * (6 if broken else 1)
    failures, runs = [], 0
    seen = set()
    # (a) the sequences on which model and implementation disagreed, first (converted to the clean vocabulary),
    # (b) the witness of the fixed set_seq_num finding, (c) fresh sequences
    first = []
    for d in disagreements[:40]:
        inp = d.get("input") if isinstance(d, dict) else None
        if isinstance(inp, dict) and inp.get("ops"):
            try:
                conv = convert([tuple(o) for o in inp["ops"]])
            except Exception:  # noqa
                continue
            if conv:
                first.append(conv)
    first.append(WITNESS)
    for i in range(len(first) + n):
        ops = first[i] if i < len(first) else oracle_sequence(ctx.rng, 14 if not broken else 24)
        runs += 1
        for sig, what, detail in oracle_run(ops):
            if sig in seen:
                continue
            seen.add(sig)
            small = shrink(ops, sig)
            det = [f for f in oracle_run(small) if f[0] == sig]
            failures.append({"signature": sig, "what": what, "input": [list(o) for o in small],
                             "expected": "agreement with the reference map", "observed": det[0][2] if det else detail})
        if len(seen) >= 5:
            break
    ctx.oracle_stats = {"sequences": runs, "from_disagreements": len(first) - 1, "failures": len(failures),
                        "searched_harder": bool(broken)}
    return failures


def replay(ctx, rp):
    ops = [tuple(o) for o in rp["input"]]
    fails = oracle_run(ops)
    print("replay:", len(ops), "ops ->", [(f[0], f[2]) for f in fails])
    return any(f[0] == rp["signature"] for f in fails)
